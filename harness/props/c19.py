"""C19 — batches keep one correctly aligned grid per image under tensor operations.

Correspondence: random *programs* of operations applied to Image / ImageBatch / FlowField / FlowFields whose
items carry distinct grids; after every step the implementation's result (type, shape, number of grids, which
grid each entry carries, axes, provenance of each entry) is compared with the Lean model
(lean/Deepali/Model/Dispatch.lean) — everything exactly, no floats. A second stream validates the trusted
`torchSem` part of the model (shape + dim-0 provenance of the plain torch operations) against torch itself.

Provenance of an entry on the implementation = the set of input items whose data it depends on, measured by
re-running the program with the data of one item changed at a time (the base data is constant-coded: item k
holds the value k+1, so it is also readable from the values in a replay).
"""
from __future__ import annotations

import copy
import pickle
import random
from typing import Any, Dict, List, Optional, Tuple

import numpy as np
import torch
import torch.nn.functional as F

from deepali.core.grid import Axes, Grid
from deepali.data import FlowField, FlowFields, Image, ImageBatch
from deepali.data.collate import collate_samples

from lib.core import Oracle, Stream

PROP = "C19"
AXES_TAGS = [Axes.CUBE_CORNERS, Axes.WORLD, Axes.GRID, Axes.CUBE]   # tag 0 = Axes.from_grid of an align_corners=True grid

ASSUMPTIONS = [
    "a tensor is abstracted to its shape and, per entry along dim 0, the set of input items its data depends on "
    "(one item / several = mixed / none); element values, dtypes, devices and autograd are not modelled",
    "torchSem (shape and dim-0 provenance of the plain torch operations) is trusted as documented torch semantics and "
    "compared with torch itself on every run (stream torchsem)",
    "provenance is tracked per dim-0 slice: after an operation that mixes entries the model may say `mixed` where a later "
    "operation un-mixes again; in programs the comparison is a refinement (model `item k` => implementation `item k`), "
    "exact in the single-operation streams",
    "all generated grids have identity direction and align_corners=True (default axes = CUBE_CORNERS); grid identity is "
    "decided with Grid.__eq__ on grids whose origins differ by >= 10 and spacings by >= 0.25",
    "I-1 (DESIGN 5.0): an exception raised by an operation yields nothing and is not a C19 violation; exceptions are "
    "compared with the model as `err` only. Exception: copy/deepcopy/pickle must succeed (last sentence of the statement)",
    "binary operations between two *different* typed inputs (a + other, channel-wise cat with another batch) are outside the "
    "vocabulary: the statement does not say whose grid a mixed entry should carry; `other` is used for dim-0 cat/stack/append",
    "C19_aligned_partial covers the operation classes of `goodOp` (Proofs/Dispatch.lean; listed in the docstring of the "
    "theorem, incl. every class repaired in /repo: 31c6369, a040c96, e158d15, e37fd36, 018b42a, 5463a8b, d25ad21, 05e9301 / c94e057); "
    "no refutation is left, the former witnesses are replayed on the implementation as regression cases (stream witnesses); "
    "still outside goodOp (C19_demote proves count/shape for them, provenance by correspondence + oracle only): negative or "
    "batch-dim literals for torch.narrow/select/reductions/cat/split*, tensor_split(int), stack, expand/repeat/reshape/"
    "squeeze/unsqueeze, padding, full reductions, index tuples with an ellipsis, from_images/collate/Image.batch()",
    "F-05 (ImageBatch.sample(one Grid) on N>1) is not a tensor operation of the C19 quantifier and is left to C04/C05",
]
TRUSTED = [
    "Deepali/Model/Dispatch.lean part 1 (torchSem) = documented torch shape/indexing semantics, validated by stream torchsem",
    "Deepali/Model/Dispatch.lean part 2 = hand transcription of data/image.py, data/flow.py, data/tensor.py, data/collate.py "
    "dispatch code; tied to /repo by streams survey, programs, witnesses on every run",
    "influence-based provenance measurement in harness/props/c19.py",
]
RULE = ("inputs: Image / ImageBatch / FlowField / FlowFields, N in 1..4, C in 1..3 (flows C=D), 2-D and 3-D spatial shapes with "
        "distinct per-item grids and constant-coded data; programs of <=4 (quick) / <=8 (thorough) operations drawn from one "
        "PRNG over the vocabulary of the property quantifier, each next operation chosen for the current value; the survey "
        "table (fixed operation list x 4 input kinds) and the refutation witnesses are enumerated exhaustively; non-trivial = "
        "at least 2 items with distinct grids or a single image taken out of such a batch; distinct after JSON canonicalisation")


# =============================================================================== inputs
_GRIDS: Dict[Tuple[int, Tuple[int, ...]], Grid] = {}


def grid_for(k: int, spatial) -> Grid:
    """grid of input item k (cached; the vocabulary never mutates a grid in place)"""
    key = (k, tuple(spatial))
    if key not in _GRIDS:
        _GRIDS[key] = _make_grid(k, spatial)
    return _GRIDS[key]


def _make_grid(k: int, spatial) -> Grid:
    d = len(spatial)
    return Grid(shape=tuple(spatial), spacing=tuple(1.0 + 0.25 * (k % 12 + 1) + 0.125 * i for i in range(d)),
                origin=tuple(10.0 * (k + 1) + i for i in range(d)))


def code(k: int) -> float:
    return float(k + 1)


def perturbation(k: int) -> float:
    return float(1000 * (k + 1) + 7)


def item_ids(spec: Optional[dict]) -> List[int]:
    if not spec:
        return []
    if spec["kind"] == "I":
        return [spec["id"]]
    return list(range(spec["base"], spec["base"] + spec["n"]))


def build(spec: Optional[dict], perturb: Optional[int] = None, plain: bool = False):
    """Typed (or plain) input from its JSON spec; `perturb` = item id whose data is changed."""
    if not spec:
        return None
    sp = tuple(spec["spatial"])
    if spec["kind"] == "I":
        k = spec["id"]
        data = torch.full((spec["c"],) + sp, code(k) + (perturbation(k) if perturb == k else 0.0))
        if plain:
            return data
        g = grid_for(k, sp)
        return FlowField(data, g, AXES_TAGS[spec["axes"]]) if spec["flow"] else Image(data, g)
    n, c, base = spec["n"], spec["c"], spec["base"]
    data = torch.zeros((n, c) + sp)
    for i in range(n):
        data[i] = code(base + i) + (perturbation(base + i) if perturb == base + i else 0.0)
    if plain:
        return data
    grids = [grid_for(base + i, sp) for i in range(n)]
    return FlowFields(data, grids, AXES_TAGS[spec["axes"]]) if spec["flow"] else ImageBatch(data, grids)


def spec_token(spec: Optional[dict]) -> str:
    if not spec:
        return "-"
    sp = ",".join(str(v) for v in spec["spatial"])
    if spec["kind"] == "I":
        return f"I {int(spec['flow'])} {spec['c']} {sp} {spec['id']} {spec['axes']}"
    return f"B {int(spec['flow'])} {spec['n']} {spec['c']} {sp} {spec['base']} {spec['axes']}"


def raw_token(spec: Optional[dict]) -> str:
    """plain-tensor version of an input spec for `disp.torch`"""
    if not spec:
        return "-"
    if spec["kind"] == "I":
        shape = [spec["c"]] + list(spec["spatial"])
        prov = [f"i{spec['id']}"] * spec["c"]
    else:
        shape = [spec["n"], spec["c"]] + list(spec["spatial"])
        prov = [f"i{spec['base'] + i}" for i in range(spec["n"])]
    return f"P {clist(shape)} {clist(prov)}"


def clist(xs) -> str:
    xs = list(xs)
    return ",".join(str(x) for x in xs) if xs else "-"


# =============================================================================== operations
EW = {
    "add1": lambda x: x + 1,
    "mul2": lambda x: x * 2,
    "neg": lambda x: -x,
    "rsub": lambda x: 1 - x,
    "div2": lambda x: x / 2,
    "abs": lambda x: torch.abs(x),
    "square": lambda x: x * x,
    "addself": lambda x: x + x,
    "torch.add": lambda x: torch.add(x, 3),
    "plain_first": lambda x: torch.add(torch.ones(()), x),
    "mul_plain": lambda x: x * torch.full((1,), 2.0),
    "clone": lambda x: x.clone(),
    "torch.clone": lambda x: torch.clone(x),
    "detach": lambda x: x.detach(),
    "contiguous": lambda x: x.contiguous(),
    "double": lambda x: x.double(),
    "float": lambda x: x.float(),
    "to_float64": lambda x: x.to(torch.float64),
    "type_float32": lambda x: x.type(torch.float32),
    "cpu": lambda x: x.cpu(),
    "to_cpu": lambda x: x.to("cpu"),
    "long_float": lambda x: x.long().float(),
    "add_": lambda x: x.add_(1),
    "mul_": lambda x: x.mul_(2),
    "where": lambda x: torch.where(x > 0, x, x),
}


def dimarg(op):
    """(positional args, kwargs) of the `dim` argument: form 'd' omitted, 'p' positional, 'k' keyword"""
    f = op.get("dimform", "d")
    if f == "d":
        return (), {}
    if f == "p":
        return (op["dim"],), {}
    return (), {"dim": op["dim"]}


def dim_token(op) -> str:
    f = op.get("dimform", "d")
    return "d" if f == "d" else f"{f}:{op['dim']}"


def ix_py(ix):
    k = ix["k"]
    if k == "int":
        return ix["v"]
    if k == "slice":
        return slice(ix["a"], ix["b"], ix["s"])
    if k == "ell":
        return Ellipsis
    if k == "list":
        how = ix.get("as", "list")
        if how == "tensor":
            return torch.tensor(ix["v"], dtype=torch.long)
        if how == "numpy":
            return np.array(ix["v"], dtype=np.int64)
        return list(ix["v"])
    if k == "mask":
        if ix.get("as", "tensor") == "list":
            return [bool(b) for b in ix["v"]]
        return torch.tensor([bool(b) for b in ix["v"]], dtype=torch.bool)
    raise ValueError(k)


def ix_token(ix) -> str:
    k = ix["k"]
    if k == "int":
        return f"i:{ix['v']}"
    if k == "slice":
        f = lambda v: "_" if v is None else str(v)
        return f"sl:{f(ix['a'])}:{f(ix['b'])}:{f(ix['s'])}"
    if k == "ell":
        return "ell"
    if k == "list":
        return "l:" + clist(ix["v"])
    if k == "mask":
        return "m:" + clist(int(bool(b)) for b in ix["v"])
    raise ValueError(k)


def index_py(index):
    if index["t"] == "single":
        return ix_py(index["ix"][0])
    return tuple(ix_py(i) for i in index["ix"])


def op_tokens(op) -> str:
    n = op["op"]
    if n == "ew":
        return f"ew {op['fn']}"
    if n == "reduce":
        return f"reduce {int(op['all'])} {clist(op['dims'])} {int(op['keepdim'])}"
    if n in ("narrowf", "narrowm"):
        return f"{n} {op['dim']} {op['start']} {op['len']}"
    if n == "select":
        return f"select {op['dim']} {op['idx']}"
    if n == "isel":
        return f"isel {op['dim']} {clist(op['idx'])}"
    if n in ("cat", "stack"):
        return f"{n} {op['ops']} {dim_token(op)}"
    if n in ("split", "chunk", "tsplitn"):
        return f"{n} {op['n']} {dim_token(op)}"
    if n in ("splitl", "splitws", "tsplitl"):
        return f"{n} {clist(op['l'])} {dim_token(op)}"
    if n == "unbind":
        return f"unbind {dim_token(op)}"
    if n == "flip":
        return f"flip {clist(op['dims'])}"
    if n == "roll":
        return f"roll {clist(op['shifts'])} {'_' if op.get('dims') is None else clist(op['dims'])}"
    if n == "permute":
        return f"permute {clist(op['perm'])}"
    if n == "transpose":
        return f"transpose {op['d0']} {op['d1']}"
    if n == "expand":
        return f"expand {clist(op['sizes'])}"
    if n == "repeat":
        return f"repeat {clist(op['reps'])}"
    if n == "reshape":
        return f"reshape {clist(op['shape'])}"
    if n in ("unsqueeze", "squeeze"):
        return f"{n} {op['dim']}"
    if n == "interp":
        return f"interp {clist(op['size'])}"
    if n == "pool":
        return f"pool {op['sd']} {op['k']} {op['s']}"
    if n == "pad":
        return f"pad {clist(op['pads'])}"
    if n == "getitem":
        ix = op["index"]
        if ix["t"] == "single":
            return f"getitem s {ix_token(ix['ix'][0])}"
        return f"getitem t {len(ix['ix'])} " + " ".join(ix_token(i) for i in ix["ix"])
    if n == "pick":
        return f"pick {op['j']}"
    if n in ("copy", "deepcopy", "pickle", "iter", "fromimages", "collate", "append", "batch"):
        return n
    raise ValueError(n)


def apply_op(op, cur, other):
    """The operation as a user would write it."""
    n = op["op"]
    pa, kw = dimarg(op)
    if n == "ew":
        return EW[op["fn"]](cur)
    if n == "reduce":
        fn = op.get("fn", "sum")
        if op["all"]:
            return getattr(cur, fn)()
        dims = op["dims"][0] if len(op["dims"]) == 1 and op.get("scalar_dim") else tuple(op["dims"])
        if op.get("call", "method") == "method":
            return getattr(cur, fn)(dims, op["keepdim"])
        return getattr(torch, fn)(cur, dim=dims, keepdim=op["keepdim"])
    if n == "narrowf":
        if op.get("call") == "Tensor":
            return torch.Tensor.narrow(cur, op["dim"], op["start"], op["len"])
        return torch.narrow(cur, op["dim"], op["start"], op["len"])
    if n == "narrowm":
        return cur.narrow(op["dim"], op["start"], op["len"])
    if n == "select":
        return cur.select(op["dim"], op["idx"])
    if n == "isel":
        idx = torch.tensor(op["idx"], dtype=torch.long)
        call = op.get("call", "method")
        if call == "method":
            return cur.index_select(op["dim"], idx)
        if call == "torch":
            return torch.index_select(cur, op["dim"], idx)
        if call == "kw":
            return cur.index_select(dim=op["dim"], index=idx)
        if call == "mixed":                       # `dim` positional, `index` by keyword (seeded change C19-10)
            return cur.index_select(op["dim"], index=idx)
        if call == "torchmixed":
            return torch.index_select(cur, op["dim"], index=idx)
        return torch.index_select(cur, dim=op["dim"], index=idx)
    if n in ("cat", "stack"):
        members = [cur if c == "c" else other for c in op["ops"]]
        if any(m is None for m in members):
            raise RuntimeError("no other operand")
        members = tuple(members) if op.get("container") == "tuple" else members
        return getattr(torch, n)(members, *pa, **kw)
    if n == "split":
        return cur.split(op["n"], *pa, **kw) if op.get("call", "method") == "method" else torch.split(cur, op["n"], *pa, **kw)
    if n == "splitl":
        return cur.split(list(op["l"]), *pa, **kw) if op.get("call", "method") == "method" else torch.split(cur, list(op["l"]), *pa, **kw)
    if n == "splitws":
        return cur.split_with_sizes(list(op["l"]), *pa, **kw)
    if n == "chunk":
        return cur.chunk(op["n"], *pa, **kw)
    if n == "unbind":
        return cur.unbind(*pa, **kw)
    if n == "tsplitn":
        return cur.tensor_split(op["n"], *pa, **kw) if op.get("call", "method") == "method" else torch.tensor_split(cur, op["n"], *pa, **kw)
    if n == "tsplitl":
        l = list(op["l"]) if op.get("container", "list") == "list" else tuple(op["l"])
        return cur.tensor_split(l, *pa, **kw) if op.get("call", "method") == "method" else torch.tensor_split(cur, l, *pa, **kw)
    if n == "flip":
        call = op.get("call", "method")
        if call == "method":
            return cur.flip(op["dims"])
        if call == "varargs":
            return cur.flip(*op["dims"])
        if call == "tuple":
            return cur.flip(tuple(op["dims"]))
        if call == "torch":
            return torch.flip(cur, op["dims"])
        if call == "kw":
            return cur.flip(dims=op["dims"])
        return torch.flip(cur, dims=tuple(op["dims"]))
    if n == "roll":
        call = op.get("call", "method")
        sh, ds = op["shifts"], op.get("dims")
        if ds is None:
            args, kw2 = (sh[0],), {}
            if op.get("kw"):
                args, kw2 = (), {"shifts": sh[0]}
        else:
            if op.get("scalar") and len(sh) == 1 and len(ds) == 1:
                sh, ds = sh[0], ds[0]
            else:
                sh, ds = tuple(sh), tuple(ds)
            args, kw2 = (sh, ds), {}
            if op.get("kw"):
                args, kw2 = (), {"shifts": sh, "dims": ds}
            elif op.get("kw") is None and op.get("kwdims"):
                args, kw2 = (sh,), {"dims": ds}
        return cur.roll(*args, **kw2) if call == "method" else torch.roll(cur, *args, **kw2)
    if n == "permute":
        return cur.permute(*op["perm"])
    if n == "transpose":
        return cur.transpose(op["d0"], op["d1"])
    if n == "expand":
        return cur.expand(*op["sizes"])
    if n == "repeat":
        return cur.repeat(*op["reps"])
    if n == "reshape":
        return cur.reshape(*op["shape"]) if op.get("call", "method") == "method" else torch.reshape(cur, tuple(op["shape"]))
    if n == "unsqueeze":
        return cur.unsqueeze(op["dim"])
    if n == "squeeze":
        return cur.squeeze(op["dim"])
    if n == "interp":
        return F.interpolate(cur, size=tuple(op["size"]), mode="nearest")
    if n == "pool":
        fn = {("avg", 1): F.avg_pool1d, ("avg", 2): F.avg_pool2d, ("avg", 3): F.avg_pool3d,
              ("max", 1): F.max_pool1d, ("max", 2): F.max_pool2d, ("max", 3): F.max_pool3d}[(op.get("fn", "avg"), op["sd"])]
        return fn(cur, op["k"], op["s"])
    if n == "pad":
        return F.pad(cur, tuple(op["pads"]))
    if n == "getitem":
        return cur[index_py(op["index"])]
    if n == "copy":
        return copy.copy(cur)
    if n == "deepcopy":
        return copy.deepcopy(cur)
    if n == "pickle":
        return pickle.loads(pickle.dumps(cur))
    if n == "iter":
        return tuple(cur)
    if n == "pick":
        return cur[op["j"]]
    if n == "fromimages":
        cls = FlowFields if isinstance(cur[0], (FlowField, FlowFields)) else ImageBatch
        return cls.from_images(list(cur))
    if n == "collate":
        return collate_samples([{"x": item} for item in cur])["x"]
    if n == "append":
        return cur.append(other)
    if n == "batch":
        return cur.batch()
    raise ValueError(n)


MANY_OPS = ("pick", "fromimages", "collate")


class Raised:
    def __init__(self, e: BaseException):
        self.kind, self.msg = type(e).__name__, str(e)[:100]


def run_program(case: dict, perturb: Optional[int] = None, plain: bool = False, hook=None) -> List[Any]:
    """Results of every step (python objects); the first exception ends the program.
    `hook(step, op, before, after)` runs right after a step (later in-place operations on views may change
    earlier results)."""
    cur = build(case["input"], perturb, plain)
    other = build(case.get("other"), perturb, plain)
    out: List[Any] = []
    for op in case["ops"]:
        try:
            if isinstance(cur, (tuple, list)) != (op["op"] in MANY_OPS):
                raise LookupError("operation not applicable to this value")
            before = cur
            cur = apply_op(op, cur, other)
            if hook is not None:
                hook(len(out), op, before, cur)
        except Exception as e:  # noqa: BLE001 — every exception ends the program
            out.append(Raised(e))
            break
        out.append(cur)
    return out


def members(r) -> List[Any]:
    return list(r) if isinstance(r, (tuple, list)) else [r]


def tensor_of(x) -> torch.Tensor:
    return x.as_subclass(torch.Tensor) if isinstance(x, torch.Tensor) else torch.as_tensor(x)


def influence(base_runs: List[Any], pert_runs: Dict[int, List[Any]]) -> List[List[List[str]]]:
    """per step, per member, per dim-0 entry: provenance token (`i<k>`, `m`, `n`)"""
    out = []
    for s, r in enumerate(base_runs):
        if isinstance(r, Raised):
            out.append([])
            continue
        step = []
        for j, m in enumerate(members(r)):
            if not isinstance(m, torch.Tensor):
                step.append([])
                continue
            b = tensor_of(m)
            n0 = b.shape[0] if b.ndim > 0 else 1
            if b.numel() == 0:
                step.append(["e"] * n0)   # no data: provenance is vacuous
                continue
            deps: List[set] = [set() for _ in range(n0)]
            for k, runs in pert_runs.items():
                if s >= len(runs) or isinstance(runs[s], Raised):
                    continue
                p = tensor_of(members(runs[s])[j])
                if p.shape != b.shape:
                    continue
                pd, bd = p.double(), b.double()
                diff = (pd != bd) & ~(torch.isnan(pd) & torch.isnan(bd))   # mean over an empty tensor is NaN in every run
                if b.ndim == 0:
                    changed = [bool(diff)]
                else:
                    changed = diff.reshape(n0, -1).any(dim=1).tolist() if b.numel() else [False] * n0
                for i, c in enumerate(changed):
                    if c:
                        deps[i].add(k)
            step.append(["n" if not d else (f"i{next(iter(d))}" if len(d) == 1 else "m") for d in deps])
        out.append(step)
    return out


def axes_tag(x) -> int:
    a = getattr(x, "_axes", None)
    return AXES_TAGS.index(a) if a in AXES_TAGS else -1


def grid_desc(g: Grid) -> dict:
    return {"shape": [int(v) for v in g.shape], "origin": [float(v) for v in g.origin()],
            "spacing": [float(v) for v in g.spacing()]}


def kind_of(x) -> str:
    if isinstance(x, FlowFields):
        return "B1"
    if isinstance(x, ImageBatch):
        return "B0"
    if isinstance(x, FlowField):
        return "I1"
    if isinstance(x, Image):
        return "I0"
    if isinstance(x, torch.Tensor):
        return "T"
    return "?" + type(x).__name__


def describe_member(x, prov: List[str]) -> dict:
    k = kind_of(x)
    d = {"k": k, "shape": [int(v) for v in x.shape] if isinstance(x, torch.Tensor) else None, "prov": prov}
    if k in ("B0", "B1"):
        d["grids"] = [grid_desc(g) for g in x._grid]
        d["axes"] = axes_tag(x) if k == "B1" else 0
    elif k in ("I0", "I1"):
        d["grids"] = [grid_desc(x._grid)]
        d["axes"] = axes_tag(x) if k == "I1" else 0
    return d


def describe_runs(case: dict, plain: bool = False) -> List[dict]:
    base = run_program(case, None, plain)
    ids = item_ids(case["input"]) + item_ids(case.get("other"))
    pert = {k: run_program(case, k, plain) for k in ids}
    prov = influence(base, pert)
    out = []
    for s, r in enumerate(base):
        if isinstance(r, Raised):
            out.append({"k": "err", "exc": r.kind, "msg": r.msg})
        elif isinstance(r, (tuple, list)):
            out.append({"k": "M", "items": [describe_member(m, prov[s][j]) for j, m in enumerate(r)]})
        else:
            out.append(describe_member(r, prov[s][0]))
    return out


# =============================================================================== model output
def parse_sval(s: str) -> dict:
    t = s.split()
    k = t[0]
    shape = [] if t[1] == "-" else [int(v) for v in t[1].split(",")]
    prov = [] if t[2] == "-" else t[2].split(",")
    d = {"k": k, "shape": shape, "prov": prov}
    if k != "T":
        d["grids"] = [] if t[3] == "-" else t[3].split(",")
        d["axes"] = int(t[4])
    return d


def parse_val(s: str) -> dict:
    s = s.strip()
    if s.startswith("err:") or s.startswith("bad-op"):
        return {"k": "err", "msg": s}
    if s.startswith("M{"):
        inner = s[2:-1].strip()
        return {"k": "M", "items": [parse_sval(x) for x in inner.split(" & ")] if inner else []}
    return parse_sval(s)


def recon_grid(tag: str, spatial_of) -> Optional[dict]:
    """grid object denoted by a model tag `src[:gdim.start.len]*`"""
    parts = tag.split(":")
    src = int(parts[0])
    sp = spatial_of(src)
    if sp is None:
        return None
    g = grid_for(src, sp)
    for h in parts[1:]:
        gd, st, ln = (int(v) for v in h.split("."))
        g = g.narrow(gd, st, ln)
    return grid_desc(g)


def same_grid(a: dict, b: dict) -> bool:
    if a["shape"] != b["shape"]:
        return False
    return all(abs(x - y) <= 1e-4 * max(1.0, abs(y)) for x, y in zip(a["origin"] + a["spacing"], b["origin"] + b["spacing"]))


def cmp_member(impl: dict, model: dict, spatial_of, exact_prov: bool) -> Optional[str]:
    if impl["k"] != model["k"]:
        return f"type {impl['k']} vs model {model['k']}"
    if impl["shape"] != model["shape"]:
        return f"shape {impl['shape']} vs model {model['shape']}"
    if len(impl["prov"]) != len(model["prov"]):
        return f"provenance length {impl['prov']} vs model {model['prov']}"
    for i, (a, b) in enumerate(zip(impl["prov"], model["prov"])):
        # exact in the single-operation streams; in programs the model is an upper bound of the dependency set
        if a != b and a != "e" and (exact_prov or not (b == "m" or a == "n")):
            return f"provenance of entry {i}: {impl['prov']} vs model {model['prov']}"
    if impl["k"] != "T":
        if len(impl["grids"]) != len(model["grids"]):
            return f"number of grids {len(impl['grids'])} vs model {len(model['grids'])}"
        for i, (g, tag) in enumerate(zip(impl["grids"], model["grids"])):
            e = recon_grid(tag, spatial_of)
            if e is None or not same_grid(g, e):
                return f"grid {i} is not model grid {tag}: impl {g} vs {e}"
        if impl["k"] in ("B1", "I1") and impl["axes"] != model["axes"]:
            return f"axes tag {impl['axes']} vs model {model['axes']}"
    return None


def cmp_val(impl: dict, model: dict, spatial_of, exact_prov: bool) -> Optional[str]:
    if impl["k"] == "err" or model["k"] == "err":
        if impl["k"] != model["k"]:
            return f"impl {impl.get('exc', impl['k'])} {impl.get('msg', '')!r} vs model {model.get('msg', model['k'])}"
        return None
    if impl["k"] == "M" or model["k"] == "M":
        if impl["k"] != model["k"]:
            return f"type {impl['k']} vs model {model['k']}"
        if len(impl["items"]) != len(model["items"]):
            return f"tuple length {len(impl['items'])} vs model {len(model['items'])}"
        for j, (a, b) in enumerate(zip(impl["items"], model["items"])):
            w = cmp_member(a, b, spatial_of, exact_prov)
            if w:
                return f"member {j}: {w}"
        return None
    return cmp_member(impl, model, spatial_of, exact_prov)


def spatial_lookup(case):
    table = {}
    for spec in (case["input"], case.get("other")):
        for k in item_ids(spec):
            table[k] = list(spec["spatial"])
    return lambda k: table.get(k)


# =============================================================================== program generator
def _dim(rng, nd, bias0=0.4):
    d = 0 if rng.random() < bias0 else rng.randrange(nd)
    return d - nd if rng.random() < 0.2 else d


def _dimform(rng, nd, op, bias0=0.5):
    r = rng.random()
    if r < 0.35:
        op["dimform"] = "d"
    else:
        op["dimform"] = "p" if r < 0.65 else "k"
        op["dim"] = _dim(rng, nd, bias0)
    return op


def _gen_ix_dim(rng, n, allow_adv=True):
    r = rng.random()
    if r < 0.22:
        return {"k": "int", "v": rng.randrange(-n, n) if n else 0}
    if r < 0.6 or not allow_adv:
        a = rng.choice([None, None, 0, 1, -1, rng.randint(-n - 1, n + 1)])
        b = rng.choice([None, None, n, n - 1, -1, rng.randint(-n - 1, n + 1)])
        s = rng.choice([None, None, 1, 2, 3])
        return {"k": "slice", "a": a, "b": b, "s": s}
    if r < 0.82:
        m = rng.randint(0, n + 1)
        return {"k": "list", "v": [rng.randrange(-n, n) if n else 0 for _ in range(m)] if n else [],
                "as": rng.choice(["list", "tensor", "numpy"])}
    return {"k": "mask", "v": [rng.random() < 0.6 for _ in range(n)], "as": rng.choice(["tensor", "tensor", "list"])}


def gen_index(rng, shape, multi_ell=True):
    nd = len(shape)
    r = rng.random()
    if r < 0.08:
        return {"t": "single", "ix": [{"k": "ell"}]}
    if r < 0.5:
        return {"t": "single", "ix": [_gen_ix_dim(rng, shape[0])]}
    # tuple
    m = rng.randint(1, nd)
    ixs = [_gen_ix_dim(rng, shape[0])]
    if ixs[0].get("as") == "numpy":
        # observation: a numpy index inside a tuple makes `... not in index[:i]` raise ValueError (ambiguous truth value)
        ixs[0]["as"] = "tensor"
    for d in range(1, m):
        if rng.random() < 0.6:
            ixs.append({"k": "slice", "a": None, "b": None, "s": None})
        elif rng.random() < 0.5:
            ixs.append({"k": "slice", "a": rng.choice([0, None]), "b": rng.choice([shape[d], None]), "s": rng.choice([None, 1])})
        else:
            ixs.append(_gen_ix_dim(rng, shape[d], allow_adv=False))
    if rng.random() < 0.3:
        pos = rng.randint(0, len(ixs))
        ixs.insert(pos, {"k": "ell"})
        if multi_ell and rng.random() < 0.15:
            ixs.insert(rng.randint(0, len(ixs)), {"k": "ell"})
        while sum(1 for i in ixs if i["k"] != "ell") > nd:
            ixs.pop()
    if any(i["k"] in ("list", "mask") for i in ixs[1:]):
        ixs = [i for n_, i in enumerate(ixs) if n_ == 0 or i["k"] not in ("list", "mask")]
    return {"t": "tuple", "ix": ixs}


OP_WEIGHTS = [
    ("ew", 4), ("reduce", 2), ("narrowf", 2), ("narrowm", 2.5), ("select", 1), ("isel", 2.5), ("cat", 3), ("stack", 1),
    ("split", 2.5), ("splitl", 2.5), ("splitws", 1), ("chunk", 1), ("unbind", 0.7), ("tsplitn", 1.2), ("tsplitl", 1.5),
    ("flip", 2.5), ("roll", 2), ("permute", 1.5), ("transpose", 1.5), ("expand", 1), ("repeat", 1.5), ("reshape", 1.5),
    ("unsqueeze", 0.4), ("squeeze", 0.4), ("interp", 1), ("pool", 1), ("pad", 1), ("getitem", 7), ("copy", 1.2),
    ("deepcopy", 1.2), ("pickle", 1.2), ("iter", 1.5), ("append", 1.5), ("batch", 1.0),
]


def gen_op(rng: random.Random, cur, other) -> Optional[dict]:
    """next operation for the current python value (None: stop)"""
    if isinstance(cur, (tuple, list)):
        if not cur:
            return None
        r = rng.random()
        typed = all(isinstance(m, (Image, ImageBatch)) for m in cur)
        if r < 0.62 or not typed:
            return {"op": "pick", "j": rng.randrange(len(cur))}
        return {"op": "fromimages"} if r < 0.85 else {"op": "collate"}
    if not isinstance(cur, (Image, ImageBatch)):
        return None
    is_batch = isinstance(cur, ImageBatch)
    shape = list(cur.shape)
    nd = len(shape)
    n0 = shape[0]
    names = [n for n, _ in OP_WEIGHTS]
    weights = [w for _, w in OP_WEIGHTS]
    for _ in range(20):
        name = rng.choices(names, weights)[0]
        if name == "append" and not (is_batch and other is not None):
            continue
        if name == "batch" and is_batch:
            continue
        break
    op: Dict[str, Any] = {"op": name}
    if name == "ew":
        op["fn"] = rng.choice(sorted(EW))
        if op["fn"].endswith("_") and any(st == 0 and sz > 1 for st, sz in zip(cur.stride(), cur.shape)):
            op["fn"] = "add1"   # torch refuses in-place writes to an expanded (self-overlapping) tensor
    elif name == "reduce":
        op["fn"] = rng.choice(["sum", "mean"])
        op["all"] = rng.random() < 0.15
        k = rng.choice([1, 1, 2])
        dims = rng.sample(range(nd), min(k, nd))
        if rng.random() < 0.4 and 0 not in dims:
            dims[0] = 0
        op["dims"] = [d - nd if rng.random() < 0.2 else d for d in dims]
        op["keepdim"] = rng.random() < 0.6
        op["scalar_dim"] = rng.random() < 0.5
        op["call"] = rng.choice(["method", "torch"])
    elif name in ("narrowf", "narrowm"):
        d = _dim(rng, nd) if name == "narrowf" else (0 if rng.random() < 0.4 else rng.randrange(nd))
        n = shape[d]
        if rng.random() < 0.25:
            start, ln = 0, n
        else:
            start = rng.randint(0, max(n - 1, 0))
            ln = rng.randint(0 if rng.random() < 0.1 else 1, max(n - start, 1))
            if rng.random() < 0.05:
                ln = n + 1
        op.update(dim=d, start=start, len=ln)
        if name == "narrowf":
            op["call"] = rng.choice(["torch", "Tensor"])
    elif name == "select":
        d = _dim(rng, nd)
        n = shape[d]
        op.update(dim=d, idx=rng.randrange(-n, n) if n else 0)
    elif name == "isel":
        d = _dim(rng, nd, 0.6)
        n = shape[d]
        r = rng.random()
        if n == 0:
            idx = []
        elif r < 0.35:
            idx = list(range(n))
            rng.shuffle(idx)
        elif r < 0.55:
            idx = [rng.randrange(n) for _ in range(n)]
        else:
            idx = [rng.randrange(n) for _ in range(rng.randint(0, n + 2))]
        op.update(dim=d, idx=idx, call=rng.choice(["method", "torch", "kw", "torchkw", "mixed", "torchmixed"]))
    elif name in ("cat", "stack"):
        r = rng.random()
        if other is not None and is_batch and r < 0.45:
            op["ops"] = rng.choice(["co", "oc", "coc", "cco"])
            # with another input only along the batch dimension (see ASSUMPTIONS)
            f = rng.choice(["d", "p", "k", "kneg"])
            op["dimform"] = "k" if f == "kneg" else f
            if f != "d":
                op["dim"] = -nd if f == "kneg" else 0
        else:
            op["ops"] = rng.choice(["cc", "c", "ccc"])
            _dimform(rng, nd + (1 if name == "stack" else 0), op)
        op["container"] = rng.choice(["list", "tuple"])
    elif name in ("split", "chunk", "tsplitn"):
        _dimform(rng, nd, op, 0.7)
        d = op.get("dim", 0)
        n = shape[d] if -nd <= d < nd else 1
        op["n"] = rng.randint(1, max(n, 1) + (1 if rng.random() < 0.2 else 0))
        op["call"] = rng.choice(["method", "torch"])
    elif name in ("splitl", "splitws"):
        _dimform(rng, nd, op, 0.7)
        d = op.get("dim", 0)
        n = shape[d] if -nd <= d < nd else 1
        parts, left = [], n
        while left > 0:
            p = rng.randint(0 if rng.random() < 0.1 else 1, left)
            parts.append(p)
            left -= p
        if not parts:
            parts = [0]
        if rng.random() < 0.05:
            parts[-1] += 1
        op["l"] = parts
        op["call"] = rng.choice(["method", "torch"])
    elif name == "tsplitl":
        _dimform(rng, nd, op, 0.7)
        d = op.get("dim", 0)
        n = shape[d] if -nd <= d < nd else 1
        k = rng.randint(1, 3)
        idx = sorted(rng.randint(0, n + (1 if rng.random() < 0.1 else 0)) for _ in range(k))
        op["l"] = idx
        op["container"] = rng.choice(["list", "tuple"])
        op["call"] = rng.choice(["method", "torch"])
    elif name == "unbind":
        _dimform(rng, nd, op, 0.7)
    elif name == "flip":
        k = rng.choice([1, 1, 2])
        dims = rng.sample(range(nd), min(k, nd))
        if rng.random() < 0.45:
            dims[0] = 0
            dims = list(dict.fromkeys(dims))
        op["dims"] = [d - nd if rng.random() < 0.2 else d for d in dims]
        op["call"] = rng.choice(["method", "varargs", "tuple", "torch", "kw", "torchkw"])
    elif name == "roll":
        r = rng.random()
        if r < 0.2:
            op.update(shifts=[rng.randint(-7, 7)], dims=None, kw=rng.random() < 0.3)
        elif r < 0.75:
            op.update(shifts=[rng.randint(-3, 3)], dims=[_dim(rng, nd, 0.5)], scalar=rng.random() < 0.7)
        else:
            k = rng.choice([2, 2, 3])
            op.update(shifts=[rng.randint(-3, 3) for _ in range(k)], dims=[_dim(rng, nd, 0.4) for _ in range(k)])
            if rng.random() < 0.05:
                op["shifts"] = op["shifts"][:-1]
        if op.get("dims") is not None:
            op["kw"] = rng.choice([False, False, True, None])
            op["kwdims"] = rng.random() < 0.5
        op["call"] = rng.choice(["method", "torch"])
    elif name == "permute":
        perm = list(range(nd))
        r = rng.random()
        if r < 0.35 and nd >= 2:
            perm[0], perm[1] = perm[1], perm[0]
        elif r < 0.6 and nd >= 3:
            perm[-1], perm[-2] = perm[-2], perm[-1]
        else:
            rng.shuffle(perm)
        op["perm"] = [d - nd if rng.random() < 0.15 else d for d in perm]
    elif name == "transpose":
        r = rng.random()
        if r < 0.4 and nd >= 2:
            d0, d1 = 0, rng.randrange(1, nd)
        else:
            d0, d1 = rng.randrange(nd), rng.randrange(nd)
        op.update(d0=d0 - nd if rng.random() < 0.15 else d0, d1=d1)
    elif name == "expand":
        sizes = [rng.choice([-1, s]) for s in shape]
        if shape[0] == 1 and rng.random() < 0.7:
            sizes[0] = rng.randint(1, 3)
        elif nd > 1 and shape[1] == 1 and rng.random() < 0.5:
            sizes[1] = rng.randint(1, 3)
        elif rng.random() < 0.08:
            sizes[0] = shape[0] + 1
        op["sizes"] = sizes
    elif name == "repeat":
        reps = [1] * nd
        r = rng.random()
        if r < 0.4:
            reps[0] = rng.randint(1, 3)
        elif r < 0.7 and nd > 1:
            reps[1] = rng.randint(1, 3)
        elif r < 0.85:
            reps[rng.randrange(nd)] = 2
        if rng.random() < 0.1:
            reps = [rng.randint(1, 2)] + reps
        op["reps"] = reps
    elif name == "reshape":
        r = rng.random()
        total = int(np.prod(shape)) if shape else 1
        if r < 0.3:
            new = list(shape)
        elif r < 0.45:
            new = [-1]
        elif r < 0.6 and nd >= 2:
            new = [shape[0], -1]
        elif r < 0.8 and nd >= 3:
            new = list(shape[:-2]) + [shape[-1], shape[-2]]
        elif r < 0.9 and nd >= 2:
            new = [shape[1], shape[0]] + list(shape[2:])
        else:
            new = [shape[0] * shape[1]] + list(shape[2:]) if nd >= 2 else [total]
        if rng.random() < 0.05:
            new = new + [2]
        op["shape"] = new
        op["call"] = rng.choice(["method", "torch"])
    elif name == "unsqueeze":
        op["dim"] = rng.randint(-nd - 1, nd)
    elif name == "squeeze":
        op["dim"] = _dim(rng, nd)
    elif name == "interp":
        sd = nd - 2
        if sd < 1:
            sd = 1
        cur_sp = shape[2:] if nd > 2 else [1]
        r = rng.random()
        if r < 0.4:
            size = list(cur_sp)
        elif r < 0.8:
            size = [max(1, s + rng.choice([-1, 1, 2])) for s in cur_sp]
        else:
            size = [rng.randint(1, 5) for _ in range(rng.randint(1, 3))]
        op["size"] = size
    elif name == "pool":
        sd = rng.choice([nd - 2, nd - 2, nd - 1]) if nd >= 3 else 1
        sd = min(max(sd, 1), 3)
        k = 1 if rng.random() < 0.45 else rng.randint(1, 3)
        op.update(sd=sd, k=k, s=rng.choice([1, k, 2]), fn=rng.choice(["avg", "max"]))
    elif name == "pad":
        npairs = rng.randint(1, min(nd, 3)) if rng.random() < 0.9 else nd
        if rng.random() < 0.4:
            pads = [0] * (2 * npairs)
        else:
            pads = [rng.choice([0, 0, 1, 2]) for _ in range(2 * npairs)]
        op["pads"] = pads
    elif name == "getitem":
        op["index"] = gen_index(rng, shape, multi_ell=is_batch)
    return op


def gen_input(rng: random.Random, want_other: bool = True) -> Tuple[dict, Optional[dict]]:
    flow = rng.random() < 0.45
    spatial = rng.choice([[4, 5], [3, 3], [2, 3], [3, 4], [2, 2], [2, 3, 4], [2, 2, 2], [3, 2, 2]])
    c = len(spatial) if flow else rng.choice([1, 2, 3, len(spatial)])
    axes = rng.choice([0, 1, 1, 2, 3]) if flow else 0
    if rng.random() < 0.2:
        inp = {"kind": "I", "flow": flow, "c": c, "spatial": spatial, "id": rng.randrange(3), "axes": axes}
        return inp, None
    n = rng.choice([1, 2, 2, 3, 3, 3, 4])
    inp = {"kind": "B", "flow": flow, "n": n, "c": c, "spatial": spatial, "base": 0, "axes": axes}
    other = None
    if want_other and rng.random() < 0.6:
        oflow = flow if rng.random() < 0.9 else not flow
        oaxes = axes if (not oflow or rng.random() < 0.8) else rng.choice([0, 1, 2, 3])
        oc = c if rng.random() < 0.9 else (len(spatial) if oflow else rng.choice([1, 2, 3]))
        if oflow:
            oc = len(spatial)
        other = {"kind": "B", "flow": oflow, "n": rng.choice([1, 2, 3]), "c": oc, "spatial": spatial, "base": 10,
                 "axes": oaxes if oflow else 0}
    return inp, other


def gen_program(rng: random.Random, max_ops: int) -> dict:
    inp, other = gen_input(rng)
    case = {"input": inp, "other": other, "ops": []}
    cur = build(inp)
    oth = build(other)
    nops = rng.randint(1, max_ops)
    for _ in range(nops):
        op = gen_op(rng, cur, oth)
        if op is None:
            break
        case["ops"].append(op)
        try:
            cur = apply_op(op, cur, oth)
        except Exception:  # noqa: BLE001
            break
    if not case["ops"]:
        case["ops"].append({"op": "ew", "fn": "add1"})
    return case


def _n(tier, quick, thorough, search=None):
    return {"quick": quick, "thorough": thorough, "search": search or max(quick, thorough // 4)}[tier]


def gen_programs(rng: random.Random, tier: str):
    max_ops = 4 if tier == "quick" else 8
    for _ in range(_n(tier, 700, 16000, 2500)):
        yield gen_program(rng, max_ops)


def impl_programs(case):
    return describe_runs(case)


def line_programs(case):
    ops = case["ops"]
    return f"disp.run {spec_token(case['input'])} {spec_token(case.get('other'))} {len(ops)} " + " ".join(op_tokens(o) for o in ops)


def cmp_programs(case, r, out, exact_prov=False):
    if isinstance(r, str):
        return f"harness: impl runner failed: {r}"
    if out.startswith("bad-op"):
        return f"model rejected the line: {out}"
    steps = [parse_val(s) for s in out.split(" | ")] if out else []
    # the model keeps an error for all remaining steps; the implementation stops at the first exception
    look = spatial_lookup(case)
    for i, impl in enumerate(r):
        if i >= len(steps):
            return f"model produced {len(steps)} steps, impl {len(r)}"
        w = cmp_val(impl, steps[i], look, exact_prov)
        if w:
            return f"step {i} ({case['ops'][i]['op']}): {w}"
        if impl["k"] == "err":
            break
    return None


def nontrivial_program(case) -> bool:
    return case["input"]["kind"] == "I" or case["input"]["n"] >= 2


# =============================================================================== survey (exhaustive fixed table)
def _sl(a=None, b=None, s=None):
    return {"k": "slice", "a": a, "b": b, "s": s}


def _single(ix):
    return {"op": "getitem", "index": {"t": "single", "ix": [ix]}}


def _tuple(*ixs):
    return {"op": "getitem", "index": {"t": "tuple", "ix": list(ixs)}}


def survey_ops(nd: int, n0: int, batch: bool = True) -> List[dict]:
    """fixed single-operation table; `nd` = ndim of the input, `n0` = its first dimension"""
    last = nd - 1
    ops: List[dict] = [{"op": "ew", "fn": f} for f in sorted(EW)]
    ops += [
        {"op": "reduce", "fn": "sum", "all": True, "dims": [], "keepdim": False},
        {"op": "reduce", "fn": "sum", "all": False, "dims": [0], "keepdim": False, "scalar_dim": True},
        {"op": "reduce", "fn": "sum", "all": False, "dims": [0], "keepdim": True, "scalar_dim": True},
        {"op": "reduce", "fn": "mean", "all": False, "dims": [1], "keepdim": True, "call": "torch"},
        {"op": "reduce", "fn": "sum", "all": False, "dims": [1], "keepdim": False},
        {"op": "reduce", "fn": "mean", "all": False, "dims": [last - 1, last], "keepdim": True},
        {"op": "reduce", "fn": "mean", "all": False, "dims": [-nd], "keepdim": True},
        {"op": "narrowf", "dim": 0, "start": 0, "len": n0}, {"op": "narrowf", "dim": 0, "start": n0 - 1, "len": 1},
        {"op": "narrowf", "dim": 0, "start": 0, "len": max(n0 - 1, 0), "call": "Tensor"},
        {"op": "narrowf", "dim": 1, "start": 0, "len": 1}, {"op": "narrowf", "dim": last, "start": 1, "len": 1},
        {"op": "narrowm", "dim": 0, "start": n0 - 1, "len": 1}, {"op": "narrowm", "dim": 0, "start": 0, "len": n0},
        {"op": "narrowm", "dim": 1, "start": 0, "len": 1}, {"op": "narrowm", "dim": last, "start": 1, "len": 1},
        {"op": "narrowm", "dim": last - 1, "start": 0, "len": 2}, {"op": "narrowm", "dim": -1, "start": 0, "len": 1},
        {"op": "select", "dim": 0, "idx": n0 - 1}, {"op": "select", "dim": 1, "idx": 0}, {"op": "select", "dim": -1, "idx": -1},
        {"op": "isel", "dim": 0, "idx": list(reversed(range(n0)))}, {"op": "isel", "dim": 0, "idx": [n0 - 1, 0]},
        {"op": "isel", "dim": 0, "idx": [n0 - 1] * n0, "call": "torch"}, {"op": "isel", "dim": 0, "idx": list(range(n0))},
        {"op": "isel", "dim": 1, "idx": [0]}, {"op": "isel", "dim": 0, "idx": [0, 0, 0, 0, 0]}, {"op": "isel", "dim": -nd, "idx": [0]},
    ]
    for o in ("cc", "c", "co", "oc"):
        for f, d in (("d", None), ("p", 0), ("k", 0), ("k", -nd), ("p", 1), ("k", 1), ("k", last), ("p", -nd)):
            e = {"op": "cat", "ops": o, "dimform": f}
            if d is not None:
                e["dim"] = d
            if "o" in o and d not in (None, 0, -nd):
                continue
            ops.append(e)
    ops += [{"op": "stack", "ops": "cc", "dimform": "d"}, {"op": "stack", "ops": "cc", "dimform": "k", "dim": 1},
            {"op": "stack", "ops": "co", "dimform": "d"}]
    for call in ("method", "torch"):
        for f, d in (("d", None), ("p", 0), ("k", 0), ("p", 1), ("k", 1), ("k", -nd), ("k", last)):
            for e in ({"op": "split", "n": 1}, {"op": "split", "n": 2}, {"op": "splitl", "l": [1, n0 - 1] if n0 > 1 else [1]},
                      {"op": "splitl", "l": [n0 - 1, 1] if n0 > 1 else [0, 1]}, {"op": "tsplitn", "n": 2}, {"op": "tsplitn", "n": n0},
                      {"op": "tsplitl", "l": [1]}, {"op": "tsplitl", "l": [1, 2], "container": "tuple"}):
                e = dict(e, dimform=f, call=call)
                if d is not None:
                    e["dim"] = d
                ops.append(e)
    ops += [{"op": "splitws", "l": [1, n0 - 1] if n0 > 1 else [1], "dimform": "d"},
            {"op": "splitws", "l": [1, n0 - 1] if n0 > 1 else [1], "dimform": "p", "dim": 0},
            {"op": "chunk", "n": n0, "dimform": "d"}, {"op": "chunk", "n": 2, "dimform": "p", "dim": 1},
            {"op": "unbind", "dimform": "d"}, {"op": "unbind", "dimform": "p", "dim": 1},
            {"op": "flip", "dims": [0]}, {"op": "flip", "dims": [-nd], "call": "torch"}, {"op": "flip", "dims": [last]},
            {"op": "flip", "dims": [1]}, {"op": "flip", "dims": [0, last]},
            {"op": "flip", "dims": [0], "call": "varargs"}, {"op": "flip", "dims": [-nd, last], "call": "kw"},
            {"op": "flip", "dims": [0], "call": "torchkw"}, {"op": "flip", "dims": [1, 0], "call": "tuple"},
            {"op": "roll", "shifts": [1], "dims": [0], "scalar": True}, {"op": "roll", "shifts": [-1], "dims": [-nd], "call": "torch"},
            {"op": "roll", "shifts": [n0], "dims": [0], "scalar": True}, {"op": "roll", "shifts": [1], "dims": [last], "scalar": True},
            {"op": "roll", "shifts": [1], "dims": [1]}, {"op": "roll", "shifts": [1, 2], "dims": [0, last], "kw": True},
            {"op": "roll", "shifts": [1, 1], "dims": [0, -nd], "call": "torch"}, {"op": "roll", "shifts": [2], "dims": [0], "kw": None, "kwdims": True},
            {"op": "roll", "shifts": [1], "dims": None}, {"op": "roll", "shifts": [-3], "dims": None, "call": "torch"},
            {"op": "roll", "shifts": [7], "dims": None, "kw": True}, {"op": "roll", "shifts": [0], "dims": None},
            {"op": "roll", "shifts": [1, 2], "dims": [0]},
            {"op": "isel", "dim": 0, "idx": [n0 - 1, 0, 0], "call": "kw"}, {"op": "isel", "dim": -nd, "idx": list(reversed(range(n0))), "call": "torchkw"},
            {"op": "isel", "dim": last, "idx": [1, 0], "call": "kw"},
            {"op": "isel", "dim": 0, "idx": list(reversed(range(n0))), "call": "mixed"},
            {"op": "isel", "dim": -nd, "idx": [n0 - 1] + list(range(n0 - 1)), "call": "torchmixed"},
            {"op": "permute", "perm": [1, 0] + list(range(2, nd))}, {"op": "permute", "perm": list(range(nd - 2)) + [last, last - 1]},
            {"op": "permute", "perm": list(range(nd))}, {"op": "transpose", "d0": 0, "d1": 1}, {"op": "transpose", "d0": 0, "d1": last},
            {"op": "transpose", "d0": last, "d1": last - 1}, {"op": "transpose", "d0": 1, "d1": 1},
            {"op": "expand", "sizes": [-1] * nd}, {"op": "expand", "sizes": [3] + [-1] * (nd - 1)},
            {"op": "repeat", "reps": [1] * nd}, {"op": "repeat", "reps": [2] + [1] * (nd - 1)}, {"op": "repeat", "reps": [1, 2] + [1] * (nd - 2)},
            {"op": "repeat", "reps": [2] + [1] * nd},
            {"op": "reshape", "shape": [-1]}, {"op": "reshape", "shape": [n0, -1]},
            {"op": "unsqueeze", "dim": 0}, {"op": "unsqueeze", "dim": 1}, {"op": "squeeze", "dim": 0}, {"op": "squeeze", "dim": 1},
            {"op": "pool", "sd": 2, "k": 1, "s": 1}, {"op": "pool", "sd": 2, "k": 2, "s": 2, "fn": "max"}, {"op": "pool", "sd": 3, "k": 1, "s": 1},
            {"op": "pad", "pads": [0, 0, 0, 0]}, {"op": "pad", "pads": [1, 0]}, {"op": "pad", "pads": [0] * (2 * nd)},
            {"op": "pad", "pads": [0] * (2 * nd - 1) + [1]},
            {"op": "copy"}, {"op": "deepcopy"}, {"op": "pickle"}, {"op": "iter"}, {"op": "append"}, {"op": "batch"},
            _single({"k": "int", "v": 0}), _single({"k": "int", "v": -1}), _single({"k": "int", "v": n0}),
            _single(_sl(0, 2)), _single(_sl(None, None, 2)), _single(_sl(1)), _single(_sl(0, 0)), _single(_sl(-2, None)),
            _single({"k": "list", "v": [n0 - 1, 0]}), _single({"k": "list", "v": [n0 - 1, 0], "as": "tensor"}),
            _single({"k": "list", "v": [-1, 0, 0], "as": "numpy"}), _single({"k": "list", "v": []}),
            _single({"k": "mask", "v": [True] + [False] * (n0 - 1)}), _single({"k": "mask", "v": [False] * (n0 - 1) + [True]}),
            _single({"k": "mask", "v": [i % 2 == 0 for i in range(n0)]}), _single({"k": "mask", "v": [True] * n0, "as": "list"}),
            _single({"k": "ell"}), _tuple({"k": "ell"}), _tuple(*[_sl()] * nd), _tuple(_sl(1), {"k": "ell"}), _tuple({"k": "ell"}, _sl()),
            _tuple({"k": "int", "v": 0}, {"k": "int", "v": 0}), _tuple(_sl(1), _sl(0, 1)), _tuple({"k": "int", "v": 0}, _sl(), _sl(1, 3)),
            _tuple({"k": "int", "v": 0}, *[_sl()] * (nd - 1)), _tuple(_sl(), _sl(), {"k": "int", "v": 1}),
            _tuple({"k": "list", "v": [0, n0 - 1]}, _sl()), _tuple(_sl(), {"k": "ell"}, _sl(0, None, 1)),
            _tuple(_sl(0, 1), {"k": "ell"}, {"k": "int", "v": 0}),
            _tuple({"k": "mask", "v": [True] * n0}, _sl()), _tuple(_sl(), _sl(), _sl(0, None), _sl(None, None, 1)),
            ]
    if batch:   # deepali's __getitem__ drops additional ellipses itself; plain torch indexing with several is not modelled
        ops += [_tuple({"k": "ell"}, {"k": "ell"}, _sl()), _tuple(_sl(1), {"k": "ell"}, _sl(), {"k": "ell"})]
    return ops


SURVEY_INPUTS = [
    {"kind": "B", "flow": False, "n": 3, "c": 2, "spatial": [4, 5], "base": 0, "axes": 0},
    {"kind": "B", "flow": True, "n": 3, "c": 2, "spatial": [4, 5], "base": 0, "axes": 1},
    {"kind": "B", "flow": False, "n": 2, "c": 2, "spatial": [2, 3], "base": 0, "axes": 0},
    {"kind": "B", "flow": True, "n": 2, "c": 2, "spatial": [3, 3], "base": 0, "axes": 2},
    {"kind": "B", "flow": False, "n": 1, "c": 1, "spatial": [3, 4], "base": 0, "axes": 0},
    {"kind": "B", "flow": True, "n": 1, "c": 3, "spatial": [2, 2, 3], "base": 0, "axes": 3},
    {"kind": "B", "flow": False, "n": 4, "c": 3, "spatial": [4, 2, 3], "base": 0, "axes": 0},
    {"kind": "I", "flow": False, "c": 2, "spatial": [4, 5], "id": 1, "axes": 0},
    {"kind": "I", "flow": True, "c": 2, "spatial": [4, 5], "id": 1, "axes": 1},
    {"kind": "I", "flow": True, "c": 3, "spatial": [2, 3, 3], "id": 2, "axes": 2},
]


def gen_survey(rng: random.Random, tier: str):
    for inp in SURVEY_INPUTS:
        if inp["kind"] == "I":
            nd, n0, other = 1 + len(inp["spatial"]), inp["c"], None
        else:
            nd, n0 = 2 + len(inp["spatial"]), inp["n"]
            other = dict(inp, n=2, base=10)
        for op in survey_ops(nd, n0, inp["kind"] == "B"):
            if op["op"] in ("cat", "stack") and "o" in op["ops"] and other is None:
                continue
            if op["op"] == "append" and other is None:
                continue
            if op["op"] == "batch" and inp["kind"] == "B":
                continue
            yield {"input": inp, "other": other, "ops": [op]}
            if op["op"] in ("split", "splitl", "splitws", "tsplitn", "tsplitl", "chunk") and inp["kind"] == "B":
                # samples holding SEVERAL images / flow fields each (pieces of different sizes) collated again
                yield {"input": inp, "other": other, "ops": [op, {"op": "collate"}]}
            if op["op"] == "iter":
                yield {"input": inp, "other": other, "ops": [op, {"op": "fromimages"}]}
                yield {"input": inp, "other": other, "ops": [op, {"op": "collate"}]}
                yield {"input": inp, "other": other, "ops": [op, {"op": "pick", "j": 0}]}
        if other is not None and inp["flow"]:
            yield {"input": inp, "other": dict(other, axes=(inp["axes"] + 1) % 4), "ops": [{"op": "append"}]}
            yield {"input": inp, "other": dict(other, axes=(inp["axes"] + 1) % 4), "ops": [{"op": "cat", "ops": "co", "dimform": "d"}]}
            yield {"input": inp, "other": dict(other, flow=False), "ops": [{"op": "append"}]}
            yield {"input": inp, "other": dict(other, flow=False), "ops": [{"op": "cat", "ops": "co", "dimform": "d"}]}
            yield {"input": inp, "other": dict(other, flow=False), "ops": [{"op": "cat", "ops": "oc", "dimform": "d"}]}


def cmp_exact(case, r, out):
    return cmp_programs(case, r, out, exact_prov=True)


# =============================================================================== torchSem validation against torch
def gen_torchsem(rng: random.Random, tier: str):
    # (a) the survey table on plain tensors, (b) random single operations on plain tensors
    for inp in SURVEY_INPUTS:
        if inp["kind"] == "I":
            nd, n0, other = 1 + len(inp["spatial"]), inp["c"], None
        else:
            nd, n0 = 2 + len(inp["spatial"]), inp["n"]
            other = dict(inp, n=2, base=10)
        for op in survey_ops(nd, n0, False):
            if op["op"] in ("append", "batch", "fromimages", "collate", "pick"):
                continue
            if op["op"] in ("cat", "stack") and "o" in op["ops"] and other is None:
                continue
            yield {"input": inp, "other": other, "ops": [op]}
    for _ in range(_n(tier, 1200, 16000, 3000)):
        inp, other = gen_input(rng)
        cur, oth = build(inp), build(other)
        op = None
        for _ in range(10):
            op = gen_op(rng, cur, oth)
            if op and op["op"] not in ("append", "batch", "fromimages", "collate", "pick"):
                break
        if not op or op["op"] in ("append", "batch", "fromimages", "collate", "pick"):
            continue
        if op["op"] == "getitem":   # plain torch indexing with several ellipses is not modelled
            seen, keep = False, []
            for i in op["index"]["ix"]:
                if i["k"] == "ell":
                    if seen:
                        continue
                    seen = True
                keep.append(i)
            op["index"]["ix"] = keep
        if op["op"] in ("cat", "stack") and "o" in op["ops"] and rng.random() < 0.5:
            # plain tensors: free choice of the dimension also with another operand
            op = dict(op)
            _dimform(rng, len(inp["spatial"]) + 2, op)
        yield {"input": inp, "other": other, "ops": [op]}


def impl_torchsem(case):
    return describe_runs(case, plain=True)


def line_torchsem(case):
    return f"disp.torch {raw_token(case['input'])} {raw_token(case.get('other'))} {op_tokens(case['ops'][0])}"


# =============================================================================== refutation witnesses (Props/C19.lean)
_B2 = {"kind": "B", "flow": False, "n": 2, "c": 1, "spatial": [2, 2], "base": 0, "axes": 0}
_B3 = dict(_B2, n=3)
_F3 = {"kind": "B", "flow": True, "n": 3, "c": 2, "spatial": [2, 2], "base": 0, "axes": 1}
_F2 = dict(_F3, n=2)
_F1 = dict(_F3, n=1)

WITNESSES = [
    # (name, case, expected finding key; None = must hold: witness of a defect repaired by a fix: commit in /repo,
    #  kept as a regression case — the positive theorem of Props/C19.lean covers its class)
    ("flip_dim0", {"input": _B2, "other": None, "ops": [{"op": "flip", "dims": [0]}]}, None),   # C19:torch.flip:dim0 before 05e9301 / c94e057
    ("roll_dim0", {"input": _B2, "other": None, "ops": [{"op": "roll", "shifts": [1], "dims": [0], "scalar": True}]}, None),   # C19:torch.roll:dim0 before 05e9301 / c94e057
    ("index_select_perm", {"input": _B2, "other": None, "ops": [{"op": "isel", "dim": 0, "idx": [1, 0]}]},
     None),   # C19:index_select:dim0-perm before 05e9301 / c94e057
    ("permute_batch_channel", {"input": dict(_B2, c=2), "other": None, "ops": [{"op": "transpose", "d0": 0, "d1": 1}]},
     None),   # C19:permute:batch-moved before 05e9301 / c94e057
    ("roll_flattened", {"input": dict(_B2, c=2), "other": None, "ops": [{"op": "roll", "shifts": [3], "dims": None}]}, None),
    ("transpose_spatial", {"input": _B2, "other": None, "ops": [{"op": "transpose", "d0": 2, "d1": 3}]}, None),
    # empty batch (N = 0): `ndim == 0` skips the flip / roll / index_select branches, the empty grid list is kept
    ("empty_index_select_channel", {"input": _B2, "other": None,
                                    "ops": [_single(_sl(0, 0)), {"op": "isel", "dim": 1, "idx": [0]}]}, None),
    ("empty_index_select_batch", {"input": _B2, "other": None,
                                  "ops": [_single(_sl(0, 0)), {"op": "isel", "dim": 0, "idx": [], "call": "kw"}]}, None),
    ("empty_flip", {"input": _B2, "other": None, "ops": [_single(_sl(0, 0)), {"op": "flip", "dims": [0]}]}, None),
    ("empty_flip_spatial", {"input": _F2, "other": None,
                            "ops": [_single(_sl(0, 0)), {"op": "flip", "dims": [2, -1], "call": "torchkw"}]}, None),
    ("empty_roll", {"input": _B2, "other": None,
                    "ops": [_single(_sl(0, 0)), {"op": "roll", "shifts": [1], "dims": [0], "scalar": True}]}, None),
    ("empty_roll_flattened", {"input": _F2, "other": None,
                              "ops": [_single(_sl(0, 0)), {"op": "roll", "shifts": [1], "dims": None}]}, None),
    ("empty_transpose", {"input": _B2, "other": None, "ops": [_single(_sl(0, 0)), {"op": "transpose", "d0": 2, "d1": 3}]}, None),
    ("flow_flip_kw", {"input": _F3, "other": None, "ops": [{"op": "flip", "dims": [0], "call": "torchkw"}]}, None),
    ("flow_roll_multi", {"input": _F3, "other": None,
                         "ops": [{"op": "roll", "shifts": [1, 2], "dims": [0, 3], "kw": True}]}, None),
    ("flow_index_select_kw", {"input": _F3, "other": None,
                              "ops": [{"op": "isel", "dim": -4, "idx": [2, 0, 1], "call": "kw"}]}, None),
    # repaired (31c6369, a040c96, e158d15, e37fd36, 018b42a, 5463a8b, d25ad21)
    ("narrow_method_negdim", {"input": _B2, "other": None, "ops": [{"op": "narrowm", "dim": -4, "start": 1, "len": 1}]}, None),
    ("narrow_method_negdim_spatial", {"input": _B2, "other": None, "ops": [{"op": "narrowm", "dim": -1, "start": 1, "len": 1}]}, None),
    ("flow_copy", {"input": _F2, "other": None, "ops": [{"op": "copy"}]}, None),
    ("flowfield_copy", {"input": {"kind": "I", "flow": True, "c": 2, "spatial": [2, 2], "id": 0, "axes": 1}, "other": None,
                        "ops": [{"op": "copy"}]}, None),
    ("from_images_axes", {"input": _F2, "other": None, "ops": [{"op": "iter"}, {"op": "fromimages"}]}, None),
    ("append_axes", {"input": _F1, "other": dict(_F1, base=10, axes=2), "ops": [{"op": "append"}]}, None),   # raises now
    ("append_same_axes", {"input": _F1, "other": dict(_F1, base=10), "ops": [{"op": "append"}]}, None),
    ("split_sections", {"input": _B3, "other": None, "ops": [{"op": "splitl", "l": [1, 2], "dimform": "d"}]}, None),
    ("split_with_sizes", {"input": _B3, "other": None, "ops": [{"op": "splitws", "l": [1, 2], "dimform": "d"}]}, None),
    ("bool_mask", {"input": _B3, "other": None, "ops": [_single({"k": "mask", "v": [True, False, True]})]}, None),
    ("bool_mask_list", {"input": _B3, "other": None, "ops": [_single({"k": "mask", "v": [False, True, True], "as": "list"})]}, None),
    ("ellipsis", {"input": _B2, "other": None, "ops": [_single({"k": "ell"})]}, None),
    ("narrow_method", {"input": _B2, "other": None, "ops": [{"op": "narrowm", "dim": 0, "start": 1, "len": 1}]}, None),
    ("narrow_method_spatial", {"input": _B2, "other": None, "ops": [{"op": "narrowm", "dim": 3, "start": 1, "len": 1}]}, None),
    ("flow_index_select", {"input": _F3, "other": None, "ops": [{"op": "isel", "dim": 0, "idx": [2, 0]}]}, None),
    ("flow_mean_keepdim", {"input": _F3, "other": None,
                           "ops": [{"op": "reduce", "fn": "mean", "all": False, "dims": [0], "keepdim": True}]}, None),
    ("flow_torch_narrow", {"input": _F3, "other": None, "ops": [{"op": "narrowf", "dim": 0, "start": 1, "len": 2}]}, None),
    ("flow_repeat", {"input": _F2, "other": None, "ops": [{"op": "repeat", "reps": [2, 1, 1, 1]}]}, None),
    ("flow_expand", {"input": _F1, "other": None, "ops": [{"op": "expand", "sizes": [3, -1, -1, -1]}]}, None),
    ("flow_cat_negdim", {"input": _F2, "other": None, "ops": [{"op": "cat", "ops": "cc", "dimform": "k", "dim": -4}]}, None),
]


def gen_witnesses(rng, tier):
    for _, case, _ in WITNESSES:
        yield case


# =============================================================================== property oracle (implementation only)
def _norm(d, nd):
    return d + nd if d < 0 else d


def op_class(op: dict, nd: int) -> str:
    n = op["op"]
    d0 = lambda d: -nd <= d < nd and _norm(d, nd) == 0
    dimpart = lambda: "dim0" if d0(op.get("dim", 0)) else "other-dim"
    if n == "ew":
        return "elementwise"
    if n == "reduce":
        return "reduce"
    if n == "flip":
        return "torch.flip:dim0" if any(d0(d) for d in op["dims"]) else "torch.flip:other-dim"
    if n == "roll":
        if op.get("dims") is None:
            return "torch.roll:flattened"
        return "torch.roll:dim0" if any(d0(d) for d in op["dims"]) else "torch.roll:other-dim"
    if n == "isel":
        return "index_select:" + dimpart()
    if n == "narrowf":
        return "torch.narrow:" + dimpart()
    if n == "narrowm":
        return "narrow:method:negative-dim" if op["dim"] < 0 else "narrow:method"
    if n == "select":
        return "select"
    if n in ("permute", "transpose"):
        return "permute"
    if n == "cat":
        return "cat:" + ("kw-negative-dim" if op.get("dimform") == "k" and op.get("dim", 0) < 0 else dimpart())
    if n == "stack":
        return "stack"
    if n == "split":
        return "split:int:" + dimpart()
    if n == "splitl":
        return "split:sections-list:" + dimpart()
    if n == "splitws":
        return "split_with_sizes:" + dimpart()
    if n == "tsplitn":
        return "tensor_split:int:" + dimpart()
    if n == "tsplitl":
        return "tensor_split:indices:" + dimpart()
    if n == "getitem":
        ix = op["index"]
        first = ix["ix"][0] if ix["ix"] else {"k": "none"}
        if ix["t"] == "single" and first["k"] == "ell":
            return "getitem:ellipsis"
        if first["k"] == "mask":
            return "getitem:bool-mask"
        return "getitem:" + first["k"] + ("" if ix["t"] == "single" else "-tuple")
    return n


GENERIC = ("ew", "reduce", "narrowf", "select", "isel", "cat", "stack", "split", "splitl", "splitws", "chunk", "unbind",
           "tsplitn", "tsplitl", "flip", "roll", "permute", "transpose", "expand", "repeat", "reshape", "unsqueeze", "squeeze",
           "interp", "pool", "pad")

NAMED = {
    ("torch.flip:dim0", "order"): "C19:torch.flip:dim0",
    ("torch.roll:dim0", "order"): "C19:torch.roll:dim0",
    ("torch.roll:flattened", "mixed"): "C19:torch.roll:dim0",   # same finding: roll() without dims shifts data across entries
    ("index_select:dim0", "order"): "C19:index_select:dim0-perm",
    ("split:sections-list:dim0", "order"): "C19:split:sections-list",
    ("split_with_sizes:dim0", "order"): "C19:split_with_sizes:sections-list",
    ("getitem:bool-mask", "order"): "C19:getitem:bool-mask",
    ("getitem:bool-mask", "count"): "C19:getitem:bool-mask",
    ("getitem:ellipsis", "order"): "C19:getitem:ellipsis",
    ("narrow:method", "order"): "C19:narrow:method",
    ("narrow:method:negative-dim", "count"): "C19:narrow:method:negative-dim",
    ("permute", "mixed"): "C19:permute:batch-moved",
    ("fromimages", "axes"): "C19:from_images:axes-dropped",
    ("append", "axes"): "C19:append:axes-mismatch",
}
TYPE_NAME = {"B0": "ImageBatch", "B1": "FlowFields", "I0": "Image", "I1": "FlowField", "T": "Tensor"}


def finding_key(op: dict, nd: int, out_kind: str, failure: str) -> str:
    cls = op_class(op, nd)
    if out_kind == "B1" and failure == "count" and op["op"] in GENERIC:
        return "C19:FlowFields:result-no-batch-check"
    if (cls, failure) in NAMED:
        return NAMED[(cls, failure)]
    return f"C19:{cls}:{TYPE_NAME.get(out_kind, out_kind)}:{failure}"


def _check_typed(m, prov, expected_grid, axes_of) -> Optional[Tuple[str, str]]:
    """alignment of one typed result: (failure, description) or None"""
    k = kind_of(m)
    t = tensor_of(m)
    if k in ("B0", "B1"):
        grids = list(m._grid)
        if len(grids) != t.shape[0]:
            return "count", f"{len(grids)} grids for {t.shape[0]} batch entries"
        spatial, entries = tuple(t.shape[2:]), prov
    else:
        grids = [m._grid]
        spatial = tuple(t.shape[1:])
        s = set(prov) - {"n", "e"}
        entries = ["n" if not s else (next(iter(s)) if len(s) == 1 else "m")]
    for i, g in enumerate(grids):
        if tuple(g.shape) != spatial:
            return "shape", f"grid {i} has shape {tuple(g.shape)} but the data has spatial shape {spatial}"
    for i, (g, p) in enumerate(zip(grids, entries)):
        if p == "m":
            return "mixed", f"entry {i} holds data of several input items but is typed with one grid"
        if p in ("n", "e"):
            continue
        item = int(p[1:])
        e = expected_grid(item)
        if e is None or not (g == e):
            return "order", f"entry {i} holds the data of input item {item} but does not carry that item's grid"
        if k in ("B1", "I1") and axes_of(item) is not None and axes_tag(m) != axes_of(item):
            return "axes", f"entry {i} holds flow item {item} (axes {AXES_TAGS[axes_of(item)].value}) but the result says {getattr(m, '_axes', None)}"
    return None


def _same_data(a: torch.Tensor, b: torch.Tensor) -> bool:
    """equal values, NaN (mean over an empty tensor) equal to NaN"""
    if a.shape != b.shape or a.dtype != b.dtype:
        return False
    if a.is_floating_point():
        return bool(((a == b) | (torch.isnan(a) & torch.isnan(b))).all())
    return torch.equal(a, b)


def _copy_preserved(before, after) -> bool:
    return (type(after) is type(before) and _same_data(tensor_of(after), tensor_of(before))
            and getattr(after, "_axes", None) == getattr(before, "_axes", None)
            and list(members(after._grid)) == list(members(before._grid)))


def check_program(case) -> Optional[Tuple[str, str]]:
    copy_ok: Dict[int, bool] = {}

    def hook(s, op, before, after):
        if op["op"] in ("copy", "deepcopy", "pickle") and isinstance(before, (Image, ImageBatch)):
            copy_ok[s] = _copy_preserved(before, after)

    base = run_program(case, hook=hook)
    ids = item_ids(case["input"]) + item_ids(case.get("other"))
    pert = {k: run_program(case, k) for k in ids}
    prov = influence(base, pert)
    expected: Dict[int, Grid] = {}
    axes_of: Dict[int, Optional[int]] = {}
    for spec in (case["input"], case.get("other")):
        for k in item_ids(spec):
            expected[k] = grid_for(k, spec["spatial"])
            axes_of[k] = spec["axes"] if spec["flow"] else None
    prev = build(case["input"])
    for s, r in enumerate(base):
        op = case["ops"][s]
        prev_members = members(prev)
        nd = prev_members[0].ndim if prev_members and isinstance(prev_members[0], torch.Tensor) else 0
        if isinstance(r, Raised):
            if op["op"] in ("copy", "deepcopy", "pickle") and isinstance(prev, (Image, ImageBatch)):
                flow = isinstance(prev, (FlowField, FlowFields))
                return (f"C19:{op['op']}:{'flow' if flow else 'image'}-raises",
                        f"{op['op']} of {type(prev).__name__} raises {r.kind}: {r.msg} (program {_prog(case, s)})")
            return None  # I-1: nothing is yielded
        if op["op"] == "narrowm" and isinstance(prev, (Image, ImageBatch)):
            # the only operation of the vocabulary that derives grids: the correct grid of item k is narrowed alike
            # dimension of the (1-)batch tensor as ImageBatch.narrow sees it (negative dims are normalised there)
            bd, nd_b = (op["dim"], prev.ndim) if isinstance(prev, ImageBatch) else (op["dim"] + 1, prev.ndim + 1)
            if bd < 0:
                bd += nd_b
            gd = nd_b - bd - 1
            if bd > 1 and 0 <= gd:
                for k in list(expected):
                    if expected[k].ndim > gd and tuple(expected[k].shape) == tuple(prev.shape[-expected[k].ndim:]):
                        expected[k] = expected[k].narrow(gd, op["start"], op["len"])
        if op["op"] in ("copy", "deepcopy", "pickle") and isinstance(prev, (Image, ImageBatch)):
            if not copy_ok.get(s, True):
                return (f"C19:{op['op']}:{type(prev).__name__}:not-preserved",
                        f"{op['op']} changed type/data/grids/axes: {type(prev).__name__} -> {type(r).__name__} (program {_prog(case, s)})")
        for j, m in enumerate(members(r)):
            if isinstance(m, (Image, ImageBatch)):
                bad = _check_typed(m, prov[s][j], lambda k: expected.get(k), lambda k: axes_of.get(k))
                if bad:
                    failure, what = bad
                    key = finding_key(op, nd, kind_of(m), failure)
                    return key, f"{type(m).__name__} result of step {s} ({op_tokens(op)}){f' member {j}' if len(members(r)) > 1 else ''}: {what} (program {_prog(case, s)})"
        prev = r
    return None


def _prog(case, upto) -> str:
    return f"{spec_token(case['input'])} ; " + " ; ".join(op_tokens(o) for o in case["ops"][:upto + 1])


def gen_oracle_programs(rng: random.Random, tier: str):
    for _, case, _ in WITNESSES:
        yield case
    for c in gen_survey(rng, tier):
        yield c
    max_ops = 4 if tier == "quick" else 8
    for _ in range(_n(tier, 400, 8000, 3000)):
        yield gen_program(rng, max_ops)


def search_cases(disagreements: List[dict]):
    """disagreeing correspondence cases and all their prefixes go to the oracle first"""
    extra = {"aligned": []}
    for d in disagreements[:200]:
        c = d["case"]
        if "ops" in c and "input" in c:
            extra["aligned"].append(c)
            for n in range(1, len(c["ops"])):
                extra["aligned"].append(dict(c, ops=c["ops"][:n]))
    return extra


STREAMS = [
    Stream("survey", gen_survey, impl_programs, line_programs, cmp_exact, nontrivial=nontrivial_program, exhaustive=True,
           doc="fixed table of single operations (every operation form of the vocabulary, all dim-argument forms, all index "
               "forms) x 10 inputs (ImageBatch/FlowFields N=1..4, 2-D/3-D, Image, FlowField): type, shape, grids, axes, provenance"),
    Stream("witnesses", gen_witnesses, impl_programs, line_programs, cmp_exact, exhaustive=True,
           doc="the former witnesses of the defects repaired in /repo (regression cases; their classes are now in "
               "C19_aligned_partial / C19_demote) and further call forms of the repaired branches"),
    Stream("programs", gen_programs, impl_programs, line_programs, cmp_programs, nontrivial=nontrivial_program,
           doc="random programs (quick <=4, thorough <=8 operations) on typed inputs with distinct per-item grids; every "
               "intermediate result compared"),
    Stream("torchsem", gen_torchsem, impl_torchsem, line_torchsem, cmp_exact,
           doc="torchSem (shape + dim-0 provenance) of every operation form vs torch itself on plain tensors"),
]

def gen_layout(rng: random.Random, tier: str):
    for _ in range(_n(tier, 40, 600, 120)):
        d = rng.choice([2, 3])
        yield {"d": d, "n": rng.randint(1, 3), "c": rng.randint(2, 3), "flow": rng.random() < 0.4, "seed": rng.randrange(1 << 30),
               "layout": rng.choice(["channels_last", "permuted_view", "channel_slice", "strided", "flipped", "plain"]),
               "how": rng.choice(["pickle", "pickle", "copy", "deepcopy"]), "single": rng.random() < 0.3,
               # per-item grids that compare `==` (Grid.__eq__ ignores align_corners and uses allclose) yet are different
               "near": rng.random() < 0.4}


def check_layout(c):
    """copies (copy / deepcopy / pickle) of typed tensors keep the VALUES entry by entry whatever the memory layout of the
    object is (channels-last, a permuted view of a channels-last array, slices, flips) — with type, grids and axes"""
    import pickle as _pickle

    d, n = c["d"], c["n"]
    ch = d if c["flow"] else c["c"]
    sp = tuple([4, 5, 3][:d])
    gen_t = torch.Generator().manual_seed(c["seed"])
    grids = [grid_for(i, sp) for i in range(n)]
    if c.get("near"):
        g0 = grids[0]
        grids = [g0] + [Grid(size=g0.size(), spacing=g0.spacing(), center=g0.center() * (1 + 2e-6 * (i // 2)),
                             direction=g0.direction(), align_corners=(g0.align_corners() if i % 2 == 0 else not g0.align_corners()))
                        for i in range(1, n)]
    base = torch.rand((n, ch) + sp, generator=gen_t)
    lay = c["layout"]
    if lay == "permuted_view":
        arr = torch.rand((n,) + sp + (ch,), generator=gen_t)
        base = arr.movedim(-1, 1)                          # (N, C, ..., X) view of a channels-last array
    x = FlowFields(base, grids, AXES_TAGS[1]) if c["flow"] else ImageBatch(base, grids)
    if lay == "channels_last":
        x = x.contiguous(memory_format=torch.channels_last if d == 2 else torch.channels_last_3d)
    elif lay == "channel_slice" and not c["flow"]:
        x = x[:, :1]
    elif lay == "strided":
        x = x[::2] if n > 1 else x
    elif lay == "flipped":
        x = x.flip(-1)
    if c["single"]:
        x = x[0]
    if type(x) is torch.Tensor:
        return None
    try:
        y = {"pickle": lambda: _pickle.loads(_pickle.dumps(x)), "copy": lambda: copy.copy(x), "deepcopy": lambda: copy.deepcopy(x)}[c["how"]]()
    except Exception as e:  # noqa: BLE001
        return (f"C19:{c['how']}:{lay}:raises", f"{c['how']} of a {type(x).__name__} ({lay}) raises {type(e).__name__}: {str(e)[:100]}")
    if type(y) is not type(x):
        return (f"C19:{c['how']}:{lay}:type", f"{type(x).__name__} became {type(y).__name__}")
    if y.shape != x.shape or not torch.equal(y.as_subclass(torch.Tensor), x.as_subclass(torch.Tensor)):
        return (f"C19:{c['how']}:{lay}:values", f"{c['how']} of a {type(x).__name__} with layout '{lay}' changed the data "
                f"(max abs diff {float((y.as_subclass(torch.Tensor) - x.as_subclass(torch.Tensor)).abs().max()) if y.shape == x.shape else 'shape'})")
    gx = x.grids() if hasattr(x, "grids") else (x.grid(),)
    gy = y.grids() if hasattr(y, "grids") else (y.grid(),)
    def identical(a: Grid, b: Grid) -> bool:
        return (a == b and a.align_corners() == b.align_corners() and tuple(a.size()) == tuple(b.size())
                and torch.equal(a.center(), b.center()) and torch.equal(a.spacing(), b.spacing())
                and torch.equal(a.direction(), b.direction()))

    if len(gx) != len(gy) or any(not identical(a, b) for a, b in zip(gx, gy)):
        k = next((i for i, (a, b) in enumerate(zip(gx, gy)) if not identical(a, b)), -1)
        return (f"C19:{c['how']}:{lay}:grids", f"grids differ after the copy (entry {k}: {gx[k]!r} became {gy[k]!r})"
                if k >= 0 else "number of grids differs after the copy")
    if c["flow"] and y.axes() != x.axes():
        return (f"C19:{c['how']}:{lay}:axes", "axes differ after the copy")
    return None


ORACLES = [
    Oracle("copy_layout", gen_layout, check_layout,
           doc="copy / deepcopy / pickle of ImageBatch / FlowFields / Image / FlowField in non-default memory layouts (channels "
               "last, permuted views, slices, flips) keep values, type, grids, axes"),
    Oracle("aligned", gen_oracle_programs, check_program, nontrivial=nontrivial_program,
           doc="after every step: one grid per entry, grid shape = spatial shape, entry i carries grid and axes of the item "
               "whose data it holds (provenance measured by changing one item at a time); copy/deepcopy/pickle preserve "
               "type, data, grids, axes and do not raise; only the first failing step of a program is reported"),
]
