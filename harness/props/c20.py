"""C20 — gradients reaching parameters and inputs are the true derivatives.

Correspondence (what detects breakage): `torch.autograd.grad` of the scalarised output of the REAL deepali
operation vs. the closed-form MODEL gradient (Lean, `Model/Grad.lean`, evaluated on ℚ at the same float64
input).  Exploration oracle (`c20_oracle.py`): autograd vs. central finite differences for every operation
the property lists (the statement itself; reported as exploration, never as proof).
"""
from __future__ import annotations

import math
import os
import random
import struct
from fractions import Fraction
from typing import List, Optional

import torch
from torch import Tensor

import deepali.spatial as S
from deepali.core import functional as U
from deepali.core.grid import Grid
from deepali.data import ImageBatch
from deepali.losses import functional as L

from lib import proto
from lib.core import Oracle, Stream
from props import c20_oracle as O

PROP = "C20"
# all tensors here are tiny (<= a few hundred elements): intra-op threads only add spin-wait overhead, and on a
# loaded machine oversubscription slows the check by an order of magnitude
torch.set_num_threads(int(os.environ.get("VERIF_THREADS_C20", "1")))
F64 = torch.float64
RTOL64 = 1e-8      # float64 paths: gradient entries are sums of <= a few hundred products, eps 1.1e-16
RTOL_BS = 2e-6     # B-spline kernels are created in float32 (cubic_bspline1d / interpolation weights, eps 6e-8 per
#                    weight, product over D axes) and only then cast to the data type
RTOL32 = 2e-3      # operations that call `.float()` (ncc, dice, tversky): forward AND backward run in float32
#                    (eps 6e-8) and the quotient rule subtracts two nearly equal products (cancellation ~1e3)

ASSUMPTIONS = [
    "autograd itself (torch's derivative formulas for mul/div/sum/grid_sample/conv/pad/…) is trusted; what is checked is "
    "that the gradient deepali's composition of these primitives delivers equals the closed-form gradient of the Lean model "
    "function, which Props/C20.lean proves to be the true derivative of that model function",
    "floats are exact rationals; rounding is a tolerance: 1e-8 relative to the largest gradient entry on float64 paths, "
    "2e-3 where the operation casts to float32 (`.float()` in ncc_loss/dice_score/tversky_index: float32 backward with "
    "quotient-rule cancellation)",
    "inputs are generic: |x−y| >= 0.05 and ||x−y|−δ| >= 0.05 for L1/Huber/smooth-L1, sampling positions at distance >= 0.1 "
    "sample from every integer sample position and inside the sample hull [0, n−1] (a few outside the hull for the "
    "clamping-gradient-is-zero branch, at distance >= 0.1 from the boundary)",
    "PARTIAL: multi-step expv, logv, compose_svfs, MI/NMI (Parzen window with exp/log), LCC/WLCC, curvature/elasticity/"
    "divergence/TV losses, Gaussian-mode derivatives, 3-D Euler/quaternion/shear parameterisations and full transform "
    "stacks have no closed-form model gradient; they are covered only by the autograd-vs-central-difference exploration",
    "cos/sin/tanh/exp values and their elementary derivatives enter the model as rational inputs (stream `linear`)",
]
TRUSTED = ["Model/Grad.lean closed forms + Model/{Losses,TorchPrim,FD,BSpline,FlowOps}.lean transcriptions",
           "torch.autograd (derivative formulas of the torch primitives)"]
RULE = ("cases are drawn from one PRNG seeded by VERIF_SEED; every (operation, API variant, padding, align_corners, "
        "reduction, mask form, mode) combination listed in the stream docs is visited at least once per run; distinct = "
        "distinct after JSON canonicalisation; non-trivial = gradient not identically zero")


def _n(tier, quick, thorough, search=None):
    return {"quick": quick, "thorough": thorough, "search": search or quick}[tier]


def _seed(rng):
    return rng.randrange(1 << 30)


def _f32(v: float) -> float:
    return struct.unpack("f", struct.pack("f", v))[0]


def T(t: Tensor) -> str:
    vals = t.detach().double().flatten().tolist()
    return f"{t.ndim} " + " ".join(str(s) for s in t.shape) + (" " if vals else "") + " ".join(proto.fr(v) for v in vals)


def OT(t: Optional[Tensor]) -> str:
    return "-" if t is None else "+ " + T(t)


def V(t) -> str:
    return " ".join(proto.fr(v) for v in (t.detach().double().flatten().tolist() if isinstance(t, Tensor) else t))


def hx(s: str) -> str:
    return "h" + s.encode().hex()


def gclose(impl: List[float], out: str, rtol: float) -> Optional[str]:
    """gradient comparison relative to the largest gradient entry (no absolute floor of 1: gradients may be small)."""
    if proto.is_error(out):
        return f"model error {out[:80]}"
    m = [float(v) for v in proto.parse_vec(out)]
    if len(m) != len(impl):
        return f"length {len(impl)} (impl) vs {len(m)} (model)"
    s = max([abs(v) for v in m] + [abs(v) for v in impl] + [1e-300])
    worst, where = 0.0, -1
    for i, (a, b) in enumerate(zip(impl, m)):
        if math.isnan(a) or math.isinf(a):
            return f"non-finite autograd gradient at {i}"
        if abs(a - b) > worst:
            worst, where = abs(a - b), i
    if worst > rtol * s + 1e-14:
        return (f"autograd {impl[where]!r} vs model gradient {m[where]!r} at flat index {where} "
                f"(diff {worst:.3e}, tol {rtol * s:.1e})")
    return None


def _grad(out: Tensor, cot: Tensor, x: Tensor) -> List[float]:
    """autograd gradient of <cot, out> w.r.t. x; a missing / detached gradient is reported, not hidden."""
    out = out.as_subclass(Tensor)
    if not out.requires_grad:
        raise RuntimeError("output does not require grad (detached)")
    (g,) = torch.autograd.grad(out, x, grad_outputs=cot.to(out.dtype), allow_unused=True)
    if g is None:
        raise RuntimeError("autograd returned None (input unused / graph cut)")
    return proto.flat(g)


def _cmp(rtol):
    def cmp(c, r, out):
        if isinstance(r, str):
            return f"impl {r}; model {out[:60]}"
        return gclose(r["grad"], out, rtol)
    return cmp


def _nz(c):
    return True


# =============================================================================== (a) element-wise losses
PW = ["ssd_loss", "mse_loss", "l1_loss", "mae_loss", "huber_loss", "smooth_l1_loss"]
PW_KIND = {"ssd_loss": "ssd", "mse_loss": "ssd", "l1_loss": "l1", "mae_loss": "l1", "huber_loss": "huber",
           "smooth_l1_loss": "smoothl1"}
MASKS = [None, "full", "n1", "1c", "11"]


def _mask_shape(shape, kind):
    N, C, sp = shape[0], shape[1], list(shape[2:])
    return {"full": [N, C] + sp, "n1": [N, 1] + sp, "1c": [1, C] + sp, "11": [1, 1] + sp}[kind]


def gen_pointwise(rng, tier):
    combos = [(l, r, m) for l in PW for r in ("none", "mean", "sum") for m in MASKS]
    rng.shuffle(combos)
    reps = _n(tier, 1, 8)
    for l, r, m in combos * reps:
        D = rng.choice([2, 3])
        shape = [rng.randint(1, 2), rng.randint(1, 2)] + [rng.randint(2, 4) for _ in range(D)]
        yield {"loss": l, "red": r, "mask": m, "shape": shape, "seed": _seed(rng),
               "param": rng.choice([0.5, 1.0, 0.75]) if l in ("huber_loss", "smooth_l1_loss") else None,
               "norm": rng.choice([None, None, 2.5, 0.0, -1.0])}


def _pw_build(c):
    r = random.Random(c["seed"])
    n = 1
    for s in c["shape"]:
        n *= s
    p = c["param"]
    ys, ds = [], []
    for _ in range(n):
        ys.append(r.uniform(-1, 1))
        while True:
            d = r.uniform(-2, 2)
            if abs(d) >= 0.05 and (p is None or abs(abs(d) - p) >= 0.05):
                break
        ds.append(d)
    y = torch.tensor(ys, dtype=F64).reshape(c["shape"])
    x = (y + torch.tensor(ds, dtype=F64).reshape(c["shape"])).requires_grad_(True)
    m = None
    if c["mask"]:
        ms = _mask_shape(c["shape"], c["mask"])
        k = 1
        for s in ms:
            k *= s
        m = torch.tensor([r.choice([0.0, 0.25, 0.5, 1.0, 1.0, r.uniform(0.1, 1)]) for _ in range(k)], dtype=F64).reshape(ms)
        m.flatten()[r.randrange(k)] = 1.0
    cshape = c["shape"] if c["red"] == "none" else []
    cot = torch.tensor([r.uniform(-1, 1) for _ in range(n if c["red"] == "none" else 1)], dtype=F64).reshape(cshape)
    return x, y, m, cot


def impl_pointwise(c):
    x, y, m, cot = _pw_build(c)
    kw = {"reduction": c["red"], "mask": m, "norm": c["norm"]}
    if c["param"] is not None:
        kw["delta" if c["loss"] == "huber_loss" else "beta"] = c["param"]
    out = getattr(L, c["loss"])(x, y, **kw)
    return {"grad": _grad(out, cot, x)}


def line_pointwise(c):
    x, y, m, cot = _pw_build(c)
    kind = PW_KIND[c["loss"]]
    if c["param"] is not None:
        kind += " " + proto.fr(c["param"])
    norm = "-" if c["norm"] is None else "+ " + proto.fr(c["norm"])
    return f"grad.pointwise {kind} {c['red']} {T(x)} {T(y)} {OT(m)} {norm} {T(cot.reshape(-1))}"


# =============================================================================== (b) Dice / Tversky
def gen_overlap(rng, tier):
    combos = [(l, r, w) for l in ("dice_score", "dice_loss", "tversky_index") for r in ("none", "mean", "sum")
              for w in (False, True)]
    rng.shuffle(combos)
    for l, r, w in combos * _n(tier, 2, 12):
        D = rng.choice([2, 3])
        # tversky_index with a weight needs C >= 2 (C = 1 raises: C16 finding `tversky weight binary`)
        shape = [rng.randint(1, 2), rng.randint(2 if (w and l == "tversky_index") else 1, 3)] + [rng.randint(2, 4) for _ in range(D)]
        yield {"loss": l, "red": r, "weight": w, "shape": shape, "seed": _seed(rng),
               "eps": rng.choice([2.0 ** -10, 1.0, 0.125]), "ykind": rng.choice(["binary", "prob"]),
               "alpha": rng.choice([0.5, 0.3, 0.7, 1.0]), "beta": rng.choice([0.5, 0.7, 0.25, 1.0])}


def _ov_build(c):
    r = random.Random(c["seed"])
    shape = c["shape"]
    n = 1
    for s in shape:
        n *= s
    p = torch.tensor([_f32(r.uniform(0.05, 0.95)) for _ in range(n)], dtype=F64).reshape(shape).requires_grad_(True)
    if c["ykind"] == "binary":
        y = torch.tensor([float(r.random() < 0.5) for _ in range(n)], dtype=F64).reshape(shape)
    else:
        y = torch.tensor([_f32(r.random()) for _ in range(n)], dtype=F64).reshape(shape)
    w = torch.tensor([_f32(r.uniform(0.2, 1.0)) for _ in range(n)], dtype=F64).reshape(shape) if c["weight"] else None
    K = shape[0] * shape[1]
    cot = torch.tensor([r.uniform(-1, 1) for _ in range(K if c["red"] == "none" else 1)], dtype=F64)
    return p, y, w, cot


def _ov_cot_per_channel(c, cot: Tensor) -> Tensor:
    """cotangent of the (N·C) per-channel scores implied by the Python-level reduction (reduce_loss @1758-1770;
    dice_loss = reduce(1 − dsc))."""
    K = c["shape"][0] * c["shape"][1]
    sign = -1.0 if c["loss"] == "dice_loss" else 1.0
    if c["red"] == "none":
        return cot * sign
    if c["red"] == "sum":
        return cot.expand(K) * sign
    return cot.expand(K) * sign / K


def impl_overlap(c):
    p, y, w, cot = _ov_build(c)
    if c["loss"] == "tversky_index":
        out = L.tversky_index(p, y, weight=w, alpha=c["alpha"], beta=c["beta"], epsilon=c["eps"], normalize=False,
                              binarize=False, reduction=c["red"])
    else:
        out = getattr(L, c["loss"])(p, y, weight=w, epsilon=c["eps"], reduction=c["red"])
    return {"grad": _grad(out, cot.reshape(out.shape), p)}


def line_overlap(c):
    p, y, w, cot = _ov_build(c)
    K = c["shape"][0] * c["shape"][1]
    Sn = p.numel() // K
    cc = _ov_cot_per_channel(c, cot)
    if c["loss"] == "tversky_index":
        return (f"grad.tversky {Sn} {K} {T(p.reshape(-1))} {T(y.reshape(-1))} {OT(None if w is None else w.reshape(-1))} "
                f"{proto.fr(c['alpha'])} {proto.fr(c['beta'])} {proto.fr(c['eps'])} {T(cc)}")
    return (f"grad.dice {Sn} {K} {T(p.reshape(-1))} {T(y.reshape(-1))} {OT(None if w is None else w.reshape(-1))} "
            f"{proto.fr(c['eps'])} {T(cc)}")


# =============================================================================== (c) NCC
def gen_ncc(rng, tier):
    for _ in range(_n(tier, 12, 150)):
        for red in ("none", "mean", "sum"):
            D = rng.choice([2, 3])
            shape = [rng.randint(1, 3), rng.randint(1, 2)] + [rng.randint(2, 4) for _ in range(D)]
            yield {"red": red, "shape": shape, "seed": _seed(rng), "eps": rng.choice([1e-15, 2.0 ** -10, 0.5])}


def _ncc_build(c):
    r = random.Random(c["seed"])
    n = 1
    for s in c["shape"]:
        n *= s
    x = torch.tensor([_f32(r.gauss(0.5, 1.0)) for _ in range(n)], dtype=F64).reshape(c["shape"]).requires_grad_(True)
    y = torch.tensor([_f32(r.gauss(0.0, 1.5)) for _ in range(n)], dtype=F64).reshape(c["shape"])
    N = c["shape"][0]
    cot = torch.tensor([r.uniform(-1, 1) for _ in range(N if c["red"] == "none" else 1)], dtype=F64)
    return x, y, cot


def impl_ncc(c):
    x, y, cot = _ncc_build(c)
    out = L.ncc_loss(x, y, epsilon=c["eps"], reduction=c["red"])
    return {"grad": _grad(out, cot.reshape(out.shape), x)}


def line_ncc(c):
    x, y, cot = _ncc_build(c)
    N = c["shape"][0]
    cc = cot if c["red"] == "none" else (cot.expand(N) if c["red"] == "sum" else cot.expand(N) / N)
    return f"grad.ncc {x.numel() // N} {N} {T(x.reshape(-1))} {T(y.reshape(-1))} {proto.fr(c['eps'])} {T(cc)}"


# =============================================================================== (d) sampling
SAMPLE_APIS = ["grid_sample", "sample_image", "warp_image", "ImageBatch.sample"]


def gen_sample(rng, tier):
    combos = [(api, wrt, pad, ac) for api in SAMPLE_APIS for wrt in ("data", "coords") for pad in ("border", "zeros")
              for ac in (True, False)]
    rng.shuffle(combos)
    for api, wrt, pad, ac in combos * _n(tier, 1, 10):
        D = rng.choice([2, 2, 3])
        shape = [rng.randint(2, 5) for _ in range(D)]          # tensor order (…, Y, X)
        yield {"api": api, "wrt": wrt, "pad": pad, "ac": ac, "shape": shape, "C": rng.randint(1, 2),
               "npts": rng.randint(1, 6), "seed": _seed(rng), "outside": rng.random() < 0.25}


def _sample_build(c):
    g = O.tgen(c["seed"])
    shape, D, C = c["shape"], len(c["shape"]), c["C"]
    data = torch.randint(-8, 9, (1, C, *shape), generator=g).double().requires_grad_(True)
    sz = list(reversed(shape))
    pts = O.nonkink_coords(g, sz, c["npts"], c["ac"])
    if c["outside"]:
        # one point outside the hull (>= 0.1 sample from the boundary and from every integer position):
        # border padding back-propagates 0 there, zero padding blends with the padded zeros
        a = int(torch.randint(0, D, (1,), generator=g))
        n = sz[a]
        idx = -0.5 - float(torch.rand(1, generator=g)) * 0.3 if float(torch.rand(1, generator=g)) < 0.5 else n - 1 + 0.35
        pts[0, a] = (idx * 2 / (n - 1) - 1) if c["ac"] else ((idx * 2 + 1) / n - 1)
    ch = int(torch.randint(0, C, (1,), generator=g))
    cotc = torch.rand(c["npts"], generator=g, dtype=F64) * 2 - 1
    return data, pts, ch, cotc


def _sample_run(c, data, pts):
    D, ac, pad = len(c["shape"]), c["ac"], c["pad"]
    api = c["api"]
    if api == "grid_sample":
        coords = pts.reshape((1,) + (1,) * (D - 1) + (-1, D)).clone().requires_grad_(True)
        out = U.grid_sample(data, coords, mode="linear", padding=pad, align_corners=ac)
    elif api == "sample_image":
        coords = pts.unsqueeze(0).clone().requires_grad_(True)
        out = U.sample_image(data, coords, mode="linear", padding=pad, align_corners=ac)
    elif api == "warp_image":
        # coordinates = grid + flow with an arbitrary split; the gradient w.r.t. the flow is the coordinate gradient
        base = pts.reshape((1,) + (1,) * (D - 1) + (-1, D)) * 0.5 + 0.125
        coords = (pts.reshape(base.shape) - base).clone().requires_grad_(True)
        out = U.warp_image(data, base, flow=coords, mode="linear", padding=pad, align_corners=ac)
    else:
        grid = Grid(shape=c["shape"], align_corners=ac)
        coords = pts.unsqueeze(0).clone().requires_grad_(True)
        batch = ImageBatch(data.detach(), grid, requires_grad=True)
        out = batch.sample(coords, mode="linear", padding=pad)
        data = batch
    return out, coords, data


def impl_sample(c):
    data, pts, ch, cotc = _sample_build(c)
    out, coords, data = _sample_run(c, data, pts)
    cot = torch.zeros(out.shape, dtype=F64)
    cot.reshape(1, c["C"], -1)[0, ch] = cotc
    if c["wrt"] == "data":
        (g,) = torch.autograd.grad(out.as_subclass(Tensor), data, grad_outputs=cot, allow_unused=True)
        if g is None:
            raise RuntimeError("autograd returned None for the image")
        g = g.as_subclass(Tensor)
        other = g[0].clone()
        other[ch] = 0
        if float(other.abs().max()) != 0.0:
            raise RuntimeError("gradient leaks into another channel")
        return {"grad": proto.flat(g[0, ch])}
    return {"grad": _grad(out, cot, coords)}


def line_sample(c):
    data, pts, ch, cotc = _sample_build(c)
    D = len(c["shape"])
    sz = " ".join(str(n) for n in reversed(c["shape"]))
    head = f"{D} {c['pad']} {1 if c['ac'] else 0}"
    if c["wrt"] == "data":
        return f"grad.sample.value {head} {sz} {c['npts']} {V(pts)} {V(cotc)}"
    return f"grad.sample.coord {head} {sz} {V(data[0, ch])} {c['npts']} {V(pts)} {V(cotc)}"


# =============================================================================== (e) B-splines
def gen_bspline(rng, tier):
    for _ in range(_n(tier, 14, 200)):
        D = rng.choice([2, 2, 3])
        api = rng.choice(["evaluate", "evaluate", "subdivide", "ffd_u"])
        hi = 6 if D == 2 else 5
        c = {"api": api, "D": D, "seed": _seed(rng), "transpose": rng.random() < 0.5,
             "stride": [rng.randint(1, 3) for _ in range(D)], "N": rng.randint(1, 2), "C": rng.randint(1, 2)}
        if api == "ffd_u":
            c["size"] = [rng.randint(2, 7 if D == 2 else 4) for _ in range(D)]
            c["N"] = 1
        else:
            c["shape"] = [rng.randint(4, hi) for _ in range(D)]
            c["crop"] = rng.random() < 0.4
        yield c


def _bs_build(c):
    g = O.tgen(c["seed"])
    D = c["D"]
    if c["api"] == "ffd_u":
        grid = Grid(size=c["size"], align_corners=True)
        f = S.FreeFormDeformation(grid, stride=tuple(c["stride"]), transpose=c["transpose"]).double()
        with torch.no_grad():
            f.params.copy_(torch.randint(-8, 9, f.params.shape, generator=g).double() / 8)
        return f, f.params, None
    data = (torch.randint(-8, 9, (c["N"], c["C"], *c["shape"]), generator=g).double() / 4).requires_grad_(True)
    return None, data, None


def _bs_out_shape(c, data):
    """spatial output shape (tensor order) requested from evaluate_cubic_bspline, or None."""
    if c["api"] != "evaluate" or not c.get("crop"):
        return None
    st_t = list(reversed(c["stride"]))
    return [max(1, (n - 3) * s - 1) for n, s in zip(data.shape[2:], st_t)]


def _bs_run(c, f, data):
    if c["api"] == "ffd_u":
        return f.update().u
    if c["api"] == "subdivide":
        return U.subdivide_cubic_bspline(data)
    sh = _bs_out_shape(c, data)
    return U.evaluate_cubic_bspline(data, stride=tuple(c["stride"]), shape=sh, transpose=c["transpose"])


def _bs_cot(c, out):
    g = O.tgen(c["seed"] + 1)
    return torch.randint(-4, 5, out.shape, generator=g).double() / 4


def impl_bspline(c):
    f, data, _ = _bs_build(c)
    out = _bs_run(c, f, data)
    cot = _bs_cot(c, out)
    return {"grad": _grad(out, cot, data), "shape": list(out.shape)}


def line_bspline(c):
    f, data, _ = _bs_build(c)
    with torch.no_grad():
        out = _bs_run(c, f, data)
    cot = _bs_cot(c, out)
    D = c["D"]
    inshape = f"{data.ndim} " + " ".join(str(s) for s in data.shape)
    if c["api"] == "subdivide":
        return f"grad.bspline.subdivide {inshape} {D} {' '.join(str(a) for a in range(D))} {O_tensor_line(cot)}"
    st = " ".join(str(s) for s in c["stride"])
    dv = " ".join("0" for _ in range(D))
    if c["api"] == "ffd_u":
        sh = "1 " + " ".join(str(n) for n in reversed(c["size"]))
    else:
        o = _bs_out_shape(c, data)
        sh = "0" if o is None else "1 " + " ".join(str(n) for n in o)
    return f"grad.bspline.eval {inshape} {D} {st} {dv} {1 if c['transpose'] else 0} {sh} {O_tensor_line(cot)}"


def O_tensor_line(t: Tensor) -> str:
    vals = t.detach().double().flatten().tolist()
    return " ".join(str(v) for v in [t.ndim] + list(t.shape)) + " " + " ".join(proto.fr(v) for v in vals)


def cmp_bspline(c, r, out):
    if isinstance(r, str):
        return f"impl {r}; model {out[:60]}"
    if proto.is_error(out):
        return f"model error {out[:80]}"
    toks = out.split()
    nd = int(toks[0])
    return gclose(r["grad"], " ".join(toks[1 + nd:]), RTOL_BS)


# =============================================================================== (f) finite differences, regularisers
FD_MODES = ["forward", "backward", "central", "forward_central_backward", "prewitt", "sobel"]


def gen_fd(rng, tier):
    for mode in FD_MODES:
        for D in (2, 3):
            for _ in range(_n(tier, 2 if D == 2 else 1, 16 if D == 2 else 6)):
                shape = [rng.randint(3, 5) for _ in range(D)] if D == 2 else [rng.randint(3, 4) for _ in range(D)]
                keys2 = ["x", "y", "xx", "xy", "yy", "yx"]
                keys3 = keys2 + ["z", "xz", "zz", "zy"]
                pool = keys2 if D == 2 else keys3
                which = rng.sample(pool, rng.randint(1, 3))
                yield {"api": rng.choice(["spatial_derivatives", "flow_derivatives"]), "mode": mode, "D": D, "shape": shape,
                       "which": which, "spacing": [rng.choice([1.0, 0.5, 2.0, 0.75]) for _ in range(D)], "seed": _seed(rng),
                       "ch": rng.randrange(D)}


def _fd_build(c):
    g = O.tgen(c["seed"])
    D = c["D"]
    C = D if c["api"] == "flow_derivatives" else 2
    data = (torch.randint(-8, 9, (1, C, *c["shape"]), generator=g).double() / 4).requires_grad_(True)
    cots = [torch.randint(-4, 5, (1, 1, *c["shape"]), generator=g).double() / 4 for _ in c["which"]]
    return data, cots


def impl_fd(c):
    data, cots = _fd_build(c)
    ch = c["ch"] % data.shape[1]
    if c["api"] == "flow_derivatives":
        keys = [f"d{'uvw'[ch]}/d{k}" for k in c["which"]]
        d = U.flow_derivatives(data, which=keys, mode=c["mode"], spacing=c["spacing"])
        outs = [d[k] for k in keys]
    else:
        d = U.spatial_derivatives(data, which=c["which"], mode=c["mode"], spacing=c["spacing"])
        outs = [d[k].narrow(1, ch, 1) for k in c["which"]]
    s = sum((o * w).sum() for o, w in zip(outs, cots))
    (g,) = torch.autograd.grad(s, data, allow_unused=True)
    if g is None:
        raise RuntimeError("autograd returned None")
    other = g[0].clone()
    other[ch] = 0
    if float(other.abs().max()) != 0.0:
        raise RuntimeError("gradient leaks into another channel")
    return {"grad": proto.flat(g[0, ch])}


def line_fd(c):
    data, cots = _fd_build(c)
    D = c["D"]
    sz = " ".join(str(n) for n in reversed(c["shape"]))
    keys = " ".join(hx(k) for k in c["which"])
    return (f"grad.fd {D} {c['mode']} {sz} {V(c['spacing'])} {len(c['which'])} {keys} "
            + " ".join(V(w) for w in cots))


REG = ["bending_loss", "diffusion_loss", "grad_loss"]


def gen_reg(rng, tier):
    for loss in REG:
        for mode in FD_MODES:
            for D in (2, 3):
                if D == 3 and tier == "quick" and mode not in ("sobel", "forward_central_backward"):
                    continue
                for _ in range(_n(tier, 1, 4 if D == 2 else 2)):
                    shape = [rng.randint(3, 5) for _ in range(D)] if D == 2 else [rng.randint(3, 4) for _ in range(D)]
                    yield {"loss": loss, "mode": mode, "D": D, "shape": shape, "seed": _seed(rng),
                           "red": rng.choice(["mean", "sum"]), "ch": rng.randrange(D),
                           "spacing": [rng.choice([1.0, 0.5, 2.0]) for _ in range(D)]}


def _reg_terms(c):
    """(weight, key) list of the quadratic form for one vector component, as the Python code assembles it."""
    D = c["D"]
    ax = "xyz"[:D]
    if c["loss"] == "bending_loss":
        # bending_loss @1221-1229: sorted unique second-order keys, mixed ones doubled
        keys = sorted({"".join(sorted(a + b)) for a in ax for b in ax})
        return [(2.0 if k[0] != k[1] else 1.0, k) for k in keys]
    return [(1.0, a) for a in ax]     # grad_loss(p=2, q=1) @1164-1176: Σ_d (∂_d u_c)²


def impl_reg(c):
    g = O.tgen(c["seed"])
    u = (torch.randint(-8, 9, (1, c["D"], *c["shape"]), generator=g).double() / 8).requires_grad_(True)
    kw = dict(mode=c["mode"], spacing=c["spacing"], reduction=c["red"])
    if c["loss"] == "grad_loss":
        out = L.grad_loss(u, p=2, q=1, **kw)
    else:
        out = getattr(L, c["loss"])(u, **kw)
    (gr,) = torch.autograd.grad(out, u, allow_unused=True)
    if gr is None:
        raise RuntimeError("autograd returned None")
    return {"grad": proto.flat(gr[0, c["ch"]])}


def line_reg(c):
    g = O.tgen(c["seed"])
    u = torch.randint(-8, 9, (1, c["D"], *c["shape"]), generator=g).double() / 8
    numel = 1
    for n in c["shape"]:
        numel *= n
    scale = Fraction(1, 2) if c["loss"] == "diffusion_loss" else Fraction(1)      # diffusion_loss @1336-1337 `.mul_(0.5)`
    if c["red"] == "mean":
        scale = scale / numel                                                    # reduce_loss mean over (N=1, 1, …, X)
    terms = _reg_terms(c)
    sz = " ".join(str(n) for n in reversed(c["shape"]))
    tt = " ".join(f"{proto.fr(w)} {hx(k)}" for w, k in terms)
    return (f"grad.quadreg {c['D']} {c['mode']} {sz} {V(c['spacing'])} {len(terms)} {tt} {proto.fr(scale)} "
            f"{V(u[0, c['ch']])}")


# =============================================================================== (g) compose_flows, one expv step
def gen_flow(rng, tier):
    for api in ("compose_flows", "expv1"):
        for ac in (True, False):
            for D in (2, 3):
                for _ in range(_n(tier, 2 if D == 2 else 1, 14 if D == 2 else 5)):
                    shape = [rng.randint(3, 5) for _ in range(D)] if D == 2 else [rng.randint(2, 3) for _ in range(D)]
                    yield {"api": api, "ac": ac, "D": D, "shape": shape, "seed": _seed(rng),
                           "pad": rng.choice(["border", "zeros"]) if api == "expv1" else "border",
                           "scale": rng.choice([1.0, 0.5, -1.0])}


def _flow_build(c):
    g = O.tgen(c["seed"])
    shape, ac, D = tuple(c["shape"]), c["ac"], c["D"]
    x, flow = O._grid_and_flow(g, shape, ac)            # x + flow: non-kink positions inside the hull
    u = flow.movedim(-1, 0).unsqueeze(0).contiguous()
    v = torch.randint(-8, 9, (1, D, *shape), generator=g).double() / 16
    cot = torch.randint(-4, 5, (1, D, *shape), generator=g).double() / 4
    return u, v, cot


def impl_flow(c):
    u, v, cot = _flow_build(c)
    if c["api"] == "compose_flows":
        u = u.clone().requires_grad_(True)
        v = v.clone().requires_grad_(True)
        out = U.compose_flows(u, v, align_corners=c["ac"])
        gu, gv = torch.autograd.grad(out, [u, v], grad_outputs=cot, allow_unused=True)
        if gu is None or gv is None:
            raise RuntimeError("autograd returned None")
        return {"grad": proto.flat(gu) + proto.flat(gv)}
    # expv(steps=1): disp = flow·(scale/2); one step. `u` is the displacement whose positions are non-kink.
    flow = (u * (2.0 / c["scale"])).clone().requires_grad_(True)
    out = U.expv(flow, scale=c["scale"], steps=1, padding=c["pad"], align_corners=c["ac"])
    return {"grad": _grad(out, cot, flow), "factor": c["scale"] / 2}


def line_flow(c):
    u, v, cot = _flow_build(c)
    D = c["D"]
    sz = " ".join(str(n) for n in reversed(c["shape"]))
    if c["api"] == "compose_flows":
        return f"grad.compose {D} {1 if c['ac'] else 0} {sz} {V(u)} {V(v)} {V(cot)}"
    # chain rule through `disp = flow * (scale / 2**steps)` (expv @365): the cotangent of disp is scaled by scale/2
    flow = u * (2.0 / c["scale"])
    disp = flow * (c["scale"] / 2)
    return f"grad.expvstep {D} {1 if c['ac'] else 0} {c['pad']} {sz} {V(disp)} {V(cot * (c['scale'] / 2))}"


# =============================================================================== (h) linear transforms w.r.t. parameters
def gen_linear(rng, tier):
    for kind in ("rot2", "scale_translate"):
        for _ in range(_n(tier, 6, 60)):
            D = 2 if kind == "rot2" else rng.choice([2, 3])
            yield {"kind": kind, "D": D, "seed": _seed(rng), "npts": rng.randint(1, 5)}


def _lin_build(c):
    g = O.tgen(c["seed"])
    D = c["D"]
    grid = Grid(size=[5 + i for i in range(D)])
    x = torch.rand(1, c["npts"], D, generator=g, dtype=F64) * 1.6 - 0.8
    cot = torch.rand(1, c["npts"], D, generator=g, dtype=F64) * 2 - 1
    if c["kind"] == "rot2":
        t = S.EulerRotation(grid).double()
        with torch.no_grad():
            t.params.copy_(torch.rand(1, 1, generator=g, dtype=F64) * 1.2 - 0.6)
    else:
        t = S.SequentialTransform(S.AnisotropicScaling(grid), S.Translation(grid)).double()
        with torch.no_grad():
            t[0].params.copy_(1 + torch.rand(1, D, generator=g, dtype=F64) * 0.8 - 0.4)
            t[1].params.copy_(torch.rand(1, D, generator=g, dtype=F64) * 0.4 - 0.2)
    return t, x, cot


def impl_linear(c):
    t, x, cot = _lin_build(c)
    out = t(x)
    ps = list(t.parameters())
    gs = torch.autograd.grad(out, ps, grad_outputs=cot, allow_unused=True)
    if any(gr is None for gr in gs):
        raise RuntimeError("autograd returned None for a parameter")
    return {"grad": [v for gr in gs for v in proto.flat(gr)]}


def line_linear(c):
    t, x, cot = _lin_build(c)
    n = c["npts"]
    if c["kind"] == "rot2":
        p = float(t.params.detach()[0, 0])
        th = math.pi * math.tanh(p)                      # EulerRotation.angles @188-193
        dth = math.pi * (1 - math.tanh(p) ** 2)
        return f"grad.rot2 {proto.fr(math.cos(th))} {proto.fr(math.sin(th))} {proto.fr(dth)} {n} {V(x)} {V(cot)}"
    p = t[0].params.detach()[0]
    th = torch.tanh(p - 1)
    ds = torch.exp(th) * (1 - th * th)                   # AnisotropicScaling.scales @463-468: σ = exp(tanh(p − 1))
    return f"grad.scale_translate {c['D']} {V(ds)} {n} {V(x)} {V(cot)}"


# =============================================================================== streams
STREAMS = [
    Stream("pointwise", gen_pointwise, impl_pointwise, line_pointwise, _cmp(RTOL64),
           doc="ssd/mse/l1/mae/huber/smooth_l1 × reduction none/mean/sum × mask None/(N,C)/(N,1)/(1,C)/(1,1) × norm; "
               "autograd d/dsource vs gradPointwise"),
    Stream("overlap", gen_overlap, impl_overlap, line_overlap, _cmp(RTOL32),
           doc="dice_score/dice_loss/tversky_index × reduction × weight; d/dprediction vs dDiceAt/dTverskyAt (float32 op)"),
    Stream("ncc", gen_ncc, impl_ncc, line_ncc, _cmp(RTOL32), doc="ncc_loss × reduction × eps; d/dsource vs dNccItem (float32 op)"),
    Stream("sample", gen_sample, impl_sample, line_sample, _cmp(RTOL64),
           doc="grid_sample / sample_image / warp_image(flow) / ImageBatch.sample(coords) × d/ddata, d/dcoords × "
               "zeros/border × align_corners × D=2,3; vs gradSampleValue / gradSampleCoord"),
    Stream("bspline", gen_bspline, impl_bspline, line_bspline, cmp_bspline,
           doc="evaluate_cubic_bspline (both algorithms, strides 1-3, cropped shape) / subdivide_cubic_bspline / "
               "FreeFormDeformation.update().u; d/dcoefficients vs transposed evalCoef/subdivCoef/impulse matrices"),
    Stream("fd", gen_fd, impl_fd, line_fd, _cmp(RTOL64),
           doc="spatial_derivatives / flow_derivatives, 6 finite-difference modes × D=2,3 × first/second/mixed keys × spacing; "
               "d/ddata vs gradLinear (impulse response of the sdStep chain)"),
    Stream("reg", gen_reg, impl_reg, line_reg, _cmp(RTOL64),
           doc="bending_loss / diffusion_loss / grad_loss(p=2,q=1) × mode × D × reduction; d/du vs gradQuadReg"),
    Stream("flow", gen_flow, impl_flow, line_flow, _cmp(RTOL64),
           doc="compose_flows d/du, d/dv and expv(steps=1, scale) d/dflow vs gradComposeU/V, gradExpvStep"),
    Stream("linear", gen_linear, impl_linear, line_linear, _cmp(RTOL64),
           doc="EulerRotation (2-D) and AnisotropicScaling∘Translation applied to points, d/dparams vs gradRot2/gradScale/"
               "gradTranslate given cos, sin, dθ/dp, dσ/dp"),
]


# =============================================================================== oracles
def _oracle_gen(prefixes):
    def gen(rng, tier):
        names = [n for n in sorted(O.OPS) if any(n.startswith(p) for p in prefixes)]
        yield from O.gen_cases(rng, tier, names)
    return gen


ORACLES = [
    Oracle("fd-losses", _oracle_gen(["losses."]), O.check,
           doc="autograd vs central differences: every similarity loss and every regulariser"),
    Oracle("fd-core", _oracle_gen(["core.", "data.", "modules."]), O.check,
           doc="autograd vs central differences: sampling/warping w.r.t. image and coordinates, compose_flows, expv (1,3,5 steps, "
               "inverse/scale), logv, compose_svfs, jacobian_det/curl/divergence, spatial/flow derivatives (all modes), "
               "B-spline evaluation/subdivision, affine_flow, euler_rotation_matrix, transform_points"),
    Oracle("fd-spatial", _oracle_gen(["spatial."]), O.check,
           doc="autograd vs central differences: every transform class of deepali.spatial — forward, inverse().forward, disp(), "
               "disp(other grid), points(), tensor() w.r.t. nn.Parameter parameters and points; ImageTransformer w.r.t. "
               "transform parameters and image; PointSetTransformer"),
]


def search_cases(disagreements):
    """map disagreeing correspondence cases to the oracle operations that exercise the same deepali function."""
    table = {
        "pointwise": lambda c: ["losses." + c["loss"]],
        "overlap": lambda c: ["losses." + c["loss"]],
        "ncc": lambda c: ["losses.ncc_loss"],
        "sample": lambda c: {"grid_sample": ["core.grid_sample"], "sample_image": ["core.sample_image"],
                             "warp_image": ["core.warp_image"], "ImageBatch.sample": ["data.ImageBatch.sample"]}[c["api"]],
        "bspline": lambda c: {"evaluate": ["core.evaluate_cubic_bspline"], "subdivide": ["core.subdivide_cubic_bspline"],
                              "ffd_u": ["spatial.FreeFormDeformation.disp"]}[c["api"]],
        "fd": lambda c: ["core.flow_derivatives", f"core.spatial_derivatives[{c['mode']}]"],
        "reg": lambda c: ["losses." + c["loss"]],
        "flow": lambda c: ["core.compose_flows"] if c["api"] == "compose_flows" else ["core.expv_steps1"],
        "linear": lambda c: ["spatial.EulerRotation.forward", "spatial.AnisotropicScaling.forward", "spatial.Translation.forward"],
    }
    extra = {o.name: [] for o in ORACLES}
    seen = set()
    rng = random.Random(12345)
    for d in disagreements:
        for name in table[d["stream"]](d["case"]):
            if name in seen or name not in O.OPS:
                continue
            seen.add(name)
            for oc in O.gen_cases(rng, "search", [name]):
                if d["case"].get("mode") and name.startswith("losses."):
                    oc["mode"] = d["case"]["mode"]
                if d["case"].get("red") and name.startswith("losses."):
                    oc["reduction"] = d["case"]["red"]
                if d["case"].get("pad"):
                    oc["padding"] = d["case"]["pad"]
                key = "fd-losses" if name.startswith("losses.") else ("fd-spatial" if name.startswith("spatial.") else "fd-core")
                extra[key].append(oc)
    return extra
