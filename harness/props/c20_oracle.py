"""C20 exploration oracle — the property as its text states it, on the implementation only:
`torch.autograd.grad` of a scalarised output vs. central finite differences, at generic non-kink inputs,
for every differentiable public operation the property lists.

An *operation builder* takes a JSON-able case and returns `(leaves, f)`: `leaves` maps a stable input
name to a leaf tensor with `requires_grad=True` (module parameters are the module's own `nn.Parameter`s),
`f()` recomputes the output tensor from the *current* leaf values (fresh graph on each call).

Failure keys (stable, specific):
    C20:no-grad:<op>:<leaf>       autograd returns None / output not attached to the leaf
    C20:nonfinite:<op>:<leaf>     gradient (or output) contains inf/nan
    C20:zero-grad:<op>:<leaf>     autograd gradient identically zero while the function does depend on the leaf
    C20:fd-mismatch:<op>:<leaf>   autograd differs from the central-difference estimate
"""
from __future__ import annotations

import math
import random
from typing import Callable, Dict, List, Optional, Tuple

import torch
from torch import Tensor

import deepali.spatial as S
from deepali.core import functional as U
from deepali.core.grid import Grid
from deepali.data import ImageBatch
from deepali.losses import functional as L
from deepali.modules import SampleImage

F64 = torch.float64
Builder = Callable[[dict], Tuple[Dict[str, Tensor], Callable[[], Tensor]]]
OPS: Dict[str, Builder] = {}
# per-op overrides: finite-difference step and relative tolerance (default: float64, h = 1e-6, rtol 2e-5)
OP_STEP: Dict[str, Tuple[float, float, float]] = {}


REQUIRE_PARAM_GRADS: set = set()
# operations with kinks other than the transform stacks (one-sided slope test, loose tolerance at the float32 step)
KINKY_OPS: set = set()


def op(name: str, step: Optional[Tuple[float, float]] = None):
    def deco(fn: Builder) -> Builder:
        OPS[name] = fn
        if step:
            OP_STEP[name] = step
        return fn
    return deco


# ----------------------------------------------------------------------------- input generators
def tgen(seed: int) -> torch.Generator:
    return torch.Generator().manual_seed(int(seed) & 0x7FFFFFFF)


def randn(gen, *shape, scale=1.0) -> Tensor:
    return torch.randn(*shape, generator=gen, dtype=F64) * scale


def rand(gen, *shape, lo=0.0, hi=1.0) -> Tensor:
    return torch.rand(*shape, generator=gen, dtype=F64) * (hi - lo) + lo


def leaf(t: Tensor) -> Tensor:
    return t.detach().clone().requires_grad_(True)


def spatial_shape(case: dict) -> Tuple[int, ...]:
    """tensor-order spatial shape (…, Y, X) of a small grid."""
    return tuple(case["shape"])


def nonkink_coords(gen, shape_xyz: List[int], npts: int, ac: bool, margin: float = 0.1,
                   lo_idx: float = 0.0, hi_shrink: float = 0.0) -> Tensor:
    """normalised coordinates (npts, D) whose continuous sample index is inside the hull [0, n-1] and at
    distance >= `margin` samples from every integer (interpolation kinks) on every axis."""
    D = len(shape_xyz)
    cols = []
    for a in range(D):
        n = shape_xyz[a]
        cell = torch.randint(0, n - 1, (npts,), generator=gen).double()
        frac = rand(gen, npts, lo=margin, hi=1 - margin)
        idx = cell + frac                                   # in (0, n-1), not within `margin` of an integer
        if ac:
            x = idx * 2 / (n - 1) - 1
        else:
            x = (idx * 2 + 1) / n - 1
        cols.append(x)
    return torch.stack(cols, dim=-1)


def small_flow(gen, N: int, shape: Tuple[int, ...], amp: float = 0.15) -> Tensor:
    D = len(shape)
    return randn(gen, N, D, *shape, scale=amp)


def mkgrid(case: dict, key: str = "grid") -> Grid:
    spec = case[key]
    return Grid(size=spec["size"], spacing=spec.get("spacing"), center=spec.get("center"),
                align_corners=spec.get("align_corners", True))


# ----------------------------------------------------------------------------- the check itself
def _scalar(out, W: List[Tensor]) -> Tensor:
    outs = out if isinstance(out, (list, tuple)) else [out]
    s = None
    for o, w in zip(outs, W):
        o = o.as_subclass(Tensor) if isinstance(o, Tensor) else o
        v = (o.to(F64) * w).sum()
        s = v if s is None else s + v
    return s


def check_op(name: str, case: dict) -> Optional[Tuple[str, str]]:
    torch.manual_seed(case.get("seed", 0))
    leaves, f = OPS[name](case)
    gen = tgen(case.get("seed", 0) + 7919)
    out = f()
    outs = out if isinstance(out, (list, tuple)) else [out]
    W = [torch.randn(o.shape, generator=gen, dtype=F64) for o in outs]
    for o in outs:
        if not torch.isfinite(o.detach()).all():
            return (f"C20:nonfinite:{name}:output", f"{name}: output contains non-finite values")
    s = _scalar(out, W)
    names = list(leaves)
    # a derivative is the derivative of a FUNCTION of the inputs: evaluating the operation again with unchanged inputs must
    # give the same value (an operation that writes into a tensor it was handed changes its own later results, and every
    # finite difference — and every optimisation step — then compares different functions)
    with torch.no_grad():
        again = [float(_scalar(f(), W)) for _ in range(2)]
    if again[0] != again[1] and not (again[0] != again[0] and again[1] != again[1]):
        return (f"C20:irreproducible:{name}", f"{name}: two evaluations with unchanged inputs give {again[0]:.10g} and {again[1]:.10g}")
    if not s.requires_grad:
        return (f"C20:no-grad:{name}:{names[0]}", f"{name}: output does not require grad (detached from all inputs)")
    grads = torch.autograd.grad(s, [leaves[n] for n in names], allow_unused=True)
    if name in REQUIRE_PARAM_GRADS:
        # F-20a (repaired by 1b0b194): the displacement field of a composite transform on a grid of another domain
        # depends on every member's parameters; a gradient that is None / identically zero for ALL of them is a
        # violation whatever the finite differences say (they are checked below in addition)
        pg = [g for n, g in zip(names, grads) if n.endswith("params")]
        if pg and all(g is None or float(g.abs().max()) == 0.0 for g in pg):
            return (f"C20:zero-grad:{name}:params",
                    f"{name}: autograd gradient w.r.t. every parameter is None / identically zero")
    # float64 where the operation preserves it; float32 step size / tolerance where it casts (property
    # quantifier).  An operation whose OUTPUT is float32 is differenced with the float32 step only.  An
    # operation with float64 output may still cast internally (grid_sample casts the image to the dtype of
    # the float32 grid coordinates): the smallest step whose central differences at h and h/4 agree is used,
    # with the tolerance that belongs to that step.  Transform stacks sample at transformed GRID NODES, which
    # sit close to interpolation kinks; the float32 step then averages one-sided slopes, so its tolerance is
    # loose there (a detached / rounded path changes the gradient by O(1), far above it).
    casts = any(o.dtype != F64 for o in outs)
    if not casts:
        # an operation may compute in float32 internally (`source.float()`) and still return float64 (a float64 mask
        # promotes the product): then the value is blind to the float64 bits of its inputs, and central differences
        # with a float64-sized step are rounding noise. Detected directly: rounding every float64 leaf to float32
        # leaves the value bit-identical.
        with torch.no_grad():
            base = float(_scalar(f(), W))
            saved = {n: x.detach().clone() for n, x in leaves.items() if x.dtype == F64}
            for n, v0 in saved.items():
                leaves[n].copy_(v0.float().to(F64))
            try:
                rounded = float(_scalar(f(), W))
            finally:
                for n, v0 in saved.items():
                    leaves[n].copy_(v0)
        if saved and any(bool((v0.float().to(F64) != v0).any()) for v0 in saved.values()) and rounded == base:
            casts = True
    # levels: (step h, self-consistency tolerance between the differences at h and h/4, comparison tolerance)
    kinky = name.startswith("spatial.") or name in KINKY_OPS
    coarse = (4e-3, 5e-3, 5e-2 if kinky else 1.5e-2)
    mid = (1e-5, 2e-3, 3e-2 if kinky else 6e-3)
    # transform stacks interpolate with float32 grid coordinates (Grid.coords() is float32, grid_sample casts the field to
    # it) although parameters and result are float64: the float64 step 1e-6 then differences rounding noise of relative
    # size 1e-7 / 1e-6 (measured: central differences of one direction wander by 2 % between h = 1e-5, 1e-6, 1e-7), and
    # two noisy estimates can agree by chance. Such operations start at the mid step.
    levels = [OP_STEP[name]] if name in OP_STEP else (
        [coarse] if casts else ([mid, coarse] if kinky else [(1e-6, 2e-5, 6e-5), coarse]))
    for n, x, g in zip(names, [leaves[n] for n in names], grads):
        # finite differences along two dense random directions and three single coordinates
        dirs: List[Tensor] = []
        for _ in range(2):
            dirs.append(torch.randn(x.shape, generator=gen, dtype=F64).to(x.dtype))
        flat_n = x.numel()
        for _ in range(min(3, flat_n)):
            e = torch.zeros(flat_n, dtype=x.dtype)
            e[int(torch.randint(0, flat_n, (1,), generator=gen))] = 1.0
            dirs.append(e.reshape(x.shape))
        fds, ads, tols = [], [], []
        for v in dirs:
            def at(step: float) -> float:
                with torch.no_grad():
                    x.add_(v, alpha=step)
                try:
                    with torch.no_grad():
                        return float(_scalar(f(), W))
                finally:
                    with torch.no_grad():
                        x.sub_(v, alpha=step)
            for h, rtol, ctol in levels:
                if h < 1e-4 and at(1e-9) == at(-1e-9):
                    continue      # quantised: the operation computes in float32 (or does not depend on v)
                fd1 = (at(h) - at(-h)) / (2 * h)
                fd2 = (at(h / 4) - at(-h / 4)) / (h / 2)
                sc = max(1.0, abs(fd1), abs(fd2))
                if h < 1e-4 and fd1 == 0.0 and fd2 == 0.0:
                    continue      # below the resolution of a float32 accumulation: decide at the float32 step
                if kinky and abs(fd1 - fd2) <= rtol * sc:
                    # a point that sits ON an interpolation kink (lattice points mapped next to lattice points by a
                    # near-identity stack) gives symmetric differences that agree for every h - the average of the two
                    # one-sided slopes - while autograd returns one of them: compare the one-sided slopes directly
                    f0 = at(0.0)
                    sp, sm = (at(h / 4) - f0) / (h / 4), (f0 - at(-h / 4)) / (h / 4)
                    if abs(sp - sm) > 0.5 * ctol * sc:
                        continue                                 # kink inside the stencil: inconclusive at this step
                if abs(fd1 - fd2) <= rtol * sc:
                    fds.append((16 * fd2 - fd1) / 15)          # Richardson: O(h^4)
                    tols.append((h, ctol))
                    ads.append(None if g is None else float((g.to(F64) * v.to(F64)).sum()))
                    break
            # else: a kink (or rounding noise at every step) inside the stencil: inconclusive direction
        # parameters of one module are reported collectively (stable key whichever parameter is hit first)
        kn = "params" if n.endswith("params") else n
        if g is None:
            if any(abs(v) > 1e-4 for v in fds):
                return (f"C20:no-grad:{name}:{kn}",
                        f"{name}: autograd returns None for '{n}' but the output depends on it (fd={fds[:3]})")
            continue
        if not torch.isfinite(g).all():
            return (f"C20:nonfinite:{name}:{n}", f"{name}: gradient w.r.t. '{n}' contains non-finite values")
        if float(g.abs().max()) == 0.0 and any(abs(v) > 1e-4 for v in fds):
            return (f"C20:zero-grad:{name}:{kn}",
                    f"{name}: autograd gradient w.r.t. '{n}' is identically zero, central differences give {fds[:3]}")
        for a_, b_, (h, ctol) in zip(ads, fds, tols):
            if abs(a_ - b_) > ctol * max(1.0, abs(a_), abs(b_)):
                return (f"C20:fd-mismatch:{name}:{n}",
                        f"{name}: d/d{n} autograd {a_:.10g} vs central difference {b_:.10g} (h={h:g})")
    return None


# ============================================================================= operations
def _img(gen, case, N=1, C=1) -> Tensor:
    return randn(gen, N, C, *spatial_shape(case))


# ---- similarity losses (w.r.t. source and target)
def _pair(case):
    gen = tgen(case["seed"])
    N, C = case.get("N", 2), case.get("C", 1)
    a, b = leaf(_img(gen, case, N, C)), leaf(_img(gen, case, N, C) + 0.3)
    mask = None
    if case.get("mask"):
        mask = rand(gen, N, 1, *spatial_shape(case), lo=0.2, hi=1.0)
    return gen, a, b, mask


def _pairwise(fn_name: str, **kw):
    def build(case):
        gen, a, b, mask = _pair(case)
        fn = getattr(L, fn_name)
        red = case.get("reduction", "mean")
        kws = dict(kw)
        def f():
            return fn(a, b, mask=mask, reduction=red, **kws)
        return {"source": a, "target": b}, f
    return build


for _n in ["ssd_loss", "mse_loss", "l1_loss", "mae_loss"]:
    op(f"losses.{_n}")(_pairwise(_n))
def _pairwise_norm(fn_name: str, how: str, **kw):
    """the normalisation factor given as a TENSOR: a learnable scalar (0-d or one element), or the documented recipe
    max_difference(source, target)^2 computed from the images that are being optimised"""
    def build(case):
        from deepali.core.math import max_difference
        gen, a, b, mask = _pair(case)
        fn = getattr(L, fn_name)
        red = case.get("reduction", "mean")
        kws = dict(kw)
        if how == "recipe":
            return {"source": a, "target": b}, lambda: fn(a, b, mask=mask, norm=max_difference(a, b).square(), reduction=red, **kws)
        nrm = leaf(torch.tensor(2.5 if how == "scalar0d" else [2.5], dtype=F64))
        return {"source": a, "target": b, "norm": nrm}, lambda: fn(a, b, mask=mask, norm=nrm, reduction=red, **kws)
    return build


for _n in ["ssd_loss", "mse_loss", "mae_loss"]:
    for _how in ("scalar0d", "scalar1", "recipe"):
        op(f"losses.{_n}[norm={_how}]")(_pairwise_norm(_n, _how))
op("losses.huber_loss[norm=scalar0d]")(_pairwise_norm("huber_loss", "scalar0d", delta=0.7))
op("losses.huber_loss")(_pairwise("huber_loss", delta=0.7))
op("losses.smooth_l1_loss")(_pairwise("smooth_l1_loss", beta=0.6))


@op("losses.ncc_loss")
def _ncc(case):
    gen, a, b, _ = _pair(case)
    red = case.get("reduction", "mean")
    return {"source": a, "target": b}, lambda: L.ncc_loss(a, b, reduction=red)


@op("losses.lcc_loss")
def _lcc(case):
    gen, a, b, mask = _pair(case)
    red = case.get("reduction", "mean")
    return {"source": a, "target": b}, lambda: L.lcc_loss(a, b, mask=mask, kernel_size=3, reduction=red)


@op("losses.wlcc_loss")
def _wlcc(case):
    gen, a, b, mask = _pair(case)
    red = case.get("reduction", "mean")
    return {"source": a, "target": b}, lambda: L.wlcc_loss(a, b, mask=mask, kernel_size=3, reduction=red)


@op("losses.mi_loss")
def _mi(case):
    gen, a, b, mask = _pair(case)
    return {"source": a, "target": b}, lambda: L.mi_loss(a, b, mask=mask, vmin=-4.0, vmax=4.0, num_bins=8)


@op("losses.nmi_loss")
def _nmi(case):
    gen, a, b, mask = _pair(case)
    return {"source": a, "target": b}, lambda: L.nmi_loss(a, b, mask=mask, vmin=-4.0, vmax=4.0, num_bins=8)


def _seg(case):
    gen = tgen(case["seed"])
    N, C = case.get("N", 2), case.get("C", 2)
    p = leaf(rand(gen, N, C, *spatial_shape(case), lo=0.05, hi=0.95))
    y = (rand(gen, N, C, *spatial_shape(case)) > 0.5).double()
    w = rand(gen, N, 1, *spatial_shape(case), lo=0.2, hi=1.0) if case.get("mask") else None
    return gen, p, y, w


@op("losses.dice_score")
def _dice_score(case):
    gen, p, y, w = _seg(case)
    red = case.get("reduction", "mean")
    return {"input": p}, lambda: L.dice_score(p, y, weight=w, epsilon=1e-3, reduction=red)


@op("losses.dice_loss")
def _dice_loss(case):
    gen, p, y, w = _seg(case)
    red = case.get("reduction", "mean")
    return {"input": p}, lambda: L.dice_loss(p, y, weight=w, epsilon=1e-3, reduction=red)


@op("losses.tversky_index")
def _tversky(case):
    gen, p, y, w = _seg(case)
    red = case.get("reduction", "mean")
    return {"input": p}, lambda: L.tversky_index(p, y, weight=w, alpha=0.3, beta=0.7, epsilon=1e-3,
                                                 normalize=False, binarize=False, reduction=red)


@op("losses.tversky_index_with_logits")
def _tversky_logits(case):
    gen, p, y, w = _seg(case)
    z = leaf(torch.logit(p.detach()))
    red = case.get("reduction", "mean")
    return {"logits": z}, lambda: L.tversky_index_with_logits(z, y, weight=w, alpha=0.3, beta=0.7, reduction=red)


def _tversky_loss(gamma, logits=False):
    def build(case):
        gen, p, y, w = _seg(case)
        red = case.get("reduction", "mean")
        if logits:
            z = leaf(torch.logit(p.detach()))
            return {"logits": z}, lambda: L.tversky_loss_with_logits(z, y, weight=w, alpha=0.3, beta=0.7, gamma=gamma, reduction=red)
        return {"input": p}, lambda: L.tversky_loss(p, y, weight=w, alpha=0.3, beta=0.7, epsilon=1e-3, gamma=gamma,
                                                    normalize=False, binarize=False, reduction=red)
    return build


op("losses.tversky_loss")(_tversky_loss(None))
op("losses.tversky_loss[gamma=1.5]")(_tversky_loss(1.5))
op("losses.tversky_loss_with_logits[gamma=2]")(_tversky_loss(2.0, logits=True))


@op("losses.balanced_binary_cross_entropy_with_logits")
def _bbce(case):
    gen, p, y, w = _seg(dict(case, C=1))
    z = leaf(torch.logit(p.detach()))
    red = case.get("reduction", "mean")
    return {"logits": z}, lambda: L.balanced_binary_cross_entropy_with_logits(z, y, reduction=red)


@op("losses.focal_loss_with_logits")
def _focal(case):
    gen, p, y, w = _seg(case)
    z = leaf(torch.logit(p.detach()))
    red = case.get("reduction", "mean")
    return {"logits": z}, lambda: L.focal_loss_with_logits(z, y, reduction=red)


@op("losses.kld_loss")
def _kld(case):
    gen = tgen(case["seed"])
    m, lv = leaf(randn(gen, 3, 5)), leaf(randn(gen, 3, 5, scale=0.3))
    return {"mean": m, "logvar": lv}, lambda: L.kld_loss(m, lv, reduction=case.get("reduction", "mean"))


# ---- regularisers (w.r.t. the vector field)
def _field(case, amp=0.5):
    gen = tgen(case["seed"])
    u = leaf(small_flow(gen, case.get("N", 1), spatial_shape(case), amp))
    return gen, u


def _reg(fn_name, **kw):
    def build(case):
        gen, u = _field(case)
        fn = getattr(L, fn_name)
        kws = dict(kw)
        if case.get("mode"):
            kws["mode"] = case["mode"]
        if case.get("spacing"):
            kws["spacing"] = case["spacing"]
        red = case.get("reduction", "mean")
        return {"u": u}, lambda: fn(u, reduction=red, **kws)
    return build


op("losses.grad_loss")(_reg("grad_loss", p=2, q=1))
op("losses.grad_loss_p2_q05")(_reg("grad_loss", p=2, q=0.5))
op("losses.bending_loss")(_reg("bending_loss"))
op("losses.curvature_loss")(_reg("curvature_loss"))
op("losses.diffusion_loss")(_reg("diffusion_loss"))
op("losses.divergence_loss")(_reg("divergence_loss"))
op("losses.total_variation_loss")(_reg("total_variation_loss"))


@op("losses.elasticity_loss")
def _elast(case):
    gen, u = _field(case)
    red = case.get("reduction", "mean")
    kws = {"mode": case["mode"]} if case.get("mode") else {}
    return {"u": u}, lambda: L.elasticity_loss(u, material_name="brain", reduction=red, **kws) \
        if False else L.elasticity_loss(u, first_parameter=0.8, second_parameter=0.4, reduction=red, **kws)


LAME_PAIRS = {
    "material=rubber": dict(material_name="rubber"),
    "lambda,mu": dict(first_parameter=0.8, second_parameter=0.4),
    "lambda,nu": dict(first_parameter=0.8, poissons_ratio=0.3),
    "lambda,E": dict(first_parameter=0.8, youngs_modulus=1.1),
    "G,nu": dict(shear_modulus=0.4, poissons_ratio=0.3),
    "G,E": dict(shear_modulus=0.4, youngs_modulus=1.1),
    "nu,E": dict(poissons_ratio=0.3, youngs_modulus=1.1),
}


def _elast_pair(pair):
    def build(case):
        gen, u = _field(case)
        red = case.get("reduction", "mean")
        kws = {"mode": case["mode"]} if case.get("mode") else {}
        kws.update(LAME_PAIRS[pair])
        return {"u": u}, lambda: L.elasticity_loss(u, reduction=red, **kws)
    return build


for _p in LAME_PAIRS:
    op(f"losses.elasticity_loss[{_p}]")(_elast_pair(_p))


@op("losses.elasticity_loss[bspline]")
def _elast_bspline(case):
    gen = tgen(case["seed"])
    shape = tuple(max(5, n) for n in spatial_shape(case))
    c = leaf(randn(gen, 1, len(shape), *shape, scale=0.5))
    red = case.get("reduction", "mean")
    return {"data": c}, lambda: L.elasticity_loss(c, first_parameter=0.8, second_parameter=0.4, mode="bspline",
                                                  stride=2, reduction=red)


@op("losses.Elasticity(module)[bspline,stride]")
def _elast_module(case):
    from deepali.losses import Elasticity
    gen = tgen(case["seed"])
    shape = tuple(max(5, n) for n in spatial_shape(case))
    c = leaf(randn(gen, 1, len(shape), *shape, scale=0.5))
    m = Elasticity(first_parameter=0.8, second_parameter=0.4, mode="bspline", stride=2)
    return {"data": c}, lambda: m(c)


@op("losses.NMI(module)")
def _nmi_module(case):
    from deepali.losses import NMI
    gen, a, b, mask = _pair(case)
    m = NMI(vmin=-4.0, vmax=4.0, num_bins=8)
    return {"source": a, "target": b}, lambda: m(a, b, mask=mask)


@op("losses.bspline_bending_loss")
def _bsbend(case):
    gen = tgen(case["seed"])
    shape = tuple(max(5, n) for n in spatial_shape(case))
    c = leaf(randn(gen, 1, len(shape), *shape, scale=0.5))
    red = case.get("reduction", "mean")
    return {"data": c}, lambda: L.bspline_bending_loss(c, stride=2, reduction=red)


@op("losses.inverse_consistency_loss")
def _icl(case):
    gen = tgen(case["seed"])
    shape = spatial_shape(case)
    g = Grid(shape=shape)
    a = leaf(small_flow(gen, 1, shape, 0.08))
    b = leaf(small_flow(gen, 1, shape, 0.08))
    return {"forward": a, "inverse": b}, lambda: L.inverse_consistency_loss(a, b, grid=g)


# ---- sampling and warping (w.r.t. image and coordinates)
def _sampling_case(case, N=1, C=2):
    gen = tgen(case["seed"])
    shape = spatial_shape(case)
    ac = bool(case.get("ac", True))
    data = leaf(_img(gen, case, N, C))
    pts = nonkink_coords(gen, list(reversed(shape)), case.get("npts", 7), ac)
    return gen, shape, ac, data, pts


@op("core.grid_sample")
def _grid_sample(case):
    gen, shape, ac, data, pts = _sampling_case(case)
    D = len(shape)
    coords = leaf(pts.reshape((1,) + (1,) * (D - 1) + (-1, D)))
    pad = case.get("padding", "border")
    return {"data": data, "coords": coords}, lambda: U.grid_sample(data, coords, mode="linear", padding=pad, align_corners=ac)


@op("core.grid_sample[padding=scalar]")
def _grid_sample_const(case):
    # constant padding is emulated by subtract / sample / add; the image is an intermediate (non-leaf) tensor of the same
    # dtype as the coordinates, evaluated repeatedly by the finite differences: it must not be written to
    gen, shape, ac, data, pts = _sampling_case(case)
    D = len(shape)
    coords = leaf(pts.reshape((1,) + (1,) * (D - 1) + (-1, D)))
    img = data.detach().clone()
    return {"coords": coords}, lambda: U.grid_sample(img, coords, mode="linear", padding=0.25, align_corners=ac)


@op("core.sample_image")
def _sample_image(case):
    gen, shape, ac, data, pts = _sampling_case(case)
    coords = leaf(pts.unsqueeze(0))
    pad = case.get("padding", "border")
    return {"data": data, "coords": coords}, lambda: U.sample_image(data, coords, mode="linear", padding=pad, align_corners=ac)


def _grid_and_flow(gen, shape, ac, amp=0.25):
    """identity grid coordinates and a flow such that grid+flow stays >= 0.1 sample away from kinks."""
    D = len(shape)
    g = Grid(shape=shape, align_corners=ac)
    x = g.coords(dtype=F64)                                   # (..., X, D)
    npts = x[..., 0].numel()
    target = nonkink_coords(gen, list(reversed(shape)), npts, ac).reshape(x.shape)
    # keep displacements moderate: move every grid point to a non-kink position in a neighbouring cell
    flow = (target - x)
    return x, flow


@op("core.warp_image")
def _warp_image(case):
    gen, shape, ac, data, pts = _sampling_case(case)
    x, flow = _grid_and_flow(gen, shape, ac)
    fl = leaf(flow.unsqueeze(0))
    pad = case.get("padding", "border")
    return {"data": data, "flow": fl}, lambda: U.warp_image(data, x, flow=fl, mode="linear", padding=pad, align_corners=ac)


@op("data.ImageBatch.sample")
def _batch_sample(case):
    gen, shape, ac, data, pts = _sampling_case(case)
    g = Grid(shape=shape, align_corners=ac)
    coords = leaf(pts.unsqueeze(0))
    # the batch object itself is the leaf: DataTensor construction (`Tensor._make_subclass`) starts a new graph
    batch = ImageBatch(data.detach().clone(), g, requires_grad=True)
    def f():
        return batch.sample(coords, mode="linear", padding=case.get("padding", "border"))
    return {"data": batch, "coords": coords}, f


@op("data.ImageBatch.sample_grid")
def _batch_sample_grid(case):
    gen, shape, ac, data, pts = _sampling_case(case)
    g = Grid(shape=shape, align_corners=ac)
    sz = list(reversed(shape))
    g2 = Grid(size=[max(2, n - 1) for n in sz], spacing=[0.83] * len(sz), center=[0.21] * len(sz), align_corners=ac)
    g1 = Grid(size=sz, spacing=[1.0] * len(sz), align_corners=ac)
    batch = ImageBatch(data.detach().clone(), g1, requires_grad=True)
    def f():
        return batch.sample(g2, mode="linear", padding="border").tensor()
    return {"data": batch}, f


@op("modules.SampleImage")
def _sample_module(case):
    gen, shape, ac, data, pts = _sampling_case(case)
    sz = list(reversed(shape))
    g1 = Grid(size=sz, align_corners=ac)
    x = Grid(size=[max(2, n - 1) for n in sz], spacing=[0.83] * len(sz), center=[0.21] * len(sz), align_corners=ac)
    m = SampleImage(target=x, source=g1, sampling="linear", padding="border").double()
    coords = leaf(x.coords(dtype=F64).unsqueeze(0) * 0.9 + 0.013)
    return {"data": data, "coords": coords}, lambda: m(coords, data)


# ---- flows: compose, exponentiate, logarithm
@op("core.compose_flows")
def _compose(case):
    gen = tgen(case["seed"])
    shape, ac = spatial_shape(case), bool(case.get("ac", True))
    x, flow = _grid_and_flow(gen, shape, ac)
    D = len(shape)
    u = leaf(flow.movedim(-1, 0).unsqueeze(0))                 # (1, D, ..., X): x + u away from kinks
    v = leaf(small_flow(gen, 1, shape, 0.2))
    return {"u": u, "v": v}, lambda: U.compose_flows(u, v, align_corners=ac)


def _expv(steps):
    def build(case):
        gen = tgen(case["seed"])
        shape, ac = spatial_shape(case), bool(case.get("ac", True))
        v = leaf(small_flow(gen, 1, shape, 0.35))
        return {"flow": v}, lambda: U.expv(v, steps=steps, align_corners=ac)
    return build


op("core.expv_steps1")(_expv(1))
op("core.expv_steps3")(_expv(3))
op("core.expv_steps5")(_expv(5))


@op("core.expv_inverse_scale")
def _expv_inv(case):
    gen = tgen(case["seed"])
    shape, ac = spatial_shape(case), bool(case.get("ac", True))
    v = leaf(small_flow(gen, 1, shape, 0.35))
    return {"flow": v}, lambda: U.expv(v, scale=0.7, steps=2, inverse=True, align_corners=ac)


@op("core.logv")
def _logv(case):
    gen = tgen(case["seed"])
    shape, ac = spatial_shape(case), bool(case.get("ac", True))
    u = leaf(small_flow(gen, 1, shape, 0.1))
    return {"flow": u}, lambda: U.logv(u, num_iters=2, exp_steps=2, align_corners=ac)


@op("core.compose_svfs")
def _compose_svfs(case):
    gen = tgen(case["seed"])
    shape = spatial_shape(case)
    a, b = leaf(small_flow(gen, 1, shape, 0.2)), leaf(small_flow(gen, 1, shape, 0.2))
    return {"u": a, "v": b}, lambda: U.compose_svfs(a, b, bch_terms=2)


@op("core.jacobian_det")
def _jacdet(case):
    gen, u = _field(case, 0.2)
    return {"u": u}, lambda: U.jacobian_det(u)


@op("core.curl")
def _curl(case):
    gen, u = _field(case, 0.5)
    return {"u": u}, lambda: U.curl(u)


@op("core.divergence")
def _div(case):
    gen, u = _field(case, 0.5)
    return {"u": u}, lambda: U.divergence(u)


@op("core.affine_flow")
def _affine_flow(case):
    gen = tgen(case["seed"])
    shape = spatial_shape(case)
    D = len(shape)
    m = leaf(torch.eye(D, D + 1, dtype=F64).unsqueeze(0) + randn(gen, 1, D, D + 1, scale=0.1))
    x = Grid(shape=shape).coords(dtype=F64).unsqueeze(0)
    return {"matrix": m}, lambda: U.affine_flow(m, x)


@op("core.normalize_denormalize_flow")
def _normflow(case):
    gen, u = _field(case, 0.5)
    ac = bool(case.get("ac", True))
    return {"u": u}, lambda: [U.normalize_flow(u, align_corners=ac), U.denormalize_flow(u, align_corners=ac)]


# ---- spatial derivatives
def _sd(mode):
    def build(case):
        gen = tgen(case["seed"])
        data = leaf(_img(gen, case, 1, 2))
        D = len(spatial_shape(case))
        which = ["x", "y", "xx", "xy"] + (["z", "yz"] if D == 3 else [])
        sp = case.get("spacing") or None
        kw = dict(sigma=0.7) if mode == "gaussian" else {}
        def f():
            d = U.spatial_derivatives(data, which=which, mode=mode, spacing=sp, **kw)
            return [d[k] for k in which]
        return {"data": data}, f
    return build


for _m in ["forward", "backward", "central", "forward_central_backward", "prewitt", "sobel", "gaussian"]:
    op(f"core.spatial_derivatives[{_m}]")(_sd(_m))


@op("core.spatial_derivatives[bspline]")
def _sd_bs(case):
    gen = tgen(case["seed"])
    shape = tuple(max(5, n) for n in spatial_shape(case))
    data = leaf(randn(gen, 1, 2, *shape))
    which = ["x", "y", "xx", "xy"]
    def f():
        d = U.spatial_derivatives(data, which=which, mode="bspline", stride=2)
        return [d[k] for k in which]
    return {"data": data}, f


@op("core.flow_derivatives")
def _fdv(case):
    gen, u = _field(case, 0.5)
    D = u.shape[1]
    which = ["du/dx", "dv/dy", "du/dxy", "dv/dxx"] + (["dw/dz", "dw/dyz"] if D == 3 else [])
    def f():
        d = U.flow_derivatives(u, which=which, mode=case.get("mode") or "central")
        return [d[k] for k in which]
    return {"flow": u}, f


# ---- B-splines
@op("core.evaluate_cubic_bspline")
def _bs_eval(case):
    gen = tgen(case["seed"])
    shape = tuple(max(5, n) for n in spatial_shape(case))
    c = leaf(randn(gen, 1, 2, *shape))
    tr = bool(case.get("transpose", False))
    st = case.get("stride", 2)
    return {"data": c}, lambda: U.evaluate_cubic_bspline(c, stride=st, transpose=tr)


@op("core.subdivide_cubic_bspline")
def _bs_sub(case):
    gen = tgen(case["seed"])
    shape = tuple(max(5, n) for n in spatial_shape(case))
    c = leaf(randn(gen, 1, 2, *shape))
    return {"data": c}, lambda: U.subdivide_cubic_bspline(c)


# ---- spatial transforms: apply / invert w.r.t. parameters (parameters are nn.Parameter) and points
def _domain(case, ac=None) -> Grid:
    shape = spatial_shape(case)
    sz = list(reversed(shape))
    ac = bool(case.get("ac", True)) if ac is None else ac
    return Grid(size=sz, spacing=[1.0 + 0.25 * i for i in range(len(sz))], align_corners=ac)


def _points(gen, case, D, n=6) -> Tensor:
    return rand(gen, 1, n, D, lo=-0.7, hi=0.7)


def _init_params(t: torch.nn.Module, gen, scale: float) -> None:
    with torch.no_grad():
        for p in t.parameters():
            p.add_(torch.randn(p.shape, generator=gen, dtype=F64).to(p.dtype) * scale)


LINEAR_CLASSES = {
    "Translation": (lambda g: S.Translation(g), 0.2),
    "EulerRotation": (lambda g: S.EulerRotation(g), 0.2),
    "EulerRotation[order=XZX]": (lambda g: S.EulerRotation(g, order="XZX") if g.ndim == 3 else S.EulerRotation(g), 0.2),
    "QuaternionRotation": (lambda g: S.QuaternionRotation(g) if g.ndim == 3 else S.EulerRotation(g), 0.2),
    "IsotropicScaling": (lambda g: S.IsotropicScaling(g), 0.2),
    "AnisotropicScaling": (lambda g: S.AnisotropicScaling(g), 0.2),
    "Shearing": (lambda g: S.Shearing(g), 0.2),
    "HomogeneousTransform": (lambda g: S.HomogeneousTransform(g), 0.1),
    "RigidTransform": (lambda g: S.RigidTransform(g), 0.2),
    "RigidQuaternionTransform": (lambda g: S.RigidQuaternionTransform(g) if g.ndim == 3 else S.RigidTransform(g), 0.2),
    "SimilarityTransform": (lambda g: S.SimilarityTransform(g), 0.2),
    "AffineTransform": (lambda g: S.AffineTransform(g), 0.2),
    "FullAffineTransform": (lambda g: S.FullAffineTransform(g), 0.2),
}
NONRIGID_CLASSES = {
    "DisplacementFieldTransform": (lambda g: S.DisplacementFieldTransform(g), 0.08),
    "StationaryVelocityFieldTransform": (lambda g: S.StationaryVelocityFieldTransform(g, steps=3), 0.15),
    "FreeFormDeformation": (lambda g: S.FreeFormDeformation(g, stride=2), 0.15),
    "StationaryVelocityFreeFormDeformation": (lambda g: S.StationaryVelocityFreeFormDeformation(g, stride=2, steps=3), 0.2),
    "Sequential[Affine,FFD]": (lambda g: S.SequentialTransform(S.AffineTransform(g), S.FreeFormDeformation(g, stride=2)), 0.1),
    "Sequential[Rigid,SVF]": (lambda g: S.SequentialTransform(S.RigidTransform(g), S.StationaryVelocityFieldTransform(g, steps=2)), 0.1),
    "MultiLevel[FFD,FFD]": (lambda g: S.MultiLevelTransform(S.FreeFormDeformation(g, stride=4), S.FreeFormDeformation(g, stride=2)), 0.1),
}
ALL_CLASSES = dict(LINEAR_CLASSES)
ALL_CLASSES.update(NONRIGID_CLASSES)


def _make_transform(cname: str, case: dict):
    gen = tgen(case["seed"])
    # BSplineTransform requires grid.align_corners() == True (ValueError otherwise)
    g = _domain(case, ac=True if ("FFD" in cname or "FreeForm" in cname) else None)
    ctor, scale = ALL_CLASSES[cname]
    t = ctor(g).double()
    _init_params(t, gen, scale)
    return gen, g, t


def _param_leaves(t) -> Dict[str, Tensor]:
    return {("params" if n == "params" else n.replace("_transforms.", "")): p for n, p in t.named_parameters()}


def _forward_op(cname):
    def build(case):
        gen, g, t = _make_transform(cname, case)
        x = leaf(_points(gen, case, g.ndim))
        leaves = _param_leaves(t)
        leaves["points"] = x
        return leaves, lambda: t(x)
    return build


def _inverse_op(cname):
    def build(case):
        gen, g, t = _make_transform(cname, case)
        ti = t.inverse()                     # link=False: an independent copy with its own parameters
        x = leaf(_points(gen, case, g.ndim))
        leaves = _param_leaves(ti)
        leaves["points"] = x
        return leaves, lambda: ti(x)
    return build


def _points_op(cname):
    def build(case):
        gen, g, t = _make_transform(cname, case)
        x = leaf(_points(gen, case, g.ndim) * 3.0)
        leaves = _param_leaves(t)
        leaves["points"] = x
        def f():
            t.update()
            return t.points(x, axes="world", to_axes="grid")
        return leaves, f
    return build


def _disp_op(cname, other: bool):
    def build(case):
        gen, g, t = _make_transform(cname, case)
        leaves = _param_leaves(t)
        sz = [max(3, n - 1) for n in g.size()]
        g2 = Grid(size=sz, spacing=[0.9 * float(s) for s in g.spacing()], center=[0.13] * g.ndim,
                  align_corners=g.align_corners())
        def f():
            t.update()
            return t.disp(g2) if other else t.disp()
        return leaves, f
    return build


def _tensor_op(cname):
    def build(case):
        gen, g, t = _make_transform(cname, case)
        leaves = _param_leaves(t)
        def f():
            t.update()
            return t.tensor()
        return leaves, f
    return build


REQUIRE_PARAM_GRADS.update(f"spatial.{_c}.disp(other-grid)" for _c in
                           ["RigidTransform", "RigidQuaternionTransform", "SimilarityTransform", "AffineTransform",
                            "FullAffineTransform", "Sequential[Affine,FFD]", "Sequential[Rigid,SVF]", "MultiLevel[FFD,FFD]"])
for _c in ALL_CLASSES:
    op(f"spatial.{_c}.forward")(_forward_op(_c))
    op(f"spatial.{_c}.inverse.forward")(_inverse_op(_c))
    op(f"spatial.{_c}.disp")(_disp_op(_c, False))
    op(f"spatial.{_c}.disp(other-grid)")(_disp_op(_c, True))
for _c in ["EulerRotation", "AffineTransform", "FreeFormDeformation", "Sequential[Affine,FFD]",
           "StationaryVelocityFieldTransform"]:
    op(f"spatial.{_c}.points")(_points_op(_c))
for _c in LINEAR_CLASSES:
    op(f"spatial.{_c}.tensor")(_tensor_op(_c))


def _image_transformer(cname):
    def build(case):
        gen, g, t = _make_transform(cname, case)
        data = leaf(randn(gen, 1, 1, *g.shape))
        tr = S.ImageTransformer(t, sampling="linear", padding="border").double()
        leaves = _param_leaves(t)
        leaves["data"] = data
        return leaves, lambda: tr(data)
    return build


for _c in ["Translation", "EulerRotation", "AffineTransform", "DisplacementFieldTransform", "FreeFormDeformation",
           "StationaryVelocityFreeFormDeformation", "Sequential[Affine,FFD]"]:
    op(f"spatial.ImageTransformer[{_c}]")(_image_transformer(_c))


def _linked_inverse_op(cname, route):
    """gradient through the LINKED inverse (`t.inv`: link=True, update_buffers=True) w.r.t. the parameters it shares
    with the forward transform, evaluated by __call__ (pre-forward hook refreshes the buffers) or directly through
    forward()/tensor() as update_buffers=True allows"""
    def build(case):
        gen, g, t = _make_transform(cname, case)
        t.update()
        x = leaf(_points(gen, case, g.ndim))
        leaves = _param_leaves(t)
        leaves["points"] = x

        def f():
            t.update()
            ti = t.inv
            if route == "call":
                return ti(x)
            if route == "tensor":
                return ti.tensor()
            return ti.forward(x)
        if route == "tensor":
            del leaves["points"]
        return leaves, f
    return build


for _c in ["Translation", "EulerRotation", "RigidTransform", "AffineTransform", "StationaryVelocityFieldTransform",
           "StationaryVelocityFreeFormDeformation"]:
    for _r in ("call", "forward") + (("tensor",) if _c in LINEAR_CLASSES else ()):
        op(f"spatial.{_c}.inv(linked).{_r}")(_linked_inverse_op(_c, _r))
REQUIRE_PARAM_GRADS.update(f"spatial.{_c}.inv(linked).{_r}" for _c in ["Translation", "EulerRotation", "RigidTransform",
                           "AffineTransform", "StationaryVelocityFieldTransform", "StationaryVelocityFreeFormDeformation"]
                           for _r in ("call", "forward", "tensor"))


def _pointset_loss(cls_name, which):
    """point set distances (losses/pointset.py) w.r.t. the first and the second point set; generic random point sets:
    the closest-point assignment is locally constant (the nearest and second nearest candidates differ by far more
    than the finite-difference step)"""
    def build(case):
        from deepali.losses import pointset as PL
        gen = tgen(case["seed"])
        D = len(spatial_shape(case))
        x = leaf(rand(gen, 2, 7, D, lo=-1, hi=1))
        y = leaf(rand(gen, 2, 7 if cls_name == "LandmarkPointDistance" else 9, D, lo=-1, hi=1))
        loss = getattr(PL, cls_name)()
        return {"x": x, "y": y}, lambda: loss(x, y)
    return build


# the losses compute in float32 (`x.float()`), so the float32 step (4e-3) is used; the closest-point assignment is piecewise
# constant and that step can cross an assignment switch, where the distance has a kink: a secant across the kink is not the
# one-sided derivative autograd rightly returns (seen with seed 101). These operations are therefore treated like the
# transform stacks: a direction whose one-sided slopes differ is inconclusive
op("losses.ClosestPointDistance")(_pointset_loss("ClosestPointDistance", "xy"))
op("losses.LandmarkPointDistance")(_pointset_loss("LandmarkPointDistance", "xy"))
KINKY_OPS.update({"losses.ClosestPointDistance", "losses.LandmarkPointDistance"})


@op("spatial.PointSetTransformer[AffineTransform]")
def _pst(case):
    gen, g, t = _make_transform("AffineTransform", case)
    g2 = Grid(size=[n + 1 for n in g.size()], spacing=[1.1] * g.ndim, center=[0.2] * g.ndim)
    x = leaf(_points(gen, case, g.ndim))
    tr = S.PointSetTransformer(t, grid=g2, to_grid=g).double()
    leaves = _param_leaves(t)
    leaves["points"] = x
    return leaves, lambda: tr(x)


@op("spatial.FreeFormDeformation.grid_(subdivide)")
def _ffd_refine(case):
    gen = tgen(case["seed"])
    shape = spatial_shape(case)
    sz = [2 * n - 1 for n in reversed(shape)]
    g = Grid(size=list(reversed(shape)))
    c = leaf(randn(gen, 1, len(shape), *[n + 3 for n in ([(m + 1) // 2 for m in shape])], scale=0.1))
    return {"data": c}, lambda: U.subdivide_cubic_bspline(c)


# ---- elementary matrices (w.r.t. angles / factors)
@op("core.euler_rotation_matrix")
def _euler(case):
    gen = tgen(case["seed"])
    a = leaf(rand(gen, 2, 3, lo=-1.2, hi=1.2))
    order = case.get("order", "ZXZ")
    return {"angles": a}, lambda: U.euler_rotation_matrix(a, order=order)


@op("core.transform_points")
def _tp(case):
    gen = tgen(case["seed"])
    D = len(spatial_shape(case))
    m = leaf(torch.eye(D, D + 1, dtype=F64).unsqueeze(0) + randn(gen, 1, D, D + 1, scale=0.2))
    x = leaf(rand(gen, 1, 5, D, lo=-1, hi=1))
    return {"matrix": m, "points": x}, lambda: U.transform_points(m, x)


# ----------------------------------------------------------------------------- case generation
SHAPES2 = [(5, 6), (6, 5), (7, 7), (4, 6)]
SHAPES3 = [(4, 5, 4), (5, 4, 6), (4, 4, 5)]


def gen_cases(rng: random.Random, tier: str, names: Optional[List[str]] = None):
    reps = {"quick": 1, "thorough": 4, "search": 3}[tier]
    for name in (names or sorted(OPS)):
        for r in range(reps):
            for D in (2, 3):
                if "QuaternionRotation" in name or "RigidQuaternion" in name or "XZX" in name or name == "core.curl":
                    if D == 2:
                        continue
                if name in ("core.euler_rotation_matrix", "losses.kld_loss") and D == 3:
                    continue
                if "bspline]" in name and D == 3 and not name.startswith("losses."):
                    continue
                shape = list(rng.choice(SHAPES2 if D == 2 else SHAPES3))
                c = {"op": name, "shape": shape, "seed": rng.randrange(1 << 30), "ac": rng.random() < 0.5}
                if name.startswith("losses."):
                    c["reduction"] = rng.choice(["mean", "sum", "none"])
                    c["mask"] = rng.random() < 0.5
                    c["mode"] = rng.choice([None, "central", "forward_central_backward", "sobel"])
                    if "mi_loss" in name or "(module)" in name:
                        c["reduction"] = "mean"
                if name.startswith("core.") and "sample" in name or name.startswith("data.") or name == "core.warp_image":
                    c["padding"] = rng.choice(["border", "zeros"])
                if name == "core.evaluate_cubic_bspline":
                    c["transpose"] = rng.random() < 0.5
                    c["stride"] = rng.choice([1, 2, 3])
                if name == "core.euler_rotation_matrix":
                    c["order"] = rng.choice(["ZXZ", "XYZ", "ZYX", "XZX", "YXZ"])
                yield c


def check(case: dict):
    try:
        return check_op(case["op"], case)
    except (NotImplementedError,) as e:
        return None
