"""Primitive-conformance streams: the documented torch semantics modelled in
lean/Deepali/Model/TorchPrim.lean are compared with torch itself, so that a disagreement in a
property stream is attributed to deepali and not to the reading of torch."""
from __future__ import annotations

import random
from fractions import Fraction

import torch
import torch.nn.functional as F

from lib import proto
from lib.core import Stream, close


def _n(tier, quick, thorough):
    return {"quick": quick, "thorough": thorough, "search": quick}[tier]


def img_tokens(t: torch.Tensor) -> str:
    """single-channel spatial tensor (…, Y, X) -> `size(x first) values(x fastest)`"""
    size = list(reversed(t.shape))
    return " ".join(str(n) for n in size) + " " + proto.vec(proto.flat(t))


# ---------------------------------------------------------------- F.grid_sample
def gen_grid_sample(rng: random.Random, tier: str):
    for _ in range(_n(tier, 60, 1500)):
        d = rng.choice([2, 3])
        shape = [rng.randint(1, 5) for _ in range(d)]
        mode = rng.choice(["lin", "lin", "nearest"])
        # thirds are not exactly representable: in nearest mode they create ties decided by float rounding
        special = [-1.0, 1.0, 0.0, 0.25] + ([1 / 3, -1 / 3] if mode == "lin" else [0.75])
        pts = []
        for _ in range(6):
            kind = rng.random()
            if kind < 0.6:
                pts.append([round(rng.uniform(-1.3, 1.3), 4) for _ in range(d)])
            elif kind < 0.8:
                pts.append([rng.choice([-1.0, 1.0, 0.0, -0.5, 0.5]) for _ in range(d)])
            else:  # exactly on a sample (both conventions), exercises weight-0 corners and .5 ties
                pts.append([rng.choice(special) for _ in range(d)])
        ac = rng.random() < 0.5
        if mode == "nearest":
            # a random 4-decimal coordinate can be an exact tie in decimal arithmetic (x = -0.6 for n = 5) that is not
            # representable in binary: which neighbour wins is then decided by float rounding (ties are outside every
            # statement about nearest sampling). Such coordinates are moved off the tie; dyadic ties (exact in binary,
            # rounded half-to-even by torch and the model alike) stay.
            from fractions import Fraction
            for pt in pts:
                for k in range(d):
                    n = shape[d - 1 - k]                      # coordinate k is x-first, shape is (..., Y, X)
                    x = Fraction(str(pt[k]))
                    idx = (x + 1) / 2 * (n - 1) if ac else ((x + 1) * n - 1) / 2
                    tie = idx.denominator == 2                 # fractional part exactly 1/2
                    exact_in_binary = Fraction(float(pt[k])) == x
                    if tie and not exact_in_binary:
                        pt[k] = round(pt[k] + 0.0137, 4)
        yield {"d": d, "shape": shape, "mode": mode,
               "pad": rng.choice(["zeros", "border"]), "ac": ac,
               "seed": rng.randrange(1 << 30), "points": pts}


def _img(c):
    g = torch.Generator().manual_seed(c["seed"])
    return torch.randint(-8, 9, tuple(c["shape"]), generator=g).double() / 4


def impl_grid_sample(c):
    img = _img(c)
    d = c["d"]
    pts = torch.tensor(c["points"], dtype=torch.float64)
    grid = pts.reshape((1,) + (1,) * (d - 1) + (len(c["points"]), d))
    out = F.grid_sample(img[None, None], grid, mode="bilinear" if c["mode"] == "lin" else "nearest",
                        padding_mode=c["pad"], align_corners=c["ac"])
    return proto.flat(out)


def line_grid_sample(c):
    pts = " ".join(proto.vec(p) for p in c["points"])
    return (f"prim.grid_sample {c['d']} {c['mode']} {c['pad']} {1 if c['ac'] else 0} {img_tokens(_img(c))} "
            f"{len(c['points'])} {pts}")


def cmp_values(tol):
    def cmp(c, r, out):
        if isinstance(r, str):
            return f"torch raised {r}"
        if proto.is_error(out):
            return f"model error {out}"
        return close(r, proto.parse_vec(out), tol)
    return cmp


# ---------------------------------------------------------------- F.interpolate (linear modes)
def gen_interpolate(rng: random.Random, tier: str):
    for _ in range(_n(tier, 40, 800)):
        d = rng.choice([2, 3])
        yield {"d": d, "shape": [rng.randint(1, 5) for _ in range(d)], "new": [rng.randint(1, 7) for _ in range(d)],
               "ac": rng.random() < 0.5, "seed": rng.randrange(1 << 30)}


def impl_interpolate(c):
    img = _img(c)
    mode = {2: "bilinear", 3: "trilinear"}[c["d"]]
    out = F.interpolate(img[None, None], size=tuple(c["new"]), mode=mode, align_corners=c["ac"])
    return proto.flat(out)


def line_interpolate(c):
    new = " ".join(str(n) for n in reversed(c["new"]))
    return f"prim.interpolate {c['d']} {1 if c['ac'] else 0} {img_tokens(_img(c))} {new}"


PRIM_STREAMS = [
    Stream("prim.grid_sample", gen_grid_sample, impl_grid_sample, line_grid_sample, cmp_values(1e-9),
           doc="torch.nn.functional.grid_sample (bilinear/nearest x zeros/border x align_corners, D=2,3) vs Model/TorchPrim"),
    Stream("prim.interpolate", gen_interpolate, impl_interpolate, line_interpolate, cmp_values(1e-9),
           doc="torch.nn.functional.interpolate (bi/trilinear x align_corners) vs Model/TorchPrim"),
]
