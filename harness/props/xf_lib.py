"""Shared helpers of the transform properties C06 / C07: JSON specs -> deepali transforms, and the description
of a constructed transform (its STORED parameters) in the member grammar of the Lean driver (`xf.*` ops)."""
from __future__ import annotations

import math
import random
from fractions import Fraction
from typing import List, Optional

import numpy as np
import torch

import deepali.spatial as S
from deepali.core.grid import Axes, Grid
from deepali.spatial.generic import GenericSpatialTransform, TransformConfig

from lib import gen, proto
from lib.core import close

RTOL32 = 2e-4     # float32 paths: <= ~40 flops on O(1) cube coordinates, eps 6e-8 -> 5e-6; 2e-4 leaves room for world scale 1e3
RTOLV = 5e-4      # sampled image values: coordinate error (1e-6 rel.) x image gradient x size


def _n(tier, quick, thorough, search=None):
    return {"quick": quick, "thorough": thorough, "search": search or quick * 3}[tier]


def enc_str(s: Optional[str]) -> str:
    if s is None:
        return "-"
    if s == "":
        return "e"
    return ",".join(str(ord(ch)) for ch in s)


# ============================================================================ specs -> transforms
LINEAR = ["Translation", "EulerRotation", "QuaternionRotation", "IsotropicScaling", "AnisotropicScaling", "Shearing",
          "HomogeneousTransform"]
NAMED = {  # class -> [(keyword, member class)] in order of composition
    "RigidTransform": [("rotation", "EulerRotation"), ("translation", "Translation")],
    "RigidQuaternionTransform": [("rotation", "QuaternionRotation"), ("translation", "Translation")],
    "SimilarityTransform": [("scaling", "IsotropicScaling"), ("rotation", "EulerRotation"), ("translation", "Translation")],
    "AffineTransform": [("scaling", "AnisotropicScaling"), ("rotation", "EulerRotation"), ("translation", "Translation")],
    "FullAffineTransform": [("scaling", "AnisotropicScaling"), ("shearing", "Shearing"), ("rotation", "EulerRotation"),
                            ("translation", "Translation")],
}
NONRIGID = ["DisplacementFieldTransform", "StationaryVelocityFieldTransform", "FreeFormDeformation",
            "StationaryVelocityFreeFormDeformation"]
SETTER = {"EulerRotation": "angles_", "QuaternionRotation": "quaternion_", "IsotropicScaling": "scales_",
          "AnisotropicScaling": "scales_", "Shearing": "angles_", "Translation": "offset_", "HomogeneousTransform": "data_"}
ORDERS = ["XYZ", "ZYX", "ZXY", "XZX", "ZXZ", "YXZ", "XYX", "zxz", None]


def rand_unit_quat(rng):
    q = [rng.gauss(0, 1) for _ in range(4)]
    n = math.sqrt(sum(v * v for v in q))
    return [v / n for v in q]


def linear_values(rng: random.Random, cls: str, d: int, groups: int, kind: str, small: bool = False):
    """parameter *values* (angles in radians, scale factors, offsets, …) in the documented ranges."""
    a = 0.5 if small else 3.1
    out = []
    for _ in range(groups):
        if cls == "Translation":
            out.append([round(rng.uniform(-0.6, 0.6), 4) for _ in range(d)])
        elif cls == "EulerRotation":
            out.append([round(rng.uniform(-a, a), 4) for _ in range(3 if d == 3 else 1)])
        elif cls == "QuaternionRotation":
            s = 1.0 if kind == "parameter" else rng.uniform(0.3, 3.0)   # quaternion_ normalises; raw tensors need not be unit
            out.append([s * v for v in rand_unit_quat(rng)])
        elif cls == "IsotropicScaling":
            out.append([round(rng.uniform(0.5, 2.0), 4)])
        elif cls == "AnisotropicScaling":
            out.append([round(rng.uniform(0.5, 2.0), 4) for _ in range(d)])
        elif cls == "Shearing":
            out.append([round(rng.uniform(-0.7, 0.7), 4) for _ in range(3 if d == 3 else 1)])
        elif cls == "HomogeneousTransform":
            m = [[(1.0 if i == j else 0.0) + round(rng.uniform(-0.4, 0.4), 4) for j in range(d)] +
                 [round(rng.uniform(-0.5, 0.5), 4)] for i in range(d)]
            out.append(m)
    return out


def linear_spec(rng, cls, d, groups=None, kind=None, small=False):
    groups = groups or rng.choice([1, 1, 3])
    kind = kind or rng.choice(["parameter", "tensor"])
    spec = {"cls": cls, "groups": groups, "kind": kind, "invert": False,
            "values": linear_values(rng, cls, d, groups, kind, small)}
    if cls == "EulerRotation":
        spec["order"] = rng.choice(ORDERS) if d == 3 else None
    return spec


def nonrigid_spec(rng, cls, d, groups=None, amp=None):
    spec = {"cls": cls, "groups": groups or rng.choice([1, 1, 2]), "seed": rng.randrange(1 << 30),
            "amp": amp if amp is not None else rng.choice([0.02, 0.05, 0.1])}
    if cls in ("DisplacementFieldTransform", "StationaryVelocityFieldTransform"):
        spec["stride"] = rng.choice([None, None, 2])
        spec["resize"] = rng.random() < 0.7
    else:
        spec["stride"] = rng.choice([1, 2, 3])
    if "Velocity" in cls:
        spec["steps"] = rng.choice([2, 3, 4])
    return spec


def composite_spec(rng, d, ac, allow_nonrigid=True, kind=None, depth=0):
    """Sequential / MultiLevel of 1..3 members (possibly a named composite or one nesting level)."""
    kind = kind or rng.choice(["Sequential", "Sequential", "MultiLevel"])
    members = []
    for _ in range(rng.randint(1, 3)):
        r = rng.random()
        if allow_nonrigid and r < 0.3:
            cls = rng.choice(NONRIGID if ac else NONRIGID[:2])
            members.append(nonrigid_spec(rng, cls, d, groups=1))
        elif r < 0.4 and depth == 0:
            members.append(named_spec(rng, rng.choice(list(NAMED)), d, groups=1))
        elif r < 0.5 and depth == 0:
            members.append(composite_spec(rng, d, ac, allow_nonrigid, kind="Sequential", depth=1))   # nested MultiLevel: see F-06b/F-08a, top level only
        else:
            cls = rng.choice([c for c in LINEAR if d == 3 or c != "QuaternionRotation"])
            members.append(linear_spec(rng, cls, d, groups=1, small=True))
    return {"cls": kind, "members": members}


def named_spec(rng, cls, d, groups=None, kind=None):
    if d == 2 and cls == "RigidQuaternionTransform":
        cls = "RigidTransform"
    groups = groups or rng.choice([1, 1, 2])
    kind = kind or rng.choice(["parameter", "tensor"])
    return {"cls": cls, "groups": groups, "kind": kind,
            "members": [linear_spec(rng, mc, d, groups=groups, kind=kind, small=(mc != "Translation")) | {"kw": kw}
                        for kw, mc in NAMED[cls]]}


GENERIC_MODELS = ["Affine", "Affine o SVF", "SVF o Affine", "Affine o DDF", "FFD o Affine", "DDF", "FFD", "SVF", "SVFFD"]
AFFINE_MODELS = ["TRS", "T o R o S", "TR", "TKS", "A", "TQ", "QS", "R", "AT"]
LETTER = {"A": ("affine", "HomogeneousTransform"), "K": ("shearing", "Shearing"), "T": ("translation", "Translation"),
          "R": ("rotation", "EulerRotation"), "S": ("scaling", "AnisotropicScaling"), "Q": ("quaternion", "QuaternionRotation")}


def generic_spec(rng, d, ac, params=None, allow_unset=False):
    model = rng.choice([m for m in GENERIC_MODELS if ac or "FFD" not in m])
    am = rng.choice([m for m in AFFINE_MODELS if d == 3 or "Q" not in m])
    spec = {"cls": "Generic", "transform": model, "affine_model": am, "rotation_model": rng.choice(["ZXZ", "XYZ", "ZXY"]),
            "spacing": rng.choice([1, 1, 2]), "steps": rng.choice([2, 3]),
            "params": params or rng.choice(["callable", "callable", "bool"]), "values": {}, "seed": rng.randrange(1 << 30),
            "amp": 0.05}
    if "Affine" in model:
        for ch in am.replace(" o ", ""):
            name, mc = LETTER[ch]
            spec["values"][name] = linear_values(rng, mc, d, 1, "tensor", small=(mc != "Translation"))
    return spec


def _setvals(t, cls, vals, kind):
    v = torch.tensor(vals, dtype=torch.float32)
    with torch.no_grad():
        getattr(t, SETTER[cls])(v)


def build(spec: dict, g: Grid):
    """construct the deepali transform described by `spec` on grid `g`."""
    cls = spec["cls"]
    d = g.ndim
    if cls in LINEAR:
        kw = {"groups": spec["groups"]}
        if cls == "EulerRotation":
            kw["order"] = spec.get("order")
        C = getattr(S, cls)
        if spec["kind"] == "parameter":
            t = C(g, params=True, **kw)
            _setvals(t, cls, spec["values"], "parameter")
        elif spec["kind"] == "callable":
            v = torch.tensor(spec["values"], dtype=torch.float32)
            t = C(g, params=(lambda *a, _v=v, **k: _v), **kw)
            t._verif_source = v          # the tensor the callable returns (for in-place edits by the harness)
        else:
            t = C(g, params=torch.tensor(spec["values"], dtype=torch.float32), **kw)
        t.invert = bool(spec.get("invert", False))
        return t
    if cls in NAMED:
        C = getattr(S, cls)
        if spec["kind"] == "parameter":
            t = C(g, groups=spec["groups"])
            for m in spec["members"]:
                _setvals(getattr(t, m["kw"]), m["cls"], m["values"], "parameter")
        elif spec["kind"] == "callable":
            vs = {m["kw"]: torch.tensor(m["values"], dtype=torch.float32) for m in spec["members"]}
            t = C(g, groups=spec["groups"], **{k_: (lambda *a, _v=v, **k: _v) for k_, v in vs.items()})
            for k_, v in vs.items():
                getattr(t, k_)._verif_source = v
        else:
            t = C(g, groups=spec["groups"], **{m["kw"]: torch.tensor(m["values"], dtype=torch.float32)
                                               for m in spec["members"]})
        for m in spec["members"]:
            sub = getattr(t, m["kw"])
            if "order" in m and m["order"] is not None:
                sub.order = m["order"]
        return t
    if cls in ("Sequential", "MultiLevel"):
        C = S.SequentialTransform if cls == "Sequential" else S.MultiLevelTransform
        return C(g, *[build(m, g) for m in spec["members"]])
    if cls in NONRIGID:
        C = getattr(S, cls)
        kw = {"groups": spec["groups"]}
        if spec.get("stride") is not None:
            kw["stride"] = spec["stride"]
        if "resize" in spec:
            kw["resize"] = spec["resize"]
        if "steps" in spec:
            kw["steps"] = spec["steps"]
        t = C(g, **kw)
        gen_ = torch.Generator().manual_seed(spec["seed"])
        with torch.no_grad():
            t.params.copy_(spec["amp"] * torch.randn(t.params.shape, generator=gen_))
        return t
    if cls == "Generic":
        cfg = TransformConfig(transform=spec["transform"], affine_model=spec["affine_model"],
                              rotation_model=spec["rotation_model"], control_point_spacing=spec["spacing"],
                              scaling_and_squaring_steps=spec["steps"])
        vals = {k: torch.tensor(v, dtype=torch.float32) for k, v in spec["values"].items()}
        if spec["params"] == "bool":
            t = GenericSpatialTransform(g, params=True, config=cfg)
            for name, tr in t.named_transforms():
                if name == "nonrigid":
                    gen_ = torch.Generator().manual_seed(spec["seed"])
                    with torch.no_grad():
                        tr.params.copy_(spec["amp"] * torch.randn(tr.params.shape, generator=gen_))
                else:
                    mc = type(tr).__name__
                    _setvals(tr, mc, spec["values"][name], "parameter")
            return t
        # callable / dict: child transforms have params=None and receive raw values through data_()
        probe = GenericSpatialTransform(g, params=False, config=cfg)
        if "nonrigid" in dict(probe.named_transforms()):
            shape = probe._transforms["nonrigid"].params.shape
            gen_ = torch.Generator().manual_seed(spec["seed"])
            vals["nonrigid"] = spec["amp"] * torch.randn(shape, generator=gen_)
        if spec["params"] == "dict":
            return GenericSpatialTransform(g, params=vals, config=cfg)

        def predict(*args, **kwargs):
            return vals

        return GenericSpatialTransform(g, params=predict, config=cfg)
    raise ValueError(cls)


def batch_size(t) -> int:
    if isinstance(t, S.CompositeTransform):
        return max([batch_size(m) for m in t.transforms()] + [1])
    p = t.params
    if p is None:
        return 1
    if isinstance(p, torch.Tensor):
        return int(p.shape[0])
    return int(t.data().shape[0])


def tvec(x) -> str:
    return proto.vec(proto.flat(x))


def field_tokens(u: torch.Tensor) -> str:
    """(D, …, Y, X) tensor -> `size(x first) values` (channel-major, x fastest)."""
    size = list(reversed(u.shape[1:]))
    return " ".join(str(n) for n in size) + " " + tvec(u)


def member_tokens(t, i: int) -> str:
    """the model's member description, from the STORED parameters of the constructed object (batch element i).
    The transform must have been updated (`t.update()`)."""
    fr = proto.fr
    if isinstance(t, S.SequentialTransform):       # incl. named composites and GenericSpatialTransform
        ms = list(t.transforms())
        return f"seq {len(ms)} " + " ".join(member_tokens(m, i) for m in ms)
    if isinstance(t, S.MultiLevelTransform):
        ms = list(t.transforms())
        return f"ml {len(ms)} " + " ".join(member_tokens(m, i) for m in ms)
    if isinstance(t, S.NonRigidTransform):
        u = t.tensor()
        k = i if u.shape[0] > 1 else 0
        return f"nr {1 if t.align_corners() else 0} " + field_tokens(u[k].detach())
    if getattr(t, "params", 0) is None:
        return "unset"          # parameters never provided: data() raises AssertionError
    inv = 1 if t.invert else 0
    n = t.data().shape[0]
    k = i if n > 1 else 0
    d = t.ndim
    with torch.no_grad():
        if isinstance(t, S.Translation):
            return f"c translation {inv} {tvec(t.offset()[k])}"
        if isinstance(t, S.EulerRotation):
            a = t.angles()[k]
            cs, sn = torch.cos(a), torch.sin(a)     # float32, as euler_rotation_matrix computes them
            if d == 2:
                return f"c euler2 {inv} {fr(cs[0])} {fr(sn[0])}"
            return f"c euler3 {inv} {enc_str(t.order)} {tvec(cs)} {tvec(sn)}"
        if isinstance(t, S.QuaternionRotation):
            q = t.data()[k]
            return f"c quat {inv} {tvec(q)} {fr(torch.linalg.vector_norm(q))} {fr(np.float32(1e-12))}"
        if isinstance(t, S.IsotropicScaling):
            return f"c iso {inv} {fr(t.scales()[k][0])}"
        if isinstance(t, S.AnisotropicScaling):
            return f"c aniso {inv} {tvec(t.scales()[k])}"
        if isinstance(t, S.Shearing):
            tn = torch.tan(t.angles()[k])
            return f"c shear {inv} {len(tn)} {tvec(tn)}"
        if isinstance(t, S.HomogeneousTransform):
            m = t.data()[k]
            return f"c hom {inv} {tvec(m[:, :d])} {tvec(m[:, d])}"
    raise TypeError(type(t).__name__)


def spec_nontrivial(spec) -> bool:
    return True


def spec_is_linear(spec) -> bool:
    cls = spec["cls"]
    if cls in LINEAR or cls in NAMED:
        return True
    if cls in NONRIGID:
        return False
    if cls == "Generic":
        return spec["transform"] == "Affine"
    return all(spec_is_linear(m) for m in spec["members"])


def spec_has_ffd(spec) -> bool:
    cls = spec["cls"]
    if cls in ("FreeFormDeformation", "StationaryVelocityFreeFormDeformation"):
        return True
    if cls == "Generic":
        return "FFD" in spec["transform"]
    return any(spec_has_ffd(m) for m in spec.get("members", []) if isinstance(m, dict) and "cls" in m)


def tgrid_spec(rng, d, ac=None, max_size=7, min_size=3):
    """transform grid: oriented, anisotropic, off-centre, but well conditioned (|position| <= 40, spacing in [0.3, 3]):
    float32 world coordinates of magnitude 1e3 over an extent of 1 would eat the whole tolerance."""
    s = gen.grid_spec(rng, d, min_size=min_size, max_size=max_size, ac=ac)
    s.pop("origin", None)
    s.pop("center", None)
    s["origin" if rng.random() < 0.5 else "center"] = [round(rng.uniform(-40, 40), 3) for _ in range(d)]
    if len(set(s["spacing"])) > 1:
        s["spacing"] = [round(rng.uniform(0.3, 3.0), 3) for _ in range(d)]
    return s


def any_spec(rng, d, ac, linear_only=False):
    r = rng.random()
    if r < 0.3:
        cls = rng.choice([c for c in LINEAR if d == 3 or c != "QuaternionRotation"])
        return linear_spec(rng, cls, d)
    if r < 0.45:
        return named_spec(rng, rng.choice(list(NAMED)), d)
    if r < 0.65 and not linear_only:
        return nonrigid_spec(rng, rng.choice(NONRIGID if ac else NONRIGID[:2]), d)
    if r < 0.85:
        return composite_spec(rng, d, ac, allow_nonrigid=not linear_only, kind="Sequential")
    return generic_spec(rng, d, ac) if not linear_only else named_spec(rng, rng.choice(list(NAMED)), d)


def prepare(spec, gspec):
    g = gen.make_grid(gspec)
    t = build(spec, g)
    try:
        with torch.no_grad():
            t.update()
    except AssertionError:
        pass            # a member without parameters (reported by the call under test; the model answers err:assert)
    return t, g


def cube_points(rng, d, n, lim=1.0):
    return [[round(rng.uniform(-lim, lim), 4) for _ in range(d)] for _ in range(n)]


def cmp_vec(r, out, rtol=RTOL32, scale=1.0):
    if isinstance(r, str):
        if proto.is_error(out) and r.split(":")[1] == out.split(":")[1]:
            return None
        return f"impl {r}; model {out[:80]}"
    if proto.is_error(out):
        return f"model {out}; impl returned values"
    return close(r, proto.parse_vec(out), rtol, scale)


def h_values(out: str) -> List[Fraction]:
    """`trans t…|aff A…|hom A… t…` -> values in the memory order of the (D, cols) tensor deepali returns."""
    toks = out.split()
    kind, vals = toks[0], [Fraction(v) for v in toks[1:]]
    if kind in ("trans", "aff"):
        return vals
    # hom: A (d*d) then t (d) -> interleave rows
    n = len(vals)
    d = int((math.isqrt(1 + 4 * n) - 1) // 2)
    A, t = vals[:d * d], vals[d * d:]
    rows = []
    for i in range(d):
        rows += A[i * d:(i + 1) * d] + [t[i]]
    return rows


