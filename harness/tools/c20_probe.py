#!/venv/bin/python
"""c20_probe.py <stream> <k> [seed] — development aid: time the model on the first k cases of a stream
and print disagreements (not part of the check)."""
import os
import random
import sys
import time
import warnings

HERE = os.path.dirname(os.path.abspath(__file__))
sys.path.insert(0, os.path.join(HERE, ".."))
sys.path.insert(0, os.environ.get("VERIF_REPO_SRC", "/repo/src"))
warnings.filterwarnings("ignore")
from props import c20  # noqa: E402
from lib import lean  # noqa: E402
from lib.core import impl_call  # noqa: E402

name, k = sys.argv[1], int(sys.argv[2])
seed = int(sys.argv[3]) if len(sys.argv) > 3 else 1
tier = sys.argv[4] if len(sys.argv) > 4 else "quick"
st = next(s for s in c20.STREAMS if s.name == name)
cases = list(st.gen(random.Random(seed), tier))[:k]
lines = [st.line(c) for c in cases]
print(name, len(lines), "lines, bytes", sum(len(l) for l in lines))
t = time.time()
out = lean.eval_lines(lines)
print("model wall %.1fs" % (time.time() - t))
bad = 0
t = time.time()
for c, o in zip(cases, out):
    r = impl_call(st.impl, c)
    why = st.compare(c, r, o)
    if why:
        bad += 1
        if bad <= 6:
            print("DISAGREE", c, "\n   ", why, "\n   impl", str(r)[:300], "\n   model", o[:300])
print("impl wall %.1fs; disagreements %d of %d" % (time.time() - t, bad, len(cases)))
