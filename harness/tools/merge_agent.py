#!/usr/bin/env python3
"""merge_agent.py <copy-dir> — copy a builder's new files into /verif, report files that exist in both
and differ (these need a manual look), merge known_findings entries."""
import filecmp
import json
import shutil
import sys
from pathlib import Path

copy = Path(sys.argv[1])
# optional: --update <glob> [<glob> ...]  : agent-owned files to overwrite in /verif with the copy's version
update_globs = sys.argv[sys.argv.index("--update") + 1:] if "--update" in sys.argv else []
verif = Path("/verif")
skip_dirs = {".lake", "__pycache__", "replay", "evidence", ".git", "scratch"}
special = {"lean/Deepali/Drv/All.lean", "lean/Deepali.lean", "known_findings.json", "MANIFEST.json",
           "lean/lake-manifest.json"}
new, differ = [], []
for f in sorted(copy.rglob("*")):
    if not f.is_file() or any(p in skip_dirs for p in f.relative_to(copy).parts):
        continue
    rel = str(f.relative_to(copy))
    tgt = verif / rel
    if rel in special:
        continue
    if not tgt.exists():
        tgt.parent.mkdir(parents=True, exist_ok=True)
        shutil.copy2(f, tgt)
        new.append(rel)
    elif not filecmp.cmp(f, tgt, shallow=False):
        import fnmatch
        if any(fnmatch.fnmatch(rel, g) for g in update_globs):
            shutil.copy2(f, tgt)
            new.append(rel + "  (updated)")
        else:
            differ.append(rel)
print("NEW:", *new, sep="\n  ")
print("DIFFER (not copied):", *differ, sep="\n  ")
# known findings
kf = json.loads((verif / "known_findings.json").read_text())
have = {(e["property"], e["key"]) for e in kf["findings"]}
ck = copy / "known_findings.json"
if ck.exists():
    added = 0
    mine = {(e["property"], e["key"]): e for e in kf["findings"]}
    for e in json.loads(ck.read_text()).get("findings", []):
        if (e["property"], e["key"]) not in have:
            kf["findings"].append(e)
            added += 1
        elif update_globs and e.get("status") != mine[(e["property"], e["key"])].get("status") \
                and any(e["property"].lower() in g.lower() for g in update_globs):
            mine[(e["property"], e["key"])].update(e)
            added += 1
    (verif / "known_findings.json").write_text(json.dumps(kf, indent=1) + "\n")
    print("known findings added:", added)
for rel in ("lean/Deepali/Drv/All.lean", "lean/Deepali.lean"):
    print("----", rel, "(copy)")
    print((copy / rel).read_text())
