#!/usr/bin/env python3
"""Regenerate /verif/MANIFEST.json from the claim table below and validate it against the schema."""
import json
import subprocess
import sys
from pathlib import Path

VERIF = Path(__file__).resolve().parents[2]

TB = ("Lean 4.33 kernel; axioms propext/Classical.choice/Quot.sound only (audited by #print axioms each run); "
      "hand-written Lean model tied to /repo by the correspondence streams (harness/props/{id}.py) with exact "
      "float->Q conversion and a relative tolerance for IEEE rounding, and (C01-C04, C07, C08, C11-C14, C16, C17) by Lean "
      "definitions regenerated from the current source on every run (harness/lib/pytrans.py, trusted) and proved equal to "
      "the model (harness/gen/*.lean.in); torch primitives and transcendental functions are modelled/assumed, not verified")

CLAIMS = {
    "C01": dict(
        technique="Lean 4 theorems over a field-generic model of Grid.transform/transform_vectors/coords + "
                  "differential correspondence with the implementation",
        text="18 theorems (round trip, composition for all axes triples and for two/three grids, vectors = linear part "
             "for both code paths, anchors, lattice count/values/range for every n, rounding bound) about the model of "
             "core/grid.py+linalg.py, for every dimension, size, spacing, orthonormal direction; the model is compared "
             "with the implementation on every run (all 16 axes pairs x vectors flag x one/two grids, API helpers, "
             "every n in [1,4096] x both conventions x float32/64). Also: sampling an image on its own grid is the identity and Cube.transform between two cubes built from grids equals the grid map (C01_sample_identity, C01_cube_of_grid).",
        ref="5 C01"),
    "C02": dict(
        technique="Lean 4 theorems relating the model of Grid index<->world maps and header conversion to an independent ITK "
                  "specification + three-way correspondence implementation / model / SimpleITK",
        text="8 theorems: index->world equals ITK's O + D(S.i) with origin = sample 0 and direction columns = unit steps; "
             "world->index equals ITK's inverse for orthonormal directions (and the true matrix inverse for d=2,3); the "
             "SimpleITK header round trip reproduces size/origin/spacing/direction; center and origin construction routes are "
             "consistent; a determinant-1 shear shows the diag(1/S)D^T shortcut is only valid for orthonormal directions "
             "(outside the quantifier). Validated against SimpleITK on every run.",
        ref="5 C02"),
    "C03": dict(
        technique="Lean 4 invariants (SameFrame for the resizing family, Shifted for the index family) proved per operation "
                  "and closed under chains by induction + correspondence on every derivation method and chains",
        text="15 theorems: resize keeps corner samples (align_corners) or extent, center and direction; downsample then upsample "
             "is the identity for any dims/levels when no axis is clamped; pyramid sizes closed form, all levels share the cube "
             "domain; resample extent; crop/pad/narrow/ROI/center crop/pad keep spacing and direction and every retained sample "
             "keeps its world position; pooling centroids; chains of arbitrary length; the internal consistency assertions hold "
             "exactly in the model (so a raise is rounding-only; F-03 was repaired by a fix: commit).",
        ref="5 C03"),
    "C04": dict(
        technique="Lean 4 theorems (sampling reproduces world-linear images for any grid pair; data and grid halves of every "
                  "index-only operation use the same offset and size) + exact index correspondence + ramp oracle",
        text="16 theorems: sampling a world-linear image on any other oriented grid returns the same world-linear function at "
             "every target sample inside the source field of view (either align_corners of either grid); for crop/pad with "
             "per-border margins of either sign, center crop/pad, region of interest, narrow and valid convolution the "
             "tensor-side offset and size equal the grid-side ones for all sizes and arguments; a grid whose origin is the old "
             "sample `first` places new sample j at old sample j+first. Offsets are compared exactly with the implementation "
             "(index-coded data, distinct per-image grids); ramps are pushed through every operation and compositions of up to 3 "
             "with a geometric validity mask. Resizing of a world-linear image reproduces it at the new sample positions (C04_resize_ramp, C04_sample_ramp). The finest level of Image / ImageBatch.pyramid: the resize shortcut equals sampling at the new grid's points whenever the cube extents agree under the same convention (theorems on the model of the decision; the pre-repair comparison across conventions is refuted by a witness; the decision and the provenance of source_grids are re-read from the source every run), and an oracle ties every level to Grid.pyramid of the requested convention (it found the defect repaired by 8cc5ad1). Every method of Image / FlowField is compared with the batch class on a batch of that one item. One known finding: compositions through grids with fractional size (data and grid sizes disagree).",
        ref="5 C04"),
    "C05": dict(
        technique="Lean 4 theorems: deepali's sampling coordinate pipeline = ITK physToIdx∘idxToPhys (any grid pair, "
                  "either align_corners), plus correspondence with the implementation and SimpleITK",
        text="14 theorems: for every target sample the continuous source index handed to the interpolator equals ITK's "
             "physical-point round trip for any pair of valid oriented grids in any dimension; hence sampled values equal "
             "the ITK specification for all image contents; inside the field of view padding is invisible; self-sampling "
             "is the identity; constant padding = constant extension; the module entry points AlignImage / TransformImage "
             "(Grid.points + SampleImage._matrix, which sample with the TARGET grid's flag) give the same ITK value for EVERY "
             "axes argument incl. the default, through both branches of Grid.transform, and equal ImageBatch.sample. "
             "grid_sample's own semantics is modelled and validated against torch every run; values are compared with the "
             "implementation (linear/nearest x zeros/border/constant x Image/batch/module forms) and with SimpleITK.Resample "
             "inside the field of view. Theorems and streams assume >= 2 samples per axis; single-slice volumes are covered by "
             "an oracle against the in-plane ITK resampling: known finding F-05b (align_corners=True divides by n-1 = 0; 6 keys).",
        ref="5 C05"),
    "C06": dict(
        technique="Lean 4 theorems on the model of spatial/base|linear|composite|transformer (parameter->tensor per class, "
                  "points/disp/matrix views, sequential fold, warp coordinate pipeline for ANY cube map) + correspondence over "
                  "every transform class",
        text="24 theorems, all positive: default parameters give the identity for every class; tensor/matrix/points/"
             "world-points/disp views describe one map (disp of a linear transform = T(x)-x in the cube of ANY grid; disp of a "
             "non-rigid transform on a grid of the other convention is expressed in that grid's cube axes: "
             "C06_views_agree_disp_nonrigid_partial states what the sampling model carries); sequential composites fold in "
             "listed order (any length); multi-level composites add displacements; for any cube map T and any (transform, "
             "target, source) grid triple ImageTransformer samples the source at worldToIndex(W_T(indexToWorld j)), for "
             "non-rigid transforms on any target grid (C06_warp_nonrigid). All eight defects found (F-06a..h) were repaired by "
             "fix: commits; no C06 finding is open.",
        ref="5 C06"),
    "C07": dict(
        technique="Lean 4 per-class inverse theorems + induction over composites, and the forward/inverse parameter-sharing "
                  "theorem on the transform state machine (Props/C07State) + correspondence over kinds x link x update_buffers",
        text="14 theorems: T^-1(T x) = x and T(T^-1 x) = x exactly for translation, Euler (all orders), unit quaternion, "
             "iso/anisotropic scaling, shearing, homogeneous (unit determinant); the invert flag is involutive; sequential "
             "composites invert in reversed order for any length; forward and inverse read the same parameters for every "
             "params kind x link x update_buffers after any sequence of in-place edits (and data_ replacement when linked). "
             "The second-order bound for velocity-field models is proved for scalar generators only (partial) and measured "
             "on smooth fields (exploration). F-07/F-07b were repaired by fix: commits.",
        ref="5 C07"),
    "C08": dict(
        technique="Lean 4 theorems over the model of linalg.py/affine.py/_kornia.py (9 operand-form pairs, 27 Euler "
                  "orders, quaternion/angle-axis algebra) + exhaustive correspondence over forms, batch shapes, order strings",
        text="36 theorems: composing in any of the 9 operand-form pairs (and n-ary) equals applying one after the other; "
             "as_matrix keeps the map; vectors ignore translation; broadcasting shapes; Euler matrix = product of "
             "elementary rotations for all 27 order triples (pins the hard-coded closed forms and the fallback), "
             "orthogonal with det 1 under c^2+s^2=1; order-string normalisation; unit quaternion -> proper rotation; "
             "angle-axis/quaternion/matrix agreement in verification form; scaling/shear getters-setters. The four defects found (F-08a..d) were repaired "
             "by fix: commits; the model follows the repaired code.",
        ref="5 C08"),
    "C11": dict(
        technique="Lean 4 induction over squaring steps on the model of core/flow.py expv (sampling an affine field "
                  "inside the hull is exact) + correspondence of the literal recursion",
        text="11 theorems: one squaring step on the sampled displacement of a hull-preserving affine map gives the sampled "
             "displacement of its square; hence expv with k steps equals the displacement of (I+sH, sh) iterated 2^k "
             "times at every grid point, for every k, dimension, grid size >= 2, either align_corners and padding; zero "
             "steps; inverse flag = negated scale = negated field; a checkable sufficient condition for hull "
             "invariance. The literal recursion (incl. clamping) is compared with the implementation on random fields; "
             "closed form as a matrix power (C11_closed_form_matrix_power); convergence to exp(H) is proved for diagonal generators "
             "(C11_limit_diagonal_partial); the general limit and the second-order smooth-field bound are exploration only (partial). The module ExpFlow and the velocity-field transform that owns one are a state model: inverse() negates the scale and keeps steps and convention, re-gridding replaces the convention and keeps scale and steps, the two commute (definitions regenerated from modules/flow.py and spatial/nonrigid.py every run).",
        ref="5 C11"),
    "C13": dict(
        technique="Lean 4 theorems on the model of core/flow.py compose_flows/lie_bracket/compose_svfs + correspondence "
                  "of compose_flows over Q",
        text="10 theorems: composing sampled affine displacement fields is exact when the first keeps the lattice in the "
             "hull (any dimension/size/convention); the zero field is a two-sided identity; the sampling position honours "
             "the given align_corners; expv's step is self-composition; the Lie bracket is antisymmetric and bilinear for "
             "any additive homogeneous stencil; BCH reduces to v+u for commuting fields at every truncation order. "
             "BCH-error-vs-order and the logv(expv v) bound are approximation statements explored numerically (partial).",
        ref="5 C13"),
    "C09": dict(
        technique="Lean 4 invariant by induction over all 21 operations of a state-machine model of SpatialTransform / "
                  "ParametricTransform (shared vs copied containers, version-tagged buffers, links) + exact correspondence "
                  "on operation histories with version-coded parameters/grids",
        text="12 theorems: every reachable world satisfies the buffer-tag and allocation invariants; a call after ANY history "
             "(any length) observes exactly the parameters, grid and conditioning held at that moment, for plain and "
             "composite transforms; disp right after data_/grid_/condition_/reset reflects the new state; a linked transform "
             "follows what its source last evaluated; C07's sharing clause. The defects found (F-07, F-09a, F-15a x3, F-09c: grid_ "
             "ignored a change of align_corners alone) were repaired. Regrid-preserves-world is partial: proved that the vector "
             "stored at every new sample has the world value of the old field's interpolant there (any grid pair, either "
             "convention: C09_regrid_dense_partial) and that B-spline refinement keeps the value at every old sample "
             "(C09_regrid_bspline_partial); between samples it holds up to interpolation error only (oracle: smooth and "
             "exactly-linear fields). Keyword conditioning by oracle.",
        ref="5 C09"),
    "C10": dict(
        technique="Lean 4 theorems: representation conversions are the grid's vector maps; expv is conjugate to one "
                  "index-space computation in every representation/convention + correspondence of FlowFields.axes/exp/warp",
        text="9 theorems: axes conversion invertible and path independent for all pairs/triples and equal to the linear part "
             "of the grid's point map; every representation denotes one index-space displacement; FlowFields.exp (as "
             "repaired by the fix: commit) denotes the same world-space field whatever representation and align_corners "
             "convention the input was given in (conjugation lemma, any number of steps); resampling re-expresses vectors "
             "keeping their world value; warp_image samples at index + index-displacement in every representation; the "
             "pre-repair method is refuted by a concrete witness.",
        ref="5 C10"),
    "C12": dict(
        technique="Lean 4 theorems on index-function models of the finite-difference stencils, flow_derivatives dictionary "
                  "loop, jacobian_det/divergence/curl/lie_bracket + correspondence over all modes/keys/spacing forms",
        text="27 theorems: every finite-difference mode is exact on affine fields (interior for the one-sided padded "
             "schemes, everywhere for forward_central_backward and - after the repair ebd9a4d of the averaging - for sobel/prewitt), "
             "second derivatives of affine fields vanish at every point for these three, any dilation and spacing form; "
             "second derivatives exact on quadratics in the interior; mixed derivatives symmetric; subset requests return "
             "the same values; jacobian_det = Matrix.det (D=2,3, with/without identity); divergence = trace; curl; Lie "
             "bracket of affine fields = (AB-BA)x+(Ab-Ba). B-spline mode is tied by correspondence (its theorem is C14's). The spacing FlowFields.curl / FlowField.curl derive from the vector representation is the step between neighbouring grid points in those axes, hence their curl of an affine field is the analytic one (theorems + 5 obligations regenerated from the source); integer-dtype inputs and modules.Curl are covered by an oracle only (two defects found there were repaired: 57bfa1a, 22c2426).",
        ref="5 C12"),
    "C14": dict(
        technique="Lean 4 polynomial identities for the cubic B-spline weight tables, both evaluation algorithms, control "
                  "grid arithmetic and subdivision masks + exhaustive correspondence over strides 1..16 x orders 0..3 x sizes",
        text="24 theorems: interpolation weights are the analytic basis (and its derivatives) for every stride; partition of "
             "unity, derivative weights sum to zero, linear precision; evaluation = analytic spline; linear coefficients "
             "reproduce the linear function; the two evaluation algorithms agree; control grid covers the image for all "
             "m,s >= 1; subdivision (masks, repeated, FFD refine crop) leaves the function unchanged. Both defects found (control grid spacing, 1-D subdivision) "
             "were repaired by fix: commits.",
        ref="5 C14"),
    "C15": dict(
        technique="Lean 4 soundness/completeness theorem for a storage-write monitor over aten op traces (TorchDispatchMode) + "
                  "slot/container model of shallow-copy accessors; verdicts cross-checked against bitwise before/after snapshots",
        text="19 theorems: a trace accepted by the monitor cannot change any argument storage for ANY written contents "
             "(induction over traces of any length), rejection is never spurious, accepted iff no execution changes an argument; "
             "with-argument accessors of Grid/Cube/Image(Batch) are pure, deepcopy is independent in both directions; for "
             "transforms the model predicts exactly which receiver slots an accessor changes (C15_transform_accessors_pure: every leaf and composite accessor leaves every node of the receiver's graph unchanged; all nine defects found were repaired by fix: commits, no C15 finding is open). "
             "Every public name of core.functional (113) and losses.functional (40) is traced on enumerated call paths "
             "(1413 paths); the proof is per enumerated path, not about all paths of the Python source (partial).",
        ref="5 C15"),
    "C16": dict(
        technique="Lean 4 theorems on list models of the losses (reductions, masks, NCC/LCC, Dice/Tversky, MI symmetry) + "
                  "correspondence of functional and module forms",
        text="64 theorems: mean/sum are the mean/sum of none; masked pointwise losses ignore mask-0 samples and average over "
             "the mask; norm scaling; pointwise losses zero/range/symmetric; NCC and LCC identical/range (Cauchy-Schwarz)/"
             "symmetric/affine-invariant with the exact epsilon law; Dice/Tversky identical/symmetric/range and "
             "Tversky(1/2,1/2) = Dice on binary inputs; MI symmetric for arbitrary window/log. the mixed encodings of one binary segmentation (foreground channel / one-hot / label map) give the same index and 1 for identical inputs. "
             "with a mask, NCC keeps identical/range/symmetric/affine-invariant, ignores mask-0 samples and accepts every "
             "documented mask shape; MI with a 0/1 mask equals MI of the kept samples and ignores masked-out values. All six "
             "defects found (tversky_loss TypeError, tversky weight shape, NMI class, multi-class label-map target, ncc mask "
             "shape, mi mask) were repaired by fix: commits; no C16 finding is open. MI/NMI identical/range need properties "
             "of log (not stated). The factor the normalised loss classes derive from norm / source / target (None, True, False, a number; both, one or no reference image) is a model with theorems (forms, symmetry, c^2 scaling for every c != 0, positivity) regenerated from losses/base.py every run.",
        ref="5 C16"),
    "C17": dict(
        technique="Lean 4 theorems on the regularisers assembled from the C12 stencil model, lame_parameters, "
                  "inverse_consistency_loss units + correspondence over regularisers x modes x spacings x reductions",
        text="26 theorems: bending/curvature vanish on affine fields at EVERY grid point for the default mode, sobel, "
             "prewitt and forward_central_backward (any D, size >= 2, any spacing; margin-2 interior for the padded one-sided "
             "schemes), reduced losses are 0 and adding an affine field changes nothing there; gradient terms vanish for "
             "translations and take their closed forms on affine fields at every point in those modes; non-negativity; "
             "quadratic scaling; spacing powers; linear transforms give zero; reductions; seven elastic-constant pairs "
             "round-trip; inverse consistency of exact inverse pairs is zero with the right unit factors; B-spline "
             "bending/elasticity are the analytic ones. Twelve defect keys (lame_parameters x2, inverse-consistency units and "
             "mask/sum, elasticity stride and shape, zero-padded sobel/prewitt averaging = the default mode) were repaired by "
             "fix: commits; 12 known-finding keys remain, one family: the explicitly requested one-sided / central / Gaussian "
             "stencils replicate-pad the signal and give wrong boundary values on affine fields (refuted by "
             "C17_bending_forward_affine_refuted, C17_grad_forward_affine_refuted).",
        ref="5 C17"),
    "C18": dict(
        technique="Lean 4 theorems on models of the MetaImage header grammar, channel axis shuffle, NIfTI affine/LPS-RAS and "
                  "vector-intent layout + exhaustive format x D x channels x dtype x compress correspondence incl. SimpleITK",
        text="17 theorems: parse(serialise h) = h for every well-formed MetaImage header (any D >= 1, C >= 1); exact header "
             "lines, TransformMatrix layout and round trip, element-type table; the read shuffle undoes the write shuffle for "
             "every rank/channel count and the file layout is pixel-interleaved; LPS<->RAS is an involution; NIfTI geometry "
             "(origin/spacing/direction through the 4x4 affine), pixdim and scalar/vector-intent layout round-trip; flow "
             "vectors to world axes and back. The four defects found (every NIfTI write, 2-D and multi-channel .mha reads, "
             "ITK vector NIfTI reads) were repaired by fix: commits. Voxel byte encoding (numpy/zlib/nibabel/ITK) is trusted.",
        ref="5 C18"),
    "C19": dict(
        technique="Lean 4 induction over programs on a provenance model of the __torch_function__ dispatcher, "
                  "__getitem__, cat/split, copy/pickle + exact correspondence on random op programs",
        text="13 theorems, no refutation left: for programs of any length over the generated op classes (elementwise, casts, "
             "clone, indexing by int/slice/list/tensor, iteration, cat/split/tensor_split along dim 0, chunk/unbind, flip, roll, "
             "index_select, permute/transpose, ops along non-batch dims, interpolate, pooling, copy/deepcopy/pickle) every typed "
             "result carries one grid per entry of matching shape, entry i carrying the grid (and axes) of the item whose data it "
             "holds (C19_aligned_partial: the invariant does not yet cover batch-dim literals of narrow/select/reductions, "
             "reshape-like ops, ellipsis indices and from_images/collate, for which C19_demote gives count and shape); typed "
             "results always have matching grid count/shape (demotion); flip/roll/index_select reorder the grids with the "
             "entries, the permute family demotes. All 14 defects found were repaired by fix: commits; no C19 finding is open.",
        ref="5 C19"),
    "C20": dict(
        technique="Lean 4 HasDerivAt theorems for closed-form model gradients of polynomial/rational operations + "
                  "correspondence torch.autograd.grad vs model gradient over Q; autograd-vs-finite-difference exploration",
        text="23 theorems (Mathlib HasDerivAt via an exact quadratic-remainder expansion): pointwise losses, Dice/Tversky, NCC, "
             "multilinear sampling w.r.t. values and (away from kinks) coordinates incl. the chain through unnormalize, B-spline "
             "evaluation, every finite-difference mode and quadratic regularisers, compose/scale-translate/2-D rotation. Nine "
             "streams compare autograd of the real operation with the model gradient (a detach/round/in-place overwrite changes "
             "autograd although forward values stay the same). Multi-step expv, logv, MI, LCC, 3-D rotations and transform stacks "
             "have no model gradient: exploration only (partial). All three defects found (F-20a rounding, F-20b/c re-wrapping cuts the autograd graph; 13 keys) were repaired by fix: commits.",
        ref="5 C20"),
}

NOT_APPLICABLE = {}


def main() -> int:
    props = [json.loads(l)["id"] for l in (VERIF / "properties.jsonl").read_text().splitlines() if l.strip()]
    checks = []
    for pid in props:
        if pid not in CLAIMS:
            continue
        c = CLAIMS[pid]
        checks.append({
            "property_id": pid,
            "quick_cmd": f"/venv/bin/python harness/check.py {pid} --tier quick",
            "thorough_cmd": f"/venv/bin/python harness/check.py {pid} --tier thorough",
            "evidence_file": f"/verif/evidence/{pid}.json",
            "replay_cmd_template": f"/venv/bin/python harness/check.py {pid} --replay {{path}}",
            "engine": "lean4-model+correspondence",
            "level_claimed": {"category": c.get("category", "proof"), "text": c["text"], "design_ref": c["ref"]},
            "level_note": c.get("note", TB.replace("{id}", pid.lower())),
            "technique": c["technique"],
        })
    na = []
    for pid in props:
        if pid not in CLAIMS:
            na.append({"property_id": pid, "reason": NOT_APPLICABLE.get(
                pid, "not claimed yet: model/theorems/correspondence for this property are not built in the committed "
                     "tree (planned in DESIGN.md §5); no other technique is substituted")})
    man = {
        "version": 1,
        "setup_cmd": "cd /verif/lean && lake build",
        "hooks": {
            "guard": "BIOMEDIA_DEEPALI_VERIF",
            "enable": "no source hooks are needed: checks import /repo/src in-process (PYTHONPATH) and observe from outside",
            "baseline_off_cmd": "cd /repo && /venv/bin/python -m pytest -ra -q -p no:cacheprovider --timeout=900 --continue-on-collection-errors",
            "source_commits": [],
            "add_only": True,
        },
        "engines": [{
            "name": "lean4-model+correspondence", "path": "/verif/lean + /verif/harness",
            "serves_properties": sorted(CLAIMS),
            "kind_free_text": "Lean 4 theorems about a hand-written executable model (lean/Deepali) + correspondence check "
                              "driving model and implementation with the same inputs (harness/check.py) + a Python-subset "
                              "to Lean translator that regenerates selected definitions from the source on every run, "
                              "with theorems equating them to the model (harness/lib/pytrans.py, harness/gen)",
        }],
        "checks": checks,
        "not_applicable": na,
        "notes": "see DESIGN.md; known genuine defects are listed in known_findings.json",
    }
    out = VERIF / "MANIFEST.json"
    out.write_text(json.dumps(man, indent=1) + "\n")
    r = subprocess.run(["python3-vt", "-c", (
        "import json,jsonschema,sys;"
        "jsonschema.validate(json.load(open('/verif/MANIFEST.json')), json.load(open('/root/.vp/MANIFEST.schema.json')));"
        "print('MANIFEST valid:', len(json.load(open('/verif/MANIFEST.json'))['checks']), 'checks')")],
        capture_output=True, text=True)
    print(r.stdout + r.stderr[-500:])
    return r.returncode


if __name__ == "__main__":
    sys.exit(main())
