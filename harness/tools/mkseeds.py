#!/usr/bin/env python3
"""Regenerate DESIGN.md §12 (seeded changes and which checks catch them) from /verif/seeded/*/meta.json."""
import json
import re
from pathlib import Path

VERIF = Path(__file__).resolve().parents[2]

# seeds that a first run of the checks missed, and what was strengthened (history, kept by hand)
STRENGTHENED = {
    "C10-1": "first caught only by C01; C10 gained a world-affine oracle with independently drawn target grids",
    "C05-3": "missed; the generators now derive grids with fractional size (`gen.derive`), which the change needs",
    "C04-3": "missed; the operation generator now draws negative pyramid levels",
    "C03-1": "first only `no-failing-input-found`; the C03 oracle now splits down/up chains so that the failing chain is replayed",
    "C07-1": "first caught only by C09 (`no-failing-input-found`); the C07 SVF oracle now evaluates an `update_buffers=True` "
             "inverse directly through `forward()`/`disp()` before any `__call__`",
    "C09-1": "missed; the regrid oracle now changes `align_corners` together with the size and uses exactly-linear "
             "fields (tolerance 1e-3 instead of the interpolation bound)",
    "C09-3": "missed; new oracle `cond_kwargs` (keyword conditioning, re-conditioning, copies)",
    "C06-2": "missed (probability ~1e-3 per random case); `dense_sweep` enumerates class x stride x resize x "
             "align_corners x output-grid kind on every run",
    "C13-2": "missed; bracket and BCH oracles now draw `sigma` (Gaussian pre-smoothing, logv's default)",
    "C15-3": "missed (the monitor proves per enumerated call path; the change adds a value-dependent path); the table now "
             "has value-level no-op paths for `rescale` (identity range with integer output / clamping)",
    "C16-3": "first only `no-failing-input-found` (stream `tversky` disagreed); the overlap oracle now checks the documented "
             "mixed encodings (foreground channel / one-hot / label map) — which also surfaced F-16f on the unchanged tree",
    "C20-2": "missed; new oracle operations `spatial.<T>.inv(linked).{call,forward,tensor}` (gradient through the linked "
             "inverse w.r.t. the shared parameters, with and without the pre-forward hook)",
    "C20-3": "missed; new oracle operations `losses.ClosestPointDistance` / `LandmarkPointDistance` w.r.t. both point sets",
    # round 2 (two seeds per property: cooperating edits / history-dependent / batch-dtype-argument-form dependent)
    "C02-4": "missed; new oracle `origin_set` (origin(new) / origin_ / crop / pad on re-gridded grids with fractional stored size), "
             "and the generated obligation now also ties the size the offset is computed from to `size_tensor()`",
    "C04-4": "first caught only by C05 (new form: per-image source grids with ONE target Grid); C04 now enumerates `sample_single`",
    "C04-5": "missed; the ramp oracle enumerates (size-changing step, index-only step) pairs on odd sizes (fractional stored size)",
    "C11-4": "reverts the repair 35474ea; reported by C15 (`writes-shared-exp`), not by C11 — the property it breaks first is C15's",
    "C13-5": "missed; streams and the affine oracle now also pass `align_corners` as the third positional argument",
    "C16-4": "first only `no-failing-input-found`; new oracle `repeat` (same tensors twice: same value, arguments not written to)",
    "C17-4": "missed; the `modules` oracle applies the SAME module instance to a second field of another shape",
    "C19-5": "missed; new oracle `copy_layout` (copy / deepcopy / pickle of channels-last, permuted-view, sliced, flipped objects)",
    # round 3 (one seed per property: side doors — alternative entry points, glue, argument normalisation, dtype / layout)
    "C05-6": "missed; the `sample.on_grid` stream and the ITK oracle now also go through the AlignImage / TransformImage modules "
             "with every explicit `axes` choice (the only callers of Grid.points)",
    "C08-6": "missed; transform cases now carry a requires_grad history (frozen after / during the setter call) between the "
             "setter and the getter / tensor()",
    "C09-6": "reverts the repair 35474ea like C11-4; reported by C15 (`writes-shared-exp`), the property it breaks first",
    "C10-6": "reported by C19 (`from_images` loses the per-image grids), not by C10: the flow values are untouched",
    "C11-6": "reported by C15 (the re-gridded transform no longer carries the state of the one it was derived from), not by C11",
    "C13-6": "reported by C11 (ExpFlow.inverse with align_corners=False), not by C13's functional streams",
    "C18-6": "missed; images and flow fields are now written / read through write, to_uri(path), to_uri('file://…') and read / from_uri",
    "C19-6": "missed; `copy_layout` now also draws per-item grids that compare `==` but differ (align_corners, 2e-6 relative "
             "centre shift) and compares the copied grids attribute by attribute instead of with Grid.__eq__",
    "C12-6": "replacement of the first round-3 change (see above): per-axis spacing of length N read as per-image spacing",
    # round 4 (one seed per property: object-oriented layers, rarely used options, derived defaults, in-place twins)
    "C02-7": "reported by C10 and C01 (vector re-orientation `transform_vectors`), not by C02 whose subject is the point maps",
    "C03-7": "missed by C03 and C04; new C04 oracle `pyramid_options` (Image / ImageBatch.pyramid with finest-level spacing and an "
             "explicit align_corners different from the grid's flag: every level must sit on the Grid.pyramid level of the requested "
             "convention) — which also found a genuine defect of that branch on the unchanged tree (repaired, 8cc5ad1)",
    "C04-7": "missed; same new oracle `pyramid_options` (exactly dividing spacings with sizes 2^L·k+1); the patch was rebased onto the "
             "line repaired by 8cc5ad1",
    "C05-7": "reported by C06 (`ImageTransformer` with three grids), not by C05: the class belongs to the transform layer",
    "C07-7": "missed; the `inv_forward` stream now evaluates `inverse(update_buffers=True)` directly through forward() without "
             "update() / the pre-forward hook, and the new oracle `ub_direct` gives the concrete replay",
    "C08-7": "first only `no-failing-input-found` (stream `forms`); the compose oracle now checks homogeneous_matrix(T, offset=o) = "
             "T followed by o for every operand form",
    "C10-7": "same change as C13-6; reported by C11 (`ExpFlow.inverse`)",
    "C11-7": "same change as C11-6; first reported only by C15 without a failing input; the C11 `flags` oracle now checks that a "
             "StationaryVelocityFieldTransform keeps scale / steps of its exponential through inverse() and re-gridding",
    "C13-7": "same change as C13-6; reported by C11 (`ExpFlow.inverse`)",
    "C16-7": "missed; the `modules` oracle now enumerates every documented form of `norm` (None / True / False / number) x (both / "
             "one / no reference image)",
    "C17-7": "missed; new oracle `ic_default_grid` (grid=None equals the explicit default grid on non-cubic shapes)",
    # round 5 (one seed per property: a defect in exactly one shape-dependent branch — D, N, C, parity / boundary sizes, rank
    # or type of an optional argument)
    "C05-8": "missed; new batch form `batchN_target_is_grid0` (per-image source grids, ONE target Grid that is the grid of image 0) "
             "in the `sample.on_grid` stream and the ITK oracle",
    "C08-8": "first only `no-failing-input-found` (stream `quat`); the `conversions` oracle now converts batches of three distinct "
             "items and compares item by item",
    "C09-8": "reported by C06 (`disp` on the own grid raises / is axis-reversed for stride > 1, resize=False on non-square grids), "
             "not by C09",
    "C10-8": "first reported only by C01 (`vectors:grid->cube` on a grid with fractional stored size); the C10 `repr` and "
             "`world_affine` oracles now also draw pyramid levels of odd-sized grids and report it too",
    "C18-8": "same change as C02-8 (origin setter on one-sample axes); reported by C18 (`convert_back:memory:origin`) and C02",
    "C20-8": "missed; new oracle operations `losses.<fn>[norm=scalar0d | scalar1 | recipe]` (the normalisation factor as a learnable "
             "tensor, and as the documented max_difference(source, target)^2 of the optimised images)",
    # round 6 (one seed per property: special values, boundaries, repeated application, mirrored inputs)
    "C01-9": "missed; the `laws` oracle now also draws RELATED grid triples (g, g.resize(a), g.resize(b): same world domain, other "
             "sizes), the pairs for which a 'same domain, nothing to do' shortcut is tempting",
    "C04-9": "same change as C03-8; first only `no-failing-input-found` in C04 (C03 gave the input); new form `center_crop_oversize` "
             "(requested size larger than the image along some axes) with a ramp",
    "C05-9": "first reported only by C15; the `self` oracle now samples the same image twice with constant padding (on a grid that "
             "really differs — `Grid.__eq__` ignores the flag) and compares results and the image",
    "C06-9": "missed; new target kind `flipped` (same field of view, reversed index order along two axes) in the ImageTransformer "
             "stream and oracle",
    "C07-9": "missed; `linear_inverse` now also takes the inverse of the inverse (same link mode): it inverts the inverse and is "
             "the original map",
    "C09-9": "first only `no-failing-input-found`; the regrid oracle now draws flag-only grid changes (a grid that is `==` the old "
             "one but has the other align_corners)",
    "C10-9": "missed; `world_affine` now enumerates same-domain targets (grid.resize) for every representation x both flags",
    "C13-9": "reported by C11 (`inverse-flag:scale` at steps = 0), not by C13",
    "C16-9": "first only `no-failing-input-found` (the new generated obligation `gen_module_norm_value` broke); the `modules` oracle "
             "now passes the factor 1 as float, int and tensor",
    "C17-9": "first only `no-failing-input-found` (generated obligation of `lame_parameters`); the `lame` oracle now starts every "
             "pair at lambda = 0 (Poisson's ratio exactly 0)",
    "C18-9": "first only `no-failing-input-found` (stream `mha_header`); the generators now draw grids with origin exactly 0 (and "
             "unit spacing / identity direction)",
    "C20-9": "same change as C05-9; first reported only by C15; `check_op` now evaluates every operation twice with unchanged "
             "inputs (`C20:irreproducible:*`) and a constant-padding `grid_sample` operation was added",
    "C08-10": "not reported by C08 (every single product is still numerically right; only the caller's first operand is overwritten) "
              "but by C15, the property that owns argument mutation (`C15:core.homogeneous_matmul:mutates-argument`); C08 left as is",
    "C13-10": "missed; the bracket and commuting-pair oracles now also pass an explicit `spacing` (scalar or per axis), which "
              "lie_bracket has to forward to both Jacobians",
    # round 7 (session 5; sixteen properties — all but C02 C03 C11 C14: second-order places,
    # rarely used entry points or keywords, interaction of two options / objects, three-step histories)
    "C15-10": "missed; the C15 argument table now calls wlcc_loss with every dtype pairing of source_mask / target_mask (a mask "
              "already of the compute dtype is not copied by `.float()`, so an in-place product writes into the caller's tensor)",
    "C19-10": "missed; index_select is now also called with `dim` positional and `index` by keyword (method and torch.* forms)",
    "C10-10": "missed, and it exposed a vacuous comparison: the target grid of the `repr` oracle sat at its own random position, "
              "almost never inside the source fields, so the resampled vectors were all padding. The target is now scaled and moved "
              "into the region every field of the batch covers (150 / 150 cases sample non-zero vectors), the fields of one batch share "
              "a centre, and sample(Grid) is compared with sample([Grid] * N)",
    "C09-10": "first caught only by C11 (the regenerated `grid_()` record fragment); the C09 regrid oracle now calls the out-of-place "
              "`t.grid(g)` first and requires the ORIGINAL's world deformation and grid to stay exactly what they were",
}


def short(s: str, n: int) -> str:
    s = re.sub(r"\s+", " ", s).replace("|", "/")
    return s if len(s) <= n else s[: n - 1] + "…"


def main():
    rows = []
    for d in sorted((VERIF / "seeded").iterdir()):
        m = d / "meta.json"
        if not m.exists():
            continue
        j = json.loads(m.read_text())
        caught = []
        for p, c in sorted(j.get("checks", {}).items()):
            if c.get("exit") == 1:
                keys = c.get("keys") or []
                how = "no-failing-input-found" if c.get("no_failing_input_found") else (keys[0] if keys else "violation")
                caught.append(f"{p} (`{short(how, 60)}`)")
        rows.append((d.name, short(j.get("what_changed", ""), 230), short(j.get("what_it_needs_to_manifest", ""), 200),
                     "; ".join(caught) or "**missed**", STRENGTHENED.get(d.name, "")))
    out = ["## 12. Seeded changes and which checks catch them", "",
           "Seeds -1..-3 of every property are round 1, -4 and -5 round 2 (written against the repaired tree, with the "
           "instruction to avoid the obvious single-token edit of the main formula and to use cooperating edits, history / "
           "cached state, or batch-size / dtype / argument-form dependence), -6 round 3 (one per property, 'side doors': "
           "alternative entry points such as modules / data-type methods / URI helpers, glue between features, argument "
           "normalisation, dtype / device / memory layout), -7 round 4 (one per property: object-oriented layers on top of the core "
           "functions, rarely used options, defaults derived from other objects, in-place twins; the agents of rounds 3 and 4 "
           "independently arrived at the same change three times — `ExpFlow.inverse()` rebuilt without align_corners — and at the "
           "SVF `grid_()` change twice), -8 round 5 (one per property: the defect lives in exactly one branch that depends on the SHAPE "
           "of the problem — number of dimensions, batch size / broadcasting, channels, size parity or boundary sizes, rank or type "
           "of an optional argument), -9 round 6 (one per property: special values and boundaries — exact zeros / ones, indices at 0 or n−1, "
           "falsy-but-valid arguments, same-domain or mirrored grids — and repeated application), -10 round 7 (session 5, sixteen properties — the eight whose tie to the code is correspondence only, C05 C06 C09 C10 C15 C18 C19 C20, then C04 C07 C13 C17 and C01 C08 C12 C16: second-order places such as a rarely used entry point or keyword form, the interaction of two options or two objects, a three-step history). The first round-3 change for C12 (dropping the up-front float cast of "
           "integer flows in spatial_derivatives) was only a defect because finite_differences truncated fractional spacings for "
           "integer data on the unchanged tree; that is a genuine defect (repaired, 57bfa1a), after which the change is "
           "behaviour-preserving, so it was replaced by a new one. "
           "Each change was written by a fresh sub-agent that was given only the property text and a private scratch git "
           "worktree of /repo (nothing from /verif). It compiles, passes the 88 tests, needs something specific to manifest "
           "and ships a `demo.py` that passes on the clean tree and fails with the patch. I confirm each one with "
           "`harness/tools/seedcheck.py`: fresh scratch worktree under /var/tmp → apply `patch.diff` → pytest → demo with and "
           "without → the registered quick checks against the patched sources through `VERIF_REPO_SRC` → worktree removed. "
           "(The patch is never applied to /repo itself: builder sub-agents import /repo/src while they work; the checks read "
           "their source root from `VERIF_REPO_SRC`, default /repo/src, so the effect is the same as `git apply` + run + "
           "`git checkout`.) Everything is kept under `seeded/<id>/`; `meta.json` records what was run and each check's result.",
           "",
           f"{len(rows)} seeded changes; {sum(1 for r in rows if r[3] != '**missed**')} are reported by at least one registered "
           "quick check with the current machinery. “strengthened” = what I changed after a first miss.", "",
           "| seed | change | needs | caught by (first key) | strengthened |", "|---|---|---|---|---|"]
    for r in rows:
        out.append("| " + " | ".join(r) + " |")
    out.append("")
    text = "\n".join(out)
    p = VERIF / "DESIGN.md"
    s = p.read_text()
    b, e = "<!-- BEGIN seeds (generated by harness/tools/mkseeds.py) -->", "<!-- END seeds -->"
    if b in s:
        s = s[: s.index(b) + len(b)] + "\n\n" + text + "\n" + s[s.index(e):]
    else:
        s = s.rstrip("\n") + "\n\n---------------------------------------------------------------------------\n\n" + b + "\n\n" + text + "\n" + e + "\n"
    p.write_text(s)
    print(len(rows), "seeds;", sum(1 for r in rows if r[3] == "**missed**"), "missed")


if __name__ == "__main__":
    main()
