#!/venv/bin/python
"""mutate.py <prop> <repo-relative file> <old> <new> [--tier quick]
Applies a one-off textual edit to /repo, runs the check, restores the file (git checkout).
Development aid for measuring detection; never leaves /repo modified."""
import subprocess
import sys
from pathlib import Path

prop, rel, old, new = sys.argv[1:5]
tier = sys.argv[6] if len(sys.argv) > 6 and sys.argv[5] == "--tier" else "quick"
p = Path("/repo") / rel
src = p.read_text()
if src.count(old) != 1:
    print(f"pattern occurs {src.count(old)} times; need exactly 1")
    sys.exit(2)
try:
    p.write_text(src.replace(old, new))
    r = subprocess.run(["/venv/bin/python", "/verif/harness/check.py", prop, "--tier", tier], cwd="/verif",
                       capture_output=True, text=True)
    print(r.stdout[-3000:])
    print(r.stderr[-2000:])
    print("exit", r.returncode)
finally:
    subprocess.run(["git", "-C", "/repo", "checkout", "--", rel], check=True)
