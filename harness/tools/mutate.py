#!/venv/bin/python
"""mutate.py <prop> <repo-relative file> <old> <new> [--tier quick] [--verif DIR]

Development aid for measuring detection: copies /repo/src to a scratch directory, applies a
one-off textual edit THERE (never touches /repo), runs the check against the copy
(VERIF_REPO_SRC), prints the tail of its output and removes the copy."""
import os
import shutil
import subprocess
import sys
import tempfile
from pathlib import Path

args = sys.argv[1:]
prop, rel, old, new = args[:4]
tier = args[args.index("--tier") + 1] if "--tier" in args else "quick"
verif = args[args.index("--verif") + 1] if "--verif" in args else str(Path(__file__).resolve().parents[2])
assert rel.startswith("src/")
scratch = Path(tempfile.mkdtemp(prefix="verif-mut-", dir="/var/tmp"))
try:
    shutil.copytree("/repo/src", scratch / "src", ignore=shutil.ignore_patterns("__pycache__"))
    p = scratch / rel
    src = p.read_text()
    if src.count(old) != 1:
        print(f"pattern occurs {src.count(old)} times; need exactly 1")
        sys.exit(2)
    p.write_text(src.replace(old, new))
    env = dict(os.environ, VERIF_REPO_SRC=str(scratch / "src"), VERIF_EVIDENCE_DIR=str(scratch / "evidence"),
               VERIF_REPLAY_DIR=str(scratch / "replay"))
    r = subprocess.run(["/venv/bin/python", f"{verif}/harness/check.py", prop, "--tier", tier], cwd=verif,
                       capture_output=True, text=True, env=env)
    print(r.stdout[-3000:])
    print(r.stderr[-2000:])
    for f in sorted((scratch / "replay").glob("*.json"))[:2]:
        print("---", f.name)
        print(f.read_text()[:1500])
    print("exit", r.returncode)
finally:
    shutil.rmtree(scratch, ignore_errors=True)
