#!/usr/bin/env python3
"""seedcheck.py <dir with patch.diff, demo.py, meta.json> <seed-id> [<prop> ...]

Confirms a seeded defect independently and runs the registered checks against it:
  1. scratch git worktree of /repo (outside /repo and /verif), patch applied THERE (never in /repo);
  2. the repository's test suite must still pass with the patch;
  3. demo.py must FAIL with the patch and PASS without;
  4. each listed check (default: the property named in meta.json) is run with VERIF_REPO_SRC pointing at the patched
     sources (same check code, same commands as MANIFEST's quick_cmd) and must report a VIOLATION;
  5. the worktree is removed. If everything is confirmed the defect is kept under /verif/seeded/<seed-id>/.
"""
import json
import os
import shutil
import subprocess
import sys
import tempfile
from pathlib import Path

src_dir, seed_id = Path(sys.argv[1]), sys.argv[2]
meta = json.loads((src_dir / "meta.json").read_text())
props = sys.argv[3:] or [meta["property"]]
work = Path(tempfile.mkdtemp(prefix="verif-seed-", dir="/var/tmp"))
wt = work / "repo"
out = {"seed": seed_id, "property": meta["property"], "checks": {}}


def run(cmd, env=None, cwd=None, timeout=3000):
    e = dict(os.environ)
    e.update(env or {})
    return subprocess.run(cmd, cwd=cwd, env=e, capture_output=True, text=True, timeout=timeout)


try:
    run(["git", "-C", "/repo", "worktree", "add", "-q", "--detach", str(wt), "HEAD"])
    patch = str((src_dir / "patch.diff").resolve())
    r = run(["git", "-C", str(wt), "apply", patch])
    out["patch_method"] = "git apply"
    if r.returncode != 0:
        # the patch was written against an earlier HEAD of /repo (before later fix: commits touched the same file):
        # fall back to a three-way merge, then to patch(1) with fuzz
        r = run(["git", "-C", str(wt), "apply", "-3", patch])
        out["patch_method"] = "git apply -3"
        if r.returncode != 0 or run(["git", "-C", str(wt), "diff", "--name-only", "--diff-filter=U"]).stdout.strip():
            run(["git", "-C", str(wt), "checkout", "-q", "--", "."])
            r = run(["patch", "-p1", "--fuzz=3", "-s", "-i", patch], cwd=str(wt))
            out["patch_method"] = "patch --fuzz=3"
    out["patch_applies"] = r.returncode == 0
    if r.returncode != 0:
        out["error"] = r.stderr[-500:]
        raise SystemExit
    env = {"PYTHONPATH": str(wt / "src")}
    r = run(["/venv/bin/python", "-m", "pytest", "-q", "-p", "no:cacheprovider", "tests"], env=env, cwd=str(wt))
    tail = (r.stdout.strip().splitlines() or [""])[-1]
    out["tests_with_patch"] = tail
    out["tests_still_pass"] = " failed" not in tail and "error" not in tail.lower() and "88 passed" in tail
    r1 = run(["/venv/bin/python", str((src_dir / "demo.py").resolve())], env=env, cwd=str(wt))
    r0 = run(["/venv/bin/python", str((src_dir / "demo.py").resolve())], env={"PYTHONPATH": "/repo/src"}, cwd="/repo")
    out["demo_with_patch"] = {"exit": r1.returncode, "tail": r1.stdout[-300:]}
    out["demo_without_patch"] = {"exit": r0.returncode, "tail": r0.stdout[-300:]}
    out["demo_confirms"] = r1.returncode != 0 and r0.returncode == 0
    for prop in props:
        env2 = {"VERIF_REPO_SRC": str(wt / "src"), "VERIF_EVIDENCE_DIR": str(work / "evidence"),
                "VERIF_REPLAY_DIR": str(work / "replay"), "VERIF_SEED": os.environ.get("VERIF_SEED", "0")}
        r = run(["/venv/bin/python", "/verif/harness/check.py", prop, "--tier", "quick"], env=env2, cwd="/verif")
        viol = [l for l in r.stdout.splitlines() if l.startswith("VIOLATION")]
        keys = []
        for f in sorted((work / "replay").glob(f"{prop}_violation_*.json")):
            keys.append(json.loads(f.read_text()).get("key"))
        out["checks"][prop] = {"exit": r.returncode, "violations": len(viol), "keys": keys[:8],
                               "no_failing_input_found": any("no-failing-input-found" in l for l in viol),
                               "summary": (r.stdout.strip().splitlines() or [""])[-1][:300]}
        shutil.rmtree(work / "replay", ignore_errors=True)
    out["caught_by"] = [p for p, c in out["checks"].items() if c["exit"] == 1]
finally:
    run(["git", "-C", "/repo", "worktree", "remove", "--force", str(wt)])
    shutil.rmtree(work, ignore_errors=True)

print(json.dumps(out, indent=1))
if out.get("tests_still_pass") and out.get("demo_confirms"):
    dst = Path("/verif/seeded") / seed_id
    dst.mkdir(parents=True, exist_ok=True)
    if src_dir.resolve() != dst.resolve():          # re-validation of a kept seed: the files are already in place
        shutil.copy2(src_dir / "patch.diff", dst / "patch.diff")
        shutil.copy2(src_dir / "demo.py", dst / "demo.py")
    meta["confirmed"] = {k: out[k] for k in ("tests_with_patch", "demo_with_patch", "demo_without_patch")}
    meta["what_was_run"] = ("scratch worktree of /repo HEAD, patch applied there; pytest tests; demo.py with and without patch; "
                            "check.py <prop> --tier quick with VERIF_REPO_SRC=<worktree>/src")
    meta["checks"] = out["checks"]
    meta["caught_by"] = out["caught_by"]
    (dst / "meta.json").write_text(json.dumps(meta, indent=1))
    print("kept as", dst)
else:
    print("NOT kept (not confirmed)")
