#!/usr/bin/env python3
"""Fold the results of a full re-validation sweep (one seedcheck.py JSON per seed in <dir>) back into
/verif/seeded/<id>/meta.json (checks, caught_by, what was run, how the patch was applied)."""
import json
import sys
from pathlib import Path

src = Path(sys.argv[1])
for f in sorted(src.glob("*.json")):
    t = f.read_text()
    try:
        out, _ = json.JSONDecoder().raw_decode(t[t.index("{"):])
    except Exception as e:  # noqa
        print(f.stem, "unparsable", str(e)[:80])
        continue
    m = Path("/verif/seeded") / f.stem / "meta.json"
    meta = json.loads(m.read_text())
    print(f.stem, "patch", out.get("patch_applies"), out.get("patch_method"), "tests", out.get("tests_still_pass"), "demo", out.get("demo_confirms"),
          "caught_by", out.get("caught_by"))
    if not (out.get("patch_applies") and out.get("tests_still_pass") and out.get("demo_confirms")):
        meta["revalidation"] = {"note": "not re-confirmed on the current /repo HEAD", **{k: out.get(k) for k in ("patch_applies", "patch_method", "error", "tests_with_patch", "demo_with_patch", "demo_without_patch")}}
    else:
        meta["confirmed"] = {k: out[k] for k in ("tests_with_patch", "demo_with_patch", "demo_without_patch")}
        meta["checks"] = out["checks"]
        meta["caught_by"] = out["caught_by"]
        meta["patch_method"] = out.get("patch_method")
        meta.pop("revalidation", None)
    m.write_text(json.dumps(meta, indent=1))
