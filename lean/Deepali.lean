import Deepali.Model.Vec
import Deepali.Model.Homog
import Deepali.Model.Grid
import Deepali.Proto
import Deepali.Drv.All
import Deepali.Props.C01
import Deepali.Props.C05
