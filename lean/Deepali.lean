import Deepali.Model.Vec
import Deepali.Model.Homog
import Deepali.Model.Grid
