/-
  Drv/Affine.lean — driver handlers for property C08: Euler angles / elementary transforms
  (`euler.*`), quaternion / angle-axis conversions (`quat.*`), batched operand forms and
  leading-shape broadcasting (`hbc.*`).
  Strings are passed as comma separated code points (`-` = None, `e` = empty string).
  Tensors are passed as `ndim dims… values…` (row-major) and printed the same way.
-/
import Deepali.Proto
import Deepali.Model.Affine
import Deepali.Model.Kornia
import Deepali.Model.Broadcast
namespace Deepali.Drv
open Deepali Deepali.Proto

/-- `-` → none, `e` → "", `88,89,90` → "XYZ" -/
private def optStr : Reader (Option (List Char)) := do
  let t ← tok
  if t = "-" then pure none
  else if t = "e" then pure (some [])
  else
    let parts := t.splitOn ","
    let mut out : Array Char := #[]
    for p in parts do
      match p.toNat? with
      | some n => out := out.push (Char.ofNat n)
      | none => throw s!"bad-op:str:{t}"
    pure (some out.toList)

private def fmtStr (s : List Char) : String :=
  if s.isEmpty then "e" else ",".intercalate (s.map (fun c => toString c.toNat))

private def liftE {β} (e : Except String β) : Reader β :=
  match e with
  | .ok v => pure v
  | .error m => throw m

private def fmtList (xs : List Rat) : String := " ".intercalate (xs.map fmtRat)
private def fmtShape (s : List Nat) : String :=
  " ".intercalate (toString s.length :: s.map toString)

/-! ### euler.* -/

private def eulerOrder : Reader String := do
  let ndim ← nat
  let arg ← optStr
  let r ← liftE (eulerRotationOrder arg ndim)
  pure s!"ok {fmtStr r}"

private def eulerDimH : Reader String := do
  let n ← nat
  let d ← liftE (eulerDim n)
  pure (toString d)

private def eulerMatrix2 : Reader String := do
  let hg ← bool
  let c ← rat
  let s ← rat
  pure (fmtH (asRotationH hg (eulerRotationMatrix2 c s)))

/-- `euler.matrix3 order homogeneous invert c0 c1 c2 s0 s1 s2` -/
private def eulerMatrix3 : Reader String := do
  let arg ← optStr
  let hg ← bool
  let inv ← bool
  let c ← vec 3
  let s ← vec 3
  let order ← liftE (eulerRotationOrder arg 3)
  let m ← liftE (eulerRotationMatrix3 order c s)
  pure (fmtH (asRotationH hg (invertRotation inv m).memo))

/-- `euler.angles3 order m(9) tol` → `y0 x0 a1 y2 x2` -/
private def eulerAngles3 : Reader String := do
  let arg ← optStr
  let m ← mat 3
  let tol ← rat
  let order ← liftE (eulerRotationOrder arg 3)
  if !affineDetIsOne (affineDet3 m) tol then throw "err:value"
  let a ← liftE (eulerRotationAngles3 order m)
  pure (fmtList [a.a0.1, a.a0.2, a.a1, a.a2.1, a.a2.2])

private def eulerAngles2 : Reader String := do
  let m ← mat 2
  let tol ← rat
  if !affineDetIsOne (affineDet2 m) tol then throw "err:value"
  let a := eulerRotationAngles2 m
  pure (fmtList [a.1, a.2])

/-- `euler.scaling d homogeneous invert s…` (invert: `1 / scales` is done by the caller) -/
private def eulerScaling : Reader String := do
  let d ← nat
  let hg ← bool
  let s ← vec d
  pure (fmtH (asRotationH hg (scalingTransform s)))

/-- `euler.shear nAngles homogeneous t…` -/
private def eulerShear : Reader String := do
  let n ← nat
  let hg ← bool
  let t := (← listOf n rat).toArray
  let d ← liftE (shearDim n)
  pure (fmtH (asRotationH hg (shearMatrix (d := d) (fun k => t[k]!))))

private def eulerTranslation : Reader String := do
  let d ← nat
  let hg ← bool
  let t ← vec d
  pure (fmtH (translationH t hg))

/-- `euler.param kind x pi` — polynomial part of the parameter getters/setters. -/
private def eulerParam : Reader String := do
  let k ← tok
  let x ← rat
  let pi ← rat
  match k with
  | "angles_get" => pure (fmtRat (eulerAnglesGet x pi))
  | "angles_set" => pure (fmtRat (eulerAnglesSetArg x pi))
  | "shear_get" => pure (fmtRat (shearAnglesGet x pi))
  | "shear_set" => pure (fmtRat (shearAnglesSetArg x pi))
  | "scales_get" => pure (fmtRat (scalesGetArg x))
  | "scales_set" => pure (fmtRat (scalesSetParam x))
  | _ => throw s!"bad-op:param:{k}"

/-! ### quat.* -/

private def fmtM3 (m : Mat 3 Rat) : String := fmtMat m.memo

private def quatNormalize : Reader String := do
  let q ← vec 4
  let n ← rat
  let eps ← rat
  pure (fmtVec (normalizeQuaternion q n eps))

private def quatToMatrix : Reader String := do
  let q ← vec 4
  let n ← rat
  let eps ← rat
  let inv ← bool
  pure (fmtM3 (invertRotation inv (quaternionToRotationMatrix q n eps)))

private def quatFromMatrix : Reader String := do
  let m ← mat 3
  let r ← vec 4
  let tiny ← rat
  pure (fmtVec (rotationMatrixToQuaternion m r tiny))

private def quatFromAngleAxis : Reader String := do
  let a ← vec 3
  let theta ← rat
  let sh ← rat
  let ch ← rat
  pure (fmtVec (angleAxisToQuaternion a theta sh ch))

private def quatAAToMatrix : Reader String := do
  let a ← vec 3
  let theta ← rat
  let c ← rat
  let s ← rat
  let eps ← rat
  let eps2 ← rat
  pure (fmtM3 (angleAxisToRotationMatrix a theta c s eps eps2))

private def quatToAngleAxis : Reader String := do
  let q ← vec 4
  let st ← rat
  let an ← rat
  let ap ← rat
  pure (fmtVec (quaternionToAngleAxis q st an ap))

private def quatLogToExp : Reader String := do
  let v ← vec 3
  let n ← rat
  let sn ← rat
  let cn ← rat
  let eps ← rat
  pure (fmtVec (quaternionLogToExp v n sn cn eps))

private def quatExpToLog : Reader String := do
  let q ← vec 4
  let n ← rat
  let ac ← rat
  let eps ← rat
  pure (fmtVec (quaternionExpToLog q n ac eps))

/-! ### hbc.* -/

private def shape : Reader (List Nat) := do
  let k ← nat
  listOf k nat

/-- tensor: `ndim dims… values…` -/
private def tensor : Reader (List Nat × Array Rat) := do
  let s ← shape
  let v ← listOf (hbcNumel s) rat
  pure (s, v.toArray)

/-- element `i` of a classified tensor as an operand form -/
private def elemOf (d : Nat) (kind : HKind) (data : Array Rat) (i : Nat) : H d Rat :=
  match kind with
  | .translation => .trans (fun r => data[i * d + r.val]!)
  | .affine => .aff (fun r c => data[i * d * d + r.val * d + c.val]!)
  | .homogeneous =>
      .hom (fun r c => data[i * d * (d + 1) + r.val * (d + 1) + c.val]!)
           (fun r => data[i * d * (d + 1) + r.val * (d + 1) + d]!)

/-- read one operand (shape-driven classification, linalg.py:as_homogeneous_tensor). -/
private def operand (d : Nat) : Reader (HB d Rat) := do
  let (s, data) ← tensor
  let (lead, d', kind) ← liftE (classifyShape s)
  if d' ≠ d then throw "err:value"
  pure ⟨lead, kind, elemOf d kind data⟩

private def elemValues {d} : H d Rat → List Rat
  | .trans t => (List.finRange d).map t
  | .aff A => (List.finRange d).flatMap (fun r => (List.finRange d).map (A r))
  | .hom A t => (List.finRange d).flatMap (fun r => (List.finRange d).map (A r) ++ [t r])

private def kindCols (d : Nat) : HKind → Nat
  | .translation => 1
  | .affine => d
  | .homogeneous => d + 1

/-- print a batch as the tensor deepali returns: `ndim dims… values…`. -/
private def fmtHB {d} (b : HB d Rat) : String :=
  let s := b.lead ++ [d, kindCols d b.kind]
  let vals := (List.range (hbcNumel b.lead)).flatMap (fun i => elemValues (b.elem i))
  s!"{fmtShape s} {fmtList vals}"

private def hbcClassify : Reader String := do
  let s ← shape
  let (lead, d, kind) ← liftE (classifyShape s)
  let k := match kind with
    | .translation => "translation" | .affine => "affine" | .homogeneous => "homogeneous"
  pure s!"{fmtShape lead} {d} {k}"

private def hbcLeading : Reader String := do
  let la ← shape
  let lb ← shape
  let l ← liftE (bcLeading la lb)
  pure (fmtShape l)

/-- `hbc.matmul d n operand…` -/
private def hbcMatmul : Reader String := do
  let d ← nat
  let n ← nat
  if n = 0 then throw "err:value"
  let a ← operand d
  let mut acc := a
  for _ in [1:n] do
    let b ← operand d
    acc ← liftE (acc.matmul b)
  pure (fmtHB acc)

private def hbcHmm : Reader String := do
  let d ← nat
  let a ← operand d
  let b ← operand d
  let c ← liftE (a.hmm b)
  pure (fmtHB c)

private def hbcAsMatrix : Reader String := do
  let d ← nat
  let a ← operand d
  pure (fmtHB a.asMatrix)

/-- `hbc.transform d transform-tensor vectors points-tensor` -/
private def hbcTransform : Reader String := do
  let d ← nat
  let (ts, tdata) ← tensor
  let vectors ← bool
  let (ps, pdata) ← tensor
  let (n, d', c) ← liftE (transformShape ts)
  if d' ≠ d then throw "bad-op:dim"
  let kind := transformKind d c
  let elem := elemOf d kind tdata
  let pts : Nat → Vec d Rat := fun k i => pdata[k * d + i.val]!
  let (out, rows) ← liftE (homogeneousTransformB n elem vectors ps pts)
  let nrows := hbcNumel out / d
  let vals := (List.range nrows).flatMap (fun k => (List.finRange d).map (rows k))
  pure s!"{fmtShape out} {fmtList vals}"

private def hbcTransformShape : Reader String := do
  let ts ← shape
  let ps ← shape
  let (n, d, _) ← liftE (transformShape ts)
  let (out, _) ← liftE (transformOutShape n d ps)
  pure (fmtShape out)

def affineHandlers : List (String × Reader String) :=
  [ ("euler.order", eulerOrder), ("euler.dim", eulerDimH),
    ("euler.matrix2", eulerMatrix2), ("euler.matrix3", eulerMatrix3),
    ("euler.angles3", eulerAngles3), ("euler.angles2", eulerAngles2),
    ("euler.scaling", eulerScaling), ("euler.shear", eulerShear), ("euler.translation", eulerTranslation),
    ("euler.param", eulerParam),
    ("quat.normalize", quatNormalize), ("quat.to_matrix", quatToMatrix), ("quat.from_matrix", quatFromMatrix),
    ("quat.from_angle_axis", quatFromAngleAxis), ("quat.aa_to_matrix", quatAAToMatrix),
    ("quat.to_angle_axis", quatToAngleAxis), ("quat.log_to_exp", quatLogToExp),
    ("quat.exp_to_log", quatExpToLog),
    ("hbc.classify", hbcClassify), ("hbc.leading", hbcLeading), ("hbc.matmul", hbcMatmul),
    ("hbc.hmm", hbcHmm), ("hbc.as_matrix", hbcAsMatrix), ("hbc.transform", hbcTransform),
    ("hbc.transform_shape", hbcTransformShape) ]

end Deepali.Drv
