/-
  Drv/All.lean — table of all driver handlers.
-/
import Deepali.Drv.GridOps
namespace Deepali.Drv
open Deepali.Proto

def allHandlers : List (String × Reader String) :=
  gridHandlers

end Deepali.Drv
