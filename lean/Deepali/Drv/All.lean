/-
  Drv/All.lean — table of all driver handlers.
-/
import Deepali.Drv.GridOps
import Deepali.Drv.Sample
import Deepali.Drv.Flow
import Deepali.Drv.Affine
import Deepali.Drv.BSpline
import Deepali.Drv.FD
import Deepali.Drv.Losses
import Deepali.Drv.Dispatch
import Deepali.Drv.ImageOps
import Deepali.Drv.GridDerive
import Deepali.Drv.Itk
import Deepali.Drv.ImageIO
import Deepali.Drv.TransformState
import Deepali.Drv.Heap
import Deepali.Drv.Grad
import Deepali.Drv.Transforms
import Deepali.Drv.Regularizers
namespace Deepali.Drv
open Deepali.Proto

def allHandlers : List (String × Reader String) :=
  gridHandlers ++ sampleHandlers ++ flowHandlers ++ affineHandlers ++ bsplineHandlers ++ fdHandlers ++ lossHandlers ++ dispatchHandlers ++ imageOpsHandlers ++ gridDeriveHandlers ++ itkHandlers ++ imageioHandlers ++ tstateHandlers ++ heapHandlers ++ gradHandlers ++ transformHandlers ++ regHandlers

end Deepali.Drv
