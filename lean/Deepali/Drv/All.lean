/-
  Drv/All.lean — table of all driver handlers.
-/
import Deepali.Drv.GridOps
import Deepali.Drv.Sample
namespace Deepali.Drv
open Deepali.Proto

def allHandlers : List (String × Reader String) :=
  gridHandlers ++ sampleHandlers

end Deepali.Drv
