/-
  Drv/All.lean — table of all driver handlers.
-/
import Deepali.Drv.GridOps
import Deepali.Drv.Sample
import Deepali.Drv.Flow
import Deepali.Drv.Affine
namespace Deepali.Drv
open Deepali.Proto

def allHandlers : List (String × Reader String) :=
  gridHandlers ++ sampleHandlers ++ flowHandlers ++ affineHandlers

end Deepali.Drv
