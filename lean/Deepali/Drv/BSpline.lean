/-
  Drv/BSpline.lean — driver handlers for the cubic B-spline model (op prefix `bspline.`).
  Tensors on the wire: `ndim shape… data…` (row-major); results in the same encoding.
-/
import Deepali.Proto
import Deepali.Model.BSpline
namespace Deepali.Drv
open Deepali Deepali.Proto

def tensorR : Reader (Tensor Rat) := do
  let nd ← nat
  let shape ← listOf nd nat
  let data ← listOf (shapeProd shape) rat
  pure ⟨shape, data.toArray⟩

private def fmtList (l : List Rat) : String := " ".intercalate (l.map fmtRat)

def fmtTensor (t : Tensor Rat) : String :=
  let head := " ".intercalate ((t.shape.length :: t.shape).map toString)
  if t.data.size = 0 then head else s!"{head} {fmtList t.data.toList}"

private def fmtExcept (r : Except String (Tensor Rat)) : String :=
  match r with
  | .ok t => fmtTensor t
  | .error e => e

/-- `bspline.weights s d` → the `(s, 4)` table, row-major. -/
private def bsWeights : Reader String := do
  let s ← nat
  let d ← nat
  pure (fmtList ((weightTable (α := Rat) s d).flatMap W4.toList))

/-- `bspline.value d x` → `cubic_bspline_value(x, d)` or `none`. -/
private def bsValue : Reader String := do
  let d ← nat
  let x ← rat
  match cubicBSplineValue x d with
  | some v => pure (fmtRat v)
  | none => pure "none"

/-- `bspline.basis d x` → the SPEC basis function (derivative d) at x. -/
private def bsBasis : Reader String := do
  let d ← nat
  let x ← rat
  pure (fmtRat (basis d x))

/-- `bspline.kernel1d s d` → dense kernel `cubic_bspline1d(s, d)`. -/
private def bsKernel1d : Reader String := do
  let s ← nat
  let d ← nat
  match kernel1dValues (α := Rat) s d with
  | .ok k => pure (fmtList k)
  | .error e => pure e

/-- `bspline.ctrl_size m s`. -/
private def bsCtrlSize : Reader String := do
  let m ← int
  let s ← int
  match ctrlSizeChecked m s with
  | .ok n => pure (toString n)
  | .error e => pure e

/-- `bspline.ctrl_sizes D m… s…` (sequence forms after Python's broadcasting) → sizes or error. -/
private def bsCtrlSizes : Reader String := do
  let D ← nat
  let m ← listOf D int
  let s ← listOf D int
  let r := (m.zip s).mapM (fun p => ctrlSizeChecked p.1 p.2)
  match r with
  | .ok l => pure (" ".intercalate (l.map toString))
  | .error e => pure e

/-- `bspline.ctrl_grid d grid m… s…` → control point grid. -/
private def bsCtrlGrid : Reader String := do
  let d ← nat
  let g ← grid d
  let m := (← listOf d nat).toArray
  let s := (← listOf d nat).toArray
  pure (fmtGrid (controlPointGrid g (fun i => m[i.val]!) (fun i => s[i.val]!)))

/-- `bspline.eval tensor D strideX… derivX… transpose hasShape [shape…]`. -/
private def bsEval : Reader String := do
  let t ← tensorR
  let D ← nat
  let stride ← listOf D nat
  let deriv ← listOf D nat
  let tr ← bool
  let hs ← bool
  let sh ← if hs then (do let l ← listOf D nat; pure (some l)) else pure none
  pure (fmtExcept (evaluateCubicBSpline t stride deriv sh tr))

/-- `bspline.subdivide tensor k dims…` (spatial dims, 0 = x). -/
private def bsSubdivide : Reader String := do
  let t ← tensorR
  let k ← nat
  let dims ← listOf k nat
  pure (fmtExcept (subdivideCubicBSpline t dims))

/-- `bspline.ffd_u params D sizeX… strideX… transpose`. -/
private def bsFfdU : Reader String := do
  let t ← tensorR
  let D ← nat
  let size ← listOf D nat
  let stride ← listOf D nat
  let tr ← bool
  if t.shape.drop 2 ≠ ffdDataShape size stride then pure "err:shape"
  else pure (fmtExcept (ffdUpdate t size stride tr))

/-- `bspline.ffd_refine params D curSizeX… newSizeX… strideX…`. -/
private def bsFfdRefine : Reader String := do
  let t ← tensorR
  let D ← nat
  let cur ← listOf D nat
  let new ← listOf D nat
  let stride ← listOf D nat
  pure (fmtExcept (ffdGridRefine t cur new stride))

/-- `bspline.deriv tensor D strideX… orderX… spacingX…`. -/
private def bsDeriv : Reader String := do
  let t ← tensorR
  let D ← nat
  let stride ← listOf D nat
  let order ← listOf D nat
  let spacing ← listOf D rat
  pure (fmtExcept (spatialDerivBSpline t stride order spacing))

def bsplineHandlers : List (String × Reader String) :=
  [ ("bspline.weights", bsWeights), ("bspline.value", bsValue), ("bspline.basis", bsBasis),
    ("bspline.kernel1d", bsKernel1d), ("bspline.ctrl_size", bsCtrlSize), ("bspline.ctrl_sizes", bsCtrlSizes), ("bspline.ctrl_grid", bsCtrlGrid),
    ("bspline.eval", bsEval), ("bspline.subdivide", bsSubdivide), ("bspline.ffd_u", bsFfdU),
    ("bspline.ffd_refine", bsFfdRefine), ("bspline.deriv", bsDeriv) ]

end Deepali.Drv
