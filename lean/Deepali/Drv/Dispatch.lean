/-
  Drv/Dispatch.lean — driver handlers for the C19 dispatch model (op prefix `disp.`).

  `disp.run  <val> <other|-> <nops> <op>…`   → results of every step, joined by ` | `
  `disp.torch <raw> <raw|-> <op>`             → torchSem result (shape + dim-0 provenance)

  values   `B <flow> <n> <c> <spatial> <base> <axes>` | `I <flow> <c> <spatial> <id> <axes>` | `P <shape> <prov>`
  lists    comma separated, `-` for the empty list;   dim argument `d` | `p:<int>` | `k:<int>`
  index    `s <ix>` | `t <n> <ix>…`  with ix = `i:<int>` | `sl:<a|_>:<b|_>:<c|_>` | `ell` | `l:<ints>` | `m:<0/1s>`
-/
import Deepali.Proto
import Deepali.Model.Dispatch
namespace Deepali.Drv
open Deepali Deepali.Proto Deepali.Dispatch

def commaList (s : String) : List String :=
  if s = "-" ∨ s = "" then [] else s.splitOn ","

def intList : Reader (List Int) := do
  let t ← tok
  match (commaList t).mapM String.toInt? with
  | some l => pure l
  | none => throw s!"bad-op:intlist:{t}"

def natList : Reader (List Nat) := do
  let t ← tok
  match (commaList t).mapM String.toNat? with
  | some l => pure l
  | none => throw s!"bad-op:natlist:{t}"

def parseProv (s : String) : Option Prov :=
  if s = "m" then some .mixed
  else if s = "n" then some .none
  else if s.startsWith "i" then (s.drop 1).toNat?.map Prov.item
  else none

def provList : Reader (List Prov) := do
  let t ← tok
  match (commaList t).mapM parseProv with
  | some l => pure l
  | none => throw s!"bad-op:prov:{t}"

def dimArg : Reader DimArg := do
  let t ← tok
  if t = "d" then pure .dflt else
  match t.splitOn ":" with
  | ["p", v] => match v.toInt? with | some i => pure (.pos i) | none => throw s!"bad-op:dimarg:{t}"
  | ["k", v] => match v.toInt? with | some i => pure (.kw i) | none => throw s!"bad-op:dimarg:{t}"
  | _ => throw s!"bad-op:dimarg:{t}"

def operands : Reader (List Operand) := do
  let t ← tok
  match t.toList.mapM (fun c => if c = 'c' then some Operand.cur else if c = 'o' then some Operand.other else none) with
  | some l => pure l
  | none => throw s!"bad-op:operands:{t}"

def optInt (s : String) : Option (Option Int) :=
  if s = "_" then some none else s.toInt?.map some

def ix : Reader Ix := do
  let t ← tok
  if t = "ell" then pure .ell else
  match t.splitOn ":" with
  | ["i", v] => match v.toInt? with | some i => pure (.int i) | none => throw s!"bad-op:ix:{t}"
  | ["sl", a, b, c] =>
      match optInt a, optInt b, optInt c with
      | some a, some b, some c => pure (.slice a b c)
      | _, _, _ => throw s!"bad-op:ix:{t}"
  | ["l", v] => match (commaList v).mapM String.toInt? with | some l => pure (.list l) | none => throw s!"bad-op:ix:{t}"
  | ["m", v] =>
      match (commaList v).mapM (fun b => if b = "1" then some true else if b = "0" then some false else none) with
      | some l => pure (.mask l)
      | none => throw s!"bad-op:ix:{t}"
  | _ => throw s!"bad-op:ix:{t}"

def index : Reader Index := do
  let t ← tok
  match t with
  | "s" => pure (.single (← ix))
  | "t" => do
      let n ← nat
      pure (.tuple (← listOf n ix))
  | _ => throw s!"bad-op:index:{t}"

def top : Reader TOp := do
  let t ← tok
  match t with
  | "ew" => do let _ ← tok; pure .ew
  | "reduce" => do
      let a ← bool
      let ds ← intList
      let k ← bool
      pure (.reduce a ds k)
  | "narrowf" => do pure (.narrowF (← int) (← int) (← int))
  | "narrowm" => do pure (.narrowM (← int) (← int) (← int))
  | "select" => do pure (.select (← int) (← int))
  | "isel" => do pure (.indexSelect (← int) (← intList))
  | "cat" => do pure (.cat (← operands) (← dimArg))
  | "stack" => do pure (.stack (← operands) (← dimArg))
  | "split" => do pure (.split (← nat) (← dimArg))
  | "splitl" => do pure (.splitL (← natList) (← dimArg))
  | "splitws" => do pure (.splitWS (← natList) (← dimArg))
  | "chunk" => do pure (.chunk (← nat) (← dimArg))
  | "unbind" => do pure (.unbind (← dimArg))
  | "tsplitn" => do pure (.tsplitN (← nat) (← dimArg))
  | "tsplitl" => do pure (.tsplitL (← natList) (← dimArg))
  | "flip" => do pure (.flip (← intList))
  | "roll" => do
      let sh ← intList
      let t ← tok
      if t = "_" then pure (.roll sh none) else
      match (commaList t).mapM String.toInt? with
      | some l => pure (.roll sh (some l))
      | none => throw s!"bad-op:roll:{t}"
  | "permute" => do pure (.permute (← intList))
  | "transpose" => do pure (.transpose (← int) (← int))
  | "expand" => do pure (.expand (← intList))
  | "repeat" => do pure (.repeat_ (← natList))
  | "reshape" => do pure (.reshape (← intList))
  | "unsqueeze" => do pure (.unsqueeze (← int))
  | "squeeze" => do pure (.squeeze (← int))
  | "interp" => do pure (.interp (← natList))
  | "pool" => do pure (.pool (← nat) (← nat) (← nat))
  | "pad" => do pure (.pad (← natList))
  | "getitem" => do pure (.getitem (← index))
  | "copy" => pure .copy
  | "deepcopy" => pure .deepcopy
  | "pickle" => pure .pickle
  | "iter" => pure .iter
  | "pick" => do pure (.pick (← nat))
  | "fromimages" => pure .fromImages
  | "collate" => pure .collate
  | "append" => pure .append
  | "batch" => pure .batch
  | _ => throw s!"bad-op:top:{t}"

def raw : Reader Raw := do
  let sh ← natList
  let p ← provList
  pure ⟨sh, p⟩

def sval : Reader (Option SVal) := do
  let t ← tok
  match t with
  | "-" => pure none
  | "B" => do
      let f ← bool
      let n ← nat
      let c ← nat
      let sp ← natList
      let base ← nat
      let ax ← nat
      pure (some (mkInput f n c sp base ax))
  | "I" => do
      let f ← bool
      let c ← nat
      let sp ← natList
      let id ← nat
      let ax ← nat
      pure (some (mkInputImage f c sp id ax))
  | "P" => do pure (some (.plain (← raw)))
  | _ => throw s!"bad-op:val:{t}"

private def fmtList (l : List String) : String := if l.isEmpty then "-" else ",".intercalate l

def fmtProv : Prov → String
  | .item k => s!"i{k}"
  | .mixed => "m"
  | .none => "n"

def fmtRaw (t : Raw) : String :=
  s!"{fmtList (t.shape.map toString)} {fmtList (t.prov.map fmtProv)}"

def fmtGridTag (g : GridTag) : String :=
  ":".intercalate (toString g.src :: g.hist.map (fun h => s!"{h.1}.{h.2.1}.{h.2.2}"))

def fmtB (b : Bool) : String := if b then "1" else "0"

def fmtSVal : SVal → String
  | .plain t => s!"T {fmtRaw t}"
  | .batch f t g a => s!"B{fmtB f} {fmtRaw t} {fmtList (g.map fmtGridTag)} {a}"
  | .image f t g a => s!"I{fmtB f} {fmtRaw t} {fmtGridTag g} {a}"

private def fmtErr : ErrKind → String
  | .torch => "err:torch"
  | .dispatch => "err:dispatch"
  | .badop => "bad-op:not-applicable"

def fmtVal : Val → String
  | .one s => fmtSVal s
  | .many l => "M{" ++ " & ".intercalate (l.map fmtSVal) ++ "}"
  | .err e => fmtErr e

def dispRun : Reader String := do
  let v ← sval
  let o ← sval
  let n ← nat
  let ops ← listOf n top
  match v with
  | none => throw "bad-op:no-input"
  | some v => pure (" | ".intercalate ((trace o ops (.one v)).map fmtVal))

def dispTorch : Reader String := do
  let a ← sval
  let b ← sval
  let op ← top
  match a with
  | none => throw "bad-op:no-input"
  | some a =>
    match torchSem op a.raw (b.map SVal.raw) with
    | .t r => pure s!"T {fmtRaw r}"
    | .ts l => pure ("M{" ++ " & ".intercalate (l.map (fun r => s!"T {fmtRaw r}")) ++ "}")
    | .err => pure "err:torch"

def dispatchHandlers : List (String × Reader String) :=
  [ ("disp.run", dispRun), ("disp.torch", dispTorch) ]

end Deepali.Drv
