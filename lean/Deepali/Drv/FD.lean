/-
  Drv/FD.lean — driver handlers for layer C (finite differences, derivative keys, flow calculus).
  Op prefixes: `fd.`, `flowcalc.`, `dkeys.`.
  Arrays travel flattened in tensor order (x fastest); strings as `h<hex of utf-8 bytes>`.
-/
import Deepali.Proto
import Deepali.Model.FlowCalc
namespace Deepali.Drv
open Deepali Deepali.Proto Deepali.FD

/-- memoised array on a box (values outside the box are never read by the stencils). -/
structure MArr (D : Nat) where
  sz : Fin D → Nat
  data : Array Rat
  st : Array Nat      -- strides (x fastest)
  sa : Array Nat      -- sizes

instance {D : Nat} : Inhabited (MArr D) := ⟨⟨fun _ => 0, #[], #[], #[]⟩⟩

def boxTotal {D} (sz : Fin D → Nat) : Nat := (List.finRange D).foldl (fun p d => p * sz d) 1

/-- strides of the flattened layout, x (dimension 0) fastest. -/
def stridesOf {D} (sz : Fin D → Nat) : Array Nat :=
  ((List.finRange D).foldl (fun (acc : Array Nat × Nat) d => (acc.1.push acc.2, acc.2 * sz d)) (#[], 1)).1

def sizesOf {D} (sz : Fin D → Nat) : Array Nat := Array.ofFn sz

def unlin {D} (st sa : Array Nat) (lin : Nat) : Idx D :=
  fun d => (((lin / st[d.val]!) % sa[d.val]! : Nat) : Int)

def MArr.mk' {D} (sz : Fin D → Nat) (data : Array Rat) : MArr D := ⟨sz, data, stridesOf sz, sizesOf sz⟩

/-- reader of a memoised array: bounds check and linear index in one pass. -/
def MArr.get {D} (m : MArr D) (idx : Idx D) : Rat := Id.run do
  let mut lin : Nat := 0
  for d in List.finRange D do
    let k := idx d
    if k < 0 || k ≥ (m.sa[d.val]! : Int) then return 0
    lin := lin + k.toNat * m.st[d.val]!
  return m.data[lin]!

def MArr.ofFn {D} (sz : Fin D → Nat) (A : Arr D Rat) : MArr D :=
  let st := stridesOf sz
  let sa := sizesOf sz
  ⟨sz, Array.ofFn (n := boxTotal sz) (fun lin => A (unlin st sa lin.val)), st, sa⟩

private def fmtArr {D} (m : MArr D) : String := " ".intercalate (m.data.toList.map fmtRat)

/-! ### token readers -/

private def hexVal (c : Char) : Option Nat :=
  if '0' ≤ c ∧ c ≤ '9' then some (c.toNat - '0'.toNat)
  else if 'a' ≤ c ∧ c ≤ 'f' then some (c.toNat - 'a'.toNat + 10)
  else none

private def decodeHex : List Char → Option (List Char)
  | [] => some []
  | a :: b :: r => do
      let x ← hexVal a
      let y ← hexVal b
      let rest ← decodeHex r
      pure (Char.ofNat (16 * x + y) :: rest)
  | _ => none

/-- string token `h<hex>` (ASCII only). -/
def str : Reader Key := do
  let t ← tok
  match t.toList with
  | 'h' :: r =>
      match decodeHex r with
      | some s => pure s
      | none => throw s!"bad-op:str:{t}"
  | _ => throw s!"bad-op:str:{t}"

private def hexDigit (n : Nat) : Char := if n < 10 then Char.ofNat (48 + n) else Char.ofNat (87 + n)

/-- keys are printed as `h<hex>` as well (they may contain separators or newlines). -/
private def fmtKey (k : Key) : String :=
  String.ofList ('h' :: k.flatMap (fun c => [hexDigit (c.toNat / 16), hexDigit (c.toNat % 16)]))
private def fmtKeys (ks : List Key) : String := if ks.isEmpty then "-" else ",".intercalate (ks.map fmtKey)

private def natVec (d : Nat) : Reader (Fin d → Nat) := do
  let a := (← listOf d nat).toArray
  pure (fun i => a[i.val]!)

private def optNat : Reader (Option Nat) := do
  let t ← tok
  if t = "none" then pure none else
  match t.toNat? with
  | some n => pure (some n)
  | none => throw s!"bad-op:optnat:{t}"

/-- `none` | `keys n h.. h..` -/
private def optKeys : Reader (Option (List Key)) := do
  let t ← tok
  match t with
  | "none" => pure none
  | "keys" => do
      let n ← nat
      pure (some (← listOf n str))
  | _ => throw s!"bad-op:which:{t}"

/-- `none` | `scalar s` | `vec n v…` | `mat R C v…` -/
private def spacingArg : Reader (SpacingArg Rat) := do
  let t ← tok
  match t with
  | "none" => pure .none
  | "scalar" => pure (.scalar (← rat))
  | "vec" => do
      let n ← nat
      pure (.vec (← listOf n rat))
  | "mat" => do
      let r ← nat
      let c ← nat
      pure (.mat (← listOf r (listOf c rat)))
  | _ => throw s!"bad-op:spacing:{t}"

def sdMode : Reader SDMode := do
  let t ← tok
  match t with
  | "forward" => pure .forward
  | "backward" => pure .backward
  | "central" => pure .central
  | "forward_central_backward" => pure .fcb
  | "prewitt" => pure .prewitt
  | "sobel" => pure .sobel
  | _ => throw s!"bad-op:mode:{t}"

def marr (D : Nat) (sz : Fin D → Nat) : Reader (MArr D) := do
  let a ← listOf (boxTotal sz) rat
  pure (MArr.mk' sz a.toArray)

/-- spacing row of batch item `b`: `spacing[b, :]`. -/
private def spacingRow (N D : Nat) (b : Nat) (s : SpacingArg Rat) : Except String (Fin D → Rat) :=
  (expandSpacing N D s).map (fun m => fun d => m b d.val)

def stepM {D} (mode : SDMode) (sz : Fin D → Nat) (sp : Fin D → Rat) (a : Fin D) (m : MArr D) : MArr D :=
  MArr.ofFn sz (sdStep mode sz sp a m.get)

private def fmtDict {D} (l : List (Key × Option (MArr D))) : String :=
  if l.isEmpty then "-" else
  "|".intercalate (l.map (fun (k, v) => match v with
    | some m => s!"{fmtKey k}:{fmtArr m}"
    | none => s!"{fmtKey k}:missing"))

/-! ### fd.* -/

/-- `fd.fd mode D sz… sdim dil h data…` → finite_differences along `sdim` (one batch item). -/
private def fdFd : Reader String := do
  let mode ← sdMode
  let D ← nat
  let sz ← natVec D
  let a ← nat
  let dil ← nat
  let h ← rat
  let m ← marr D sz
  if hA : a < D then
    if dil < 1 then pure "err:value" else
    if !finiteDifferencesOk mode.fdMode (sz ⟨a, hA⟩) dil then pure "err:value" else
    let out := MArr.ofFn sz (alongAxis ⟨a, hA⟩ (finiteDifferences mode.fdMode (sz ⟨a, hA⟩) dil h) m.get)
    pure (fmtArr out)
  else pure "err:value"

/-- `fd.spacing N D <spacing>` → the expanded (N, D) matrix, row-major. -/
private def fdSpacing : Reader String := do
  let N ← nat
  let D ← nat
  let s ← spacingArg
  match expandSpacing N D s with
  | .error e => pure e
  | .ok m => pure (" ".intercalate ((List.range N).flatMap (fun b => (List.range D).map (fun d => fmtRat (m b d)))))

/-- common part of `fd.sd`: which/order handling and validation of the letters. -/
private def sdKeys (D : Nat) (which : Option (List Key)) (order : Option Nat) : Except String (List Key × List (DKey D)) :=
  match sdWhich D which order with
  | none => .error "err:value"
  | some ks =>
      match ks.mapM (toDKey D) with
      | none => .error "err:value"
      | some dks => .ok (ks, dks)

/-- `fd.sd mode D sz… N b <spacing> <which> <order> data…` → `key:values|…` in dictionary order. -/
private def fdSd : Reader String := do
  let mode ← sdMode
  let D ← nat
  let sz ← natVec D
  let N ← nat
  let b ← nat
  let s ← spacingArg
  let which ← optKeys
  let order ← optNat
  let m ← marr D sz
  match spacingRow N D b s with
  | .error e => pure e
  | .ok sp =>
    match sdKeys D which order with
    | .error e => pure e
    | .ok (ks, dks) =>
      -- dictionary keyed by the strings as given (e.g. "X" stays "X")
      let res := spatialDerivativesFD (stepM mode sz sp) m dks
      let names := dedupFirst ks
      pure (fmtDict (names.map (fun k => (k, ((toDKey D k).bind (fun dk => assoc dk res)).join))))

/-- weights table: for each axis, for derivative order 0..2, `stride × 4` rationals. -/
private def wtsTable (D : Nat) (stride : Fin D → Nat) : Reader (Fin D → Nat → Nat → Nat → Rat) := do
  let mut tabs : Array (Array (Array Rat)) := #[]
  for d in List.finRange D do
    let mut per : Array (Array Rat) := #[]
    for _ in [0:3] do
      per := per.push (← listOf (stride d * 4) rat).toArray
    tabs := tabs.push per
  pure (fun d o r k => ((tabs[d.val]!)[o]!)[r * 4 + k]!)

/-- `fd.sdb D sz… N b <spacing> <which> <order> stride… weights… data…` (mode='bspline'). -/
private def fdSdB : Reader String := do
  let D ← nat
  let sz ← natVec D
  let N ← nat
  let b ← nat
  let s ← spacingArg
  let which ← optKeys
  let order ← optNat
  let stride ← natVec D
  let wts ← wtsTable D stride
  let m ← marr D sz
  match spacingRow N D b s with
  | .error e => pure e
  | .ok sp =>
    match sdKeys D which order with
    | .error e => pure e
    | .ok (ks, dks) =>
      if dks.any (fun k => (List.finRange D).any (fun d => keyOrder k d > 2)) then pure "err:unsupported" else
      let osz : Fin D → Nat := fun d => stride d * (sz d - 3)
      -- every distinct sorted code is evaluated once (memo table), as `derivs[code]` in the code
      let table := (uniqueKeys dks).map (fun k => (k, MArr.ofFn osz (bsplineDeriv stride wts sp k m.get)))
      let res := spatialDerivativesBSpline (fun k => (assoc k table).getD default) dks
      let names := dedupFirst ks
      pure (fmtDict (names.map (fun k => (k, ((toDKey D k).bind (fun dk => assoc dk res)).join))))

/-! ### flowcalc.* -/

private def field (D : Nat) (sz : Fin D → Nat) : Reader (Fin D → MArr D) := do
  let comps := (← listOf D (marr D sz)).toArray
  pure (fun i => comps[i.val]!)

/-- src: flow.py:flow_derivatives @434-435: `spacing=None` ↦ `2 / (n - 1)` per axis, x first. -/
private def flowSpacing {D} (sz : Fin D → Nat) (s : SpacingArg Rat) : SpacingArg Rat :=
  match s with
  | .none => .vec ((List.finRange D).map (fun d => (2 : Rat) / (((sz d : Nat) : Rat) - 1)))
  | s => s

private def fkeyOf (D : Nat) (k : Key) : Option (FKey D) :=
  (fkSplit k).bind (fun (c, ds) => if h : c < D then (toDKey D ds).map (fun dk => ((⟨c, h⟩ : Fin D), dk)) else none)

/-- `flowcalc.derivs mode D sz… N b <spacing> <which> <order> data(D comps)…` -/
private def fcDerivs : Reader String := do
  let mode ← sdMode
  let D ← nat
  let sz ← natVec D
  let N ← nat
  let b ← nat
  let s ← spacingArg
  let which ← optKeys
  let order ← optNat
  let u ← field D sz
  match fkFromArg D which order with
  | .error e => pure e
  | .ok keys =>
    match keys.mapM (fkeyOf D) with
    | none => pure "err:value"
    | some fks =>
      match spacingRow N D b (flowSpacing sz s) with
      | .error e => pure e
      | .ok sp =>
        let res := flowDerivatives (fun i ks => spatialDerivativesFD (stepM mode sz sp) (u i) ks) fks
        pure (fmtDict ((dedupFirst keys).map (fun k => (k, ((fkeyOf D k).bind (fun fk => assoc fk res)).join))))

/-- `flowcalc.derivs_b D sz… N b <spacing> <which> <order> stride… weights… data…` (mode='bspline'). -/
private def fcDerivsB : Reader String := do
  let D ← nat
  let sz ← natVec D
  let N ← nat
  let b ← nat
  let s ← spacingArg
  let which ← optKeys
  let order ← optNat
  let stride ← natVec D
  let wts ← wtsTable D stride
  let u ← field D sz
  match fkFromArg D which order with
  | .error e => pure e
  | .ok keys =>
    match keys.mapM (fkeyOf D) with
    | none => pure "err:value"
    | some fks =>
      match spacingRow N D b (flowSpacing sz s) with
      | .error e => pure e
      | .ok sp =>
        if fks.any (fun k => (List.finRange D).any (fun d => keyOrder k.2 d > 2)) then pure "err:unsupported" else
        let osz : Fin D → Nat := fun d => stride d * (sz d - 3)
        let res := flowDerivatives (fun i ks =>
          let table := (uniqueKeys ks).map (fun k => (k, MArr.ofFn osz (bsplineDeriv stride wts sp k (u i).get)))
          spatialDerivativesBSpline (fun k => (assoc k table).getD default) ks) fks
        pure (fmtDict ((dedupFirst keys).map (fun k => (k, ((fkeyOf D k).bind (fun fk => assoc fk res)).join))))

private def allIdx {D} (sz : Fin D → Nat) : List (Idx D) :=
  let st := stridesOf sz
  let sa := sizesOf sz
  (List.range (boxTotal sz)).map (unlin st sa)

private def fmtOptList (l : List (Option (List Rat))) : String :=
  if l.any Option.isNone then "err:missing" else
  " ".intercalate (l.map (fun o => " ".intercalate ((o.getD []).map fmtRat)))

/-- header shared by the pointwise flow ops: `mode D sz… N b <spacing>`. -/
private def fcHead : Reader (Σ D : Nat, (Fin D → Nat) × SDMode × Except String (Fin D → Rat)) := do
  let mode ← sdMode
  let D ← nat
  let sz ← natVec D
  let N ← nat
  let b ← nat
  let s ← spacingArg
  pure ⟨D, sz, mode, spacingRow N D b (flowSpacing sz s)⟩

/-- `flowcalc.jacdet mode D sz… N b <spacing> addId data…` → values at all points (x fastest). -/
private def fcJacDet : Reader String := do
  let ⟨D, sz, mode, spE⟩ ← fcHead
  let addId ← bool
  let u ← field D sz
  match spE with
  | .error e => pure e
  | .ok sp =>
    if D < 2 ∨ D > 3 then pure "err:value" else
    let dict := jacobianDict (stepM mode sz sp) u
    pure (fmtOptList ((allIdx sz).map (fun idx =>
      ((entriesAt MArr.get dict (jacobianKeys D) idx).bind (fun J => jacobianDetPt D (addIdentityPt addId J))).map (fun v => [v]))))

/-- `flowcalc.jacmat …` → at each point the D×D matrix row-major (layout of jacobian_matrix). -/
private def fcJacMat : Reader String := do
  let ⟨D, sz, mode, spE⟩ ← fcHead
  let addId ← bool
  let u ← field D sz
  match spE with
  | .error e => pure e
  | .ok sp =>
    if D < 2 ∨ D > 3 then pure "err:value" else
    let dict := jacobianDict (stepM mode sz sp) u
    pure (fmtOptList ((allIdx sz).map (fun idx =>
      ((entriesAt MArr.get dict (jacobianKeys D) idx).map (addIdentityPt addId)).map (fun J =>
        (List.finRange D).flatMap (fun i => (List.finRange D).map (fun j => J i j))))))

private def fcDiv : Reader String := do
  let ⟨D, sz, mode, spE⟩ ← fcHead
  let u ← field D sz
  match spE with
  | .error e => pure e
  | .ok sp =>
    if D < 2 ∨ D > 3 then pure "err:value" else
    let dict := flowDerivatives (fun i ks => spatialDerivativesFD (stepM mode sz sp) (u i) ks) (divergenceKeys D)
    pure (fmtOptList ((allIdx sz).map (fun idx =>
      ((entriesAt MArr.get dict (divergenceKeys D) idx).bind divergencePt).map (fun v => [v]))))

/-- `flowcalc.curl …` → channel-major output (all points of channel 0, then channel 1, …). -/
private def fcCurl : Reader String := do
  let ⟨D, sz, mode, spE⟩ ← fcHead
  let u ← field D sz
  match spE with
  | .error e => pure e
  | .ok sp =>
    if D < 2 ∨ D > 3 then pure "err:value" else
    let dict := flowDerivatives (fun i ks => spatialDerivativesFD (stepM mode sz sp) (u i) ks) (curlKeys D)
    let vals := (allIdx sz).map (fun idx => (entriesAt MArr.get dict (curlKeys D) idx).bind (curlPt D))
    let nch := if D = 2 then 1 else 3
    pure (fmtOptList ((List.range nch).flatMap (fun c => vals.map (fun o => o.map (fun l => [l[c]!])))))

/-- `flowcalc.lie mode D sz… N b <spacing> v(D comps)… u(D comps)…` → channel-major. -/
private def fcLie : Reader String := do
  let ⟨D, sz, mode, spE⟩ ← fcHead
  let v ← field D sz
  let u ← field D sz
  match spE with
  | .error e => pure e
  | .ok sp =>
    if D < 2 ∨ D > 3 then pure "err:value" else
    let du := jacobianDict (stepM mode sz sp) u
    let dv := jacobianDict (stepM mode sz sp) v
    let vals := (allIdx sz).map (fun idx =>
      (entriesAt MArr.get du (jacobianKeys D) idx).bind (fun Ju =>
        (entriesAt MArr.get dv (jacobianKeys D) idx).map (fun Jv =>
          lieBracketPt Jv Ju (fun i => (v i).get idx) (fun i => (u i).get idx))))
    pure (fmtOptList ((List.finRange D).flatMap (fun c => vals.map (fun o => o.map (fun w => [w c])))))

/-! ### dkeys.* -/

private def fmtOptKeys : Option (List Key) → String
  | some ks => fmtKeys ks
  | none => "err:value"

private def keyList : Reader (List Key) := do
  let n ← nat
  listOf n str

private def dkSkCheck : Reader String := do pure (if skCheck (← str) then "ok" else "err:value")
private def dkSkSorted : Reader String := do
  match skSorted (← str) with
  | some k => pure s!"={fmtKey k}"
  | none => pure "err:value"
private def dkSkIsMixed : Reader String := do pure (if skIsMixed (← str) then "1" else "0")
private def dkSkAll : Reader String := do
  let D ← nat
  let o ← nat
  pure (fmtOptKeys (skAll D o))
private def dkSkUnmixed : Reader String := do
  let D ← nat
  let o ← nat
  pure (fmtOptKeys (skUnmixed D o))
private def dkSkUnique : Reader String := do pure (fmtOptKeys (skUnique (← keyList)))
private def dkSkMaxOrder : Reader String := do pure (toString (maxOrder (← keyList)))
private def dkFkFromArg : Reader String := do
  let D ← nat
  let which ← optKeys
  let order ← optNat
  match fkFromArg D which order with
  | .ok ks => pure (fmtKeys ks)
  | .error e => pure e
private def dkFkSplit : Reader String := do
  match fkSplit (← str) with
  | some (c, ds) => pure s!"{c} {fmtKey ds}"
  | none => pure "err:value"
private def dkFkSorted : Reader String := do pure (fmtKeys (fkSorted (← keyList)))
private def dkFkUnique : Reader String := do pure (fmtOptKeys (fkUnique (← keyList)))
private def dkFkMaxOrder : Reader String := do
  match fkMaxOrder (← keyList) with
  | some n => pure (toString n)
  | none => pure "err:value"
private def dkFkIsMixed : Reader String := do
  match fkIsMixed (← str) with
  | some b => pure (if b then "1" else "0")
  | none => pure "err:value"
private def dkFkAll : Reader String := do
  let D ← nat
  let o ← nat
  pure (fmtOptKeys (fkAll D o))
private def dkFkUnmixed : Reader String := do
  let D ← nat
  let o ← nat
  pure (fmtOptKeys (fkUnmixed D o))
private def dkFkDivergence : Reader String := do pure (fmtOptKeys (fkDivergence (← nat)))

def fdHandlers : List (String × Reader String) :=
  [ ("fd.fd", fdFd), ("fd.spacing", fdSpacing), ("fd.sd", fdSd), ("fd.sdb", fdSdB),
    ("flowcalc.derivs", fcDerivs), ("flowcalc.derivs_b", fcDerivsB), ("flowcalc.jacdet", fcJacDet),
    ("flowcalc.jacmat", fcJacMat), ("flowcalc.div", fcDiv), ("flowcalc.curl", fcCurl), ("flowcalc.lie", fcLie),
    ("dkeys.sk_check", dkSkCheck), ("dkeys.sk_sorted", dkSkSorted), ("dkeys.sk_is_mixed", dkSkIsMixed),
    ("dkeys.sk_all", dkSkAll), ("dkeys.sk_unmixed", dkSkUnmixed), ("dkeys.sk_unique", dkSkUnique),
    ("dkeys.sk_max_order", dkSkMaxOrder), ("dkeys.fk_from_arg", dkFkFromArg), ("dkeys.fk_split", dkFkSplit),
    ("dkeys.fk_sorted", dkFkSorted), ("dkeys.fk_unique", dkFkUnique), ("dkeys.fk_max_order", dkFkMaxOrder),
    ("dkeys.fk_is_mixed", dkFkIsMixed), ("dkeys.fk_all", dkFkAll), ("dkeys.fk_unmixed", dkFkUnmixed),
    ("dkeys.fk_divergence", dkFkDivergence) ]

end Deepali.Drv
