/-
  Drv/Flow.lean — driver handlers for vector-field operations (expv, compose_flows, FlowFields).
  A field is `size(d)` followed by the samples in tensor memory order of a `(D, …, Y, X)` tensor:
  channel-major, x fastest.
-/
import Deepali.Drv.Sample
import Deepali.Model.FlowOps
import Deepali.Model.Regularizers
namespace Deepali.Drv
open Deepali Deepali.Proto

/-- evaluate a field on the whole box once (a strict array value: definitions of function type
    are eta-expanded by the compiler, so sharing must go through a non-function value) … -/
def fieldArray {d : Nat} (size : Fin d → Nat) (f : VField d Rat) : Array (Array Rat) :=
  ((allIdx d size).map (fun idx => Array.ofFn (f idx))).toArray

/-- … and look values up afterwards. -/
def lookupField {d : Nat} (size : Fin d → Nat) (arr : Array (Array Rat)) : VField d Rat :=
  fun idx => fun c =>
    if (∀ i, 0 ≤ idx i ∧ idx i < (size i : Int)) then (arr[flatIdx size idx]!)[c.val]! else 0

def readField (d : Nat) (size : Fin d → Nat) : Reader (VField d Rat) := do
  let m := numel size
  let vals := (← listOf (d * m) rat).toArray
  pure (fun idx c => if (∀ i, 0 ≤ idx i ∧ idx i < (size i : Int)) then vals[c.val * m + flatIdx size idx]! else 0)

def fmtField {d : Nat} (size : Fin d → Nat) (f : VField d Rat) : String :=
  let idxs := allIdx d size
  fmtRats ((List.finRange d).flatMap (fun c => idxs.map (fun idx => f idx c)))

/-- `flow.expv d ac pad size… scale inverse steps values…` -/
def flowExpv : Reader String := do
  let d ← nat
  let ac ← bool
  let pad ← padding
  let size ← natVec d
  let scale ← rat
  let inverse ← bool
  let steps ← nat
  let flow ← readField d size
  let scale := if inverse then -scale else scale
  if steps = 0 then
    pure (fmtField size (fun idx => Vec.smul scale (flow idx)))
  else
    let s : Rat := scale / ((2 ^ steps : Nat) : Rat)
    let mut arr := fieldArray size (fun idx => Vec.smul s (flow idx))
    for _ in [0:steps] do
      arr := fieldArray size (expvStep ac pad size (lookupField size arr))
    pure (fmtField size (lookupField size arr))

/-- `flow.compose d ac size… u-values… v-values…` -/
def flowCompose : Reader String := do
  let d ← nat
  let ac ← bool
  let size ← natVec d
  let u ← readField d size
  let v ← readField d size
  pure (fmtField size (composeFlows ac size u v))

/-- `flow.axes d <grid> a b values…` (FlowFields.axes) -/
def flowAxesH : Reader String := do
  let d ← nat
  let g ← grid d
  let a ← axes
  let b ← axes
  let size := gridSizeNat g
  let f ← readField d size
  pure (fmtField size (flowAxes g a b f))

/-- `flow.exp d <grid> a scale steps repaired values…` (FlowFields.exp) -/
def flowExpH : Reader String := do
  let d ← nat
  let g ← grid d
  let a ← axes
  let scale ← rat
  let steps ← nat
  let repaired ← bool
  let size := gridSizeNat g
  let f ← readField d size
  let ac := decide (a = Axes.cubeCorners)
  let c := expAxes a
  let arr0 := fieldArray size (if repaired then flowAxes g a c f else f)
  let f0 := lookupField size arr0
  let arrE : Array (Array Rat) :=
    if steps = 0 then fieldArray size (fun idx => Vec.smul scale (f0 idx))
    else Id.run do
      let s : Rat := scale / ((2 ^ steps : Nat) : Rat)
      let mut arr := fieldArray size (fun idx => Vec.smul s (f0 idx))
      for _ in [0:steps] do
        arr := fieldArray size (expvStep ac .border size (lookupField size arr))
      pure arr
  pure (fmtField size (flowAxes g c a (lookupField size arrE)))

/-- `flow.warp_image d ac pad size… image-values… flow-values…` (core.flow.warp_image on the own lattice) -/
def flowWarpImage : Reader String := do
  let d ← nat
  let ac ← bool
  let pad ← padding
  let size ← natVec d
  let vals := (← listOf (numel size) rat).toArray
  let img : (Fin d → Int) → Rat := fun idx => vals[flatIdx size idx]!
  let u ← readField d size
  pure (fmtRats ((allIdx d size).map (fun idx => warpImageAt ac pad size img (latticePoint ac size idx) (u idx))))

/-- `flow.bch d size… bch_terms u v vu vvu uvu uvvu` (compose_svfs given the bracket fields) -/
def flowBch : Reader String := do
  let d ← nat
  let size ← natVec d
  let k ← nat
  let u ← readField d size
  let v ← readField d size
  let vu ← readField d size
  let vvu ← readField d size
  let uvu ← readField d size
  let uvvu ← readField d size
  pure (fmtField size (bchCombine k u v vu vvu uvu uvvu))

/-- `flow.normalize d ac denorm side size… count values…` (core.flow.normalize_flow / denormalize_flow on `count`
    vectors, channels last: component `c` of every vector belongs to axis `c`, x first) -/
def flowNormalizeH : Reader String := do
  let d ← nat
  let ac ← bool
  let denorm ← bool
  let side ← rat
  let size ← natVec d
  let count ← nat
  let vals := (← listOf (count * d) rat).toArray
  let out := (List.range count).flatMap (fun k =>
    let v : Vec d Rat := fun c => vals[k * d + c.val]!
    let w := if denorm then Reg.denormalizeFlow ac size side v else Reg.normalizeFlow ac size side v
    (List.finRange d).map w)
  pure (fmtRats out)

def flowHandlers : List (String × Reader String) :=
  [ ("flow.expv", flowExpv), ("flow.compose", flowCompose), ("flow.axes", flowAxesH), ("flow.exp", flowExpH),
    ("flow.warp_image", flowWarpImage), ("flow.bch", flowBch), ("flow.normalize", flowNormalizeH) ]

end Deepali.Drv
