/-
  Drv/Grad.lean — driver handlers for the closed-form model gradients (property C20, op prefix `grad.`).
  Encodings as in Drv/Losses.lean (tensor = `k d1 … dk v…`, optional = `-` | `+ value`),
  Drv/Sample.lean (image = `size(d) values…`, x fastest), Drv/Flow.lean (field = values of a
  `(D, …, Y, X)` tensor), Drv/BSpline.lean (`Tensor` = `ndim shape… data…`), Drv/FD.lean (`MArr`).
  Every handler returns the gradient of `Σ cot·output` w.r.t. the differentiated argument, flattened in
  the memory order of that argument.
-/
import Deepali.Proto
import Deepali.Model.Grad
import Deepali.Drv.Losses
import Deepali.Drv.Flow
import Deepali.Drv.BSpline
import Deepali.Drv.FD
namespace Deepali.Drv
open Deepali Deepali.Proto Deepali.Loss Deepali.Grad Deepali.FD

private def gFmt (xs : List Rat) : String := " ".intercalate (xs.map fmtRat)

/-- `grad.pointwise kind red X Y optMask optNorm COT` → ∂/∂X -/
def gradPointwiseH : Reader String := do
  let kind ← lPointwiseKind
  let red ← lReduction
  let x ← lTensor
  let y ← lTensor
  let m ← lOpt lTensor
  let norm ← lOpt rat
  let cot ← lTensor
  if x.shape ≠ y.shape then pure "err:value:shape" else
  let n := x.numel
  let mk : Option (Nat → Rat) := m.map (fun mt =>
    let a := memoArr n (expandAs x.shape mt)
    getM a (expandAs x.shape mt))
  let denom := meanDenom n mk
  pure (gFmt ((List.range n).map (gradPointwiseD denom kind red x.data y.data mk norm cot.data)))

/-- `grad.dice S K P Y optW eps COT` → ∂/∂P of Σ_k cot k · diceAt k -/
def gradDiceH : Reader String := do
  let S ← nat
  let K ← nat
  let p ← lTensor
  let y ← lTensor
  let w ← lOpt lTensor
  let eps ← rat
  let cot ← lTensor
  let wd := w.map (fun t => t.data)
  let dAt := memoArr (K * S) (fun i => dDiceAt S p.data y.data wd eps (i / S) (i % S))
  pure (gFmt ((List.range (K * S)).map (fun i => cot.data (i / S) * dAt.getD i 0)))

/-- `grad.tversky S K P Y optW alpha beta eps COT` -/
def gradTverskyH : Reader String := do
  let S ← nat
  let K ← nat
  let p ← lTensor
  let y ← lTensor
  let w ← lOpt lTensor
  let alpha ← rat
  let beta ← rat
  let eps ← rat
  let cot ← lTensor
  let wd := w.map (fun t => t.data)
  pure (gFmt ((List.range (K * S)).map
    (gradChannels S (fun k s => dTverskyAt S p.data y.data wd alpha beta eps k s) cot.data)))

/-- `grad.ncc n N S T eps COT` → ∂/∂S of Σ_k cot k · nccNone k -/
def gradNccH : Reader String := do
  let n ← nat
  let N ← nat
  let s ← lTensor
  let t ← lTensor
  let eps ← rat
  let cot ← lTensor
  pure (gFmt ((List.range (N * n)).map (gradNcc n s.data t.data eps cot.data)))

/-- `grad.sample.value d pad ac size… npts pts… COT(npts)` → ∂/∂image (numel values) -/
def gradSampleValueH : Reader String := do
  let d ← nat
  let pad ← padding
  let ac ← bool
  let size ← natVec d
  let npts ← nat
  let pts ← listOf npts (vec d)
  let cot ← listOf npts rat
  pure (gFmt ((allIdx d size).map (fun idx =>
    (pts.zip cot).foldl (fun acc pc => acc + pc.2 * gradSampleValue ac pad size pc.1 idx) 0)))

/-- `grad.sample.coord d pad ac <image> npts pts… COT(npts)` → ∂/∂pts (npts·d values, point-major) -/
def gradSampleCoordH : Reader String := do
  let d ← nat
  let pad ← padding
  let ac ← bool
  let (size, img) ← image d
  let npts ← nat
  let pts ← listOf npts (vec d)
  let cot ← listOf npts rat
  pure (gFmt ((pts.zip cot).flatMap (fun pc =>
    (List.finRange d).map (fun i => pc.2 * gradSampleCoord ac pad size img pc.1 i))))

/-- adjoint of the separable line operators of `evaluateCubicBSpline` (same traversal of the axes). -/
private def bsAdjoint (inShape : List Nat) (strideX derivX : List Nat) (transpose : Bool) (outSize : Option (List Nat))
    (cot : Tensor Rat) : Tensor Rat :=
  let nd := inShape.length
  let D := nd - 2
  (List.range D).foldl (fun (acc : Tensor Rat) (a : Nat) =>
    if transpose then
      let dim := 2 + a
      let s := strideX.getD (D - 1 - a) 1
      let dv := derivX.getD (D - 1 - a) 0
      let L := inShape.getD dim 0
      match kernel1dValues (α := Rat) s dv with
      | .error _ => acc
      | .ok k =>
          let m : Option Nat := outSize.map (fun sh => sh.getD a 0)
          acc.mapAxis (fun g => adjLine (impulseCoef (fun c => evalTranspose s k c m) L) L g) dim
    else
      let dim := nd - 1 - a
      let s := strideX.getD a 1
      let dv := derivX.getD a 0
      let L := inShape.getD dim 0
      acc.mapAxis (fun g => adjLine (evalCoef (weightTable s dv)) L g) dim) cot

/-- `grad.bspline.eval <in-shape as tensor header: ndim shape…> D strideX… derivX… transpose hasShape [shape…] COT-tensor` -/
def gradBsEvalH : Reader String := do
  let nd ← nat
  let inShape ← listOf nd nat
  let D ← nat
  let stride ← listOf D nat
  let deriv ← listOf D nat
  let tr ← bool
  let hs ← bool
  let sh ← if hs then (do let l ← listOf D nat; pure (some l)) else pure none
  let cot ← tensorR
  pure (fmtTensor (bsAdjoint inShape stride deriv tr sh cot))

/-- `grad.bspline.subdivide ndim shape… k dims… COT-tensor` → ∂/∂coefficients -/
def gradBsSubdivH : Reader String := do
  let nd ← nat
  let inShape ← listOf nd nat
  let k ← nat
  let dims ← listOf k nat
  let cot ← tensorR
  let tdims := (List.range nd).filter (fun td => dims.any (fun a => nd - 1 - a = td))
  pure (fmtTensor (tdims.foldl (fun (acc : Tensor Rat) td =>
    let L := inShape.getD td 0
    acc.mapAxis (fun g => adjLine (subdivCoef L) L g) td) cot))

private def gAllIdx {D} (sz : Fin D → Nat) : List (Idx D) :=
  let st := stridesOf sz
  let sa := sizesOf sz
  (List.range (boxTotal sz)).map (fun lin => unlin st sa lin)

private def gNatVec (d : Nat) : Reader (Fin d → Nat) := do
  let a := (← listOf d nat).toArray
  pure (fun i => a[i.val]!)

/-- memoised chain of first-derivative steps for a (sorted) key. -/
private def chainM {D} (mode : SDMode) (sz : Fin D → Nat) (sp : Fin D → Rat) (key : DKey D) (m : MArr D) : MArr D :=
  (sortKey key).foldl (fun acc a => stepM mode sz sp a acc) m

private def dkeyR (D : Nat) : Reader (DKey D) := do
  let k ← str
  match toDKey D k with
  | some dk => pure dk
  | none => throw "bad-op:key"

/-- `grad.fd D mode sz… sp… nkeys key… COT-arrays…(one per key)` → ∂/∂data of Σ_key Σ_idx cot·∂_key data -/
def gradFdH : Reader String := do
  let D ← nat
  let mode ← sdMode
  let sz ← gNatVec D
  let sp ← vec D
  let nk ← nat
  let keys ← listOf nk (dkeyR D)
  let cots ← listOf nk (marr D sz)
  let box := gAllIdx sz
  let out := box.map (fun j =>
    let imp := MArr.ofFn sz (unitArr (α := Rat) j)
    (keys.zip cots).foldl (fun acc kc =>
      let r := chainM mode sz sp kc.1 imp
      acc + sumIdx box (fun idx => kc.2.get idx * r.get idx)) 0)
  pure (gFmt out)

/-- `grad.quadreg D mode sz… sp… nterms (weight key)… scale data…` →
    ∂/∂data of `scale · Σ_l w_l Σ_idx (∂_{key_l} data)²` -/
def gradQuadRegH : Reader String := do
  let D ← nat
  let mode ← sdMode
  let sz ← gNatVec D
  let sp ← vec D
  let nt ← nat
  let terms ← listOf nt (do let w ← rat; let k ← dkeyR D; pure (w, k))
  let scale ← rat
  let data ← marr D sz
  let box := gAllIdx sz
  let LA := terms.map (fun t => (t.1, t.2, chainM mode sz sp t.2 data))
  let out := box.map (fun j =>
    let imp := MArr.ofFn sz (unitArr (α := Rat) j)
    scale * LA.foldl (fun acc t =>
      let r := chainM mode sz sp t.2.1 imp
      acc + t.1 * sumIdx box (fun idx => 2 * (t.2.2.get idx * r.get idx))) 0)
  pure (gFmt out)

/-- `grad.compose d ac size… u… v… cot…` → ∂/∂u then ∂/∂v (two fields) -/
def gradComposeH : Reader String := do
  let d ← nat
  let ac ← bool
  let size ← natVec d
  let u ← readField d size
  let v ← readField d size
  let cot ← readField d size
  let box := allIdx d size
  let gu : VField d Rat := fun idx c => gradComposeU ac .border size u v cot idx c
  let gv : VField d Rat := fun idx c => gradComposeV ac .border size u cot box idx c
  pure (fmtField size gu ++ " " ++ fmtField size gv)

/-- `grad.expvstep d ac pad size… disp… cot…` → ∂/∂disp of one scaling-and-squaring step -/
def gradExpvStepH : Reader String := do
  let d ← nat
  let ac ← bool
  let pad ← padding
  let size ← natVec d
  let disp ← readField d size
  let cot ← readField d size
  let box := allIdx d size
  pure (fmtField size (fun idx c => gradExpvStep ac pad size disp cot box idx c))

/-- `grad.rot2 c s dtheta npts pts… cot…` → ∂/∂p of Σ cot·R(θ(p))x -/
def gradRot2H : Reader String := do
  let c ← rat
  let s ← rat
  let dth ← rat
  let npts ← nat
  let pts ← listOf npts (vec 2)
  let cot ← listOf npts (vec 2)
  pure (fmtRat ((pts.zip cot).foldl (fun acc pc => acc + gradRot2 c s dth pc.1 pc.2) 0))

/-- `grad.scale_translate d dsigma… npts pts… cot…` → ∂/∂(scale params) then ∂/∂(translation) -/
def gradScaleTranslateH : Reader String := do
  let d ← nat
  let ds ← vec d
  let npts ← nat
  let pts ← listOf npts (vec d)
  let cot ← listOf npts (vec d)
  let gs := (List.finRange d).map (fun i => (pts.zip cot).foldl (fun acc pc => acc + gradScale ds pc.1 pc.2 i) 0)
  let gt := (List.finRange d).map (fun i => (pts.zip cot).foldl (fun acc pc => acc + gradTranslate pc.2 i) 0)
  pure (gFmt (gs ++ gt))

def gradHandlers : List (String × Reader String) :=
  [ ("grad.pointwise", gradPointwiseH), ("grad.dice", gradDiceH), ("grad.tversky", gradTverskyH),
    ("grad.ncc", gradNccH), ("grad.sample.value", gradSampleValueH), ("grad.sample.coord", gradSampleCoordH),
    ("grad.bspline.eval", gradBsEvalH), ("grad.bspline.subdivide", gradBsSubdivH),
    ("grad.fd", gradFdH), ("grad.quadreg", gradQuadRegH), ("grad.compose", gradComposeH),
    ("grad.expvstep", gradExpvStepH), ("grad.rot2", gradRot2H), ("grad.scale_translate", gradScaleTranslateH) ]

end Deepali.Drv
