/-
  Drv/GridDerive.lean — driver handlers for derived grids (property C03), op prefix `gridop.`.

  op grammar (tokens):
    resize n…(d) ac | reshape s…(d) ac | resample sp…(d) min | resample_iso min|max min
    downsample levels k dims…(k) min ac | upsample levels k dims…(k) ac
    pyramid_level levels k dims…(k) min level
    crop M | pad M        with M = all n | margin k m…(k) | num k n…(k)
    center_crop n…(d) | center_pad n…(d) | narrow dim start length | roi start…(d) size…(d)
    pool ks…(d) ceil
  `ac` is `none|0|1`. Result of a grid: `size center spacing direction ac | origin | sizeInt | cubeExtent`.
  Python-level rejections are reported as `err:value`, a division by zero in `_resize`
  (torch: inf/nan spacing, no exception) as `err:nonfinite`.
-/
import Deepali.Proto
import Deepali.Model.GridOps
namespace Deepali.Drv
open Deepali Deepali.Proto

/-- force every attribute of a grid into arrays. (The result type is a structure, so the arrays are
    built once when `Grid.memo g` is evaluated; a function-typed `Vec.memo` would be eta-expanded and
    rebuild its array on every access, which makes chains exponential.) -/
def Grid.memo {d} (g : Grid d Rat) : Grid d Rat :=
  let s := Array.ofFn g.size
  let c := Array.ofFn g.center
  let sp := Array.ofFn g.spacing
  let D := Array.ofFn (fun i => Array.ofFn (g.direction i))
  ⟨fun i => s[i.val]!, fun i => c[i.val]!, fun i => sp[i.val]!, fun i j => (D[i.val]!)[j.val]!, g.alignCorners⟩

def optBool : Reader (Option Bool) := do
  let t ← tok
  match t with
  | "none" => pure none
  | "1" => pure (some true)
  | "0" => pure (some false)
  | _ => throw s!"bad-op:optbool:{t}"

def intVec (d : Nat) : Reader (Fin d → Int) := do
  let a := (← listOf d int).toArray
  pure (fun i => a[i.val]!)

def dimList (d : Nat) : Reader (List (Fin d)) := do
  let k ← nat
  let l ← listOf k nat
  let mut out : List (Fin d) := []
  for v in l do
    if h : v < d then out := out ++ [⟨v, h⟩] else throw "err:value"
  pure out

def marginArg : Reader MarginArg := do
  let t ← tok
  match t with
  | "all" => pure (.all (← int))
  | "margin" => do
      let k ← nat
      pure (.margin (← listOf k int))
  | "num" => do
      let k ← nat
      pure (.num (← listOf k int))
  | _ => throw s!"bad-op:margin:{t}"

/-- an operation together with the Python-level argument checks that precede the modelled code. -/
def readOp (d : Nat) : Reader (GridOp d Rat) := do
  let t ← tok
  match t with
  | "resize" => do
      let n ← intVec d
      let ac ← optBool
      if (List.finRange d).any (fun i => n i < 0) then throw "err:value"      -- grid.py @1128-1129
      pure (.resize (fun i => (n i).toNat) ac)
  | "reshape" => do
      let n ← intVec d
      let ac ← optBool
      if (List.finRange d).any (fun i => n i < 0) then throw "err:value"      -- @1157-1158
      pure (.reshape (fun i => (n i).toNat) ac)
  | "resample" => do
      let sp ← vec d
      let m ← nat
      pure (.resample sp m)
  | "resample_iso" => do
      let w ← tok
      let m ← nat
      match w with
      | "min" => pure (.resampleIso false m)
      | "max" => pure (.resampleIso true m)
      | _ => throw "err:value"                                               -- @1180-1183
  | "downsample" => do
      let l ← int
      let dims ← dimList d
      let m ← nat
      let ac ← optBool
      pure (.downsample l dims m ac)
  | "upsample" => do
      let l ← int
      let dims ← dimList d
      let ac ← optBool
      pure (.upsample l dims ac)
  | "pyramid_level" => do
      let l ← nat
      let dims ← dimList d
      let m ← int
      let k ← nat
      pure (.pyramidLevel l dims m k)
  | "crop" => do
      match (← marginArg).toNum d with
      | some num => pure (.crop num)
      | none => throw "err:value"                                            -- @1393-1394
  | "pad" => do
      match (← marginArg).toNum d with
      | some num => pure (.pad num)
      | none => throw "err:value"
  | "center_crop" => do pure (.centerCrop (← intVec d))
  | "center_pad" => do pure (.centerPad (← intVec d))
  | "narrow" => do
      let dim ← int
      let s ← int
      let l ← int
      if dim < 0 || dim > d then throw "err:value"                            -- IndexError @1505-1506
      pure (.narrow dim.toNat s l)
  | "roi" => do
      let s ← intVec d
      let n ← intVec d
      pure (.roi s n)
  | "pool" => do
      let ks ← listOf d nat
      let c ← bool
      let a := ks.toArray
      pure (.pool (fun i => a[i.val]!) c)
  | _ => throw s!"bad-op:gridop:{t}"

/-- state-dependent rejections / non-finite results of one operation on grid `g`. -/
def opError {d} (g : Grid d Rat) : GridOp d Rat → Option String
  | .resize n ac => if g.resizeFinite (fun i => ((n i : Nat) : Rat)) ac then none else some "err:nonfinite"
  | .reshape s ac => if g.resizeFinite (fun i => ((s i.rev : Nat) : Rat)) ac then none else some "err:nonfinite"
  | .resample sp _ =>
      if vecAll (fun i => allclose (sp i) (g.spacing i)) then none
      else if (List.finRange d).any (fun i => sp i ≤ 0) then some "err:value" else none     -- @1187-1188
  | .resampleIso mx _ =>
      let sp := vecExtreme mx g.spacing
      if vecAll (fun i => allclose sp (g.spacing i)) then none
      else if sp ≤ 0 then some "err:value" else none
  | .downsample l dims m ac =>
      if g.resizeFinite (g.downsampleSize l dims m) ac then none else some "err:nonfinite"
  | .upsample l dims ac => if g.resizeFinite (g.upsampleSize l dims) ac then none else some "err:nonfinite"
  | .pyramidLevel l dims m k =>
      let s := g.pyramidSizes l dims m k
      if (List.finRange d).any (fun i => s i < 0) then some "err:value"
      else if g.resizeFinite (fun i => (((s i).toNat : Nat) : Rat)) none then none else some "err:nonfinite"
  | .pool ks _ =>
      if (List.finRange d).any (fun i => ks i = 0) then some "err:nonfinite" else ctor
  | .crop num => if num.all (· == 0) then none else ctor                      -- early `return self` @1395
  | .pad num => if num.all (· == 0) then none else ctor
  | .roi s n => if (g.roiNum s n).all (· == 0) then none else ctor
  | .centerCrop _ | .centerPad _ | .narrow _ _ _ => ctor
where
  /-- `Grid(...)` → `spacing_` @528-529: "Grid spacing must be positive" -/
  ctor : Option String := if (List.finRange d).any (fun i => g.spacing i ≤ 0) then some "err:value" else none

def fmtIntVec {d} (x : Fin d → Int) : String :=
  " ".intercalate ((List.finRange d).map (fun i => toString (x i)))

def fmtGridFull {d} (g : Grid d Rat) : String :=
  s!"{fmtGrid g} | {fmtVec g.origin} | {fmtIntVec g.sizeInt} | {fmtVec g.cubeExtent}"

/-- `gridop.apply d <grid> <op>` -/
def gridopApply : Reader String := do
  let d ← nat
  let g ← grid d
  let op ← readOp d
  match opError g op with
  | some e => pure e
  | none => pure (fmtGridFull (Grid.memo (op.apply g)))

/-- `gridop.chain d <grid> k <op>…` → every intermediate grid, separated by ` ; `;
    the first failing step ends the output with its error. -/
def gridopChain : Reader String := do
  let d ← nat
  let g ← grid d
  let k ← nat
  let mut cur := g
  let mut outs : Array String := #[]
  let mut failed := false
  for _ in [0:k] do
    let op ← readOp d
    if !failed then
      match opError cur op with
      | some e =>
          outs := outs.push e
          failed := true
      | none =>
          cur := Grid.memo (op.apply cur)
          outs := outs.push (fmtGridFull cur)
  pure (" ; ".intercalate outs.toList)

/-- `gridop.pyramid d <grid> levels k dims… min` → all levels, finest first. -/
def gridopPyramid : Reader String := do
  let d ← nat
  let g ← grid d
  let l ← nat
  let dims ← dimList d
  let m ← int
  let mut outs : Array String := #[]
  for k in [0:l + 1] do
    let op : GridOp d Rat := .pyramidLevel l dims m k
    match opError g op with
    | some e => outs := outs.push e
    | none => outs := outs.push (fmtGridFull (Grid.memo (op.apply g)))
  -- the code computes all sizes first and raises before returning any level
  match outs.toList.find? (fun s => s.startsWith "err:value") with
  | some e => pure e
  | none => pure (" ; ".intercalate outs.toList)

/-- `gridop.pyramid_sizes n levels ac min` → the per-axis integer recurrence. -/
def gridopPyramidSizes : Reader String := do
  let n ← int
  let l ← nat
  let ac ← bool
  let m ← int
  pure (" ".intercalate ((List.range (l + 1)).map (fun k => toString (pyramidSize n l ac m true k))))

/-- `gridop.cube d <grid>` → `extent | center | direction` -/
def gridopCube : Reader String := do
  let d ← nat
  let g ← grid d
  let (e, c, D) := g.cube
  pure s!"{fmtVec e} | {fmtVec c} | {fmtMat D}"

/-- `gridop.cube_grid d extent center direction size ac` -/
def gridopCubeGrid : Reader String := do
  let d ← nat
  let e ← vec d
  let c ← vec d
  let D ← mat d
  let n ← listOf d nat
  let ac ← bool
  let a := n.toArray
  if (List.finRange d).any (fun i => (if ac then a[i.val]! = 1 else a[i.val]! = 0)) then pure "err:nonfinite"
  else pure (fmtGridFull (Grid.memo (cubeGrid e c D (fun i => a[i.val]!) ac)))

def gridDeriveHandlers : List (String × Reader String) :=
  [ ("gridop.apply", gridopApply), ("gridop.chain", gridopChain), ("gridop.pyramid", gridopPyramid),
    ("gridop.pyramid_sizes", gridopPyramidSizes), ("gridop.cube", gridopCube),
    ("gridop.cube_grid", gridopCubeGrid) ]

end Deepali.Drv
