/-
  Drv/GridOps.lean — driver handlers for layer A (grids, homogeneous transforms).
-/
import Deepali.Proto
import Deepali.Model.Cube
namespace Deepali.Drv
open Deepali Deepali.Proto

def gridTransform : Reader String := do
  let d ← nat
  let g ← grid d
  let a ← axes
  let b ← axes
  let v ← bool
  pure (fmtH (g.transform a b v))

def gridTransformTo : Reader String := do
  let d ← nat
  let g ← grid d
  let g' ← grid d
  let a ← axes
  let b ← axes
  let v ← bool
  pure (fmtH (g.transformTo a g' b v))

/-- `grid.apply d g a b vectors decimals x…` (decimals: -1 → none) -/
def gridApply : Reader String := do
  let d ← nat
  let g ← grid d
  let a ← axes
  let b ← axes
  let v ← bool
  let dec ← int
  let x ← vec d
  let y := (g.applyTransform a b v x).memo
  let y : Vec d Rat := if dec < 0 then y else fun i => roundDecimals dec.toNat (y i)
  pure (fmtVec y)

def gridApplyTo : Reader String := do
  let d ← nat
  let g ← grid d
  let g' ← grid d
  let a ← axes
  let b ← axes
  let v ← bool
  let dec ← int
  let x ← vec d
  let y := (g.applyTransformTo a g' b v x).memo
  let y : Vec d Rat := if dec < 0 then y else fun i => roundDecimals dec.toNat (y i)
  pure (fmtVec y)

def gridTransformVectors : Reader String := do
  let d ← nat
  let g ← grid d
  let a ← axes
  let b ← axes
  let x ← vec d
  pure (fmtVec (g.transformVectors a b x))

def gridTransformVectorsTo : Reader String := do
  let d ← nat
  let g ← grid d
  let g' ← grid d
  let a ← axes
  let b ← axes
  let x ← vec d
  pure (fmtVec (g.transformVectorsTo a g' b x))

def gridOrigin : Reader String := do
  let d ← nat
  let g ← grid d
  pure (fmtVec g.origin)

/-- `grid.from_origin d size origin spacing direction ac` → grid (center computed) -/
def gridFromOrigin : Reader String := do
  let d ← nat
  let size ← vec d
  let origin ← vec d
  let spacing ← vec d
  let direction ← mat d
  let ac ← bool
  pure (fmtGrid (Grid.fromOrigin size origin spacing direction ac))

/-- `coords.arange n ac` → `first step count` -/
def coordsArangeH : Reader String := do
  let n ← nat
  let ac ← bool
  let (a, s, c) := coordsArange n ac
  pure s!"{fmtRat a} {fmtRat s} {c}"

/-- `coords.at n ac k` → k-th lattice value -/
def coordsAt : Reader String := do
  let n ← nat
  let ac ← bool
  let k ← nat
  let (a, s, _) := coordsArange n ac
  pure (fmtRat (a + (k : Rat) * s))

def hApply : Reader String := do
  let d ← nat
  let h ← hform d
  let v ← bool
  let x ← vec d
  pure (fmtVec (h.applyAs v x))

def hMatmul : Reader String := do
  let d ← nat
  let n ← nat
  let hs ← listOf n (hform d)
  match hs with
  | [] => throw "err:empty"
  | a :: bs => pure (fmtH (H.matmulN a bs))

def hHmm : Reader String := do
  let d ← nat
  let a ← hform d
  let b ← hform d
  pure (fmtH (a.hmm b))

def hAsMatrix : Reader String := do
  let d ← nat
  let a ← hform d
  let c := a.toHom
  pure (fmtH (.hom c.1 c.2))

def hHomMatrix : Reader String := do
  let d ← nat
  let a ← hform d
  let t ← vec d
  pure (fmtH (a.homogeneousMatrix t))

def roundDec : Reader String := do
  let dec ← nat
  let x ← rat
  pure (fmtRat (roundDecimals dec x))

private def cubeR (d : Nat) : Reader (Cube d Rat) := do
  let e ← vec d
  let c ← vec d
  let D ← mat d
  pure ⟨e, c, D⟩

/-- `cube.transform d <extent center direction> axes to_axes vectors other(0|1) [<cube2>]` -/
def cubeTransform : Reader String := do
  let d ← nat
  let c ← cubeR d
  let a ← axes
  let b ← axes
  let v ← bool
  let hasOther ← bool
  let other ← if hasOther then (do let o ← cubeR d; pure (some o)) else pure none
  match c.transform a b other v with
  | .ok h => pure (fmtH h)
  | .errValue => pure "err:value"

/-- `cube.of_grid d <grid> ac(-1|0|1)` → extent center direction -/
def cubeOfGrid : Reader String := do
  let d ← nat
  let g ← grid d
  let ac ← int
  let c := Cube.ofGrid g (if ac < 0 then none else some (ac = 1))
  pure s!"{fmtVec c.extent} {fmtVec c.center} {fmtMat c.direction}"

def gridHandlers : List (String × Reader String) :=
  [ ("grid.transform", gridTransform), ("grid.transform_to", gridTransformTo),
    ("grid.apply", gridApply), ("grid.apply_to", gridApplyTo),
    ("grid.tvec", gridTransformVectors), ("grid.tvec_to", gridTransformVectorsTo),
    ("grid.origin", gridOrigin), ("grid.from_origin", gridFromOrigin),
    ("coords.arange", coordsArangeH), ("coords.at", coordsAt),
    ("h.apply", hApply), ("h.matmul", hMatmul), ("h.hmm", hHmm), ("h.as_matrix", hAsMatrix),
    ("h.hom_matrix", hHomMatrix), ("round.decimals", roundDec),
    ("cube.transform", cubeTransform), ("cube.of_grid", cubeOfGrid) ]

end Deepali.Drv
