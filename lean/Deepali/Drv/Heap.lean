/-
  Drv/Heap.lean — driver handlers for the C15 models (op prefix `heap.`).

  `heap.check A a₁…a_A NEXT E (t s)ᴱ R r₁…r_R N op₁…op_N`
      A argument storage ids, NEXT = number of storages existing before the call, E declarations
      of pre-existing tensors (tensor id, storage id), R ids of the tensors the call returned,
      N trace ops encoded as `f t` | `v t src` | `a t src` | `i t`.
      → `wf <0|1> safe <0|1> written <ids|-> old <ids|-> alias <ids|->`
        written = argument storages some in-place op targets (sorted, unique);
        old     = other pre-existing storages written; alias = argument storages a result lives in.
-/
import Deepali.Proto
import Deepali.Model.Heap
namespace Deepali.Drv
open Deepali Deepali.Proto

def fmtNats (xs : List Nat) : String :=
  if xs.isEmpty then "-" else ",".intercalate (xs.map toString)

def sortUniq (xs : List Nat) : List Nat :=
  (xs.toArray.qsort (· < ·)).toList.eraseDups

def trOp : Reader TrOp := do
  let k ← tok
  match k with
  | "f" => pure (.fresh (← nat))
  | "v" => do let t ← nat; let s ← nat; pure (.view t s)
  | "a" => do let t ← nat; let s ← nat; pure (.aliasOf t s)
  | "i" => pure (.inplace (← nat))
  | _ => throw s!"bad-op:trop:{k}"

def heapCheck : Reader String := do
  let na ← nat
  let args ← listOf na nat
  let next ← nat
  let ne ← nat
  let envL ← listOf ne (do let t ← nat; let s ← nat; pure (t, s))
  let nr ← nat
  let res ← listOf nr nat
  let n ← nat
  let tr ← listOf n trOp
  -- later declarations shadow earlier ones in `List.lookup`; ids are unique, order is irrelevant
  let env : TEnv := envL
  let wf := wfTrace env next tr
  let ok := safe args env next tr
  let written := sortUniq (writtenArgs args env next tr)
  let old := sortUniq ((writtenOld next env next tr).filter (fun s => !args.contains s))
  let fin := finalEnv env next tr
  let al := sortUniq (res.filterMap (fun r =>
    match fin.lookup r with
    | some s => if args.contains s then some s else none
    | none => none))
  pure s!"wf {if wf then 1 else 0} safe {if ok then 1 else 0} written {fmtNats written} old {fmtNats old} alias {fmtNats al}"

/-! ## Part 2: object graphs

  `heap.run N node₁…node_N  P pool₁…pool_P  S step₁…step_S`
    node  = `tag data E (key r|i val)ᴱ`            (node ids 0…N-1; node 0 must be None)
    pool  = node ids of the objects under observation
    step  = `selfIdx argIdx <program tokens>`      (indices into the pool; `argIdx` may be `-`)
            the result (register 10) is appended to the pool unless the program raised
  → one record per step, `|`-separated:
    `ok|raised` `chg <poolIdx>:<path>,<path>… ;…` `shr <path>,<path>…`
    chg = paths (keys joined by `.`) at which the view of each pool object differs from its view
          before the step; shr = paths at which the result holds the *same node* as the receiver
          holds at the same path (what the new object shares with the one it was derived from).
-/

def readNode : Reader ONode := do
  let tag ← nat
  let data ← nat
  let ne ← nat
  let es ← listOf ne (do
    let k ← nat
    let kind ← tok
    let v ← nat
    match kind with
    | "r" => pure (k, OVal.ref v)
    | "i" => pure (k, OVal.imm v)
    | _ => throw s!"bad-op:entry:{kind}")
  pure ⟨tag, data, es⟩

def heapOfNodes (ns : Array ONode) : OHeap :=
  { node := fun i => ns.getD i ⟨tNone, 0, []⟩, next := ns.size }

def argForm : Reader ArgForm := do
  match (← tok) with
  | "s" => pure .sameTensor
  | "c" => pure .converted
  | t => throw s!"bad-op:argform:{t}"

def gridSetterR : Reader GridSetter := do
  match (← tok) with
  | "center" => pure (.center (← argForm))
  | "origin" => pure .origin
  | "spacing" => pure (.spacing (← argForm))
  | "direction" => pure (.direction (← argForm))
  | "ac" => pure (.alignCorners (← nat))
  | t => throw s!"bad-op:gridsetter:{t}"

def cubeSetterR : Reader CubeSetter := do
  match (← tok) with
  | "center" => pure (.center (← argForm))
  | "origin" => pure .origin
  | "direction" => pure (.direction (← argForm))
  | "extent" => pure (.extent (← argForm))
  | t => throw s!"bad-op:cubesetter:{t}"

def slotKey : Reader Nat := do
  match (← tok) with
  | "size" => pure kSize
  | "center" => pure kCenter
  | "spacing" => pure kSpacing
  | "direction" => pure kDirection
  | "extent" => pure kExtent
  | t => throw s!"bad-op:slot:{t}"

/-- `cls nonrigid composite sequential dense svf bspline invertible` followed by `composite` flags
    "child i is non-rigid", `composite` flags "child i is stationary-velocity", `composite` flags "child i has inverse()" -/
def tclassR : Reader (TClass × (Nat → Bool) × (Nat → Bool) × (Nat → Bool)) := do
  let nonrigid ← bool
  let composite ← nat
  let sequential ← bool
  let dense ← bool
  let svf ← bool
  let bspline ← bool
  let invertible ← bool
  let cn ← listOf composite bool
  let cs ← listOf composite bool
  let ci ← listOf composite bool
  pure (⟨nonrigid, composite, sequential, dense, svf, bspline, invertible⟩, fun i => cn.getD i false, fun i => cs.getD i false,
        fun i => ci.getD i false)

/-- program tokens; `fresh` is a number used as content tag of newly computed tensors -/
def progR (fresh : Nat) : Reader Prog := do
  match (← tok) with
  | "gacc" => pure (gridAccessorProg (← gridSetterR) fresh)
  | "gset" => pure (gridSetterProg (← gridSetterR) fresh)
  | "gclone" => pure gridCloneProg
  | "gpoke" => pure (pokeSlotProg (← slotKey) fresh)
  | "cacc" => pure (cubeAccessorProg (← cubeSetterR) fresh)
  | "cset" => pure (cubeSetterProg (← cubeSetterR) fresh)
  | "cclone" => pure cubeCloneProg
  | "cpoke" => pure (pokeSlotProg (← slotKey) fresh)
  | "igrid" => pure (imageOpProg .gridOfImage fresh)
  | "bgrid" => pure (imageOpProg (.gridOfBatch (← nat)) fresh)
  | "ishallow" => pure (imageOpProg .shallow fresh)
  | "ifun" => pure (imageOpProg .functional fresh)
  | "ideep" => pure (imageOpProg .deepImage fresh)
  | "bdeep" => pure (imageOpProg (.deepBatch (← nat)) fresh)
  | "igridset" => pure (imageGridSetProg none)
  | "bgridset" => pure (imageGridSetProg (some (← nat)))
  | "ipoke" => pure (imagePokeProg fresh)
  | "tcopy" => do let (c, _, _, _) ← tclassR; pure (copyProg c)
  | "tcond" => do let (c, cn, _, _) ← tclassR; pure (conditionProg c cn)
  | "tdata" => do let (c, _, _, _) ← tclassR; pure (dataProg c)
  | "tlink" => do let (c, _, _, _) ← tclassR; pure (linkProg c)
  | "tunlink" => pure unlinkProg
  | "tinverse" => do
      let (c, _, cs, ci) ← tclassR
      let link ← bool
      let ub ← bool
      let inv ← nat
      pure (inverseProg c cs ci link ub inv)
  | "tgrid" => do
      let (c, cn, _, _) ← tclassR
      let same ← bool
      let sub ← bool
      let valid ← bool
      let ac ← nat
      pure (gridProg c cn same sub valid ac)
  | "tmatrix" => pure (matrixProg (← bool))
  | "tdeep" => do
      let np ← nat
      let pk ← listOf np nat
      let nb ← nat
      let bk ← listOf nb nat
      pure (deepcopyLeafProg pk bk)
  | t => throw s!"bad-op:prog:{t}"

def fmtPath (p : List Nat) : String := if p.isEmpty then "@" else ".".intercalate (p.map toString)

def fmtPaths (ps : List (List Nat)) : String :=
  if ps.isEmpty then "-" else ",".intercalate ((ps.map fmtPath).toArray.qsort (· < ·)).toList.eraseDups

/-- paths at which two views hold the *same node* (same id), down to the given depth -/
partial def sharedPaths (pre : List Nat) : VTree → VTree → List (List Nat)
  | .node i _ _ ks, .node i' _ _ ks' =>
      (if i = i' then [pre] else []) ++
      ks.flatMap (fun (k, v) =>
        match ks'.lookup k with
        | some v' => sharedPaths (pre ++ [k]) v v'
        | none => [])
  | _, _ => []

def viewFuel : Nat := 10

def heapRun : Reader String := do
  let n ← nat
  let nodes ← listOf n readNode
  let np ← nat
  let pool0 ← listOf np nat
  let ns ← nat
  let mut st : OState := initState (heapOfNodes nodes.toArray) (fun _ => 0)
  let mut pool : Array Nat := pool0.toArray
  let mut out : Array String := #[]
  for k in [0:ns] do
    let selfIdx ← nat
    let argTok ← tok
    let prog ← progR (1000 + k)
    let self := pool.getD selfIdx 0
    let arg := match argTok.toNat? with
      | some a => pool.getD a 0
      | none => 0
    let before := pool.toList.map (fun r => viewVal st.heap viewFuel (.ref r))
    let st0 : OState := { st with regs := fun r => if r = 0 then self else if r = 1 then arg else 0, halted := false }
    let st1 := runProg st0 prog
    let after := pool.toList.map (fun r => viewVal st1.heap viewFuel (.ref r))
    let chg := (List.zip (List.range pool.size) (List.zip before after)).filterMap (fun (i, (b, a)) =>
      let d := diffPaths [] b a
      if d.isEmpty then none else some s!"{i}:{fmtPaths d}")
    let res := st1.regs 10
    let shr := if st1.halted then "-" else
      fmtPaths (sharedPaths [] (viewVal st1.heap viewFuel (.ref res)) (viewVal st1.heap viewFuel (.ref self)))
    out := out.push s!"{if st1.halted then "raised" else "ok"} chg {if chg.isEmpty then "-" else ";".intercalate chg} shr {shr}"
    if !st1.halted && res ≠ self then
      pool := pool.push res
    st := { st1 with halted := false }
  pure ("|".intercalate out.toList)

/-- `heap.canon <isParam> <svf> <accessor>` → `pure` | `changed n₁,n₂…` (nodes of the canonical heap that change) -/
def heapCanon : Reader String := do
  let isParam ← bool
  let svf ← bool
  let a ← (do
    match (← tok) with
    | "condition" => pure TAcc.condition
    | "grid" => pure TAcc.grid
    | "data" => pure TAcc.data
    | "unlink" => pure TAcc.unlink
    | "inverse" => pure TAcc.inverse
    | "matrix" => pure TAcc.matrix
    | t => throw s!"bad-op:tacc:{t}")
  let st := canonRun isParam svf a
  let changed := (List.range 16).filter (fun n => st.heap.node n != (canonTransformHeap isParam svf).node n)
  pure (if canonPure isParam svf a then "pure" else s!"changed {fmtNats changed}")

/-- `heap.canonc <condition|grid>` → `pure` | `changed n₁,n₂…` on the canonical composite -/
def heapCanonComposite : Reader String := do
  let g ← (do
    match (← tok) with
    | "condition" => pure false
    | "grid" => pure true
    | t => throw s!"bad-op:cacc:{t}")
  let ch := canonCompositeChanged g
  pure (if ch.isEmpty then "pure" else s!"changed {fmtNats ch}")

def heapHandlersPart1 : List (String × Reader String) :=
  [("heap.check", heapCheck), ("heap.run", heapRun), ("heap.canon", heapCanon), ("heap.canonc", heapCanonComposite)]

end Deepali.Drv

namespace Deepali.Drv
def heapHandlers : List (String × Deepali.Proto.Reader String) := heapHandlersPart1
end Deepali.Drv
