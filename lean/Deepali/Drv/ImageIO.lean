/-
  Drv/ImageIO.lean — driver handlers for property C18 (`meta.*`, `shuffle.*`, `nifti.*`).
  Only `imageioHandlers` is public (the namespace `Deepali.Drv` is shared).

  Header tokens are passed / printed as `w:<word>`, `n:<nat>`, `f:<rational>`.
  A header is passed as `nlines {key ntoks tok…}` and printed as `Key|tok tok…;Key|…`.
  Results with several fields are printed as `name=values;name=values…`.
-/
import Deepali.Proto
import Deepali.Model.MetaImage
import Deepali.Model.Nifti
namespace Deepali.Drv
open Deepali Deepali.Proto Deepali.MetaIO

private def ioRats (xs : List Rat) : String := " ".intercalate (xs.map fmtRat)
private def ioNats (xs : List Nat) : String := " ".intercalate (xs.map toString)
private def ioOptRats : Option (List Rat) → String
  | none => "none"
  | some xs => ioRats xs

private def ioErr {β} (e : Except IOErr β) : Reader β :=
  match e with
  | .ok v => pure v
  | .error m => throw m.toString

private def ioTok : Reader (Tok Rat) := do
  let t ← tok
  if t.startsWith "w:" then pure (.word (t.drop 2).toString)
  else if t.startsWith "n:" then
    match (t.drop 2).toString.toNat? with
    | some n => pure (.nat n)
    | none => throw s!"bad-op:tok:{t}"
  else if t.startsWith "f:" then
    match parseRat (t.drop 2).toString with
    | some r => pure (.num r)
    | none => throw s!"bad-op:tok:{t}"
  else throw s!"bad-op:tok:{t}"

private def fmtTok : Tok Rat → String
  | .word s => s!"w:{s}"
  | .nat n => s!"n:{n}"
  | .num x => s!"f:{fmtRat x}"

private def fmtLines (ls : List (Line Rat)) : String :=
  ";".intercalate (ls.map (fun l => l.key ++ "|" ++ " ".intercalate (l.val.map fmtTok)))

private def ioElemType : Reader ElemType := do
  let t ← tok
  match t with
  | "int8" => pure .int8 | "uint8" => pure .uint8 | "int16" => pure .int16 | "uint16" => pure .uint16
  | "int32" => pure .int32 | "uint32" => pure .uint32 | "int64" => pure .int64 | "uint64" => pure .uint64
  | "float32" => pure .float32 | "float64" => pure .float64
  | _ => throw s!"bad-op:dtype:{t}"

private def fmtElemType : ElemType → String
  | .int8 => "int8" | .uint8 => "uint8" | .int16 => "int16" | .uint16 => "uint16" | .int32 => "int32"
  | .uint32 => "uint32" | .int64 => "int64" | .uint64 => "uint64" | .float32 => "float32"
  | .float64 => "float64"

/-- the header `write_meta_image(data, grid, …)` is given, from a grid of the layer-A model:
    size = ceil of the stored size, origin computed from the center as `Grid.origin()` does. -/
private def headerOfGrid {d : Nat} (g : Grid d Rat) (c : Nat) (e : ElemType) (compress : Bool) (csize : Nat) :
    Header Rat :=
  { dimSize := (List.finRange d).map (fun i => (g.sizeTensor i).ceil.toNat),
    channels := c, elementType := e, compressed := compress,
    compressedSize := if compress then some csize else none,
    offset := (List.finRange d).map g.origin.memo,
    spacing := (List.finRange d).map g.spacing,
    direction := (List.finRange d).flatMap (fun i => (List.finRange d).map (g.direction i)) }

/-- `meta.write d grid C dtype compress csize` → header lines as deepali writes them -/
private def metaWrite : Reader String := do
  let d ← nat
  let g ← grid d
  let c ← nat
  let e ← ioElemType
  let compress ← bool
  let csize ← nat
  let ls ← ioErr (serialise (headerOfGrid g c e compress csize))
  pure (fmtLines ls)

private def ioLines : Reader (List (Line Rat)) := do
  let n ← nat
  listOf n (do
    let key ← tok
    let k ← nat
    let toks ← listOf k ioTok
    pure (⟨key, toks⟩ : Line Rat))

private def fmtReadMeta (r : ReadMeta Rat) : String :=
  s!"size={ioNats r.dimSize};channels={r.channels};etype={fmtElemType r.elementType};" ++
  s!"tensor_dtype={fmtElemType r.elementType.tensorDType};compressed={if r.compressed then 1 else 0};" ++
  s!"csize={match r.compressedSize with | some n => toString n | none => "none"};" ++
  s!"origin={ioOptRats r.origin};spacing={ioOptRats r.spacing};matrix={ioOptRats r.matrix}"

/-- `meta.read nlines {key ntoks tok…}` → what the native reader derives, or the error -/
private def metaRead : Reader String := do
  let ls ← ioLines
  let r ← ioErr (parse ls)
  pure (fmtReadMeta r)

/-- `meta.roundtrip d grid C dtype compress csize` → parse (serialise header) -/
private def metaRoundtrip : Reader String := do
  let d ← nat
  let g ← grid d
  let c ← nat
  let e ← ioElemType
  let compress ← bool
  let csize ← nat
  let r ← ioErr (roundtrip (headerOfGrid g c e compress csize))
  pure (fmtReadMeta r)

/-- `shuffle.write C n shape(n) idx(n)` → file shape, file index, row-major offset in the file,
    and the way back -/
private def shuffleWrite : Reader String := do
  let c ← nat
  let n ← nat
  let shape ← listOf n nat
  let idx ← listOf n nat
  let fs := toFileOrder 1 c shape
  let fi := toFileOrder 0 c idx
  pure (s!"shape={ioNats fs};idx={ioNats fi};offset={ravelIndex fs fi};" ++
        s!"back_shape={ioNats (toTensorOrder 1 c fs)};back_idx={ioNats (toTensorOrder 0 c fi)}")

/-- `shuffle.read C n fileshape(n) fileidx(n)` → tensor shape, tensor index, offset in the tensor -/
private def shuffleRead : Reader String := do
  let c ← nat
  let n ← nat
  let shape ← listOf n nat
  let idx ← listOf n nat
  let ts := toTensorOrder 1 c shape
  let ti := toTensorOrder 0 c idx
  pure s!"shape={ioNats ts};idx={ioNats ti};offset={ravelIndex ts ti}"

private def mat4 : Reader (Mat 4 Rat) := mat 4

/-- `nifti.read dim(8) pixdim(3) affine(16) intent` → grid attributes and tensor shape -/
private def niftiRead : Reader String := do
  let dim ← listOf 8 nat
  let pix ← listOf 3 rat
  let A ← mat4
  let intent ← nat
  let d := Nifti.gridDim dim intent
  let shape ← ioErr (Nifti.readShape dim intent)
  if hd : d ≤ 3 then
    let p : Vec d Rat := fun i => pix.getD i.val 0
    let o := Nifti.readOrigin d hd A
    let R := Nifti.readDirection d hd A p
    let size := (dim.drop 1).take d
    pure (s!"D={d};size={ioNats size};spacing={fmtVec p};origin={fmtVec o};direction={fmtMat R};" ++
          s!"shape={ioNats shape}")
  else throw "err:value"

/-- `nifti.write d grid n tshape(n)` → the 4×4 affine, array shape, header dim and intent code
    `write_nifti_image` hands to nibabel for a tensor of shape `tshape = (C, …, X)` -/
private def niftiWrite : Reader String := do
  let d ← nat
  let g ← grid d
  let n ← nat
  let tshape ← listOf n nat
  let shape := Nifti.toNiftiOrder 1 (tshape.headD 0) d tshape
  pure (s!"affine={fmtMat (Nifti.writeAffine g).memo};shape={ioNats shape};" ++
        s!"dim={ioNats (Nifti.headerDim shape)};intent={Nifti.writeIntent shape}")

/-- `nifti.index C d n idx(n)` → nibabel index of tensor index `idx` and the way back through
    the reader (`r = d`, `k` by the written intent) -/
private def niftiIndex : Reader String := do
  let c ← nat
  let d ← nat
  let n ← nat
  let idx ← listOf n nat
  let ni := Nifti.toNiftiOrder 0 c d idx
  let intent := Nifti.writeIntent ni
  pure s!"idx={ioNats ni};back={ioNats (Nifti.fromNiftiOrder 0 d (Nifti.keepFrom intent) d ni)}"

def imageioHandlers : List (String × Reader String) :=
  [("meta.write", metaWrite), ("meta.read", metaRead), ("meta.roundtrip", metaRoundtrip),
   ("shuffle.write", shuffleWrite), ("shuffle.read", shuffleRead),
   ("nifti.read", niftiRead), ("nifti.write", niftiWrite), ("nifti.index", niftiIndex)]

end Deepali.Drv
