/-
  Drv/ImageOps.lean — driver handlers for the index bookkeeping of image operations (C04).
-/
import Deepali.Proto
import Deepali.Model.ImageOps
namespace Deepali.Drv
open Deepali Deepali.Proto

private def fmtAxisOps (t g : AxisOp) : String := s!"{t.newSize} {t.first} {g.newSize} {g.first}"

/-- `imgop.axis <op> a b c` → `tensorNewSize tensorFirst gridNewSize gridFirst` for one axis. -/
def imgopAxis : Reader String := do
  let op ← tok
  let a ← int
  let b ← int
  let c ← int
  match op with
  | "crop" => pure (fmtAxisOps (tensorCrop a b c) (gridCrop a b c))
  | "pad" => pure (fmtAxisOps (tensorPad a b c) (gridPad a b c))
  | "center_crop" => pure (fmtAxisOps (tensorCenterCrop a b) (gridCenterCrop a b))
  | "center_pad" => pure (fmtAxisOps (tensorCenterPad a b) (gridCenterPad a b))
  | "roi" => pure (fmtAxisOps (tensorRoi a b c) (gridRoi a b c))
  | "narrow" => pure (fmtAxisOps (tensorNarrow a b c) (gridNarrow a b c))
  | "conv" => pure (fmtAxisOps (tensorConvValid a b) (gridConvCrop a (a - (b - 1))))
  | t => throw s!"bad-op:imgop:{t}"

def imageOpsHandlers : List (String × Reader String) := [ ("imgop.axis", imgopAxis) ]

end Deepali.Drv
