/-
  Drv/Itk.lean — driver handlers for property C02 (ITK convention), op prefix `itk.`.
  Header encoding: `size(d nats) origin(d) spacing(d) direction(d*d, flat row-major)`.
-/
import Deepali.Proto
import Deepali.Model.Itk
namespace Deepali.Drv
open Deepali Deepali.Proto

def header (d : Nat) : Reader (Itk.Header d Rat) := do
  let n := (← listOf d nat).toArray
  let o ← vec d
  let s ← vec d
  let f := (← listOf (d * d) rat).toArray
  pure ⟨fun i => n[i.val]!, o, s, fun k => f[k.val]!⟩

def fmtHeader {d} (h : Itk.Header d Rat) : String :=
  let sz := " ".intercalate ((List.finRange d).map (fun i => toString (h.size i)))
  let dir := " ".intercalate ((List.finRange (d * d)).map (fun k => fmtRat (h.direction k)))
  s!"{sz} | {fmtVec h.origin} | {fmtVec h.spacing} | {dir}"

/-- `itk.idx_to_phys d O S D(matrix) i` — the specification. -/
def itkIdxToPhys : Reader String := do
  let d ← nat
  let o ← vec d
  let s ← vec d
  let D ← mat d
  let i ← vec d
  pure (fmtVec (Itk.idxToPhys o s D i))

/-- `itk.phys_to_idx d O S D x` — the specification (true matrix inverse; d = 2, 3). -/
def itkPhysToIdx : Reader String := do
  let d ← nat
  match d with
  | 2 => do
      let o ← vec 2
      let s ← vec 2
      let D ← mat 2
      let x ← vec 2
      if (D.mul (Mat.diag s)).det2 = 0 then pure "err:singular" else pure (fmtVec (Itk.physToIdx2 o s D x))
  | 3 => do
      let o ← vec 3
      let s ← vec 3
      let D ← mat 3
      let x ← vec 3
      if (D.mul (Mat.diag s)).det3 = 0 then pure "err:singular" else pure (fmtVec (Itk.physToIdx3 o s D x))
  | _ => throw "err:dim"

/-- `itk.g_i2w d <grid> i` — deepali model `index_to_world`. -/
def itkGridI2W : Reader String := do
  let d ← nat
  let g ← grid d
  let x ← vec d
  pure (fmtVec (g.indexToWorld x))

/-- `itk.g_w2i d <grid> x` — deepali model `world_to_index` (no rounding). -/
def itkGridW2I : Reader String := do
  let d ← nat
  let g ← grid d
  let x ← vec d
  pure (fmtVec (g.worldToIndex x))

/-- `itk.from_sitk d <header> ac` → `grid | origin`. -/
def itkFromSitk : Reader String := do
  let d ← nat
  let h ← header d
  let ac ← bool
  let g := Grid.fromSitk h ac
  pure s!"{fmtGrid g} | {fmtVec g.origin}"

/-- `itk.to_sitk d <grid>` → header. -/
def itkToSitk : Reader String := do
  let d ← nat
  let g ← grid d
  pure (fmtHeader g.toSitk)

/-- `itk.roundtrip d <header> ac` → `toSitk (fromSitk h)`. -/
def itkRoundtrip : Reader String := do
  let d ← nat
  let h ← header d
  let ac ← bool
  pure (fmtHeader (Grid.fromSitk h ac).toSitk)

/-- `itk.from_center d size center spacing direction ac` → `grid | origin`. -/
def itkFromCenter : Reader String := do
  let d ← nat
  let n ← vec d
  let c ← vec d
  let s ← vec d
  let D ← mat d
  let ac ← bool
  let g := Grid.fromCenter n c s D ac
  pure s!"{fmtGrid g} | {fmtVec g.origin}"

def itkHandlers : List (String × Reader String) :=
  [ ("itk.idx_to_phys", itkIdxToPhys), ("itk.phys_to_idx", itkPhysToIdx), ("itk.g_i2w", itkGridI2W),
    ("itk.g_w2i", itkGridW2I), ("itk.from_sitk", itkFromSitk), ("itk.to_sitk", itkToSitk),
    ("itk.roundtrip", itkRoundtrip), ("itk.from_center", itkFromCenter) ]

end Deepali.Drv
