/-
  Drv/Losses.lean — driver handlers for the image similarity / overlap losses (op prefix `loss.`).

  Encoding (all tokens whitespace separated):
    tensor      `k d1 … dk v1 … vn`   (n = d1·…·dk, row-major, rationals `p/q`)
    optional    `-` (None) | `+` followed by the value
    reduction   `none` | `mean` | `sum`
    nat list    `k n1 … nk`
    table       `n k1 v1 … kn vn`     (keys ascending; nearest-key lookup, see `lookupNear`)
  Output: values separated by blanks, or `err:<kind>[:detail]`.
-/
import Deepali.Proto
import Deepali.Model.Losses
namespace Deepali.Drv
open Deepali Deepali.Proto Deepali.Loss

def lReduction : Reader Reduction := do
  let t ← tok
  match t with
  | "none" => pure .none
  | "mean" => pure .mean
  | "sum" => pure .sum
  | _ => throw s!"bad-op:reduction:{t}"

private def lNats : Reader (List Nat) := do
  let k ← nat
  listOf k nat

def lTensor : Reader (T Rat) := do
  let shape ← lNats
  let a := (← listOf (prod shape) rat).toArray
  pure ⟨shape, fun i => a.getD i 0⟩

def lOpt {β} (r : Reader β) : Reader (Option β) := do
  let t ← tok
  match t with
  | "-" => pure none
  | "+" => do let v ← r; pure (some v)
  | _ => throw s!"bad-op:option:{t}"

private def fmtRats (xs : List Rat) : String := " ".intercalate (xs.map fmtRat)

private def fmtRes : Except String (List Rat) → String
  | .ok v => fmtRats v
  | .error e => e

/-- sorted table of `(key, value)`; the entry whose key is nearest to `a` is used when it lies
    within `tol·(1+|a|)` of `a`. -/
private def lTable : Reader (Array (Rat × Rat)) := do
  let n ← nat
  let mut out : Array (Rat × Rat) := #[]
  for _ in [0:n] do
    let k ← rat
    let v ← rat
    out := out.push (k, v)
  pure out

private def ratAbs (a : Rat) : Rat := if a < 0 then -a else a

/-- binary search for the first index with key ≥ a. -/
private partial def lowerBound (tbl : Array (Rat × Rat)) (a : Rat) (lo hi : Nat) : Nat :=
  if lo < hi then
    let mid := (lo + hi) / 2
    if (tbl.getD mid (0, 0)).1 < a then lowerBound tbl a (mid + 1) hi else lowerBound tbl a lo mid
  else lo

private def lookupNear (tbl : Array (Rat × Rat)) (tol : Rat) (a : Rat) : Option Rat :=
  let i := lowerBound tbl a 0 tbl.size
  let cand := [i - 1, i].filter (fun j => j < tbl.size)
  let best := cand.foldl (fun (acc : Option (Rat × Rat)) j =>
    let e := tbl.getD j (0, 0)
    let d := ratAbs (e.1 - a)
    match acc with
    | none => some (d, e.2)
    | some (d0, v0) => if d < d0 then some (d, e.2) else some (d0, v0)) none
  match best with
  | some (d, v) => if d ≤ tol * (1 + ratAbs a) then some v else none
  | none => none

def lPointwiseKind : Reader (Pointwise Rat) := do
  let t ← tok
  match t with
  | "ssd" => pure .ssd
  | "l1" => pure .l1
  | "huber" => do let d ← rat; pure (.huber d)
  | "smoothl1" => do let b ← rat; pure (.smoothL1 b)
  | _ => throw s!"bad-op:pointwise:{t}"

/-- `loss.pointwise kind red X Y optMask optNorm` -/
private def lossPointwise : Reader String := do
  let kind ← lPointwiseKind
  let red ← lReduction
  let x ← lTensor
  let y ← lTensor
  let m ← lOpt lTensor
  let norm ← lOpt rat
  pure (fmtRes (pointwiseLoss kind red x y m norm))

/-- `loss.ncc red X Y optMask eps` -/
private def lossNcc : Reader String := do
  let red ← lReduction
  let x ← lTensor
  let y ← lTensor
  let m ← lOpt lTensor
  let eps ← rat
  pure (fmtRes (nccLoss red x y m eps))

/-- `loss.lcc red X Y optMask ks eps` -/
private def lossLcc : Reader String := do
  let red ← lReduction
  let x ← lTensor
  let y ← lTensor
  let m ← lOpt lTensor
  let ks ← lNats
  let eps ← rat
  pure (fmtRes (lccLoss red x y m ks eps))

/-- `loss.wlcc red X Y optMask optSourceMask optTargetMask ks eps` -/
private def lossWlcc : Reader String := do
  let red ← lReduction
  let x ← lTensor
  let y ← lTensor
  let m ← lOpt lTensor
  let sm ← lOpt lTensor
  let tm ← lOpt lTensor
  let ks ← lNats
  let eps ← rat
  pure (fmtRes (wlccLoss red x y m sm tm ks eps))

/-- `loss.dice_score red X Y optW eps` / `loss.dice_loss …` -/
private def lossDice (isLoss : Bool) : Reader String := do
  let red ← lReduction
  let x ← lTensor
  let y ← lTensor
  let w ← lOpt lTensor
  let eps ← rat
  pure (fmtRes (if isLoss then diceLoss red x y w eps else diceScore red x y w eps))

/-- `loss.tversky_index red X Y optW alpha beta eps binarize` -/
private def lossTverskyIndex : Reader String := do
  let red ← lReduction
  let x ← lTensor
  let y ← lTensor
  let w ← lOpt lTensor
  let alpha ← rat
  let beta ← rat
  let eps ← rat
  let b ← bool
  pure (fmtRes (tverskyIndex red x y w alpha beta eps b))

/-- `loss.tversky_loss red X Y optW alpha beta eps binarize optGamma powTable`: the power
    `t ↦ t^gamma` is exact (`npow`) for an integral exponent, otherwise the nearest entry of the
    table (keys: harness values of `1 − TI`, tolerance 1e-3 — `pow` is evaluated in float32). -/
private def lossTverskyLoss : Reader String := do
  let red ← lReduction
  let x ← lTensor
  let y ← lTensor
  let w ← lOpt lTensor
  let alpha ← rat
  let beta ← rat
  let eps ← rat
  let b ← bool
  let g ← lOpt rat
  let tbl ← lTable
  let pw : Rat → Rat :=
    match g with
    | some gv => if gv.den = 1 ∧ 0 ≤ gv.num then npow gv.num.toNat
                 else fun a => (lookupNear tbl (1 / 1000) a).getD 0
    | none => id
  pure (fmtRes (tverskyLoss pw red x y w alpha beta eps b g))

/-- `loss.mi normalized X Y optMask B centres(B) tiny twoSigmaSq norm tol expTable logTable`.
    `exp` and `log` are the table functions (nearest key within `tol`).  Every argument the model
    hands to `exp`/`log` is first checked to be in the tables (`err:table:exp|log` otherwise), so
    the tabulated values are tied to the model's own arguments. -/
private def lossMi : Reader String := do
  let normalized ← bool
  let x ← lTensor
  let y ← lTensor
  let m ← lOpt lTensor
  let B ← nat
  let cenA := (← listOf B rat).toArray
  let tiny ← rat
  let tss ← rat
  let nrm ← rat
  let tol ← rat
  let et ← lTable
  let lt ← lTable
  let cen := fun b => cenA.getD b (0 : Rat)
  let ex := fun a => (lookupNear et tol a).getD 0
  let lg := fun a => (lookupNear lt tol a).getD 0
  match miPrep x y m B with
  | .error e => pure e
  | .ok (N, S, xm, ym, mk) =>
    let bins := List.range B
    let expArgs := (List.range (N * S)).flatMap (fun i => bins.flatMap (fun b =>
      [-((xm i - cen b) * (xm i - cen b) / tss), -((ym i - cen b) * (ym i - cen b) / tss)]))
    if expArgs.any (fun a => (lookupNear et tol a).isNone) then pure "err:table:exp" else
    let win := parzen ex tss nrm
    let logArgs := (List.range N).flatMap (fun n =>
      let p := miProbs win tiny B S cen (fun s => xm (n * S + s)) (fun s => ym (n * S + s))
        (mk.map (fun m s => m (n * S + s)))
      bins.flatMap (fun b => [p.2.1 b + tiny, p.2.2 b + tiny] ++ bins.map (fun b' => p.1 b b' + tiny)))
    if logArgs.any (fun a => (lookupNear lt tol a).isNone) then pure "err:table:log" else
    pure (fmtRat (miLossCore win lg tiny normalized N B S cen xm ym mk))

/-- `loss.reduce red n v1 … vn optMask(n values)` — reduce_loss alone. -/
private def lossReduce : Reader String := do
  let red ← lReduction
  let n ← nat
  let a := (← listOf n rat).toArray
  let m ← lOpt (listOf n rat)
  let mm := m.map (fun l => let b := l.toArray; fun i => b.getD i (0 : Rat))
  pure (fmtRats (reduceLoss red n (fun i => a.getD i 0) mm))

/-- `loss.masked_check lossShape maskShape` → `ok` or the error of masked_loss. -/
private def lossMaskedCheck : Reader String := do
  let ls ← lNats
  let ms ← lNats
  match maskedLossCheck ls ms with
  | .ok _ => pure "ok"
  | .error e => pure e

/-- `loss.pool sum|mean X ks` — the avg_pool model alone (primitive conformance). -/
private def lossPool : Reader String := do
  let kind ← tok
  let x ← lTensor
  let ks ← lNats
  match poolCheck x.shape ks with
  | .error e => pure e
  | .ok _ =>
    let win := tensorWin x.shape ks
    let f := fun i => if kind = "sum" then winSum (win i) x.data else winMean (win i) x.data
    pure (fmtRats ((List.range x.numel).map f))

/-- `loss.max_difference_sq X Y` — norm computed by `NormalizedPairwiseImageLoss(source, target)`. -/
private def lossMaxDiffSq : Reader String := do
  let x ← lTensor
  let y ← lTensor
  let d := maxDifference x.numel y.numel x.data y.data
  pure (fmtRat (d * d))

/-- `loss.expand lossShape M` — broadcasting of a mask to the loss shape. -/
private def lossExpand : Reader String := do
  let ls ← lNats
  let m ← lTensor
  pure (fmtRats ((List.range (prod ls)).map (expandAs ls m)))

def lossHandlers : List (String × Reader String) :=
  [ ("loss.pointwise", lossPointwise), ("loss.ncc", lossNcc), ("loss.lcc", lossLcc),
    ("loss.wlcc", lossWlcc), ("loss.dice_score", lossDice false), ("loss.dice_loss", lossDice true),
    ("loss.tversky_index", lossTverskyIndex), ("loss.tversky_loss", lossTverskyLoss),
    ("loss.mi", lossMi), ("loss.reduce", lossReduce),
    ("loss.masked_check", lossMaskedCheck), ("loss.pool", lossPool), ("loss.expand", lossExpand), ("loss.max_difference_sq", lossMaxDiffSq) ]

end Deepali.Drv
