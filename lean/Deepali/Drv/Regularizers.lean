/-
  Drv/Regularizers.lean — driver handlers for the deformation regularisers (op prefix `reg.`).

  Encoding (tokens whitespace separated; rationals `p/q`):
    reduction    `none` | `mean` | `sum`
    mode         `default` | `forward` | … | `sobel` | `bspline`
    optional     `-` | `+ v`
    table        `tol n k1 v1 … kn vn`  (keys ascending; nearest key within tol·(1+|x|), else the sentinel −10^30)
    input        `lin` | `bad` | `field D sz… N <spacing> stride… [weights… when bspline] data…`
                 (data: N items × D components × box, x fastest; weights as in `fd.sdb`)
  Output: values separated by blanks, `nan`, or `err:<kind>`.
-/
import Deepali.Proto
import Deepali.Model.Regularizers
namespace Deepali.Drv
open Deepali Deepali.Proto Deepali.FD Deepali.Loss Deepali.Reg


/-! ### helpers (private copies: the other driver files keep theirs private as well) -/

/-- memoised array on a box (values outside the box are never read by the stencils). -/
private structure RArr (D : Nat) where
  sz : Fin D → Nat
  data : Array Rat
  st : Array Nat      -- strides (x fastest)
  sa : Array Nat      -- sizes

private instance {D : Nat} : Inhabited (RArr D) := ⟨⟨fun _ => 0, #[], #[], #[]⟩⟩

private def rTotal {D} (sz : Fin D → Nat) : Nat := (List.finRange D).foldl (fun p d => p * sz d) 1

private def rStrides {D} (sz : Fin D → Nat) : Array Nat :=
  ((List.finRange D).foldl (fun (acc : Array Nat × Nat) d => (acc.1.push acc.2, acc.2 * sz d)) (#[], 1)).1

private def rUnlin {D} (st sa : Array Nat) (lin : Nat) : Idx D :=
  fun d => (((lin / st[d.val]!) % sa[d.val]! : Nat) : Int)

private def RArr.mk' {D} (sz : Fin D → Nat) (data : Array Rat) : RArr D := ⟨sz, data, rStrides sz, Array.ofFn sz⟩

private def RArr.get {D} (m : RArr D) (idx : Idx D) : Rat := Id.run do
  let mut lin : Nat := 0
  for d in List.finRange D do
    let k := idx d
    if k < 0 || k ≥ (m.sa[d.val]! : Int) then return 0
    lin := lin + k.toNat * m.st[d.val]!
  return m.data[lin]!

private def RArr.ofFn {D} (sz : Fin D → Nat) (A : Arr D Rat) : RArr D :=
  let st := rStrides sz
  let sa := Array.ofFn sz
  ⟨sz, Array.ofFn (n := rTotal sz) (fun lin => A (rUnlin st sa lin.val)), st, sa⟩

private def rNatVec (d : Nat) : Reader (Fin d → Nat) := do
  let a := (← listOf d nat).toArray
  pure (fun i => a[i.val]!)

private def rReduction : Reader Reduction := do
  let t ← tok
  match t with
  | "none" => pure .none
  | "mean" => pure .mean
  | "sum" => pure .sum
  | _ => throw s!"bad-op:reduction:{t}"

private def rOpt {β} (r : Reader β) : Reader (Option β) := do
  let t ← tok
  match t with
  | "-" => pure none
  | "+" => do let v ← r; pure (some v)
  | _ => throw s!"bad-op:option:{t}"

private def rTable : Reader (Array (Rat × Rat)) := do
  let n ← nat
  let mut out : Array (Rat × Rat) := #[]
  for _ in [0:n] do
    let k ← rat
    let v ← rat
    out := out.push (k, v)
  pure out

private def rAbs (a : Rat) : Rat := if a < 0 then -a else a

private partial def rLowerBound (tbl : Array (Rat × Rat)) (a : Rat) (lo hi : Nat) : Nat :=
  if lo < hi then
    let mid := (lo + hi) / 2
    if (tbl.getD mid (0, 0)).1 < a then rLowerBound tbl a (mid + 1) hi else rLowerBound tbl a lo mid
  else lo

/-- nearest key of a sorted table, accepted when within `tol·(1+|a|)`. -/
private def rLookupNear (tbl : Array (Rat × Rat)) (tol : Rat) (a : Rat) : Option Rat :=
  let i := rLowerBound tbl a 0 tbl.size
  let cand := [i - 1, i].filter (fun j => j < tbl.size)
  let best := cand.foldl (fun (acc : Option (Rat × Rat)) j =>
    let e := tbl.getD j (0, 0)
    let d := rAbs (e.1 - a)
    match acc with
    | none => some (d, e.2)
    | some (d0, v0) => if d < d0 then some (d, e.2) else some (d0, v0)) none
  match best with
  | some (d, v) => if d ≤ tol * (1 + rAbs a) then some v else none
  | none => none

private def rHexDigit (n : Nat) : Char := if n < 10 then Char.ofNat (48 + n) else Char.ofNat (87 + n)
private def rFmtKey (k : Key) : String :=
  String.ofList ('h' :: k.flatMap (fun c => [rHexDigit (c.toNat / 16), rHexDigit (c.toNat % 16)]))
private def rFmtKeys (ks : List Key) : String := if ks.isEmpty then "-" else ",".intercalate (ks.map rFmtKey)

/-- `none` | `scalar s` | `vec n v…` | `mat R C v…` -/
private def rSpacingArg : Reader (SpacingArg Rat) := do
  let t ← tok
  match t with
  | "none" => pure .none
  | "scalar" => pure (.scalar (← rat))
  | "vec" => do
      let n ← nat
      pure (.vec (← listOf n rat))
  | "mat" => do
      let r ← nat
      let c ← nat
      pure (.mat (← listOf r (listOf c rat)))
  | _ => throw s!"bad-op:spacing:{t}"

private def rArr (D : Nat) (sz : Fin D → Nat) : Reader (RArr D) := do
  let a ← listOf (rTotal sz) rat
  pure (RArr.mk' sz a.toArray)

private def rField (D : Nat) (sz : Fin D → Nat) : Reader (Fin D → RArr D) := do
  let comps := (← listOf D (rArr D sz)).toArray
  pure (fun i => comps[i.val]!)

/-- spacing row of batch item `b`: `spacing[b, :]`. -/
private def rSpacingRow (N D : Nat) (b : Nat) (s : SpacingArg Rat) : Except String (Fin D → Rat) :=
  (expandSpacing N D s).map (fun m => fun d => m b d.val)

private def rStepM {D} (mode : SDMode) (sz : Fin D → Nat) (sp : Fin D → Rat) (a : Fin D) (m : RArr D) : RArr D :=
  RArr.ofFn sz (sdStep mode sz sp a m.get)

/-- weights table: for each axis, for derivative order 0..2, `stride × 4` rationals. -/
private def rWtsTable (D : Nat) (stride : Fin D → Nat) : Reader (Fin D → Nat → Nat → Nat → Rat) := do
  let mut tabs : Array (Array (Array Rat)) := #[]
  for d in List.finRange D do
    let mut per : Array (Array Rat) := #[]
    for _ in [0:3] do
      per := per.push (← listOf (stride d * 4) rat).toArray
    tabs := tabs.push per
  pure (fun d o r k => ((tabs[d.val]!)[o]!)[r * 4 + k]!)

private def rNumel {d : Nat} (size : Fin d → Nat) : Nat := (List.finRange d).foldl (fun acc i => acc * size i) 1

/-- flat offset with x (axis 0) fastest. -/
private def rFlatIdx {d : Nat} (size : Fin d → Nat) (idx : Fin d → Int) : Nat :=
  ((List.finRange d).foldr (fun i acc => (idx i).toNat + size i * acc) 0)

/-- vector field given channel-major, x fastest; zero outside the box. -/
private def rReadField (d : Nat) (size : Fin d → Nat) : Reader (VField d Rat) := do
  let m := rNumel size
  let vals := (← listOf (d * m) rat).toArray
  pure (fun idx c => if (∀ i, 0 ≤ idx i ∧ idx i < (size i : Int)) then vals[c.val * m + rFlatIdx size idx]! else 0)

private def regFmt (xs : List Rat) : String := " ".intercalate (xs.map fmtRat)

private def regRes : Except String (List Rat) → String
  | .ok v => regFmt v
  | .error e => e

private def regSentinel : Rat := -(10 ^ 30 : Nat)

/-- a function given as a table (sqrt, non-integer powers): see header. -/
private def regTableFn : Reader (Rat → Rat) := do
  let tol ← rat
  let tbl ← rTable
  pure (fun x => (rLookupNear tbl tol x).getD regSentinel)

private def regMode : Reader (Option Mode) := do
  let t ← tok
  match t with
  | "default" => pure none
  | "forward" => pure (some (.fd .forward))
  | "backward" => pure (some (.fd .backward))
  | "central" => pure (some (.fd .central))
  | "forward_central_backward" => pure (some (.fd .fcb))
  | "prewitt" => pure (some (.fd .prewitt))
  | "sobel" => pure (some (.fd .sobel))
  | "bspline" => pure (some .bspline)
  | _ => throw s!"bad-op:mode:{t}"

private def regPPow : Reader (PPow Rat) := do
  let t ← tok
  match t with
  | "nat" => pure (.nat (← nat))
  | "fn" => pure (.fn (← regTableFn))
  | _ => throw s!"bad-op:ppow:{t}"

private def regQPow : Reader (QPow Rat) := do
  let t ← tok
  match t with
  | "nat" => pure (.nat (← nat))
  | "fn" => pure (.fn (← regTableFn))
  | _ => throw s!"bad-op:qpow:{t}"

private def regMaterial : Reader Material := do
  let t ← tok
  match t with
  | "none" => pure .none
  | "rubber" => pure .rubber
  | "other" => pure .other
  | _ => throw s!"bad-op:material:{t}"

private structure LameArgs where
  mat : Material
  first : Option Rat
  second : Option Rat
  shear : Option Rat
  poisson : Option Rat
  young : Option Rat
  sqrtF : Rat → Rat

/-- `<material> <first> <second> <shear> <poisson> <young> <sqrt table>` -/
private def regLameArgs : Reader LameArgs := do
  let mat ← regMaterial
  let first ← rOpt rat
  let second ← rOpt rat
  let shear ← rOpt rat
  let poisson ← rOpt rat
  let young ← rOpt rat
  let sq ← regTableFn
  pure ⟨mat, first, second, shear, poisson, young, sq⟩

private def LameArgs.run (a : LameArgs) : Except String (Rat × Rat) :=
  lameParameters a.sqrtF a.mat a.first a.second a.shear a.poisson a.young

/-- which regulariser, with its own parameters. -/
private inductive RegKind
  | bending | curvature | divergence
  | grad (p : PPow Rat) (q : QPow Rat) (half : Bool)
  | elasticity (a : LameArgs)

private def regKind : Reader RegKind := do
  let t ← tok
  match t with
  | "bending" => pure .bending
  | "curvature" => pure .curvature
  | "divergence" => pure .divergence
  | "diffusion" => pure (.grad (.nat 2) (.nat 1) true)        -- functional.py:diffusion_loss @1336-1337
  | "tv" => pure (.grad (.nat 1) (.nat 1) false)              -- functional.py:total_variation_loss @1585
  | "grad" => do
      let p ← regPPow
      let q ← regQPow
      pure (.grad p q false)
  | "elasticity" => pure (.elasticity (← regLameArgs))
  | _ => throw s!"bad-op:regkind:{t}"

private structure RegField (D : Nat) where
  sz : Fin D → Nat
  N : Nat
  spacing : SpacingArg Rat
  stride : Fin D → Nat
  wts : Option (Fin D → Nat → Nat → Nat → Rat)
  items : Array (Fin D → RArr D)

private inductive RegIn
  | lin | bad
  | field (D : Nat) (f : RegField D)

private def regInput (mode : Mode) : Reader RegIn := do
  let t ← tok
  match t with
  | "lin" => pure .lin
  | "bad" => pure .bad
  | "field" => do
      let D ← nat
      let sz ← rNatVec D
      let N ← nat
      let s ← rSpacingArg
      let stride ← rNatVec D
      let wts ← (match mode with
        | .bspline => do let w ← rWtsTable D stride; pure (some w)
        | _ => pure none : Reader (Option (Fin D → Nat → Nat → Nat → Rat)))
      let items ← listOf N (rField D sz)
      pure (.field D ⟨sz, N, s, stride, wts, items.toArray⟩)
  | _ => throw s!"bad-op:input:{t}"

/-- back end of batch item `b` (spacing row fixed) and the output box. -/
private def regBackend {D : Nat} (mode : Mode) (f : RegField D) (b : Nat) :
    Except String (Backend D (RArr D) × (Fin D → Nat)) := do
  let sp ← rSpacingRow f.N D b (regSpacing f.sz f.spacing)
  match mode, f.wts with
  | .fd m, _ => pure (.fd (rStepM m f.sz sp), f.sz)
  | .bspline, some wts =>
      let osz : Fin D → Nat := bsplineOutSize f.stride f.sz
      pure (.bspline (fun k a => RArr.ofFn osz (bsplineDeriv f.stride wts sp k a.get)), osz)
  | .bspline, none => throw "bad-op:weights"

private def regRun (kind : RegKind) (mode : Option Mode) (red : Reduction) (inp : RegIn) : Except String (List Rat) := do
  -- functional.py:elasticity_loss @1525-1532: `lame_parameters` comes first
  let lm ← (match kind with
    | .elasticity a => a.run.map some
    | _ => pure none : Except String (Option (Rat × Rat)))
  let half := match kind with
    | .curvature | .divergence => true
    | .grad _ _ h => h
    | _ => false
  let m := match kind with
    | .bending | .curvature => secondOrderMode mode
    | _ => firstOrderMode mode
  match inp with
  | .lin => regFinish red half (RegInput.linear : RegInput 2 Rat)
  | .bad => regFinish red half (RegInput.badShape : RegInput 2 Rat)
  | .field D f =>
      let bes ← (List.range f.N).mapM (fun b => regBackend m f b)
      let osz := match bes with
        | (_, o) :: _ => o
        | [] => f.sz
      -- derivative dictionaries first (values, computed once per batch item), then the point evaluators
      let dicts : List (List (FKey D × Option (RArr D)) × List (List (DKey D × Option (RArr D)))) :=
        (bes.zip (List.range f.N)).map (fun ((be, _), b) =>
          let u := f.items[b]!
          match kind with
          | .bending => (bendingDict be u, [])
          | .curvature => (curvatureDict be u, [])
          | .divergence => (divergenceDict be u, [])
          | .grad _ _ _ => ([], gradDicts be u)
          | .elasticity _ => (elasticityDict be u, []))
      let items : List (Idx D → Option Rat) := dicts.map (fun (dict, gd) =>
        match kind with
        | .bending => bendingAt RArr.get dict
        | .curvature => curvatureAt RArr.get dict
        | .divergence => divergenceAt RArr.get dict
        | .grad p q _ => gradAt RArr.get p q gd
        | .elasticity _ => elasticityAt RArr.get (lm.getD (0, 0)).1 (lm.getD (0, 0)).2 dict)
      regFinish red half (.batch (boxPoints osz) items)

/-- `reg.loss <kind+params> <mode> <reduction> <input>` -/
def regLoss : Reader String := do
  let kind ← regKind
  let mode ← regMode
  let red ← rReduction
  let m := match kind with
    | .bending | .curvature => secondOrderMode mode
    | _ => firstOrderMode mode
  let inp ← regInput m
  pure (regRes (regRun kind mode red inp))

/-- `reg.keys D` → `bending-keys|curvature-keys|grad-keys` as the code's key strings. -/
def regKeys : Reader String := do
  let D ← nat
  let fk (k : FKey D) : Key := fkSymbol k.1.val (ofDKey k.2)
  pure (rFmtKeys ((bendingKeys D).map fk) ++ "|" ++ rFmtKeys ((curvatureKeys D).map fk) ++ "|"
    ++ rFmtKeys ((gradKeys D).map ofDKey))

/-- `reg.lame <lame args>` → `lambda mu` | `err:…` -/
def regLame : Reader String := do
  let a ← regLameArgs
  match a.run with
  | .ok (l, m) => pure s!"{fmtRat l} {fmtRat m}"
  | .error e => pure e

private def regTransform (d : Nat) (n : Fin d → Nat) : Reader (Transform d Rat) := do
  let t ← tok
  match t with
  | "lin" => pure (.lin (← hform d))
  | "flow" => do
      let f ← rReadField d n
      pure (.flow f)
  | _ => throw s!"bad-op:transform:{t}"

private def regUnits : Reader Units := do
  let t ← tok
  match t with
  | "cube" => pure .cube
  | "voxel" => pure .voxel
  | "world" => pure .world
  | _ => throw s!"bad-op:units:{t}"

private def regMargin : Reader (Margin Rat) := do
  let t ← tok
  match t with
  | "int" => pure (.int (← int))
  | "float" => pure (.float (← rat))
  | _ => throw s!"bad-op:margin:{t}"

/-- `reg.ic d n… ac spacing… <fwd> <inv> <mask: - | + values…> <margin> <units> <reduction> <sqrt table>` -/
def regIc : Reader String := do
  let d ← nat
  let n ← rNatVec d
  let ac ← bool
  let spacing ← vec d
  let fwd ← regTransform d n
  let inv ← regTransform d n
  let mt ← tok
  let mask ← (match mt with
    | "-" => pure none
    | "+" => do
        let a := (← listOf (rNumel n) rat).toArray
        pure (some (fun idx => a.getD (rFlatIdx n idx) 0))
    | _ => throw s!"bad-op:mask:{mt}" : Reader (Option ((Fin d → Int) → Rat)))
  let margin ← regMargin
  let units ← regUnits
  let red ← rReduction
  let sq ← regTableFn
  pure (regRes (icLoss sq ac n spacing fwd inv mask margin units red))

def regHandlers : List (String × Reader String) :=
  [ ("reg.loss", regLoss), ("reg.keys", regKeys), ("reg.lame", regLame), ("reg.ic", regIc) ]

end Deepali.Drv
