/-
  Drv/Sample.lean — driver handlers for layer B (torch sampling primitives, ImageBatch.sample).
  Images are given as `size(d)` followed by the samples flattened with x fastest (the memory
  order of a `(…, Y, X)` tensor).
-/
import Deepali.Proto
import Deepali.Model.Sample
namespace Deepali.Drv
open Deepali Deepali.Proto

def natVec (d : Nat) : Reader (Fin d → Nat) := do
  let a := (← listOf d nat).toArray
  pure (fun i => a[i.val]!)

def numel {d : Nat} (size : Fin d → Nat) : Nat := (List.finRange d).foldl (fun acc i => acc * size i) 1

/-- flat offset with x (axis 0) fastest. -/
def flatIdx {d : Nat} (size : Fin d → Nat) (idx : Fin d → Int) : Nat :=
  ((List.finRange d).foldr (fun i acc => (idx i).toNat + size i * acc) 0)

def image (d : Nat) : Reader ((Fin d → Nat) × ((Fin d → Int) → Rat)) := do
  let size ← natVec d
  let vals := (← listOf (numel size) rat).toArray
  pure (size, fun idx => vals[flatIdx size idx]!)

/-- all indices of a box, x fastest. -/
def allIdx : (d : Nat) → (Fin d → Nat) → List (Fin d → Int)
  | 0, _ => [fun i => i.elim0]
  | d + 1, size =>
      (allIdx d (fun i => size i.succ)).flatMap (fun rest =>
        (List.range (size 0)).map (fun (x : Nat) => consIdx (Int.ofNat x) rest))

def padding : Reader Padding := do
  match (← tok) with
  | "zeros" => pure .zeros
  | "border" => pure .border
  | t => throw s!"bad-op:padding:{t}"

/-- `zeros` | `border` | `const:<rat>` -/
def paddingC : Reader (Padding × Option Rat) := do
  let t ← tok
  match t with
  | "zeros" => pure (.zeros, none)
  | "border" => pure (.border, none)
  | _ =>
    match t.splitOn ":" with
    | ["const", c] =>
        match parseRat c with
        | some r => pure (.zeros, some r)
        | none => throw s!"bad-op:padding:{t}"
    | _ => throw s!"bad-op:padding:{t}"

def fmtRats (xs : List Rat) : String := " ".intercalate (xs.map fmtRat)

/-- `prim.grid_sample d lin|nearest zeros|border ac <image> npts points…` -/
def primGridSample : Reader String := do
  let d ← nat
  let mode ← tok
  let pad ← padding
  let ac ← bool
  let (size, img) ← image d
  let npts ← nat
  let pts ← listOf npts (vec d)
  match mode with
  | "lin" => pure (fmtRats (pts.map (fun p => gridSampleLin ac pad size img p)))
  | "nearest" => pure (fmtRats (pts.map (fun p => gridSampleNearest ac pad size img p)))
  | t => throw s!"bad-op:mode:{t}"

/-- `prim.interpolate d ac <image> newsize…` -/
def primInterpolate : Reader String := do
  let d ← nat
  let ac ← bool
  let (size, img) ← image d
  let newSize ← natVec d
  pure (fmtRats ((allIdx d newSize).map (fun j => interpolateLin ac size newSize img (fun i => (j i).toNat))))

def gridSizeNat {d : Nat} (g : Grid d Rat) : Fin d → Nat := fun i => (g.sizeTensor i).ceil.toNat

/-- `sample.coord d <src> <tgt> decimals j…` → normalised source coordinates -/
def sampleCoordH : Reader String := do
  let d ← nat
  let src ← grid d
  let tgt ← grid d
  let dec ← int
  let j ← vec d
  let c := (sampleCoord src tgt (gridSizeNat tgt) j).memo
  let c : Vec d Rat := if dec < 0 then c else fun i => roundDecimals dec.toNat (c i)
  pure (fmtVec c)

/-- `sample.on_grid d <src> <tgt> lin|nearest zeros|border decimals values…` → all target samples -/
def sampleOnGridH : Reader String := do
  let d ← nat
  let src ← grid d
  let tgt ← grid d
  let mode ← tok
  let (pad, cval) ← paddingC
  let dec ← int
  let srcN := gridSizeNat src
  let tgtN := gridSizeNat tgt
  let vals := (← listOf (numel srcN) rat).toArray
  let img : (Fin d → Int) → Rat := fun idx => vals[flatIdx srcN idx]!
  let out := (allIdx d tgtN).map (fun j =>
    let c := (sampleCoord src tgt tgtN (fun i => ((j i : Int) : Rat))).memo
    let c : Vec d Rat := if dec < 0 then c else fun i => roundDecimals dec.toNat (c i)
    match mode, cval with
    | "nearest", none => gridSampleNearest src.alignCorners pad srcN img c
    | "nearest", some cv => gridSampleNearest src.alignCorners .zeros srcN (fun idx => img idx - cv) c + cv
    | _, none => gridSampleLin src.alignCorners pad srcN img c
    | _, some cv => gridSampleLinConst src.alignCorners srcN img cv c)
  pure (fmtRats out)

/-- `none` | `grid` | `cube` | `cube_corners` | `world` -/
private def axesOpt : Reader (Option Axes) := do
  match (← tok) with
  | "none" => pure none
  | "grid" => pure (some .grid)
  | "cube" => pure (some .cube)
  | "cube_corners" => pure (some .cubeCorners)
  | "world" => pure (some .world)
  | t => throw s!"bad-op:axes:{t}"

/-- `sample.module d <src> <tgt> axes lin|nearest zeros|border|const:c decimals values…` → all target
    samples of `AlignImage` / `TransformImage` (identity transform). When the source compares equal to
    the target (`Grid.__eq__`) the matrix comes from the same-grid branch of `Grid.transform`. `decimals` ≥ 0: the rounding
    `Grid.points` applies to CUBE_CORNERS points (`apply_transform` default, 12); −1: none. -/
private def sampleModuleH : Reader String := do
  let d ← nat
  let src ← grid d
  let tgt ← grid d
  let same := tgt.eqApprox src      -- `to_grid == self` with `self` = target
  let axes := moduleAxes tgt (← axesOpt)
  let mode ← tok
  let (pad, cval) ← paddingC
  let dec ← int
  let srcN := gridSizeNat src
  let tgtN := gridSizeNat tgt
  let vals := (← listOf (numel srcN) rat).toArray
  let img : (Fin d → Int) → Rat := fun idx => vals[flatIdx srcN idx]!
  let ac := tgt.alignCorners
  let out := (allIdx d tgtN).map (fun j =>
    let p := (tgt.pointAt tgtN axes (fun i => ((j i : Int) : Rat))).memo
    let p : Vec d Rat := if dec < 0 ∨ axes ≠ .cubeCorners then p else fun i => roundDecimals dec.toNat (p i)
    let c := (if same then moduleMapPointSame tgt axes p else moduleMapPoint src tgt axes p).memo
    match mode, cval with
    | "nearest", none => gridSampleNearest ac pad srcN img c
    | "nearest", some cv => gridSampleNearest ac .zeros srcN (fun idx => img idx - cv) c + cv
    | _, none => gridSampleLin ac pad srcN img c
    | _, some cv => gridSampleLinConst ac srcN img cv c)
  pure (fmtRats out)

/-- `itk.cindex d <src> <tgt> j…` → ITK continuous source index of target index j (the spec) -/
def itkCIndex : Reader String := do
  let d ← nat
  let src ← grid d
  let tgt ← grid d
  let j ← vec d
  pure (fmtVec (Itk.physToIdx src.origin src.spacing src.direction
    (Itk.idxToPhys tgt.origin tgt.spacing tgt.direction j)))

def sampleHandlers : List (String × Reader String) :=
  [ ("prim.grid_sample", primGridSample), ("prim.interpolate", primInterpolate),
    ("sample.coord", sampleCoordH), ("sample.on_grid", sampleOnGridH),
    ("sample.module", sampleModuleH), ("itk.cindex", itkCIndex) ]

end Deepali.Drv
