/-
  Drv/TransformState.lean — driver handlers for the layer-E state machine (C09 / C07 sharing).

  `tstate.run op …` replays a whole history from the empty world on one line and prints one
  token per operation:  `ok` | `new:<id>` | `obs:<content>,g<grid>,i<0|1>[+…]` | `val:<content>`
  | `err:<kind>`;  content = `L<v>` (literal version) or `P<f>.<c>` (callable f on condition c).
  Operation tokens (fixed arity):
    mk <cls> <kind> <v> <g>      cls ∈ dvf1 dvf0 svf1 svf0 ffd svffd; kind ∈ none param buffer fn:<f> mod:<f>
    mkcomp <seq|multi> <g> <n> m₁ … mₙ
    copy o | inverse o link ub | link_ a b | link a b | unlink_ o | unlink o
    data_ o v | datacopy o v | dataget o | inplace o v | grid_ o g | gridcopy o g
    condition_ o c | condcopy o c | reset o | update o | call o | disp o | clear o
  `tstate.current op … ; o` prints `current` of object o after the history.
-/
import Deepali.Proto
import Deepali.Model.TransformState
namespace Deepali.Drv
open Deepali Deepali.Proto Deepali.TState

private def tsCls : Reader Cls := do
  let t ← tok
  match t with
  | "dvf1" => pure (.dvf true)
  | "dvf0" => pure (.dvf false)
  | "svf1" => pure (.svf true)
  | "svf0" => pure (.svf false)
  | "ffd" => pure .ffd
  | "svffd" => pure .svffd
  | "seq" => pure .seq
  | "multi" => pure .multi
  | _ => throw s!"bad-op:cls:{t}"

private def tsKind : Reader Kind := do
  let t ← tok
  match t.splitOn ":" with
  | ["none"] => pure .none
  | ["param"] => pure .param
  | ["buffer"] => pure .buffer
  | ["fn", f] => match f.toNat? with
    | some n => pure (.fn n)
    | none => throw s!"bad-op:kind:{t}"
  | ["mod", f] => match f.toNat? with
    | some n => pure (.fnmod n)
    | none => throw s!"bad-op:kind:{t}"
  | _ => throw s!"bad-op:kind:{t}"

private def tsOp : Reader Op := do
  let t ← tok
  match t with
  | "mk" => do
      let c ← tsCls; let k ← tsKind; let v ← nat; let g ← nat
      pure (.mk c k v g)
  | "mkcomp" => do
      let c ← tsCls; let g ← nat; let n ← nat; let ms ← listOf n nat
      pure (.mkcomp c ms g)
  | "copy" => do pure (.copy (← nat))
  | "inverse" => do
      let o ← nat; let l ← bool; let u ← bool
      pure (.inverse o l u)
  | "link_" => do let a ← nat; let b ← nat; pure (.link_ a b)
  | "link" => do let a ← nat; let b ← nat; pure (.link a b)
  | "unlink_" => do pure (.unlink_ (← nat))
  | "unlink" => do pure (.unlink (← nat))
  | "data_" => do let o ← nat; let v ← nat; pure (.data_ o v)
  | "datacopy" => do let o ← nat; let v ← nat; pure (.dataCopy o v)
  | "dataget" => do pure (.dataGet (← nat))
  | "inplace" => do let o ← nat; let v ← nat; pure (.inplace o v)
  | "grid_" => do let o ← nat; let g ← nat; pure (.grid_ o g)
  | "gridcopy" => do let o ← nat; let g ← nat; pure (.gridCopy o g)
  | "condition_" => do let o ← nat; let c ← nat; pure (.condition_ o c)
  | "condcopy" => do let o ← nat; let c ← nat; pure (.condCopy o c)
  | "reset" => do pure (.reset (← nat))
  | "update" => do pure (.update (← nat))
  | "call" => do pure (.call (← nat))
  | "disp" => do pure (.disp (← nat))
  | "clear" => do pure (.clear (← nat))
  | _ => throw s!"bad-op:tstate-op:{t}"

private partial def tsOps (acc : Array Op) : Reader (List Op) := do
  match (← get) with
  | [] => pure acc.toList
  | ";" :: _ => pure acc.toList
  | _ => do
    let op ← tsOp
    tsOps (acc.push op)

private def fmtContent : Content → String
  | .lit v => s!"L{v}"
  | .pred f c => s!"P{f}.{c}"

private def fmtObs (o : Obs) : String :=
  s!"{fmtContent o.params},g{o.grid},i{if o.inverted then 1 else 0}"

private def fmtErr : Err → String
  | .assert => "err:assert" | .value => "err:value" | .type => "err:type" | .attr => "err:attr"
  | .notimpl => "err:notimpl" | .readonly => "err:readonly" | .noobj => "err:noobj"
  | .inplace => "err:inplace"

private def fmtOut : Out → String
  | .ok => "ok"
  | .new id => s!"new:{id}"
  | .obs l => "obs:" ++ "+".intercalate (l.map fmtObs)
  | .val c => s!"val:{fmtContent c}"
  | .err e => fmtErr e

private def tstateRun : Reader String := do
  let ops ← tsOps #[]
  let (_, outs) := runOuts World.empty ops
  pure (" ".intercalate (outs.map fmtOut))

private def tstateCurrent : Reader String := do
  let ops ← tsOps #[]
  let _ ← tok
  let o ← nat
  let w := run World.empty ops
  match current w o with
  | .ok ob => pure ("cur:" ++ fmtObs ob)
  | .error e => pure (fmtErr e)

def tstateHandlers : List (String × Reader String) :=
  [("tstate.run", tstateRun), ("tstate.current", tstateCurrent)]

end Deepali.Drv
