/-
  Drv/Transforms.lean — driver handlers for properties C06 / C07 (op prefix `xf.`).

  Member grammar (recursive):
    <m>   ::= h <hform> | c <cls> | nr ac size(d) values(d·numel) | seq k <m>^k | ml k <m>^k | unset
    <cls> ::= translation inv off(d) | euler2 inv c s | euler3 inv order c(3) s(3) | quat inv q(4) n eps
            | iso inv s | aniso inv s(d) | shear inv nAngles t… | hom inv A(d·d) t(d)
  Fields are printed channel-major with x fastest (memory order of a `(D, …, Y, X)` tensor).
-/
import Deepali.Drv.Flow
import Deepali.Drv.Affine
import Deepali.Model.Transforms
namespace Deepali.Drv
open Deepali Deepali.Proto

/-! Sharing: a definition of function type is eta-expanded by the compiler, so `Vec.memo`-style helpers
    recompute their array on every application.  Values are therefore forced into arrays *inside* definitions
    whose result is not a function (constructors of `H`, `Member`; `let` in the `Reader` blocks). -/
/-- `-` → none, `e` → "", `88,89,90` → "XYZ" (same encoding as the `euler.*` ops) -/
private def xfOptStr : Reader (Option (List Char)) := do
  let t ← tok
  if t = "-" then pure none
  else if t = "e" then pure (some [])
  else
    let parts := t.splitOn ","
    let mut out : Array Char := #[]
    for p in parts do
      match p.toNat? with
      | some n => out := out.push (Char.ofNat n)
      | none => throw s!"bad-op:str:{t}"
    pure (some out.toList)

private def xfLiftE {β} (e : Except String β) : Reader β :=
  match e with
  | .ok v => pure v
  | .error m => throw m

private def xfV {d : Nat} (a : Array Rat) : Vec d Rat := fun i => a[i.val]!
private def xfM {d : Nat} (a : Array (Array Rat)) : Mat d Rat := fun i j => (a[i.val]!)[j.val]!
private def xfArr {d : Nat} (v : Vec d Rat) : Array Rat := Array.ofFn v
private def xfArr2 {d : Nat} (A : Mat d Rat) : Array (Array Rat) := Array.ofFn (fun i => Array.ofFn (A i))

private def xfMemoH {d : Nat} : H d Rat → H d Rat
  | .trans t => let a := xfArr t; .trans (xfV a)
  | .aff A => let a := xfArr2 A; .aff (xfM a)
  | .hom A t => let a := xfArr2 A; let b := xfArr t; .hom (xfM a) (xfV b)

private def xfMemoOpt {d : Nat} : Option (H d Rat) → Option (H d Rat)
  | none => none
  | some h => some (xfMemoH h)

/-- force the argument of a non-linear member once per evaluated output entry. -/
private def xfForceMember {d : Nat} : Member d Rat → Member d Rat
  | .linear h => .linear (xfMemoH h)
  | .nonlin fP fG => .nonlin (fun x => fP (xfV (xfArr x))) (fun l x => fG l (xfV (xfArr x)))

/-- class parameters → `invert ↦ tensor()`; also returns the flag given on the line. -/
private def xfCls (d : Nat) : Reader ((Bool → H d Rat) × Bool) := do
  let k ← tok
  let inv ← bool
  match k with
  | "translation" => do
      let off ← vec d
      pure (fun i => translationTensor i off, inv)
  | "euler2" =>
      if h : 2 = d then do
        let c ← rat
        let s ← rat
        pure (h ▸ (fun i => eulerTensor2 i c s), inv)
      else throw "bad-op:dim"
  | "euler3" =>
      if h : 3 = d then do
        let order ← xfOptStr
        let c ← vec 3
        let s ← vec 3
        let a ← xfLiftE (eulerTensor3 false order c s)
        let b ← xfLiftE (eulerTensor3 true order c s)
        let a := xfMemoH a
        let b := xfMemoH b
        pure (h ▸ (fun i => if i then b else a), inv)
      else throw "bad-op:dim"
  | "quat" =>
      if h : 3 = d then do
        let q ← vec 4
        let n ← rat
        let eps ← rat
        pure (h ▸ (fun i => xfMemoH (quaternionTensor i q n eps)), inv)
      else throw "bad-op:dim"
  | "iso" => do
      let s ← rat
      pure (fun i => isotropicScalingTensor i s, inv)
  | "aniso" => do
      let s ← vec d
      pure (fun i => anisotropicScalingTensor i s, inv)
  | "shear" => do
      let n ← nat
      let t := (← listOf n rat).toArray
      pure (fun i => xfMemoH (shearingTensor i (fun k => t[k]!)), inv)
  | "hom" => do
      let A ← mat d
      let t ← vec d
      pure (fun i => xfMemoH (homogeneousTensor i A t), inv)
  | _ => throw s!"bad-op:cls:{k}"

private partial def xfMember (d : Nat) : Reader (Member d Rat) := do
  let k ← tok
  match k with
  | "h" => do
      let h ← hform d
      pure (.linear h)
  | "c" => do
      let (f, inv) ← xfCls d
      pure (.linear (f inv))
  | "nr" => do
      let ac ← bool
      let size ← natVec d
      let u ← readField d size
      pure (xfForceMember (nonRigidMember ac size u))
  | "seq" => do
      let n ← nat
      let ms ← listOf n (xfMember d)
      pure (xfForceMember (seqMember ms))
  | "ml" => do
      let n ← nat
      let ms ← listOf n (xfMember d)
      pure (xfForceMember (mlMember ms))
  | "unset" => throw "err:assert"     -- parametric.py:data @134-135: `params is None` → AssertionError on first use
  | _ => throw s!"bad-op:member:{k}"

private def xfRnd {d : Nat} (dec : Int) : Vec d Rat → Vec d Rat :=
  fun v => if dec < 0 then v else (fun i => roundDecimals dec.toNat (v i))

private def xfFmtPts {d : Nat} (ps : List (Vec d Rat)) : String :=
  " ".intercalate (ps.map (fun p => fmtVec p))

private def xfIdxNat {d : Nat} (j : Fin d → Int) : Fin d → Nat := fun i => (j i).toNat
private def xfIdxRat {d : Nat} (j : Fin d → Int) : Vec d Rat := fun i => ((j i : Int) : Rat)

/-- `xf.tensor d <m>` -/
def xfTensor : Reader String := do
  let d ← nat
  match ← xfMember d with
  | .linear h => pure (fmtH h)
  | .nonlin _ _ => throw "err:nonlinear"

/-- `xf.matrix d <m>` (LinearTransform.matrix) -/
def xfMatrix : Reader String := do
  let d ← nat
  match ← xfMember d with
  | .linear h => pure (fmtH (matrixOf h))
  | .nonlin _ _ => throw "err:nonlinear"

/-- `xf.forward d <m> npts pts…` (`forward(points)`, `grid=False`) -/
def xfForward : Reader String := do
  let d ← nat
  let m ← xfMember d
  let n ← nat
  let pts ← listOf n (vec d)
  pure (xfFmtPts (pts.map (fun p => m.forward none p)))

/-- `xf.forward_grid d <m> shape(d) pts…` (`forward(points, grid=True)` on a whole lattice, x fastest) -/
def xfForwardGrid : Reader String := do
  let d ← nat
  let m ← xfMember d
  let shape ← natVec d
  let pts ← listOf (numel shape) (vec d)
  let idxs := allIdx d shape
  pure (xfFmtPts ((idxs.zip pts).map (fun (j, p) => m.forward (some ⟨shape, xfIdxNat j⟩) p)))

/-- `xf.ml_forward d k <m>^k grid? [shape(d)] npts pts…`: MultiLevelTransform.forward as coded, and the
    documented sum `x + Σ uᵢ(x)` (second half of the output). -/
def xfMlForward : Reader String := do
  let d ← nat
  let k ← nat
  let ms ← listOf k (xfMember d)
  let n ← nat
  let pts ← listOf n (vec d)
  pure (xfFmtPts (pts.map (mlForward ms none)) ++ " | " ++ xfFmtPts (pts.map (mlSpec ms)))

/-- `xf.points d <tg> <m> <grid> axes <togrid> toaxes same1 same2 npts pts…` -/
def xfPoints : Reader String := do
  let d ← nat
  let tg ← grid d
  let m ← xfMember d
  let g ← grid d
  let a ← axes
  let g' ← grid d
  let b ← axes
  let s1 ← bool
  let s2 ← bool
  let n ← nat
  let pts ← listOf n (vec d)
  let m1 := xfMemoOpt (g.transformSel a tg (transformAxes tg) s1)
  let m2 := xfMemoOpt (tg.transformSel (transformAxes tg) g' b s2)
  pure (xfFmtPts (pts.map (fun p => transformPointsWith (fun x => m.forward none x) m1 m2 p)))

/-- `xf.disp_linear d <tg> <m> <grid> sameDomain` — base-class `disp(grid)` of a linear transform -/
def xfDispLinear : Reader String := do
  let d ← nat
  let tg ← grid d
  let m ← xfMember d
  let g ← grid d
  let same ← bool
  let n := gridSizeNat g
  let maps := match dispCompositeMaps tg g same with
    | none => none
    | some (a, b) => some (xfMemoH a, xfMemoH b)
  match m with
  | .linear h =>
      let arr := fieldArray n (fun idx => dispLinearWith h g.alignCorners n maps (xfIdxRat idx))
      pure (fmtField n (lookupField n arr))
  | .nonlin _ _ => throw "err:nonlinear"

/-- `xf.disp_composite d <tg> <m> <grid> sameDomain` — CompositeTransform.disp(grid) -/
def xfDispComposite : Reader String := do
  let d ← nat
  let tg ← grid d
  let m ← xfMember d
  let g ← grid d
  let same ← bool
  let n := gridSizeNat g
  let maps := match dispCompositeMaps tg g same with
    | none => none
    | some (a, b) => some (xfMemoH a, xfMemoH b)
  let arr := fieldArray n (fun idx =>
    dispCompositeWith (fun x => m.forward none x) g.alignCorners n maps (xfIdxRat idx))
  pure (fmtField n (lookupField n arr))

/-- `xf.disp_nonrigid d <tg> <flowGrid> <grid> sameGrid sameFlowGrid decimals pad size(d) u-values…` -/
def xfDispNonRigid : Reader String := do
  let d ← nat
  let tg ← grid d
  let fg ← grid d
  let g ← grid d
  let sameGrid ← bool
  let sameFlow ← bool
  let dec ← int
  let pad ← padding
  let size ← natVec d
  let u ← readField d size
  let n := gridSizeNat g
  let axes := transformAxes tg
  let toFlow := xfMemoH (g.transformTo axes fg axes false)
  let vecBack := xfMemoH (fg.transformTo axes g axes true)
  let conv : Vec d Rat → Vec d Rat := g.transformVectors axes (Axes.fromAlignCorners g.alignCorners)
  let arr := fieldArray n (fun idx =>
    dispNonRigidWith tg.alignCorners g.alignCorners size n u sameGrid sameFlow toFlow vecBack conv (xfRnd dec) pad
      (xfIdxNat idx))
  pure (fmtField n (lookupField n arr))

/-- `xf.warp_coord d <tg> <m> <tgt> <src> sameTT sameTS isLattice decimals` → normalised source coordinates for
    every target sample (x fastest), i.e. what `ImageTransformer` hands to `grid_sample`. -/
def xfWarpCoord : Reader String := do
  let d ← nat
  let tg ← grid d
  let m ← xfMember d
  let tgt ← grid d
  let src ← grid d
  let sTT ← bool
  let sTS ← bool
  let isLat ← bool
  let dec ← int
  let tgtN := gridSizeNat tgt
  let gm := xfMemoOpt (imageTransformerGridMap tg tgt sTT)
  let mx := xfMemoH (sampleImageMatrix tg src sTS)
  pure (xfFmtPts ((allIdx d tgtN).map (fun j =>
    imageTransformerCoordWith (fun x => m.forward (imageTransformerLat isLat tgtN (xfIdxNat j)) x) tg.alignCorners tgtN gm mx
      (xfRnd dec) (xfIdxRat j))))

/-- `xf.warp d <tg> <m> <tgt> <src> sameTT sameTS isLattice decimals pad src-values…` → all output samples -/
def xfWarp : Reader String := do
  let d ← nat
  let tg ← grid d
  let m ← xfMember d
  let tgt ← grid d
  let src ← grid d
  let sTT ← bool
  let sTS ← bool
  let isLat ← bool
  let dec ← int
  let (pad, cval) ← paddingC
  let srcN := gridSizeNat src
  let tgtN := gridSizeNat tgt
  let vals := (← listOf (numel srcN) rat).toArray
  let img : (Fin d → Int) → Rat := fun idx => vals[flatIdx srcN idx]!
  let gm := xfMemoOpt (imageTransformerGridMap tg tgt sTT)
  let mx := xfMemoH (sampleImageMatrix tg src sTS)
  pure (fmtRats ((allIdx d tgtN).map (fun j =>
    let T : Vec d Rat → Vec d Rat := fun x => m.forward (imageTransformerLat isLat tgtN (xfIdxNat j)) x
    let ca := xfArr (imageTransformerCoordWith T tg.alignCorners tgtN gm mx (xfRnd dec) (xfIdxRat j))
    let c : Vec d Rat := xfV ca
    match cval with
    | none => gridSampleLin tg.alignCorners pad srcN img c
    | some cv => gridSampleLinConst tg.alignCorners srcN img cv c)))

/-- `xf.seq_inverse d k <cls>^k` → `tensor()` of `SequentialTransform(members).inverse()` (C07) -/
def xfSeqInverse : Reader String := do
  let d ← nat
  let k ← nat
  let cs ← listOf k (xfCls d)
  let ts : List (ParamTransform d Rat) := cs.map (fun (f, inv) => ⟨f, inv⟩)
  pure (fmtH (xfMemoH (seqTensor ((seqInverse ts).map ParamTransform.tensor))))

/-- `xf.default d cls …` → `tensor()` of a freshly constructed transform, from the model's default
    parameter values (`reset_parameters`). -/
def xfDefault : Reader String := do
  let d ← nat
  let k ← tok
  match k with
  | "translation" => pure (fmtH (translationTensor false (defaultOffset : Vec d Rat)))
  | "euler2" => pure (fmtH (eulerTensor2 false (defaultCos : Rat) defaultSin))
  | "euler3" => do
      let order ← xfOptStr
      let h ← xfLiftE (eulerTensor3 false order (fun _ => (defaultCos : Rat)) (fun _ => defaultSin))
      pure (fmtH (xfMemoH h))
  | "quat" => do
      let n ← rat
      let eps ← rat
      pure (fmtH (xfMemoH (quaternionTensor false (defaultQuaternion : Vec 4 Rat) n eps)))
  | "iso" => pure (fmtH (isotropicScalingTensor (d := d) false (defaultScale : Rat)))
  | "aniso" => pure (fmtH (anisotropicScalingTensor (d := d) false (fun _ => (defaultScale : Rat))))
  | "shear" => pure (fmtH (xfMemoH (shearingTensor (d := d) false (defaultTan : Nat → Rat))))
  | "hom" => pure (fmtH (homogeneousTensor (d := d) false (defaultHomMatrix : Mat d Rat) defaultHomOffset))
  | _ => throw s!"bad-op:cls:{k}"

def transformHandlers : List (String × Reader String) :=
  [ ("xf.tensor", xfTensor), ("xf.matrix", xfMatrix), ("xf.forward", xfForward),
    ("xf.forward_grid", xfForwardGrid), ("xf.ml_forward", xfMlForward), ("xf.points", xfPoints),
    ("xf.disp_linear", xfDispLinear), ("xf.disp_composite", xfDispComposite),
    ("xf.disp_nonrigid", xfDispNonRigid), ("xf.warp_coord", xfWarpCoord), ("xf.warp", xfWarp),
    ("xf.seq_inverse", xfSeqInverse), ("xf.default", xfDefault) ]

end Deepali.Drv
