/-
  Model/Affine.lean — elementary linear transformations and Euler angles (property C08).
  src: src/deepali/core/affine.py  euler_rotation_matrix @121-269, euler_rotation_angles @272-317,
       euler_rotation_order @320-336, scaling_transform @339-365, shear_matrix @368-407,
       translation @410-444
       src/deepali/spatial/linear.py  EulerRotation.angles/angles_ @188-214, *Scaling.scales/scales_
       @377-403 / @463-489, Shearing.angles/angles_ @548-574 (polynomial part of the squashing maps)

  Core Lean only.  Transcendental functions are never computed here: `c i`, `s i` are the values
  `cos θᵢ`, `sin θᵢ` (resp. `tan`, `tanh`, …) computed by the caller; theorems carry `cᵢ² + sᵢ² = 1`.
  The model follows the code as it stands.  The defects F-08b/c/d of round 1 (FINDINGS_C08.md) were
  repaired in /repo (commits b12e9ba, 2f08b31, 2831bdb) and the model follows the repaired code:
  `re.sub` in `euler_rotation_order`, `torch.matmul` on `(…, 3, 3)` blocks in the generic fallback,
  angle `k` of `euler_rotation_angles` at index `k`, `atan2` in 2-D.
-/
import Deepali.Model.Homog
namespace Deepali

/-- rotation axes; only used to *name* orders in theorems — the code (and `eulerRotationMatrix3`)
    dispatch on the order string. -/
inductive Axis where
  | X | Y | Z
  deriving DecidableEq, Repr

def Axis.char : Axis → Char
  | .X => 'X' | .Y => 'Y' | .Z => 'Z'
def Axis.lower : Axis → Char
  | .X => 'x' | .Y => 'y' | .Z => 'z'

/-- `"XYZ"`-style order string. -/
def orderName (a b c : Axis) : List Char := [a.char, b.char, c.char]
/-- `"xyz"`-style order string. -/
def orderNameLower (a b c : Axis) : List Char := [a.lower, b.lower, c.lower]
/-- `"Rx o Ry o Rz"`-style order string (docstring of `euler_rotation_matrix`). -/
def orderNotation (a b c : Axis) : List Char :=
  ['R', a.lower, ' ', 'o', ' ', 'R', b.lower, ' ', 'o', ' ', 'R', c.lower]
/-- `"X o Y o Z"`-style order string (also accepted by the first regular expression). -/
def orderNotationUpper (a b c : Axis) : List Char :=
  [a.char, ' ', 'o', ' ', b.char, ' ', 'o', ' ', c.char]

/-! ### euler_rotation_order — string normalisation -/

def isXYZ (ch : Char) : Bool := ch = 'X' || ch = 'Y' || ch = 'Z'
def isxyz (ch : Char) : Bool := ch = 'x' || ch = 'y' || ch = 'z'

/-- Python `$`: end of string, or just before one trailing newline. -/
def atDollar : List Char → Bool
  | [] => true
  | ['\n'] => true
  | _ => false

/-- tail of regex 1, `( o (R[xyz]|[XYZ]))*$` (the alternatives are disjoint, so no backtracking). -/
def matchNotationTail : List Char → Bool
  | ' ' :: 'o' :: ' ' :: 'R' :: ch :: rest =>
      if isxyz ch then matchNotationTail rest
      else false   -- "R" is not in [XYZ]
  | ' ' :: 'o' :: ' ' :: ch :: rest => if isXYZ ch then matchNotationTail rest else false
  | rest => atDollar rest

/-- affine.py:euler_rotation_order @331 `re.match(r"^(R[xyz]|[XYZ])( o (R[xyz]|[XYZ]))*$", order)`. -/
def matchNotation : List Char → Bool
  | 'R' :: ch :: rest => if isxyz ch then matchNotationTail rest else false
  | ch :: rest => if isXYZ ch then matchNotationTail rest else false
  | [] => false

/-- `re.sub(r"R([xyz])", "\\1", s)` @334. -/
def subRxyzAux : Bool → List Char → List Char
  | false, [] => []
  | true, [] => ['R']
  | false, ch :: tl => if ch = 'R' then subRxyzAux true tl else ch :: subRxyzAux false tl
  | true, ch :: tl =>
      if isxyz ch then ch :: subRxyzAux false tl          -- "R" followed by x/y/z: keep the letter only
      else if ch = 'R' then 'R' :: subRxyzAux true tl     -- previous "R" stays, this one is pending
      else 'R' :: ch :: subRxyzAux false tl
def subRxyz (s : List Char) : List Char := subRxyzAux false s

/-- `str.replace(" o ", "")` (left-to-right, non-overlapping). -/
def removeO : List Char → List Char
  | ' ' :: 'o' :: ' ' :: rest => removeO rest
  | ch :: rest => ch :: removeO rest
  | [] => []

/-- `str.upper()` on ASCII (no non-ASCII character upper-cases to X, Y or Z). -/
def upperAscii (s : List Char) : List Char :=
  s.map (fun ch => if 'a'.toNat ≤ ch.toNat ∧ ch.toNat ≤ 'z'.toNat then Char.ofNat (ch.toNat - 32) else ch)

/-- affine.py:euler_rotation_order @334 `re.match("^[XYZ][XYZ][XYZ]$", order)`. -/
def matchXYZ3 : List Char → Bool
  | [a, b, c] => isXYZ a && isXYZ b && isXYZ c
  | [a, b, c, '\n'] => isXYZ a && isXYZ b && isXYZ c
  | _ => false

/-- affine.py:euler_rotation_order @322-338: `None` → "ZXZ"; a string in the composition notation
    ("Rz o Rx o Rz", "X o Y o Z") is reduced to its letters (`re.sub` + `replace`), the result is
    upper-cased and must match `^[XYZ][XYZ][XYZ]$`. -/
def eulerRotationOrder (arg : Option (List Char)) (ndim : Nat) : Except String (List Char) :=
  if ndim = 2 then .ok ['Z']
  else if ndim ≠ 3 then .error "err:notimpl"
  else
    let order := arg.getD ['Z', 'X', 'Z']
    let order := if matchNotation order then removeO (subRxyz order) else order
    let order := upperAscii order
    if matchXYZ3 order then .ok order else .error "err:value"

section
variable {α : Type} [Add α] [Sub α] [Mul α] [Div α] [Neg α] [NatCast α]

def affVec2 (a b : α) : Vec 2 α := fun i => match i with
  | 0 => a | 1 => b
def affVec3 (a b c : α) : Vec 3 α := fun i => match i with
  | 0 => a | 1 => b | 2 => c
def affMat2 (r0 r1 : Vec 2 α) : Mat 2 α := fun i => match i with
  | 0 => r0 | 1 => r1
def affMat3 (r0 r1 r2 : Vec 3 α) : Mat 3 α := fun i => match i with
  | 0 => r0 | 1 => r1 | 2 => r2

/-! ### euler_rotation_matrix -/

/-- affine.py:euler_rotation_matrix @170-174 (D = 2). -/
def eulerRotationMatrix2 (c s : α) : Mat 2 α := affMat2 (affVec2 c (-s)) (affVec2 s c)

/-- elementary rotations written by the generic fallback, affine.py @234-263. -/
def rotX (c s : α) : Mat 3 α :=
  let o : α := ((1 : Nat) : α); let z : α := ((0 : Nat) : α)
  affMat3 (affVec3 o z z) (affVec3 z c (-s)) (affVec3 z s c)
def rotY (c s : α) : Mat 3 α :=
  let o : α := ((1 : Nat) : α); let z : α := ((0 : Nat) : α)
  affMat3 (affVec3 c z s) (affVec3 z o z) (affVec3 (-s) z c)
def rotZ (c s : α) : Mat 3 α :=
  let o : α := ((1 : Nat) : α); let z : α := ((0 : Nat) : α)
  affMat3 (affVec3 c (-s) z) (affVec3 s c z) (affVec3 z z o)

def Axis.rot : Axis → α → α → Mat 3 α
  | .X => rotX | .Y => rotY | .Z => rotZ

/-- affine.py @178-187 -/
def eulerXYZ (c s : Vec 3 α) : Mat 3 α :=
  affMat3 (affVec3 (c 1 * c 2) (-(c 1) * s 2) (s 1))
       (affVec3 (c 0 * s 2 + c 2 * s 0 * s 1) (c 0 * c 2 - s 0 * s 1 * s 2) (-(c 1) * s 0))
       (affVec3 (s 0 * s 2 - c 0 * c 2 * s 1) (c 2 * s 0 + c 0 * s 1 * s 2) (c 0 * c 1))
/-- affine.py @188-197 -/
def eulerZYX (c s : Vec 3 α) : Mat 3 α :=
  affMat3 (affVec3 (c 0 * c 1) (c 0 * s 1 * s 2 - c 2 * s 0) (s 0 * s 2 + c 0 * c 2 * s 1))
       (affVec3 (c 1 * s 0) (c 0 * c 2 + s 0 * s 1 * s 2) (c 2 * s 0 * s 1 - c 0 * s 2))
       (affVec3 (-(s 1)) (c 1 * s 2) (c 1 * c 2))
/-- affine.py @198-207 -/
def eulerZXY (c s : Vec 3 α) : Mat 3 α :=
  affMat3 (affVec3 (c 0 * c 2 - s 0 * s 1 * s 2) (-(c 1) * s 0) (c 0 * s 2 + c 2 * s 0 * s 1))
       (affVec3 (c 2 * s 0 + c 0 * s 1 * s 2) (c 0 * c 1) (s 0 * s 2 - c 0 * c 2 * s 1))
       (affVec3 (-(c 1) * s 2) (s 1) (c 1 * c 2))
/-- affine.py @208-217 -/
def eulerXZX (c s : Vec 3 α) : Mat 3 α :=
  affMat3 (affVec3 (c 1) (-(s 1) * c 2) (s 1 * s 2))
       (affVec3 (c 0 * s 1) (-(s 0) * s 2 + c 0 * c 1 * c 2) (-(s 0) * c 2 - c 0 * c 1 * s 2))
       (affVec3 (s 0 * s 1) (c 0 * s 2 + s 0 * c 1 * c 2) (c 0 * c 2 - s 0 * c 1 * s 2))
/-- affine.py @218-227 -/
def eulerZXZ (c s : Vec 3 α) : Mat 3 α :=
  affMat3 (affVec3 (c 0 * c 2 - s 0 * c 1 * s 2) (-(c 0) * s 2 - s 0 * c 1 * c 2) (s 0 * s 1))
       (affVec3 (s 0 * c 2 + c 0 * c 1 * s 2) (-(s 0) * s 2 + c 0 * c 1 * c 2) (-(c 0) * s 1))
       (affVec3 (s 1 * s 2) (s 1 * c 2) (c 1))

/-- one pass of the loop body affine.py @233-263: `rot` for character `ch` and angle index `i`.
    A character other than X/Y/Z leaves `rot = new_empty(...)` unwritten (`err:uninit`; only
    reachable with the order `"ABC\n"` that `$` lets through). -/
def elemRot (ch : Char) (i : Nat) (c s : Vec 3 α) : Except String (Mat 3 α) :=
  if h : i < 3 then
    if ch = 'X' then .ok (rotX (c ⟨i, h⟩) (s ⟨i, h⟩))
    else if ch = 'Y' then .ok (rotY (c ⟨i, h⟩) (s ⟨i, h⟩))
    else if ch = 'Z' then .ok (rotZ (c ⟨i, h⟩) (s ⟨i, h⟩))
    else .error "err:uninit"
  else if isXYZ ch then .error "err:value" else .error "err:uninit"

/-- affine.py @232-266: `rotation = rot if rotation is None else torch.matmul(rotation, rot)`;
    `matrix[..., :3] = rotation` after the loop (an empty order would assign `None`: TypeError). -/
def eulerGenericLoop (c s : Vec 3 α) : List Char → Nat → Option (Mat 3 α) → Except String (Mat 3 α)
  | [], _, none => .error "err:type"
  | [], _, some m => .ok m
  | ch :: rest, i, acc => do
      let rot ← elemRot ch i c s
      let m := match acc with
        | none => rot
        | some m => m.mul rot
      eulerGenericLoop c s rest (i + 1) (some m)

/-- affine.py:euler_rotation_matrix @175-266 (D = 3) for an already normalised `order`, one batch
    element (`torch.matmul` and the element-wise closed forms treat every leading index alike, and the
    `homogeneous` flag only appends a zero column — `asRotationH`). -/
def eulerRotationMatrix3 (order : List Char) (c s : Vec 3 α) : Except String (Mat 3 α) :=
  if order = ['X', 'Y', 'Z'] then .ok (eulerXYZ c s)
  else if order = ['Z', 'Y', 'X'] then .ok (eulerZYX c s)
  else if order = ['Z', 'X', 'Y'] then .ok (eulerZXY c s)
  else if order = ['X', 'Z', 'X'] then .ok (eulerXZX c s)
  else if order = ['Z', 'X', 'Z'] then .ok (eulerZXZ c s)
  else eulerGenericLoop c s order 0 none

/-- `D = 2 if N == 1 else N` @164-166 followed by the `ndim` check of `euler_rotation_order`. -/
def eulerDim (nAngles : Nat) : Except String Nat :=
  let d := if nAngles = 1 then 2 else nAngles
  if d = 2 ∨ d = 3 then .ok d else .error "err:notimpl"

/-- `homogeneous=True` appends a zero column (@167-169). -/
def asRotationH {d} (homogeneous : Bool) (m : Mat d α) : H d α :=
  if homogeneous then .hom m (fun _ => ((0 : Nat) : α)) else .aff m

/-! ### euler_rotation_angles — arguments of the inverse trigonometric calls -/

/-- what `euler_rotation_angles` feeds to `atan2` (as `(y, x)`) and `acos`, per output index. -/
structure EulerAngleArgs (α : Type) where
  a0 : α × α
  a1 : α
  a2 : α × α

def affineDet2 (m : Mat 2 α) : α := m 0 0 * m 1 1 - m 0 1 * m 1 0
def affineDet3 (m : Mat 3 α) : α :=
  m 0 0 * (m 1 1 * m 2 2 - m 1 2 * m 2 1) - m 0 1 * (m 1 0 * m 2 2 - m 1 2 * m 2 0)
    + m 0 2 * (m 1 0 * m 2 1 - m 1 1 * m 2 0)

/-- `det.abs().allclose(1)` @298 with torch's defaults `rtol=1e-5, atol=1e-8` (passed as `tol`). -/
def affineDetIsOne [LT α] [DecidableRel (α := α) (· < ·)] (det tol : α) : Bool :=
  let z : α := ((0 : Nat) : α)
  let a := if det < z then -det else det
  let e := a - ((1 : Nat) : α)
  let e := if e < z then -e else e
  !(tol < e)

/-- affine.py:euler_rotation_angles @304-305 (D = 2): `atan2(matrix[1, 0], matrix[0, 0])` as `(y, x)`. -/
def eulerRotationAngles2 (m : Mat 2 α) : α × α := (m 1 0, m 0 0)

/-- affine.py:euler_rotation_angles @308-318 (D = 3). -/
def eulerRotationAngles3 (order : List Char) (m : Mat 3 α) : Except String (EulerAngleArgs α) :=
  if order = ['X', 'Z', 'X'] then
    .ok ⟨(m 2 0, m 1 0), m 0 0, (m 0 2, -(m 0 1))⟩
  else if order = ['Z', 'X', 'Z'] then
    .ok ⟨(m 0 2, -(m 1 2)), m 2 2, (m 2 0, m 2 1)⟩
  else .error "err:notimpl"

/-! ### scaling_transform, shear_matrix, translation -/

/-- affine.py:scaling_transform @359-365. -/
def scalingTransform {d} (scales : Vec d α) : Mat d α := Mat.diag scales

/-- position of `(i, j)`, `i < j`, in `torch.triu_indices(D, D, offset=1)` (row-major). -/
def triuIndex (d i j : Nat) : Nat := i * d - i * (i + 1) / 2 + (j - i - 1)

/-- affine.py:shear_matrix @402-407; `t k` = `tan(angles[k])`. -/
def shearMatrix {d} (t : Nat → α) : Mat d α := fun i j =>
  if i = j then ((1 : Nat) : α)
  else if i.val < j.val then t (triuIndex d i.val j.val)
  else ((0 : Nat) : α)

/-- number of angles → D @391-401. -/
def shearDim (nAngles : Nat) : Except String Nat :=
  if nAngles = 1 then .ok 2 else if nAngles = 3 then .ok 3 else if nAngles = 6 then .ok 4
  else .error "err:value"

/-- affine.py:translation @430-444. -/
def translationH {d} (offset : Vec d α) (homogeneous : Bool) : H d α :=
  if homogeneous then .hom Mat.one offset else .trans offset

/-! ### spatial/linear.py parameter getters / setters (polynomial part)

`angles() = tanh(p)·π`, `angles_(a)` stores `atanh(a/π)`; `Shearing` uses `π/4`;
`scales() = exp(tanh(p − 1))`, `scales_(x)` stores `atanh(log x) + 1`.  `tanh/atanh/exp/log`
values are supplied by the caller. -/

def eulerAnglesGet (tanhP pi : α) : α := tanhP * pi                       -- linear.py @192
def eulerAnglesSetArg (a pi : α) : α := a / pi                            -- linear.py @210 (argument of atanh)
def shearAnglesGet (tanhP pi : α) : α := tanhP * (pi / ((4 : Nat) : α))   -- linear.py @552
def shearAnglesSetArg (a pi : α) : α := a * (((4 : Nat) : α) / pi)        -- linear.py @570
def scalesGetArg (p : α) : α := p - ((1 : Nat) : α)                       -- linear.py @381/467 (argument of tanh)
def scalesSetParam (atanhLog : α) : α := atanhLog + ((1 : Nat) : α)       -- linear.py @399/485

/-- `tensor()` with the `invert` flag for rotations (`mat.transpose(1, 2)`) @236-238, @327-329. -/
def invertRotation {d} (invert : Bool) (m : Mat d α) : Mat d α := if invert then m.transpose else m

end
end Deepali
