/-
  Model/BSpline.lean — cubic B-spline weights, evaluation (both algorithms), control grid,
  subdivision.  Core Lean only.
  src: src/deepali/core/bspline.py, src/deepali/core/kernels.py, src/deepali/core/image.py
       (conv, conv1d, spatial_derivatives mode='bspline'), src/deepali/spatial/bspline.py.
  Torch primitives (arange, F.conv{1,2,3}d with groups, F.conv_transpose1d, reshape/transpose/
  flatten, slicing, narrow) are modelled by their documented semantics; each place says so.
-/
import Deepali.Model.Grid
namespace Deepali

/-- one row `kernel[k, 0..3]` of the interpolation weight table. -/
structure W4 (α : Type) where
  w0 : α
  w1 : α
  w2 : α
  w3 : α

/-- dense tensor: row-major data, `shape = (N, C, ..., X)` as in torch. -/
structure Tensor (α : Type) where
  shape : List Nat
  data : Array α

section
variable {α : Type} [Add α] [Sub α] [Mul α] [Div α] [Neg α] [NatCast α] [IntCast α]

/-- `Σ_{i<n} f i` by recursion on `n` (Nat-indexed twin of `sumFin`). -/
def sumN : Nat → (Nat → α) → α
  | 0, _ => ((0 : Nat) : α)
  | n + 1, f => sumN n f + f n

/-- list element with zero default (zero padding / out-of-range reads never happen on valid input). -/
def getZ (c : List α) (i : Nat) : α := c.getD i ((0 : Nat) : α)

def W4.dot (w : W4 α) (c0 c1 c2 c3 : α) : α := w.w0 * c0 + w.w1 * c1 + w.w2 * c2 + w.w3 * c3
def W4.toList (w : W4 α) : List α := [w.w0, w.w1, w.w2, w.w3]
def W4.sum (w : W4 α) : α := w.w0 + w.w1 + w.w2 + w.w3

/-- src: core/bspline.py:cubic_bspline_interpolation_weights @229-250 — the row of `kernel`
    whose `offset` entry is `t`, for derivative order `d` (the float literals `1/6`, `0.5` are
    the exact rationals; `kernel[:, 1] = -kernel[:, [0,2,3]].sum(1).sub(1)`). -/
def weightRow (d : Nat) (t : α) : W4 α :=
  let one : α := ((1 : Nat) : α)
  let two : α := ((2 : Nat) : α)
  let three : α := ((3 : Nat) : α)
  let half : α := one / two
  let sixth : α := one / ((6 : Nat) : α)
  match d with
  | 0 =>
      let w3 := t * t * t * sixth                        -- offset.pow(3).mul_(1 / 6)
      let w0 := t * (t - one) * half + sixth - w3        -- offset.mul(offset.sub(1)).mul_(0.5).add_(1/6).sub_(k3)
      let w2 := t + w0 - w3 * two                        -- offset.add(k0).sub_(k3.mul(2))
      let w1 := -((w0 + w2 + w3) - one)                  -- -kernel[:, [0, 2, 3]].sum(1).sub(1)
      ⟨w0, w1, w2, w3⟩
  | 1 =>
      let w3 := t * t * half                             -- offset.pow(2).mul_(0.5)
      let w0 := t - w3 - half                            -- offset.sub(k3).sub_(0.5)
      let w2 := w0 - w3 * two + one                      -- k0.sub(k3.mul(2)).add_(1)
      let w1 := -(w0 + w2 + w3)                          -- -kernel[:, [0, 2, 3]].sum(1)
      ⟨w0, w1, w2, w3⟩
  | 2 => ⟨-(t - one), t * three - two, -(t * three - one), t⟩
  | 3 => ⟨-one, three, -three, one⟩
  | _ => ⟨((0 : Nat) : α), ((0 : Nat) : α), ((0 : Nat) : α), ((0 : Nat) : α)⟩   -- kernel.fill_(0)

/-- src: core/bspline.py:cubic_bspline_interpolation_weights @227-228: `kernel` is `(s, 4)`,
    `offset = torch.arange(0, 1, 1/s)`; arange (documented) has `⌈1/(1/s)⌉ = s` entries `k·(1/s)`. -/
def weightTable (s d : Nat) : List (W4 α) :=
  (List.range s).map (fun k => weightRow d (((k : Nat) : α) / ((s : Nat) : α)))

/-- src: core/bspline.py:bspline_interpolation_weights @115-116 (`degree == 3` delegates). -/
def bsplineInterpolationWeights3 (s : Nat) : List (W4 α) := weightTable s 0

/-- src: core/bspline.py:cubic_bspline_control_point_grid_size @62-65:
    `n = m.div(s, floor).add_(3); n = n.where(m % s == 0, n.add(1))`. -/
def ctrlSize (m s : Nat) : Nat := if m % s = 0 then m / s + 3 else m / s + 3 + 1

/-- same with the argument checks @50-53 (`size`/`stride` must be positive → ValueError). -/
def ctrlSizeChecked (m s : Int) : Except String Nat :=
  if m ≤ 0 then .error "err:value" else if s ≤ 0 then .error "err:value"
  else .ok (ctrlSize m.toNat s.toNat)

/-- the row used for output sample `x` of a line evaluated with table `W` (`s = W.length`):
    `weight` channel `x % s` applied at control offset `x / s`. -/
def evalAt (W : List (W4 α)) (c : List α) (x : Nat) : α :=
  let s := W.length
  let i := x / s
  match W[x % s]? with
  | some w => w.dot (getZ c i) (getZ c (i + 1)) (getZ c (i + 2)) (getZ c (i + 3))
  | none => ((0 : Nat) : α)

/-- src: core/bspline.py:evaluate_cubic_bspline @366-382, one line along the evaluated axis.
    `F.conv{D}d(output, weight, groups=C)` with `weight[c·s + k, 0, :] = w[k, :]` gives channel
    `k` at position `i` = `Σ_j w[k, j]·c[i + j]` for `i < L − 3` (cross-correlation, no padding);
    `reshape (N, C, s, L−3) → transpose(2, 3) → flatten(2, 3)` puts it at flat index `i·s + k`. -/
def evalWeights (W : List (W4 α)) (c : List α) : List α :=
  (List.range ((c.length - 3) * W.length)).map (evalAt W c)

variable [LT α] [DecidableRel (α := α) (· < ·)]

/-- SPEC (not code): the uniform cubic B-spline basis function centred at 0 and its derivatives
    of order `d` as right-continuous piecewise polynomials on the knot intervals
    [-2,-1), [-1,0), [0,1), [1,2); zero elsewhere.  Written from the textbook definition. -/
def basisPiece (piece d : Nat) (x : α) : α :=
  let n (k : Nat) : α := ((k : Nat) : α)
  match piece, d with
  | 0, 0 => (x + n 2) * (x + n 2) * (x + n 2) / n 6
  | 0, 1 => (x + n 2) * (x + n 2) / n 2
  | 0, 2 => x + n 2
  | 0, 3 => n 1
  | 1, 0 => (n 4 - n 6 * x * x - n 3 * x * x * x) / n 6
  | 1, 1 => -(n 2 * x) - n 3 * x * x / n 2
  | 1, 2 => -(n 2) - n 3 * x
  | 1, 3 => -(n 3)
  | 2, 0 => (n 4 - n 6 * x * x + n 3 * x * x * x) / n 6
  | 2, 1 => -(n 2 * x) + n 3 * x * x / n 2
  | 2, 2 => -(n 2) + n 3 * x
  | 2, 3 => n 3
  | 3, 0 => (n 2 - x) * (n 2 - x) * (n 2 - x) / n 6
  | 3, 1 => -((n 2 - x) * (n 2 - x)) / n 2
  | 3, 2 => n 2 - x
  | 3, 3 => -(n 1)
  | _, _ => n 0

def basis (d : Nat) (x : α) : α :=
  let n (k : Nat) : α := ((k : Nat) : α)
  if x < -(n 2) then n 0
  else if x < -(n 1) then basisPiece 0 d x
  else if x < n 0 then basisPiece 1 d x
  else if x < n 1 then basisPiece 2 d x
  else if x < n 2 then basisPiece 3 d x
  else n 0

/-- src: core/kernels.py:cubic_bspline_value @41-63 (returns `None` for `derivative ≥ 3` inside
    the support; Python falls off the end of the function). -/
def cubicBSplineValue (x : α) (d : Nat) : Option α :=
  let n (k : Nat) : α := ((k : Nat) : α)
  let half : α := n 1 / n 2
  let t : α := if x < n 0 then -x else x                       -- abs(x)
  if ¬ (t < n 2) then some (n 0)                               -- t >= 2
  else if d = 0 then
    if t < n 1 then some (n 2 / n 3 + (half * t - n 1) * (t * t))
    else some (-((t - n 2) * (t - n 2) * (t - n 2)) / n 6)
  else if d = 1 then
    if t < n 1 then some ((n 3 / n 2 * t - n 2) * x)
    else if x < n 0 then some (half * ((t - n 2) * (t - n 2)))
    else some (-half * ((t - n 2) * (t - n 2)))
  else if d = 2 then
    if t < n 1 then some (n 3 * t - n 2) else some (-t + n 2)
  else none

/-- src: core/kernels.py:cubic_bspline1d @120-123: `4·s − 1` taps, `radius = len // 2`,
    tap `i` = `cubic_bspline_value((i − radius)/s, derivative)`. -/
def kernel1d (s d : Nat) : List (Option α) :=
  let len := 4 * s - 1
  let radius := len / 2
  (List.range len).map (fun (i : Nat) =>
    cubicBSplineValue (((((i : Nat) : Int) - ((radius : Nat) : Int) : Int) : α) / ((s : Nat) : α)) d)

/-- all taps defined (d ≤ 2) → the dense kernel; otherwise the `float(None)` TypeError. -/
def kernel1dValues (s d : Nat) : Except String (List α) :=
  let k := kernel1d (α := α) s d
  if k.all Option.isSome then .ok (k.map (fun o => o.getD ((0 : Nat) : α))) else .error "err:type"

/-- documented semantics of `F.conv_transpose1d(x, k, stride=s, padding=p, output_padding=op)`
    for one channel: `out[o] = Σ_i x[i]·k[o + p − i·s]` over the taps that exist,
    `len(out) = (L−1)·s − 2p + (K−1) + op + 1`. -/
def convTranspose1d (c k : List α) (s p op : Nat) : List α :=
  let outLen := (c.length - 1) * s + (k.length - 1) + op + 1 - 2 * p
  (List.range outLen).map (fun o =>
    sumN c.length (fun i =>
      if i * s ≤ o + p ∧ o + p - i * s < k.length then getZ c i * getZ k (o + p - i * s)
      else ((0 : Nat) : α)))

/-- src: core/bspline.py:evaluate_cubic_bspline @329-342 (`transpose=True`), one line:
    `conv(data, kernel, stride, padding=ZEROS, transpose=True)` → image.py:conv @207-209
    `margin = same_padding(K) = (K−1)/2`, @270-271 `output_padding = stride_minus_kernel_padding(1, s)
    = s − 1`, then conv1d(transpose=True) @341-352; optional slice `[s : s + m]` @339-342. -/
def evalTranspose (s : Nat) (k c : List α) (m : Option Nat) : List α :=
  let out := convTranspose1d c k s ((k.length - 1) / 2) (s - 1)
  match m with
  | none => out
  | some m => (out.drop s).take m          -- Python slice clamps to the available range

/-- src: core/bspline.py:evaluate_cubic_bspline @383-384: `output[..., 0:n]`. -/
def evalWeightsCrop (W : List (W4 α)) (c : List α) (m : Option Nat) : List α :=
  match m with
  | none => evalWeights W c
  | some m => (evalWeights W c).take m

/-- src: core/bspline.py:subdivide_cubic_bspline @415,424:
    `conv1d(output, [0.125, 0.75, 0.125], dim, padding=1)` — zero padding, same length. -/
def subdivEven (c : List α) : List α :=
  let n (k : Nat) : α := ((k : Nat) : α)
  (List.range c.length).map (fun i =>
    n 1 / n 8 * (if i = 0 then n 0 else getZ c (i - 1)) + n 3 / n 4 * getZ c i + n 1 / n 8 * getZ c (i + 1))

/-- src: core/bspline.py:subdivide_cubic_bspline @416,428: `conv1d(output, [0.5, 0.5], dim, padding=0)`. -/
def subdivOdd (c : List α) : List α :=
  let n (k : Nat) : α := ((k : Nat) : α)
  (List.range (c.length - 1)).map (fun i => n 1 / n 2 * getZ c i + n 1 / n 2 * getZ c (i + 1))

/-- src: core/bspline.py:subdivide_cubic_bspline @419-429, one line: `2L − 1` coefficients,
    even slots ← mask [1/8, 3/4, 1/8], odd slots ← mask [1/2, 1/2]. -/
def subdivide1d (c : List α) : List α :=
  (List.range (2 * c.length - 1)).map (fun j =>
    if j % 2 = 0 then getZ (subdivEven c) (j / 2) else getZ (subdivOdd c) (j / 2))

/-- src: spatial/bspline.py:BSplineTransform.grid_ @136-140, one axis: subdivide, then
    `narrow(dim, 1, data_shape[dim])` where `data_shape` is the control size for the *new* grid size. -/
def ffdRefine1d (newSize s : Nat) (c : List α) : List α :=
  ((subdivide1d c).drop 1).take (ctrlSize newSize s)

end

/-! ### N-D lifting (separable application along one tensor axis) -/
section
variable {α : Type} [Add α] [Sub α] [Mul α] [Div α] [Neg α] [NatCast α] [IntCast α]

def shapeProd (l : List Nat) : Nat := l.foldl (· * ·) 1

/-- apply a 1-D operation to every line of `t` along tensor dimension `axis`
    (what `move_dim(…, dim, 2)`/`conv`/`move_dim` back, resp. `conv1d(dim=…)`, amount to). The new
    extent is the length `f` returns for a line of the old extent. -/
def Tensor.mapAxis (f : List α → List α) (t : Tensor α) (axis : Nat) : Tensor α :=
  let z : α := ((0 : Nat) : α)
  let outer := shapeProd (t.shape.take axis)
  let n := t.shape.getD axis 1
  let inner := shapeProd (t.shape.drop (axis + 1))
  let n' := (f (List.replicate n z)).length
  let lines : Array (Array α) := (Array.range (outer * inner)).map (fun idx =>
    let o := idx / inner
    let j := idx % inner
    (f ((List.range n).map (fun i => t.data.getD ((o * n + i) * inner + j) z))).toArray)
  { shape := t.shape.set axis n',
    data := (Array.range (outer * n' * inner)).map (fun idx =>
      let o := idx / (n' * inner)
      let i := (idx / inner) % n'
      let j := idx % inner
      (lines.getD (o * inner + j) #[]).getD i z) }

variable [LT α] [DecidableRel (α := α) (· < ·)]

/-- src: core/bspline.py:evaluate_cubic_bspline @296-385.  `strideX`, `derivX` are in the
    order `(sx, …)` like the Python arguments; `outSize` is `shape` in tensor order `(…, X)`.
    `kernelDeriv`: derivative order per axis of the kernels that are passed (the harness passes
    `cubic_bspline_interpolation_weights(s, d)` resp. `cubic_bspline1d(s, d)` — what
    `BSplineTransform.register_kernels` and `spatial_derivatives(mode='bspline')` do). -/
def evaluateCubicBSpline (t : Tensor α) (strideX derivX : List Nat) (outSize : Option (List Nat))
    (transpose : Bool) : Except String (Tensor α) :=
  if t.shape.length < 3 then .error "err:value" else      -- 'data' must have shape (N, C, ..., X)
  let D := t.shape.length - 2
  if strideX.length ≠ D ∨ derivX.length ≠ D then .error "err:value" else
  if strideX.any (· < 1) then .error "err:value" else       -- 'stride' must be positive
  if transpose then
    -- @329-331: stride and kernels reversed to tensor order; conv() applies kernel i to dim 2+i
    (List.range D).foldlM (init := t) (fun (acc : Tensor α) (a : Nat) =>
      let s := strideX.getD (D - 1 - a) 1
      let d := derivX.getD (D - 1 - a) 0
      match kernel1dValues (α := α) s d with
      | Except.error e => (Except.error e : Except String (Tensor α))
      | Except.ok k =>
          let m : Option Nat := outSize.map (fun sh => sh.getD a 0)
          Except.ok (acc.mapAxis (fun c => evalTranspose s k c m) (2 + a)))
  else
    -- @367-382: dims in order x, y, z ↔ kernels (kx, ky, kz); conv needs L ≥ 4 (RuntimeError)
    let go : Except String (Tensor α) :=
      (List.range D).foldlM (init := t) (fun (acc : Tensor α) (a : Nat) =>
        let dim := t.shape.length - 1 - a                       -- SpatialDim(a).tensor_dim(ndim)
        let s := strideX.getD a 1
        let d := derivX.getD a 0
        if acc.shape.getD dim 0 < 4 then (Except.error "err:runtime" : Except String (Tensor α)) else
        Except.ok (acc.mapAxis (fun c => evalWeights (weightTable s d) c) dim))
    match go with
    | .error e => .error e
    | .ok out =>
        match outSize with
        | none => .ok out
        | some sh =>                                             -- @383-384 slice(0, n) per dim
            .ok ((List.range D).foldl (fun (acc : Tensor α) (a : Nat) =>
              acc.mapAxis (fun c => c.take (sh.getD a 0)) (2 + a)) out)

/-- src: core/bspline.py:subdivide_cubic_bspline @401-430. `dims` are *spatial* dims
    (0 = x = last tensor dim), sorted by tensor dim like the code does. -/
def subdivideCubicBSpline (t : Tensor α) (dims : List Nat) : Except String (Tensor α) :=
  if t.shape.length < 3 then .error "err:value" else       -- @405 `data.ndim < 3`
  let nd := t.shape.length
  if dims.any (fun a => nd - 2 ≤ a) then .error "err:value" else
  let tdims := (List.range nd).filter (fun td => dims.any (fun a => nd - 1 - a = td))
  -- `conv1d(output, kernel_2, padding=0)` @428 needs at least 2 coefficients (torch RuntimeError otherwise)
  tdims.foldlM (init := t) (fun (acc : Tensor α) (td : Nat) =>
    if acc.shape.getD td 0 < 2 then (Except.error "err:runtime" : Except String (Tensor α))
    else Except.ok (acc.mapAxis subdivide1d td))

/-- src: spatial/bspline.py:BSplineTransform.data_shape @76-80 (without the leading `(N, D)`):
    control sizes in tensor order for grid size `(nx, …)` and stride `(sx, …)`. -/
def ffdDataShape (sizeX strideX : List Nat) : List Nat :=
  ((sizeX.zip strideX).map (fun p => ctrlSize p.1 p.2)).reverse

/-- src: spatial/bspline.py:FreeFormDeformation.update @216-221 → evaluate_spline @193-210. -/
def ffdUpdate (params : Tensor α) (sizeX strideX : List Nat) (transpose : Bool) : Except String (Tensor α) :=
  evaluateCubicBSpline params strideX (strideX.map (fun _ => 0)) (some sizeX.reverse) transpose

/-- src: spatial/bspline.py:BSplineTransform.grid_ @125-141 for tensor `params`
    (the grid-domain check @121 is the caller's obligation). -/
def ffdGridRefine (params : Tensor α) (curSizeX newSizeX strideX : List Nat) : Except String (Tensor α) :=
  let D := curSizeX.length
  if newSizeX.length ≠ D then .error "err:value" else
  let ok := (List.range D).all (fun i =>
    newSizeX.getD i 0 = 2 * curSizeX.getD i 0 - 1 ∨ newSizeX.getD i 0 = curSizeX.getD i 0)
  if ¬ ok then .error "err:value" else
  let sub := (List.range D).filter (fun i => newSizeX.getD i 0 + 1 = 2 * curSizeX.getD i 0)
  if sub.isEmpty then .ok params else
  match subdivideCubicBSpline params sub with
  | .error e => .error e
  | .ok p =>
      let nd := params.shape.length
      let newShape := ffdDataShape newSizeX strideX            -- tensor order, without (N, D)
      -- narrow(dim, 1, new_shape[dim]) @138-140; narrow raises when 1 + len > size
      sub.foldlM (init := p) (fun (acc : Tensor α) (i : Nat) =>
        let td := nd - 1 - i
        let len := newShape.getD (td - 2) 0
        if acc.shape.getD td 0 < 1 + len then (Except.error "err:runtime" : Except String (Tensor α))
        else Except.ok (acc.mapAxis (fun c => (c.drop 1).take len) td))

/-- src: core/image.py:spatial_derivatives @1590-1630 (`mode='bspline'`, no `sigma`):
    derivative kernels per axis (`order[x-dim]` = count of the letter), `evaluate_cubic_bspline(data,
    kernel=…)`, divided by `Π spacing_i^order_i`. `orderX`, `spacingX`, `strideX` in `(x, …)` order. -/
def spatialDerivBSpline (t : Tensor α) (strideX orderX : List Nat) (spacingX : List α) : Except String (Tensor α) :=
  match evaluateCubicBSpline t strideX orderX none false with
  | .error e => .error e
  | .ok out =>
      let one : α := ((1 : Nat) : α)
      let denom := (orderX.zip spacingX).foldl (fun (acc : α) p =>
        (List.range p.1).foldl (fun a _ => a * p.2) acc) one
      if orderX.all (· = 0) then .ok out
      else .ok { out with data := out.data.map (fun v => v / denom) }

end

/-! ### control point grid -/
section
variable {α : Type} [Add α] [Sub α] [Mul α] [Div α] [Neg α] [NatCast α] [IntCast α]
  [HasFloor α] [DecidableEq α] [LT α] [DecidableRel (α := α) (· < ·)] {d : Nat}

/-- src: core/bspline.py:cubic_bspline_control_point_grid @71-83: control size, origin at image
    index `−s`, spacing `grid.spacing() * s` (control point spacing), same direction, `align_corners=True`. -/
def controlPointGrid (g : Grid d α) (m s : Fin d → Nat) : Grid d α :=
  Grid.fromOrigin (fun i => ((ctrlSize (m i) (s i) : Nat) : α))
    (g.applyTransform .grid .world false (fun i => -(((s i : Nat) : α))))
    (fun i => g.spacing i * ((s i : Nat) : α)) g.direction true

end

end Deepali
