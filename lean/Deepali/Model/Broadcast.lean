/-
  Model/Broadcast.lean — shape-driven classification of homogeneous tensors and the leading-shape
  (batch) broadcasting logic of `homogeneous_matmul`, `hmm`, `as_homogeneous_matrix` and
  `homogeneous_transform`, as functions on `List Nat` shapes (property C08).
  src: src/deepali/core/linalg.py  as_homogeneous_tensor @59-76, as_homogeneous_matrix @79-112,
       homogeneous_transform @146-196, hmm @213-214, homogeneous_matmul @240-339

  Core Lean only.  Torch primitives modelled by their documented semantics:
    * `Tensor.expand(shape)`: right-aligned, every existing dimension must be 1 or equal;
    * `torch.cat(tensors, dim)`: all tensors must have the same number of dimensions (since commit
      8afe377 `as_homogeneous_matrix` expands `eye(D)` to the leading shape first — F-08a repaired);
    * `torch.Size([]).hbcNumel() = 1`; `reshape(-1, …)` flattens the leading dimensions row-major.
  A batch of transformations is modelled as its leading shape plus a function from the *flat*
  (row-major) batch index to the transformation (`HB`).
-/
import Deepali.Model.Homog
namespace Deepali

inductive HKind where
  | translation | affine | homogeneous
  deriving DecidableEq, Repr

def hbcNumel (s : List Nat) : Nat := s.foldl (· * ·) 1

/-- `Tensor.expand`: can a tensor of shape `src` be expanded to `dst`?  (both right-aligned) -/
def hbcExpandOK (src dst : List Nat) : Bool :=
  src.length ≤ dst.length &&
    (List.zip src.reverse dst.reverse).all (fun p => p.1 = 1 || p.1 = p.2)

/-- linalg.py:as_homogeneous_tensor @63-76: full tensor shape ↦ (leading shape, D, kind). -/
def classifyShape (shape : List Nat) : Except String (List Nat × Nat × HKind) :=
  match shape with
  | [] => .error "err:value"                                   -- ndim == 0
  | [d] => .ok ([], d, .translation)                           -- ndim == 1 → unsqueeze(1)
  | _ =>
    let cols := shape.getLast!
    let rows := shape.dropLast.getLast!
    let lead := shape.dropLast.dropLast
    if cols = 1 then .ok (lead, rows, .translation)
    else if cols = rows then .ok (lead, rows, .affine)
    else if cols = rows + 1 then .ok (lead, rows, .homogeneous)
    else .error "err:value"

/-- linalg.py:homogeneous_matmul @266-291 "Unify shape of leading dimensions":
    leading shapes of `a` and `b` ↦ `leading_shape`, or the ValueError / expand RuntimeError. -/
def bcLeading (la lb : List Nat) : Except String (List Nat) :=
  let an := hbcNumel la
  let bn := hbcNumel lb
  if an > 1 then
    if bn > 1 ∧ la ≠ lb then .error "err:value"
    else if lb.length > la.length then .error "err:value"
    else if hbcExpandOK lb la then .ok la else .error "err:runtime"
  else if bn > 1 then
    if la.length > lb.length then .error "err:value"
    else if hbcExpandOK la lb then .ok lb else .error "err:runtime"
  else if la.length > lb.length then
    if hbcExpandOK lb la then .ok la else .error "err:runtime"
  else
    if hbcExpandOK la lb then .ok lb else .error "err:runtime"

/-- flat index of the operand element that ends up at flat result index `i` after
    `expand` + `reshape(-1, …)`: an operand with more than one element has the result's leading
    shape, every other operand is a single (repeated) element. -/
def bcPick (operandNumel i : Nat) : Nat := if operandNumel > 1 then i else 0

/-- result kind of one `homogeneous_matmul` step @296-333. -/
def HKind.matmul : HKind → HKind → HKind
  | .translation, .translation => .translation
  | .affine, .affine => .affine
  | _, _ => .homogeneous

/-- a batch of homogeneous transformations of one operand form. -/
structure HB (d : Nat) (α : Type) where
  lead : List Nat
  kind : HKind
  elem : Nat → H d α

section
variable {α : Type} [Add α] [Sub α] [Mul α] [Div α] [Neg α] [NatCast α] {d : Nat}

def H.kind : H d α → HKind
  | .trans _ => .translation
  | .aff _ => .affine
  | .hom _ _ => .homogeneous

/-- linalg.py:homogeneous_matmul @256-338, one step `a ∘ b` on batches. -/
def HB.matmul (a b : HB d α) : Except String (HB d α) := do
  let lead ← bcLeading a.lead b.lead
  pure ⟨lead, a.kind.matmul b.kind,
        fun i => (a.elem (bcPick (hbcNumel a.lead) i)).matmul (b.elem (bcPick (hbcNumel b.lead) i))⟩

/-- linalg.py:homogeneous_matmul(*args): left fold. -/
def HB.matmulN : HB d α → List (HB d α) → Except String (HB d α)
  | a, [] => .ok a
  | a, b :: bs => do
      let c ← a.matmul b
      HB.matmulN c bs

/-- linalg.py:as_homogeneous_matrix @99-113 on a batch: a translation gets `eye(D)` expanded to its
    leading shape in front, a square matrix a zero column, a `(D, D+1)` matrix is returned as is. -/
def HB.asMatrix (a : HB d α) : HB d α :=
  ⟨a.lead, .homogeneous, fun i => let c := (a.elem i).toHom; .hom c.1 c.2⟩

/-- linalg.py:hmm @213-214. -/
def HB.hmm (a b : HB d α) : Except String (HB d α) := do
  let c ← a.matmul b
  pure c.asMatrix

end

/-! ### homogeneous_transform -/

/-- linalg.py:homogeneous_transform @146-164: transform shape ↦ (N, D, columns). -/
def transformShape (shape : List Nat) : Except String (Nat × Nat × Nat) :=
  match shape with
  | [] => .error "err:type"
  | [d] => chk 1 d 1
  | [d, c] => chk 1 d c
  | [n, d, c] => chk n d c
  | _ => .error "err:value"
where
  chk (n d c : Nat) : Except String (Nat × Nat × Nat) :=
    if n < 1 then .error "err:value"
    else if c ≠ 1 ∧ ((1 < c ∧ c < d) ∨ c > d + 1) then .error "err:value"
    else .ok (n, d, c)

/-- kind used by @189-195 (`shape[2] == 1` is tested first; the `[:D, :D]` slice of a matrix with
    0 columns would be empty — D ≥ 1 in every accepted input). -/
def transformKind (d c : Nat) : HKind :=
  if c = 1 then .translation else if c = d + 1 then .homogeneous else .affine

/-- linalg.py:homogeneous_transform @165-184: (N, D, points shape) ↦ (output shape, expanded
    points shape `(N, …)`), or the error. -/
def transformOutShape (n d : Nat) (pshape : List Nat) : Except String (List Nat × List Nat) :=
  match pshape with
  | [] => .error "err:type"
  | [k] =>
      if k ≠ d then .error "err:value"
      else .ok (if n > 1 then [n, k] else [k], [n, k])
  | p0 :: rest =>
      if pshape.getLast! ≠ d then .error "err:value"
      else if n = 1 then .ok (pshape, pshape)
      else if p0 = 1 ∨ p0 = n then .ok (n :: rest, n :: rest)
      else .error "err:value"

/-- which (transform index, input point row) produces output row `k` of the
    `reshape(N, -1, D)` view @184: rows are split evenly over the N transforms; a points tensor that
    was expanded from a single point / a leading 1 repeats its rows for every transform. -/
def transformPick (n : Nat) (pshape : List Nat) (k : Nat) : Nat × Nat :=
  let d := pshape.getLast!
  let rowsIn := hbcNumel pshape / d
  match pshape with
  | [_] => (k, 0)                                              -- one point, expanded to N rows
  | p0 :: _ =>
      if n = 1 then (0, k)
      else
        let per := if p0 = 1 then rowsIn else rowsIn / n       -- rows per transform
        (k / per, if p0 = 1 then k % per else k)
  | [] => (0, 0)

section
variable {α : Type} [Add α] [Sub α] [Mul α] [Div α] [Neg α] [NatCast α] {d : Nat}

/-- linalg.py:homogeneous_transform @165-196 on a batch of `n` transforms `elem` and a points tensor
    of shape `pshape` whose rows (row-major, last dimension = coordinates) are `pts`:
    output shape and output rows. -/
def homogeneousTransformB (n : Nat) (elem : Nat → H d α) (vectors : Bool) (pshape : List Nat)
    (pts : Nat → Vec d α) : Except String (List Nat × (Nat → Vec d α)) := do
  let out ← transformOutShape n d pshape
  pure (out.1, fun k =>
    let p := transformPick n pshape k
    if vectors then (elem p.1).applyVec (pts p.2) else (elem p.1).apply (pts p.2))

end

end Deepali
