/-
  Model/Cube.lean — oriented bounding box defining normalised coordinates.
  src: src/deepali/core/cube.py  origin @255-262, spacing @270-272, affine @340-347,
       transform @349-410, from_grid @134-143; src/deepali/core/grid.py cube @317-327.
-/
import Deepali.Model.Grid
namespace Deepali

/-- cube.py `Cube.__slots__` @35. -/
structure Cube (d : Nat) (α : Type) where
  extent : Vec d α
  center : Vec d α
  direction : Mat d α

section
variable {α : Type} [Add α] [Sub α] [Mul α] [Div α] [Neg α] [NatCast α] [IntCast α] {d : Nat}

/-- cube.py `spacing` @270-272: `extent / 2`. -/
def Cube.spacing (c : Cube d α) : Vec d α := fun i => c.extent i / ((2 : Nat) : α)

/-- cube.py `affine` @340-342. -/
def Cube.affine (c : Cube d α) : Mat d α := c.direction.mul (Mat.diag c.spacing)

/-- cube.py `inverse_affine` @344-347. -/
def Cube.inverseAffine (c : Cube d α) : Mat d α :=
  (Mat.diag (fun i => ((1 : Nat) : α) / c.spacing i)).mul c.direction.transpose

/-- cube.py `origin()` @255-261: `center − direction · spacing`. -/
def Cube.origin (c : Cube d α) : Vec d α := c.center.sub (c.direction.mulVec c.spacing)

/-- result of `Cube.transform`: a homogeneous operand form or the error the code raises. -/
inductive CubeT (d : Nat) (α : Type) where
  | ok (h : H d α)
  | errValue

/-- cube.py `Cube.transform(axes, to_axes, to_cube=None|self, vectors)` @379-410, same-cube branch
    (`sameCube = true`) or another cube `c'`. -/
def Cube.transform (c : Cube d α) (axes toAxes : Axes) (other : Option (Cube d α)) (vectors : Bool) : CubeT d α :=
  if axes = .grid ∨ toAxes = .grid then .errValue else                                   -- @383-384
  -- @385-390: CUBE_CORNERS is an alias of CUBE for the pairs it may appear in
  let (axes, toAxes) : Axes × Axes :=
    if axes = toAxes ∧ axes = .cubeCorners then (.cube, .cube)
    else if axes = .cubeCorners ∧ toAxes = .world then (.cube, toAxes)
    else if axes = .world ∧ toAxes = .cubeCorners then (axes, .cube)
    else (axes, toAxes)
  if axes = .cubeCorners ∨ toAxes = .cubeCorners then .errValue else                     -- @391-395
  let cubeToWorld (k : Cube d α) : H d α :=
    if vectors then .aff k.affine else (H.aff k.affine).homogeneousMatrix k.center        -- @404-407
  let worldToCube (k : Cube d α) : H d α :=
    if vectors then .aff k.inverseAffine else (H.aff k.inverseAffine).hmm (.trans k.center.neg)  -- @408-412
  if axes = toAxes then
    match axes, other with
    | .world, _ => .ok (.aff Mat.one)                                                     -- @396-397
    | _, none => .ok (.aff Mat.one)
    | _, some c' =>                                                                       -- @398-403
        if vectors then .ok ((worldToCube c').matmul (cubeToWorld c))
        else .ok ((worldToCube c').hmm (cubeToWorld c))
  else if axes = .cube then .ok (cubeToWorld c)
  else .ok (worldToCube c)

end

section
variable {α : Type} [Add α] [Sub α] [Mul α] [Div α] [Neg α] [NatCast α] [IntCast α]
  [HasFloor α] [DecidableEq α] {d : Nat}

/-- cube.py `Cube.from_grid(grid, align_corners)` @134-143 / grid.py `cube()` @317-327. -/
def Cube.ofGrid (g : Grid d α) (ac : Option Bool) : Cube d α :=
  let g' := match ac with
    | some b => { g with alignCorners := b }
    | none => g
  ⟨g'.cubeExtent, g.center, g.direction⟩

end
end Deepali
