/-
  Model/CurlSpacing.lean — the `spacing` that the data-type entry point `FlowFields.curl` (and `FlowField.curl`,
  which delegates to it) passes to `U.curl` when the caller gives none.
  src: src/deepali/data/flow.py:FlowFields.curl @221-240; src/deepali/core/grid.py:Grid.size @418-423.
  Core Lean only.

  Which size the code reads. `self.grid().size()` is `torch.Size(int(n) for n in self.size_tensor())`: Python INTEGERS
  (the rounded size `where(_size == 0, 0, ceil(_size))`, not the float-valued `_size` attribute), so `n - 1` is an
  integer subtraction and `2 / n`, `2 / (n - 1)` are the float quotients of integers. The model keeps that
  representation: `Grid.sizeInt : Fin d → Int` (Model/GridOps, grid.py `size()` @418-423), cast into the scalar only under the division.
  (`Grid.sizeTensor i = (Grid.sizeInt i : α)`, proved in Proofs/FDCurlSpacing.)

  Batch items. `self.spacing()` (WORLD) is the (N, D) tensor of the spacings of EVERY item's grid, whereas
  `self.grid()` (CUBE, CUBE_CORNERS) is the grid of item 0 only. All grids of a batch have the shape of the data tensor
  (`ImageBatch.grid_` rejects any other), hence the same integral size, so the model is stated per batch item with the
  item's own grid `g`.

  Not modelled: Python's `ZeroDivisionError` of `2 / (n - 1)` for a CUBE_CORNERS field with an axis of one sample
  (`2 / 0` on Python ints raises; the total division of the model returns 0); theorems carry `2 ≤ n i` there.
-/
import Deepali.Model.GridOps
namespace Deepali

section
variable {α : Type} [Add α] [Sub α] [Mul α] [Div α] [Neg α] [NatCast α] [IntCast α] [HasFloor α] [DecidableEq α]
  {d : Nat}

/-- src: data/flow.py:FlowFields.curl @230-238, one spatial axis: the if / elif / elif / else chain on `self.axes()`
    with `sp = self.spacing()[b, i]` and `n = self.grid().size()[i]`. (`spacing = 1` is the Python int, broadcast to
    every axis by `U.curl`.) -/
def curlDefaultSpacingAt (a : Axes) (sp : α) (n : Int) : α :=
  if a = .grid then ((1 : Nat) : α)                                  -- @231-232
  else if a = .world then sp                                         -- @233-234
  else if a = .cube then ((2 : Nat) : α) / ((n : Int) : α)           -- @235-236
  else ((2 : Nat) : α) / ((n - 1 : Int) : α)                         -- @237-238 (`else`: CUBE_CORNERS)

/-- src: data/flow.py:FlowFields.curl @230-238 for the batch item with grid `g`. -/
def curlDefaultSpacing (g : Grid d α) (a : Axes) : Vec d α :=
  fun i => curlDefaultSpacingAt a (g.spacing i) (g.sizeInt i)

/-- src: data/flow.py:FlowFields.curl @230-239: a caller-given spacing is passed on unchanged. -/
def curlSpacingArg (g : Grid d α) (a : Axes) (given : Option (Vec d α)) : Vec d α :=
  match given with
  | none => curlDefaultSpacing g a
  | some s => s

end
end Deepali
