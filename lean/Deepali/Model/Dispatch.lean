/-
  Model/Dispatch.lean — property C19: tensor-subclass dispatch of deepali's image types.

  A tensor is abstracted to its shape plus, for every entry along dimension 0, a *provenance*
  (which input item the entry's data comes from: one item, several (`mixed`), or none).
  Part 1 (`torchSem`) is the TRUSTED description of what the plain torch operations do to shape and
  dim-0 provenance (documented torch semantics; validated against torch itself by the harness stream
  `torchsem` on every run).
  Part 2 transcribes the deepali code that decides type / grids / axes of the result, branch by branch:
    src/deepali/data/image.py  ImageBatch._torch_function_grid @98-146, _torch_function_result @148-166,
                               __torch_function__ @168-198, from_images @200-207, append @209-215,
                               __getitem__ @320-376, __iter__ @378-382, narrow @423-429, grid_ @259-278,
                               Image._torch_function_grid @1004-1015, _torch_function_result @1017-1030,
                               __torch_function__ @1032-1047, batch @1049-1061, narrow @1230-1234, grid_ @1091-1098
    src/deepali/data/flow.py   FlowFields.__init__ @30-83, _make_instance @85-96, _make_subitem @98-102,
                               _torch_function_axes @104-117, _torch_function_result @119-141,
                               __torch_function__ @143-159, FlowField.* @359-475, batch @482-485
    src/deepali/data/tensor.py DataTensor._make_instance @65-71, __copy__ @73-74, __deepcopy__ @76-85,
                               __reduce_ex__ @87-100
    src/deepali/data/collate.py collate_samples @38-99
  Core Lean only.
-/
namespace Deepali.Dispatch

/-! ## Part 0: provenance, abstract tensors, index helpers -/

/-- where the data of one dim-0 entry comes from -/
inductive Prov where
  | item (k : Nat)
  | mixed
  | none
  deriving DecidableEq, Repr, Inhabited

def Prov.join : Prov → Prov → Prov
  | .none, p => p
  | p, .none => p
  | .item a, .item b => if a = b then .item a else .mixed
  | _, _ => .mixed

def joinAll (l : List Prov) : Prov := l.foldr Prov.join .none

/-- abstract tensor: shape, and provenance of each entry along dim 0 (a single entry for 0-dim). -/
structure Raw where
  shape : List Nat
  prov : List Prov
  deriving DecidableEq, Repr, Inhabited

def Raw.ndim (t : Raw) : Nat := t.shape.length

def numel (s : List Nat) : Nat := s.foldr (· * ·) 1

/-- provenance list of a tensor of shape `shape` all of whose data comes from `p` -/
def repl0 (shape : List Nat) (p : Prov) : List Prov := List.replicate (shape.headD 1) p

/-- torch / python normalisation of a possibly negative dimension or index into `[0, n)` -/
def normDim (n : Nat) (d : Int) : Option Nat :=
  if 0 ≤ d then (if d.toNat < n then some d.toNat else none)
  else if 0 ≤ d + (n : Int) then some (d + (n : Int)).toNat else none

def hasDup : List Nat → Bool
  | [] => false
  | a :: l => l.contains a || hasDup l

def normDims (n : Nat) (ds : List Int) : Option (List Nat) :=
  match ds.mapM (normDim n) with
  | some l => if hasDup l then none else some l
  | none => none

/-- python slice bound for a positive step -/
def clampIdx (n : Nat) (i : Int) : Nat :=
  if i < 0 then (if i + (n : Int) < 0 then 0 else (i + (n : Int)).toNat)
  else (if i.toNat > n then n else i.toNat)

/-- indices selected by `start:stop:step` (step ≥ 1) on a sequence of length `n`
    (python `slice.indices`, identical for tuples and tensors) -/
def sliceIdx (n : Nat) (start stop : Option Int) (step : Nat) : List Nat :=
  let a := match start with | none => 0 | some s => clampIdx n s
  let b := match stop with | none => n | some s => clampIdx n s
  (List.range ((b - a + step - 1) / step)).map (fun k => a + k * step)

/-- `[l[i] for i in idx]` (indices already validated) -/
def pick {α : Type} (l : List α) (idx : List Nat) : List α := idx.filterMap (fun i => l[i]?)

def setAt (l : List Nat) (i : Nat) (v : Nat) : List Nat := l.take i ++ v :: l.drop (i + 1)
def removeAt (l : List Nat) (i : Nat) : List Nat := l.take i ++ l.drop (i + 1)
def insertAt (l : List Nat) (i : Nat) (v : Nat) : List Nat := l.take i ++ v :: l.drop i

/-- python `l[len(l) - k :] + l[: len(l) - k]` with `k = shift % len(l)`: rotation to the right (`torch.roll` along a dim) -/
def rotR {α : Type} (l : List α) (shift : Int) : List α :=
  if l.isEmpty then l else
  let k := (shift % (l.length : Int)).toNat
  l.drop (l.length - k) ++ l.take (l.length - k)

/-- lengths of the pieces of `split(size)` on a dimension of length `n` (torch: one empty piece for n = 0) -/
def splitLens (n size : Nat) : List Nat :=
  if size = 0 then [] else
  if n = 0 then [0] else
  (List.range ((n + size - 1) / size)).map (fun k => min size (n - k * size))

/-- start offsets of consecutive pieces -/
def offsets : List Nat → Nat → List Nat
  | [], _ => []
  | l :: ls, a => a :: offsets ls (a + l)

/-! ## Part 1: operations and their torch semantics (trusted, validated by the harness) -/

/-- how `dim` reached the call: omitted, positional, keyword -/
inductive DimArg where
  | dflt
  | pos (d : Int)
  | kw (d : Int)
  deriving DecidableEq, Repr

def DimArg.val : DimArg → Int
  | .dflt => 0
  | .pos d => d
  | .kw d => d

inductive Operand where
  | cur
  | other
  deriving DecidableEq, Repr

/-- one element of an index expression -/
inductive Ix where
  | int (i : Int)
  | slice (start stop step : Option Int)
  | ell
  | list (l : List Int)          -- python list / ndarray / LongTensor of indices
  | mask (l : List Bool)         -- BoolTensor / list of bool
  deriving DecidableEq, Repr

inductive Index where
  | single (i : Ix)
  | tuple (l : List Ix)
  deriving DecidableEq, Repr

/-- operation vocabulary of the property quantifier -/
inductive TOp where
  | ew                                               -- elementwise / cast / clone / detach / contiguous / in-place elementwise
  | reduce (all : Bool) (dims : List Int) (keepdim : Bool)
  | narrowF (dim start len : Int)                    -- torch.narrow(x, …) / Tensor.narrow(x, …)
  | narrowM (dim start len : Int)                    -- x.narrow(…): overridden method of ImageBatch / Image
  | select (dim idx : Int)
  | indexSelect (dim : Int) (idx : List Int)
  | cat (ops : List Operand) (dim : DimArg)
  | stack (ops : List Operand) (dim : DimArg)
  | split (size : Nat) (dim : DimArg)
  | splitL (secs : List Nat) (dim : DimArg)
  | splitWS (secs : List Nat) (dim : DimArg)
  | chunk (n : Nat) (dim : DimArg)
  | unbind (dim : DimArg)
  | tsplitN (n : Nat) (dim : DimArg)
  | tsplitL (idx : List Nat) (dim : DimArg)
  | flip (dims : List Int)
  | roll (shifts : List Int) (dims : Option (List Int))   -- dims = none: roll of the flattened tensor
  | permute (perm : List Int)
  | transpose (d0 d1 : Int)
  | expand (sizes : List Int)
  | repeat_ (reps : List Nat)
  | reshape (shape : List Int)
  | unsqueeze (dim : Int)
  | squeeze (dim : Int)
  | interp (size : List Nat)                          -- F.interpolate(x, size=…)
  | pool (sd k s : Nat)                               -- F.avg_pool{sd}d / max_pool{sd}d (x, k, s)
  | pad (pads : List Nat)                             -- F.pad(x, pads) constant mode
  | getitem (idx : Index)
  | copy | deepcopy | pickle
  | iter                                              -- tuple(x)
  | pick (j : Nat)                                    -- result[j] of a tuple result
  | fromImages                                        -- cls.from_images(list of images)
  | collate                                           -- collate_samples([{x: item} …])["x"]
  | append                                            -- cur.append(other)
  | batch                                             -- Image.batch()
  deriving DecidableEq, Repr

inductive RawRes where
  | t (r : Raw)
  | ts (l : List Raw)
  | err
  deriving Repr

def full : Ix := .slice none none none

/-- torch: an ellipsis stands for as many full slices as needed; missing trailing indices are full slices.
    `none`: 0-dim tensor, more than one ellipsis (not modelled), or too many indices. -/
def expandIndex (nd : Nat) (idx : List Ix) : Option (List Ix) :=
  let nEll := (idx.filter (· == Ix.ell)).length
  let nonEll := (idx.filter (· != Ix.ell)).length
  if nd = 0 ∨ nEll > 1 ∨ nonEll > nd then none else
  let fill := List.replicate (nd - nonEll) full
  if nEll = 1 then
    let i := idx.idxOf Ix.ell
    some (idx.take i ++ fill ++ idx.drop (i + 1))
  else some (idx ++ fill)

/-- dims 1.. of an index expression: ints remove the dim, slices resize it -/
def restOut (rest : List Ix) (restShape : List Nat) : Option (List Nat) :=
  (rest.zip restShape).foldr (fun (ixn : Ix × Nat) (acc : Option (List Nat)) =>
    match acc with
    | none => none
    | some out =>
      match ixn.1 with
      | .int i => (normDim ixn.2 i).map (fun _ => out)
      | .slice a b st =>
          let s := st.getD 1
          if s ≤ 0 then none else some ((sliceIdx ixn.2 a b s.toNat).length :: out)
      | _ => none) (some [])

/-- dim 0 of an index expression: an int removes it; a slice, index list or boolean mask selects entries -/
def indexFirst (n0 : Nat) (prov : List Prov) (ro : List Nat) : Ix → Option Raw
  | .int i =>
      match normDim n0 i with
      | none => none
      | some k => some ⟨ro, repl0 ro (prov.getD k .none)⟩
  | .slice a b st =>
      let s := st.getD 1
      if s ≤ 0 then none else
      let sel := sliceIdx n0 a b s.toNat
      some ⟨sel.length :: ro, pick prov sel⟩
  | .list l =>
      match l.mapM (normDim n0) with
      | none => none
      | some sel => some ⟨sel.length :: ro, pick prov sel⟩
  | .mask m =>
      if m.length ≠ n0 then none else
      let sel := (List.range n0).filter (fun i => m.getD i false)
      some ⟨sel.length :: ro, pick prov sel⟩
  | .ell => none

/-- torch basic/advanced indexing restricted to: at most one ellipsis, ints and slices anywhere, an
    index list or boolean mask only in first position. `none` = torch raises (or outside this fragment). -/
def rawIndex (t : Raw) (idx : List Ix) : Option Raw :=
  match expandIndex t.ndim idx, t.shape with
  | some (first :: rest), n0 :: restShape =>
    match restOut rest restShape with
    | none => none
    | some ro => indexFirst n0 t.prov ro first
  | _, _ => none

def resolveOps (ops : List Operand) (cur : Raw) (other : Option Raw) : Option (List Raw) :=
  ops.mapM (fun o => match o with | .cur => some cur | .other => other)

/-- `x.narrow(d, start, len)` for valid arguments -/
def piece (t : Raw) (d start len : Nat) : Raw :=
  ⟨setAt t.shape d len, if d = 0 then (t.prov.drop start).take len else t.prov⟩

/-- pieces of a tensor along dimension `d` with the given lengths -/
def pieces (t : Raw) (d : Nat) (lens : List Nat) : List Raw :=
  (lens.zip (offsets lens 0)).map (fun (la : Nat × Nat) => piece t d la.2 la.1)

/-- `x.select(d, k)` -/
def selectRaw (t : Raw) (d k : Nat) : Raw :=
  let sh := removeAt t.shape d
  ⟨sh, if d = 0 then repl0 sh (t.prov.getD k .none) else t.prov⟩

/-- provenance after `reshape`: new entry `j` covers the flat range `[j*M', (j+1)*M')`. -/
def reshapeProv (t : Raw) (newShape : List Nat) : List Prov :=
  let total := numel t.shape
  let l' := newShape.headD 1
  if total = 0 then List.replicate l' .none else
  let l := t.shape.headD 1
  if l' = l then t.prov else
  let m := total / l
  let m' := total / l'
  (List.range l').map (fun j =>
    let lo := j * m' / m
    let hi := ((j + 1) * m' - 1) / m
    joinAll ((t.prov.drop lo).take (hi + 1 - lo)))

/-- What the plain torch operation computes (shape and dim-0 provenance). TRUSTED; the harness stream
    `torchsem` compares it with torch on every run. Operations that are not torch calls give `err`. -/
def torchSem (op : TOp) (cur : Raw) (other : Option Raw) : RawRes :=
  let nd := cur.ndim
  let n0 := cur.shape.headD 1
  match op with
  | .ew | .copy | .deepcopy | .pickle => .t cur
  | .reduce all dims keepdim =>
      if all then .t ⟨[], [joinAll cur.prov]⟩ else
      match normDims nd dims with
      | none => .err
      | some ds =>
        let idxShape := (List.range nd).zip cur.shape
        let sh := if keepdim then idxShape.map (fun (p : Nat × Nat) => if ds.contains p.1 then 1 else p.2)
                  else (idxShape.filter (fun (p : Nat × Nat) => !ds.contains p.1)).map (·.2)
        if ds.contains 0 then .t ⟨sh, repl0 sh (joinAll cur.prov)⟩ else .t ⟨sh, cur.prov⟩
  | .narrowF dim start len | .narrowM dim start len =>
      match normDim nd dim with
      | none => .err
      | some d =>
        let n := cur.shape.getD d 0
        let s := if start < 0 then start + (n : Int) else start
        if s < 0 ∨ len < 0 ∨ s + len > (n : Int) then .err else
        .t ⟨setAt cur.shape d len.toNat, if d = 0 then (cur.prov.drop s.toNat).take len.toNat else cur.prov⟩
  | .select dim idx =>
      match normDim nd dim with
      | none => .err
      | some d =>
        match normDim (cur.shape.getD d 0) idx with
        | none => .err
        | some k => .t (selectRaw cur d k)
  | .indexSelect dim idx =>
      match normDim nd dim with
      | none => .err
      | some d =>
        let n := cur.shape.getD d 0
        if idx.any (fun i => i < 0 ∨ i ≥ (n : Int)) then .err else
        let sel := idx.map Int.toNat
        .t ⟨setAt cur.shape d sel.length, if d = 0 then pick cur.prov sel else cur.prov⟩
  | .cat ops dim =>
      match resolveOps ops cur other with
      | none => .err
      | some [] => .err
      | some (a :: rest) =>
        match normDim a.ndim dim.val with
        | none => .err
        | some d =>
          if rest.any (fun r => r.ndim ≠ a.ndim ∨ removeAt r.shape d ≠ removeAt a.shape d) then .err else
          let total := ((a :: rest).map (fun r => r.shape.getD d 0)).foldr (· + ·) 0
          let prov := if d = 0 then ((a :: rest).map (·.prov)).flatten
                      else rest.foldl (fun acc r => List.zipWith Prov.join acc r.prov) a.prov
          .t ⟨setAt a.shape d total, prov⟩
  | .stack ops dim =>
      match resolveOps ops cur other with
      | none => .err
      | some [] => .err
      | some (a :: rest) =>
        match normDim (a.ndim + 1) dim.val with
        | none => .err
        | some d =>
          if rest.any (fun r => r.shape ≠ a.shape) then .err else
          let k := rest.length + 1
          let prov := if d = 0 then (a :: rest).map (fun r => joinAll r.prov)
                      else rest.foldl (fun acc r => List.zipWith Prov.join acc r.prov) a.prov
          .t ⟨insertAt a.shape d k, prov⟩
  | .split size dim =>
      match normDim nd dim.val with
      | none => .err
      | some d =>
        let n := cur.shape.getD d 0
        if size = 0 ∧ n ≠ 0 then .err else
        if size = 0 ∨ n = 0 then .ts [⟨cur.shape, cur.prov⟩] else
        .ts ((List.range ((n + size - 1) / size)).map (fun k => piece cur d (k * size) (min size (n - k * size))))
  | .splitL secs dim | .splitWS secs dim =>
      match normDim nd dim.val with
      | none => .err
      | some d =>
        if secs.foldr (· + ·) 0 ≠ cur.shape.getD d 0 then .err else .ts (pieces cur d secs)
  | .chunk n dim =>
      match normDim nd dim.val with
      | none => .err
      | some d =>
        let len := cur.shape.getD d 0
        if n = 0 then .err else
        let size := (len + n - 1) / n
        if size = 0 then .ts (pieces cur d (List.replicate n 0)) else .ts (pieces cur d (splitLens len size))
  | .unbind dim =>
      match normDim nd dim.val with
      | none => .err
      | some d => .ts ((List.range (cur.shape.getD d 0)).map (fun k => selectRaw cur d k))
  | .iter =>
      if nd = 0 then .err else .ts ((List.range n0).map (fun k => selectRaw cur 0 k))
  | .tsplitN n dim =>
      match normDim nd dim.val with
      | none => .err
      | some d =>
        let len := cur.shape.getD d 0
        if n = 0 then .err else
        .ts (pieces cur d ((List.range n).map (fun k => len / n + (if k < len % n then 1 else 0))))
  | .tsplitL idx dim =>
      match normDim nd dim.val with
      | none => .err
      | some d =>
        let len := cur.shape.getD d 0
        let starts := (0 :: idx).map (fun s => min s len)
        let ends := (idx ++ [len]).map (fun e => min e len)
        .ts ((starts.zip ends).map (fun (se : Nat × Nat) => piece cur d se.1 (se.2 - se.1)))
  | .flip dims =>
      match normDims nd dims with
      | none => .err
      | some ds => .t ⟨cur.shape, if ds.contains 0 then cur.prov.reverse else cur.prov⟩
  | .roll shifts dims =>
      match dims with
      | some ds =>
          if shifts.length ≠ ds.length then .err else
          match ds.mapM (normDim nd) with
          | none => .err
          | some nds =>
            .t ⟨cur.shape, (shifts.zip nds).foldl (fun p (sd : Int × Nat) => if sd.2 = 0 then rotR p sd.1 else p) cur.prov⟩
      | none =>
          -- the flattened tensor is rolled: entry i receives the tail of entry i-q-1 and the head of entry i-q
          match shifts with
          | [s] =>
              let total := numel cur.shape
              if nd = 0 ∨ total = 0 then .t cur else
              let m := total / n0
              let s' := (s % (total : Int)).toNat
              let q := s' / m
              let r := s' % m
              .t ⟨cur.shape, (List.range n0).map (fun i =>
                let a := cur.prov.getD ((i + n0 - q) % n0) .none
                if r = 0 then a else Prov.join a (cur.prov.getD ((i + 2 * n0 - q - 1) % n0) .none))⟩
          | _ => .err
  | .permute perm =>
      match normDims nd perm with
      | none => .err
      | some p =>
        if p.length ≠ nd then .err else
        let sh := p.map (fun i => cur.shape.getD i 0)
        if p.head? = some 0 then .t ⟨sh, cur.prov⟩ else .t ⟨sh, repl0 sh (joinAll cur.prov)⟩
  | .transpose d0 d1 =>
      match normDim nd d0, normDim nd d1 with
      | some a, some b =>
        let sh := (List.range nd).map (fun i => cur.shape.getD (if i = a then b else if i = b then a else i) 0)
        if a = b ∨ (a ≠ 0 ∧ b ≠ 0) then .t ⟨sh, cur.prov⟩ else .t ⟨sh, repl0 sh (joinAll cur.prov)⟩
      | _, _ => .err
  | .expand sizes =>
      if sizes.length ≠ nd ∨ nd = 0 then .err else
      let ok := (sizes.zip cur.shape).all (fun (sn : Int × Nat) => sn.1 = -1 ∨ sn.1 = (sn.2 : Int) ∨ (sn.2 = 1 ∧ sn.1 ≥ 0))
      if !ok then .err else
      let sh := (sizes.zip cur.shape).map (fun (sn : Int × Nat) => if sn.1 = -1 then sn.2 else sn.1.toNat)
      .t ⟨sh, if n0 = 1 then repl0 sh (cur.prov.getD 0 .none) else cur.prov⟩
  | .repeat_ reps =>
      if reps.length < nd ∨ nd = 0 then .err else
      let extra := reps.length - nd
      let base := List.replicate extra 1 ++ cur.shape
      let sh := List.zipWith (· * ·) base reps
      let p0 := if extra = 0 then cur.prov else [joinAll cur.prov]
      .t ⟨sh, (List.replicate (reps.headD 1) p0).flatten⟩
  | .reshape shape =>
      let known := (shape.filter (· ≠ -1)).map Int.toNat
      let nNeg := (shape.filter (· = -1)).length
      let total := numel cur.shape
      let kn := numel known
      if shape.any (· < -1) ∨ nNeg > 1 then .err else
      if nNeg = 1 ∧ (kn = 0 ∨ total % kn ≠ 0) then .err else
      let sh := shape.map (fun s => if s = -1 then total / kn else s.toNat)
      if numel sh ≠ total then .err else
      if sh = [] then .t ⟨[], [joinAll cur.prov]⟩ else .t ⟨sh, reshapeProv cur sh⟩
  | .unsqueeze dim =>
      match normDim (nd + 1) dim with
      | none => .err
      | some d => .t ⟨insertAt cur.shape d 1, if d = 0 then [joinAll cur.prov] else cur.prov⟩
  | .squeeze dim =>
      match normDim nd dim with
      | none => .err
      | some d =>
        if cur.shape.getD d 0 ≠ 1 then .t cur else
        let sh := removeAt cur.shape d
        .t ⟨sh, if d = 0 then repl0 sh (cur.prov.getD 0 .none) else cur.prov⟩
  | .interp size =>
      if nd < 3 ∨ size.length ≠ nd - 2 ∨ size.any (· = 0) ∨ (cur.shape.drop 1).any (· = 0) then .err else
      .t ⟨cur.shape.take 2 ++ size, cur.prov⟩
  | .pool sd k s =>
      if (nd ≠ sd + 2 ∧ nd ≠ sd + 1) ∨ sd = 0 ∨ k = 0 ∨ s = 0 then .err else
      let lead := cur.shape.take (nd - sd)
      let sp := cur.shape.drop (nd - sd)
      -- a batch dimension of size 0 is accepted, an empty channel dimension is not
      if sp.any (· < k) ∨ (if nd = sd + 2 then lead.drop 1 else lead).any (· = 0) then .err else
      .t ⟨lead ++ sp.map (fun n => (n - k) / s + 1), cur.prov⟩
  | .pad pads =>
      if pads.length % 2 ≠ 0 ∨ pads.length > 2 * nd ∨ nd = 0 then .err else
      let np := pads.length / 2
      -- pads are given for the last dimension first
      let lr : List (Nat × Nat) := (List.range nd).map (fun i =>
        let j := nd - 1 - i
        if j < np then (pads.getD (2 * j) 0, pads.getD (2 * j + 1) 0) else (0, 0))
      let sh := List.zipWith (fun n (p : Nat × Nat) => n + p.1 + p.2) cur.shape lr
      let p0 := lr.headD (0, 0)
      .t ⟨sh, List.replicate p0.1 .none ++ cur.prov ++ List.replicate p0.2 .none⟩
  | .getitem (.single i) =>
      match rawIndex cur [i] with
      | some r => .t r
      | none => .err
  | .getitem (.tuple l) =>
      match rawIndex cur l with
      | some r => .t r
      | none => .err
  | .pick _ | .fromImages | .collate | .append | .batch => .err

/-! ## Part 2: the deepali dispatcher, transcribed -/

/-- a grid object: which input item's grid it is (`src`), its shape in tensor order (`grid.shape`), and the
    `Grid.narrow(dim, start, length)` calls applied to it (only `ImageBatch.narrow` derives grids here). -/
structure GridTag where
  src : Nat
  shape : List Nat
  hist : List (Nat × Nat × Nat)
  deriving DecidableEq, Repr, Inhabited

/-- single (non-tuple) result -/
inductive SVal where
  | plain (t : Raw)
  | batch (flow : Bool) (t : Raw) (grids : List GridTag) (axes : Nat)   -- ImageBatch / FlowFields
  | image (flow : Bool) (t : Raw) (grid : GridTag) (axes : Nat)         -- Image / FlowField
  deriving DecidableEq, Repr, Inhabited

inductive ErrKind where
  | torch        -- the torch call itself raises
  | dispatch     -- deepali raises (AssertionError, ValueError, TypeError, AttributeError, IndexError)
  | badop        -- operation not applicable to this kind of value (never generated)
  deriving DecidableEq, Repr

inductive Val where
  | one (s : SVal)
  | many (l : List SVal)
  | err (e : ErrKind)
  deriving DecidableEq, Repr

/-- axes tag `Axes.from_grid(grid)` of the default (all generated grids have `align_corners=True`) -/
def defaultAxes : Nat := 0

def SVal.raw : SVal → Raw
  | .plain t => t
  | .batch _ t _ _ => t
  | .image _ t _ _ => t

def SVal.isFlow : SVal → Bool
  | .plain _ => false
  | .batch f _ _ _ => f
  | .image f _ _ _ => f

/-- image.py:ImageBatch.__init__ @68-70 + grid_ @259-278 with a sequence of grids: ndim ≥ 4, every grid shape
    equals the spatial shape; the NUMBER of grids is not checked. -/
def mkImageBatch (t : Raw) (grids : List GridTag) : Except ErrKind SVal :=
  if t.ndim < 4 then .error .dispatch
  else if grids.any (fun g => g.shape ≠ t.shape.drop 2) then .error .dispatch
  else .ok (.batch false t grids 0)

/-- grid_ @264-270 with a single Grid: `(grid,) * N` -/
def mkImageBatch1 (t : Raw) (g : GridTag) : Except ErrKind SVal :=
  if t.ndim < 4 then .error .dispatch
  else if g.shape ≠ t.shape.drop 2 then .error .dispatch
  else .ok (.batch false t (List.replicate (t.shape.headD 0) g) 0)

/-- flow.py:FlowFields.__init__ @64-83 -/
def mkFlowFields (t : Raw) (grids : List GridTag) (axes : Option Nat) : Except ErrKind SVal :=
  match mkImageBatch t grids with
  | .error e => .error e
  | .ok _ =>
    if t.shape.getD 1 0 ≠ t.ndim - 2 then .error .dispatch
    else match axes with
      | some a => .ok (.batch true t grids a)
      | none => if grids.isEmpty then .error .dispatch else .ok (.batch true t grids defaultAxes)

def mkFlowFields1 (t : Raw) (g : GridTag) (axes : Nat) : Except ErrKind SVal :=
  mkFlowFields t (List.replicate (t.shape.headD 0) g) (some axes)

/-- image.py:Image.__init__ @978-980 + grid_ @1091-1098 -/
def mkImage (t : Raw) (g : GridTag) : Except ErrKind SVal :=
  if t.ndim < 3 then .error .dispatch
  else if g.shape ≠ t.shape.drop 1 then .error .dispatch
  else .ok (.image false t g 0)

/-- flow.py:FlowField.__init__ @391-407 -/
def mkFlowField (t : Raw) (g : GridTag) (axes : Nat) : Except ErrKind SVal :=
  match mkImage t g with
  | .error e => .error e
  | .ok _ => if t.shape.headD 0 ≠ g.shape.length then .error .dispatch else .ok (.image true t g axes)

def ofExcept : Except ErrKind SVal → Val
  | .ok s => .one s
  | .error e => .err e

/-- image.py:_make_instance @72-80 / flow.py:_make_instance @85-96 with an explicit grid sequence -/
def makeInstance (flow : Bool) (axes : Nat) (t : Raw) (grids : List GridTag) : Except ErrKind SVal :=
  if flow then
    if t.shape.getD 1 0 ≠ t.ndim - 2 then mkImageBatch t grids else mkFlowFields t grids (some axes)
  else mkImageBatch t grids

/-- same, called with ONE Grid object (`batch[...]`, `narrow`): grid_ replicates it N times -/
def makeInstance1 (flow : Bool) (axes : Nat) (t : Raw) (g : GridTag) : Except ErrKind SVal :=
  if flow then
    if t.shape.getD 1 0 ≠ t.ndim - 2 then mkImageBatch1 t g else mkFlowFields1 t g axes
  else mkImageBatch1 t g

/-- image.py:_make_subitem @82-84 / flow.py:_make_subitem @98-102 -/
def makeSubitem (flow : Bool) (axes : Nat) (t : Raw) (g : GridTag) : Except ErrKind SVal :=
  if flow ∧ t.shape.headD 0 = t.ndim - 1 then mkFlowField t g axes else mkImage t g

/-- result of `_torch_function_grid`: one grid sequence, or one sequence per split piece -/
inductive GridRes where
  | flat (g : List GridTag)
  | nested (gs : List (List GridTag))
  | raises                               -- IndexError inside `_torch_function_grid`
  deriving Repr

/-- `kwargs.get("dim", 0) == 0` as the dispatcher sees it. `torch.split`/`Tensor.split` are python wrappers
    that forward `dim` as a keyword (torch/_tensor.py:split, torch/functional.py:split); `torch.cat`,
    `split_with_sizes`, `tensor_split` are builtins: a positional `dim` is invisible to the dispatcher. -/
def kwDimIsZero : TOp → Bool
  | .cat _ (.kw d) | .splitWS _ (.kw d) | .tsplitN _ (.kw d) | .tsplitL _ (.kw d) => d == 0
  | .split _ d | .splitL _ d => d.val == 0
  | _ => true

def isSplitFamily : TOp → Bool
  | .split .. | .splitL .. | .splitWS .. | .tsplitN .. | .tsplitL .. => true
  | _ => false

/-- python `grids[a : a + n]` -/
def pySlice {α : Type} (l : List α) (a n : Nat) : List α := (l.drop a).take n

/-- python `self._grid[i]` for a tuple -/
def pyGet (grids : List GridTag) (i : Int) : Option GridTag :=
  match normDim grids.length i with
  | some k => grids[k]?
  | none => none

/-- image.py:_torch_function_grid @111 `ndim = grids[0][0].ndim + 2 if grids[0] else 0` (taken from the grids, not from
    the tensor: a property access would re-enter `__torch_function__`); 0 = empty batch -/
def gridNdim (g0 : List GridTag) : Int :=
  match g0 with
  | [] => 0
  | g :: _ => ((g.shape.length + 2 : Nat) : Int)

/-- image.py:ImageBatch._torch_function_grid @98-191. `grids` = `_grid` of every argument that has one
    (arguments of cat/stack are the members of the first positional list). -/
def torchFunctionGrid (op : TOp) (grids : List (List GridTag)) : Option GridRes :=
  match grids with
  | [] => none
  | g0 :: _ =>
    let ndim : Int := gridNdim g0
    match op with
    -- @112-113 `if ndim == 0: pass` (empty batch): the three branches are skipped, the generic code returns `grids[0]`
    | .flip dims =>                                                                      -- @114-121
        if ndim = 0 then some (.flat g0) else
        if dims.any (fun d => d % ndim == 0) then some (.flat g0.reverse) else some (.flat g0)
    | .roll shifts dims =>                                                               -- @122-135
        if ndim = 0 then some (.flat g0) else
        (match dims with
         | none => none        -- flattened roll mixes the entries of different images: demoted
         | some ds =>
           some (.flat ((shifts.zip ds).foldl (fun (g : List GridTag) (sd : Int × Int) =>
             if sd.2 % ndim == 0 && !g.isEmpty then rotR g sd.1 else g) g0)))
    | .indexSelect dim idx =>                                                            -- @136-141
        if ndim = 0 then some (.flat g0) else
        if dim % ndim == 0 then
          (match idx.mapM (pyGet g0) with
           | some gs => some (.flat gs)
           | none => some .raises)
        else some (.flat g0)
    | .permute _ | .transpose _ _ => none                                                -- @140-157 batch dim may have moved
    | _ =>
    if kwDimIsZero op then
      match op with
      | .cat _ _ => some (.flat grids.flatten)                                           -- @112-113
      | .split size _ =>                                                               -- @114-120
          if size = 0 then none   -- range() with step 0 raises ValueError (handled by caller as dispatch error)
          else some (.nested ((List.range ((g0.length + size - 1) / size)).map (fun k => pySlice g0 (k * size) size)))
      | .splitL secs _ =>                                                              -- @121-126: start += num
          some (.nested ((secs.zip (offsets secs 0)).map (fun (na : Nat × Nat) => pySlice g0 na.2 na.1)))
      | .splitWS secs _ =>                                                             -- @127-135: start += num
          some (.nested ((secs.zip (offsets secs 0)).map (fun (na : Nat × Nat) => pySlice g0 na.2 na.1)))
      | .tsplitN n _ =>                                                                -- @138-140: `n` used as a step
          if n = 0 then none
          else some (.nested ((List.range ((g0.length + n - 1) / n)).map (fun k => pySlice g0 (k * n) n)))
      | .tsplitL idx _ =>                                                              -- @141-144
          some (.nested (((0 :: idx).zip (idx ++ [g0.length])).map (fun (se : Nat × Nat) =>
            pySlice g0 (min se.1 g0.length) (min se.2 g0.length - min se.1 g0.length))))
      | _ => some (.flat g0)
    else some (.flat g0)                                                               -- @146

/-- image.py:ImageBatch._torch_function_result @148-166 -/
def ibResult (data : Raw) (grid : Option (List GridTag)) : Val :=
  match grid with
  | none => .one (.plain data)
  | some gs =>
    match gs with
    | [] => if data.ndim ≥ 4 ∧ data.shape.headD 0 = 0 then ofExcept (mkImageBatch data []) else .one (.plain data)
    | g0 :: _ =>
      if data.ndim = g0.shape.length + 2 ∧ data.shape.headD 0 = gs.length ∧ data.shape.drop 2 = g0.shape
      then ofExcept (mkImageBatch data gs) else .one (.plain data)

/-- flow.py:FlowFields._torch_function_result @119-142 -/
def ffResult (data : Raw) (grid : Option (List GridTag)) (axes : Option Nat) : Val :=
  match grid, axes with
  | some [], _ =>
      if data.ndim ≥ 4 ∧ data.shape.headD 0 = 0 then ofExcept (mkFlowFields data [] axes) else ibResult data grid
  | some (g0 :: gs), some a =>
      if data.ndim = g0.shape.length + 2 ∧ data.shape.headD 0 = (g0 :: gs).length ∧
          data.shape.getD 1 0 = g0.shape.length ∧ data.shape.drop 2 = g0.shape
      then ofExcept (mkFlowFields data (g0 :: gs) (some a)) else ibResult data grid
  | _, _ => ibResult data grid

/-- image.py:Image._torch_function_result @1017-1030 -/
def imResult (data : Raw) (grid : Option GridTag) : Val :=
  match grid with
  | some g =>
      if data.ndim = g.shape.length + 1 ∧ data.shape.drop 1 = g.shape then ofExcept (mkImage data g)
      else .one (.plain data)
  | none => .one (.plain data)

/-- flow.py:FlowField._torch_function_result @435-455 -/
def fiResult (data : Raw) (grid : Option GridTag) (axes : Option Nat) : Val :=
  match grid, axes with
  | some g, some a =>
      if data.ndim = g.shape.length + 1 ∧ data.shape.headD 0 = g.shape.length ∧ data.shape.drop 1 = g.shape
      then ofExcept (mkFlowField data g a) else imResult data grid
  | _, _ => imResult data grid

def sval? : Val → Option SVal
  | .one s => some s
  | _ => none

/-- collect single results into a tuple; an exception in any member aborts the call -/
def collect (l : List Val) : Val :=
  match l.mapM sval? with
  | some ss => .many ss
  | none => .err .dispatch

def SVal.isBatch : SVal → Bool
  | .batch .. => true
  | _ => false

def imageGrid? : SVal → Option GridTag
  | .image _ _ g _ => some g
  | _ => none

def batchGrids? : SVal → Option (List GridTag)
  | .batch _ _ g _ => some g
  | _ => none

def axes? : SVal → Option Nat
  | .batch true _ _ a => some a
  | .image true _ _ a => some a
  | _ => none

/-- members of the argument list that take part in the call (cat/stack: the listed operands, else `cur`) -/
def callArgs (op : TOp) (cur : SVal) (other : Option SVal) : Option (List SVal) :=
  match op with
  | .cat ops _ | .stack ops _ => ops.mapM (fun o => match o with | .cur => some cur | .other => other)
  | _ => some [cur]

/-- flow.py:_torch_function_axes @104-117 -/
def torchFunctionAxes (args : List SVal) : Except ErrKind (Option Nat) :=
  match args.filterMap axes? with
  | [] => .ok none
  | a :: rest => if rest.any (· ≠ a) then .error .dispatch else .ok (some a)

/-- `range(0, len(grids), step)` with step 0 raises ValueError (@119, @139) -/
def rangeStepZero : TOp → Bool
  | .split 0 _ => true
  | .tsplitN 0 _ => true
  | _ => false

/-- image.py:ImageBatch.__torch_function__ @168-198 and flow.py:FlowFields.__torch_function__ @143-159
    (the FlowFields override is selected when any argument is a FlowFields: most derived class first). -/
def batchTorchFunction (op : TOp) (cur : SVal) (other : Option SVal) : Val :=
  match torchSem op cur.raw (other.map SVal.raw) with
  | .err => .err .torch
  | res =>
    match callArgs op cur other with
    | none => .err .badop
    | some args =>
      let useFlow := args.any SVal.isFlow
      if rangeStepZero op && kwDimIsZero op then .err .dispatch else
      let grid := torchFunctionGrid op (args.filterMap batchGrids?)
      if useFlow then
        match torchFunctionAxes args with
        | .error e => .err e
        | .ok axes =>
          let one (d : Raw) : Val :=
            match grid with
            | some (.nested []) => ffResult d (some []) axes
            | some (.nested _) => .err .dispatch              -- `grid[0].ndim` on a list: AttributeError
            | some (.flat g) => ffResult d (some g) axes
            | some .raises => .err .dispatch
            | none => ffResult d none axes
          match res with
          | .t d => if isSplitFamily op then .err .dispatch else one d
          | .ts ds => if isSplitFamily op then collect (ds.map one) else .many (ds.map SVal.plain)   -- @123-124 non-tensor returned as is
          | .err => .err .torch
      else
        match res with
        | .t d =>
            if isSplitFamily op then .err .dispatch else
            (match grid with
             | some (.flat g) => ibResult d (some g)
             | some (.nested _) => .err .dispatch
             | some .raises => .err .dispatch
             | none => ibResult d none)
        | .ts ds =>
            if isSplitFamily op then
              match grid with
              | some (.nested gs) =>                                                    -- @186-197
                  if gs.length ≠ ds.length then .err .dispatch
                  else if (ds.zip gs).any (fun (dg : Raw × List GridTag) => dg.1.shape.headD 0 ≠ dg.2.length) then .err .dispatch
                  else collect ((ds.zip gs).map (fun (dg : Raw × List GridTag) => ibResult dg.1 (some dg.2)))
              | _ => .err .dispatch       -- flat: len(grid) != len(data) or members are not sequences
            else .many (ds.map SVal.plain)
        | .err => .err .torch

/-- image.py:Image.__torch_function__ @1032-1047, flow.py:FlowField.__torch_function__ @457-475 -/
def imageTorchFunction (op : TOp) (cur : SVal) (other : Option SVal) : Val :=
  match torchSem op cur.raw (other.map SVal.raw) with
  | .err => .err .torch
  | res =>
    match callArgs op cur other with
    | none => .err .badop
    | some args =>
      if args.any SVal.isBatch then .err .badop else
      let grid := (args.filterMap imageGrid?).head?
      let useFlow := args.any SVal.isFlow
      match (if useFlow then torchFunctionAxes args else .ok none) with
      | .error e => .err e
      | .ok axes =>
        let one (d : Raw) : Val := if useFlow then fiResult d grid axes else imResult d grid
        match res with
        | .t d => one d
        | .ts ds => if isSplitFamily op then collect (ds.map one) else .many (ds.map SVal.plain)
        | .err => .err .torch

def keepFirstEll : List Ix → Bool → List Ix
  | [], _ => []
  | .ell :: l, seen => if seen then keepFirstEll l true else .ell :: keepFirstEll l true
  | x :: l, seen => x :: keepFirstEll l seen

def isFullSlice (n : Nat) : Ix → Bool
  | .slice a b s => (a = none ∨ a = some 0) ∧ (b = none ∨ b = some (n : Int)) ∧ (s = none ∨ s = some 1)
  | _ => false

inductive GridSel where
  | oneGrid (g : GridTag)
  | manyGrids (gs : List GridTag)

/-- image.py:__getitem__ @327-350: index normalisation. Result: the index tuple and `is_multi_index`;
    `none` = `index[-1]` on an empty list raises IndexError. -/
def normIndex (nd : Nat) : Index → Option (List Ix × Bool)
  | .tuple l =>
      let l1 := keepFirstEll l false                                            -- @329 resolve additional ellipses
      match l1.getLast? with
      | none => none
      | some last =>
        let l2 := if last == Ix.ell then l1.dropLast else l1                     -- @331-332 discard trailing ellipsis
        if l2.contains Ix.ell then                                               -- @334-339 substitute the remaining one
          let i := l2.idxOf Ix.ell
          let j := l2.length - i - 1
          some (l2.take i ++ List.replicate (nd - i - j) full ++ l2.drop (l2.length - j), true)
        else some (l2, true)
  | .single (.int i) => some ([.int i], false)                                   -- @349-350
  | .single ix => some ([ix], true)                                              -- @342-347

/-- image.py:__getitem__ @354-358: which grid(s) the first index selects -/
def gridSel (grids : List GridTag) : Ix → Option GridSel
  | .list l => (l.mapM (pyGet grids)).map GridSel.manyGrids
  | .mask m =>                                                                   -- @358-361: mask.nonzero().flatten()
      ((((List.range m.length).filter (fun i => m.getD i false)).map Int.ofNat).mapM (pyGet grids)).map
        GridSel.manyGrids
  | .int i => (pyGet grids i).map GridSel.oneGrid
  | .slice a b s => some (.manyGrids (pick grids (sliceIdx grids.length a b ((s.getD 1).toNat))))
  | .ell => none

/-- image.py:__getitem__ @351-376 for a normalised index -/
def getitemCore (flow : Bool) (axes : Nat) (t : Raw) (grids : List GridTag) (idx : List Ix) (multi : Bool) : Val :=
  match rawIndex t idx with                                                    -- @351 data = self.tensor()[index]
  | none => .err .torch
  | some data =>
    let secondIsInt : Bool := match idx[1]? with | some (Ix.int _) => true | _ => false
    if multi && secondIsInt then .one (.plain data) else                         -- @352-353
    match idx.head? with
    | none => .err .dispatch                                                   -- index[0] of an empty tuple
    | some gi =>
      match gridSel grids gi with
      | none => .err .dispatch
      | some sel =>
        let sameGrid := ((idx.drop 2).zip (t.shape.drop 2)).all (fun (p : Ix × Nat) => isFullSlice p.2 p.1)   -- @359-369
        if multi && decide (idx.length > 2) && !sameGrid then .one (.plain data) else
        match sel with
        | .oneGrid g => if data.ndim < 3 then .one (.plain data) else ofExcept (makeSubitem flow axes data g)   -- @370-373
        | .manyGrids gs => if data.ndim < 4 then .one (.plain data) else ofExcept (makeInstance flow axes data gs)  -- @374-376

/-- image.py:ImageBatch.__getitem__ @320-376 -/
def batchGetitem (flow : Bool) (axes : Nat) (t : Raw) (grids : List GridTag) (index : Index) : Val :=
  match index with
  | .single .ell => ofExcept (makeInstance flow axes t grids)                     -- @327-328: all grids
  | _ =>
    match normIndex t.ndim index with
    | none => .err .dispatch
    | some (idx, multi) => getitemCore flow axes t grids idx multi

/-- image.py:ImageBatch.__iter__ @378-382 -/
def batchIter (flow : Bool) (axes : Nat) (t : Raw) (grids : List GridTag) : Val :=
  collect ((List.range (t.shape.headD 0)).map (fun k =>
    match grids[k]? with
    | none => Val.err .dispatch
    | some g => ofExcept (makeSubitem flow axes (selectRaw t 0 k) g)))

/-- core/grid.py:Grid.narrow @1503-1516 on the tag: tensor-order axis `sd-1-gdim` gets `length` -/
def GridTag.narrow (g : GridTag) (gdim start length : Nat) : GridTag :=
  ⟨g.src, setAt g.shape (g.shape.length - 1 - gdim) length, g.hist ++ [(gdim, start, length)]⟩

/-- image.py:ImageBatch.narrow @428-438 (a negative dim is normalised before the grids are selected). -/
def batchNarrow (flow : Bool) (axes : Nat) (t : Raw) (grids : List GridTag) (dim start len : Int) : Val :=
  match torchSem (.narrowF dim start len) t none with
  | .t data =>
    let dim : Int := if dim < 0 then dim + (t.ndim : Int) else dim                 -- @432-433 `if dim < 0: dim += self.ndim`
    let gs' : Option (List GridTag) :=
      if dim = 0 then                                                              -- grid[start : start + length]
        (if 0 ≤ start ∧ 0 ≤ len then some (pySlice grids start.toNat len.toNat)    -- (python slice, non-negative bounds)
         else some (pick grids (sliceIdx grids.length (some start) (some (start + len)) 1)))
      else if dim > 1 then
        let gd := (t.ndim : Int) - dim - 1
        grids.mapM (fun g =>
          if gd < 0 ∨ gd > (g.shape.length : Int) then none else some (g.narrow gd.toNat start.toNat len.toNat))
      else some grids
    match gs' with
    | none => .err .dispatch
    | some gs' => ofExcept (makeInstance flow axes data gs')
  | _ => .err .torch

/-- image.py:Image.batch @1049-1061 / flow.py:FlowField.batch @482-485 -/
def imageBatch (flow : Bool) (axes : Nat) (t : Raw) (g : GridTag) : Except ErrKind SVal :=
  let data : Raw := ⟨1 :: t.shape, [joinAll t.prov]⟩
  if flow then mkFlowFields1 data g axes else mkImageBatch1 data g

/-- image.py:from_images @200-207 (the class is that of the caller: FlowFields when the items are flow fields).
    FlowFields.from_images re-creates the batch with the items' common axes. -/
def fromImages (l : List SVal) : Val :=
  match l.mapM (fun s => match s with | .image f t g _ => some (f, t, g) | _ => none) with
  | none =>
      -- batches are DataTensors too: `image.grid()` is grid 0, data gets one more dimension → grid_ raises
      .err .dispatch
  | some [] => .err .torch
  | some ((f, t0, g0) :: rest) =>
      if rest.any (fun x => x.2.1.shape ≠ t0.shape) then .err .torch else
      let all := (f, t0, g0) :: rest
      let data : Raw := ⟨all.length :: t0.shape, all.map (fun x => joinAll x.2.1.prov)⟩
      let grids := all.map (fun x => x.2.2)
      if f then
        -- flow.py:FlowFields.from_images @123-128: super().from_images (default axes), then the items' common axes
        match mkFlowFields data grids none with
        | .error e => .err e
        | .ok b =>
          match torchFunctionAxes l with
          | .error e => .err e
          | .ok none => .one b
          | .ok (some a) => ofExcept (mkFlowFields data grids (some a))
      else ofExcept (mkImageBatch data grids)

/-- collate.py:collate_samples @38-99 for one field holding images / flow fields / batches -/
def collate (l : List SVal) : Val :=
  match l with
  | [] => .err .dispatch
  | .image f t0 g0 a0 :: rest =>
      match rest.mapM (fun s => match s with | .image f' t g a => if f' = f then some (t, g, a) else none | _ => none) with
      | none => .err .dispatch                                                    -- TypeError: not the same type
      | some items =>
        if f ∧ items.any (fun x => x.2.2 ≠ a0) then .err .dispatch else           -- mixed axes
        if items.any (fun x => x.1.shape ≠ t0.shape) then .err .torch else
        let all := (t0, g0, a0) :: items
        let data : Raw := ⟨all.length :: t0.shape, all.map (fun x => joinAll x.1.prov)⟩
        let grids := all.map (fun x => x.2.1)
        if f then ofExcept (mkFlowFields data grids (some a0)) else ofExcept (mkImageBatch data grids)
  | .batch f t0 g0 a0 :: rest =>
      match rest.mapM (fun s => match s with | .batch f' t g a => if f' = f then some (t, g, a) else none | _ => none) with
      | none => .err .dispatch
      | some items =>
        if f ∧ items.any (fun x => x.2.2 ≠ a0) then .err .dispatch else
        if items.any (fun x => x.1.shape.drop 1 ≠ t0.shape.drop 1) then .err .torch else
        let all := (t0, g0, a0) :: items
        let n := (all.map (fun x => x.1.shape.headD 0)).foldr (· + ·) 0
        let data : Raw := ⟨n :: t0.shape.drop 1, (all.map (fun x => x.1.prov)).flatten⟩
        let grids := (all.map (fun x => x.2.1)).flatten
        if f then ofExcept (mkFlowFields data grids (some a0)) else ofExcept (mkImageBatch data grids)
  | .plain t0 :: rest =>                                                          -- default_collate = torch.stack
      match rest.mapM (fun s => match s with | .plain t => some t | _ => none) with
      | none => .err .dispatch
      | some ts =>
        if ts.any (fun t => t.shape ≠ t0.shape) then .err .torch else
        .one (.plain ⟨(ts.length + 1) :: t0.shape, (t0 :: ts).map (fun t => joinAll t.prov)⟩)

/-- image.py:append @209-215 -/
def batchAppend (flow : Bool) (axes : Nat) (t : Raw) (grids : List GridTag) (other : Option SVal) : Val :=
  match other with
  | some (.batch fo t' grids' ao) =>
      -- flow.py:FlowFields.append @130-133: `_torch_function_axes([self, other])` raises for mismatching axes
      if flow ∧ fo ∧ ao ≠ axes then .err .dispatch else
      if t'.ndim ≠ t.ndim ∨ t'.shape.drop 1 ≠ t.shape.drop 1 then .err .torch else
      ofExcept (makeInstance flow axes ⟨(t.shape.headD 0 + t'.shape.headD 0) :: t.shape.drop 1, t.prov ++ t'.prov⟩ (grids ++ grids'))
  | some _ => .err .dispatch
  | none => .err .badop

/-- tensor.py:__copy__ @73-74: `self._make_instance()`; flow.py:_make_instance @85-100 / @426-435 default `data` to
    `self.tensor()` / `self` and `grid` to `self._grid` and keep the axes. -/
def copyVal (s : SVal) : Val :=
  match s with
  | .plain t => .one (.plain t)
  | .batch false t g _ => ofExcept (mkImageBatch t g)
  | .image false t g _ => ofExcept (mkImage t g)
  | .batch true t g a => ofExcept (makeInstance true a t g)
  | .image true t g a => ofExcept (mkFlowField t g a)

/-- tensor.py/image.py:__deepcopy__ (data cloned, grids cloned, axes kept) -/
def deepcopyVal (s : SVal) : Val :=
  match s with
  | .plain t => .one (.plain t)
  | .batch f t g a => ofExcept (makeInstance f a t g)
  | .image false t g _ => ofExcept (mkImage t g)
  | .image true t g a => ofExcept (mkFlowField t g a)

/-- tensor.py:__reduce_ex__ @87-100 + _rebuild_from_type: the type and `__dict__` (`_grid`, `_axes`) travel as they are -/
def pickleVal (s : SVal) : Val := .one s

/-- result of a torch call on plain tensors -/
def plainVal : RawRes → Val
  | .t r => .one (.plain r)
  | .ts l => .many (l.map SVal.plain)
  | .err => .err .torch

/-- one operation applied to a single value -/
def stepOne (other : Option SVal) (op : TOp) (cur : SVal) : Val :=
  match op, cur with
  | .pick _, _ | .fromImages, _ | .collate, _ => .err .badop
  | .copy, s => copyVal s
  | .deepcopy, s => deepcopyVal s
  | .pickle, s => pickleVal s
  -- plain tensors: torch only
  | op, .plain t =>
      (match op with
       | .append | .batch => .err .badop
       | _ => plainVal (torchSem op t (other.map SVal.raw)))
  -- batches: overridden methods first
  | .getitem idx, .batch f t g a => batchGetitem f a t g idx
  | .iter, .batch f t g a => batchIter f a t g
  | .narrowM d s l, .batch f t g a => batchNarrow f a t g d s l
  | .append, .batch f t g a => batchAppend f a t g other
  | .batch, .batch .. => .err .badop
  | op, .batch f t g a => batchTorchFunction op (.batch f t g a) other
  -- single images
  | .narrowM d s l, .image f t g a =>                                          -- image.py:Image.narrow @1230-1234
      (match imageBatch f a t g with
       | .error e => .err e
       | .ok (.batch f' t' g' a') =>
           (match batchNarrow f' a' t' g' (d + 1) s l with
            | .one (.batch f'' t'' g'' a'') => batchGetitem f'' a'' t'' g'' (.single (.int 0))
            | .one _ => .err .badop
            | v => v)
       | .ok _ => .err .badop)
  | .batch, .image f t g a => ofExcept (imageBatch f a t g)
  | .append, .image .. => .err .badop
  | op, .image f t g a => imageTorchFunction op (.image f t g a) other

/-- one operation applied to a tuple result -/
def stepMany (op : TOp) (l : List SVal) : Val :=
  match op with
  | .pick j => match l[j]? with | some s => .one s | none => .err .badop
  | .fromImages => fromImages l
  | .collate => collate l
  | _ => .err .badop

/-- one program step; an exception ends the program (nothing is yielded, DESIGN §5.0 I-1) -/
def step (other : Option SVal) (op : TOp) : Val → Val
  | .err e => .err e
  | .many l => stepMany op l
  | .one s => stepOne other op s

def runProg (other : Option SVal) (prog : List TOp) (v : Val) : Val :=
  prog.foldl (fun acc op => step other op acc) v

/-- all intermediate results (what the harness compares step by step) -/
def trace (other : Option SVal) : List TOp → Val → List Val
  | [], _ => []
  | op :: ops, v => let v' := step other op v; v' :: trace other ops v'

/-- a fresh input batch: items `base … base+n-1`, item `k` has data tag `k` and grid tag `k` -/
def mkInput (flow : Bool) (n c : Nat) (spatial : List Nat) (base axes : Nat) : SVal :=
  .batch flow ⟨n :: c :: spatial, (List.range n).map (fun i => Prov.item (base + i))⟩
    ((List.range n).map (fun i => (⟨base + i, spatial, []⟩ : GridTag))) axes

def mkInputImage (flow : Bool) (c : Nat) (spatial : List Nat) (id axes : Nat) : SVal :=
  .image flow ⟨c :: spatial, List.replicate c (Prov.item id)⟩ ⟨id, spatial, []⟩ axes

end Deepali.Dispatch
