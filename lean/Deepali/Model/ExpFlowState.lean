/-
  Model/ExpFlowState.lean — the STATE of the exponential-map module (`scale`, `steps`, `align_corners`) and the two doors
  through which the transform classes hand it on: `ExpFlow.inverse()` and `StationaryVelocityFieldTransform.grid_()` /
  `.inverse()`. Core Lean only.
  src: src/deepali/modules/flow.py ExpFlow.__init__ @51-69, forward @71-76, inv @78-88, inverse @90-94;
       src/deepali/spatial/nonrigid.py StationaryVelocityFieldTransform.grid_ @247-255, inverse @257-288, update @290-297.

  A `shallow_copy` has the same attributes as the object it copies, so "copy, then assign one attribute" is a record
  update: every attribute that is not assigned is KEPT. (Sharing of the copied module between shallow copies of a transform
  is the aliasing question of C07, not modelled here: `grid_` copies precisely so that it never writes into a shared module.)
-/
import Deepali.Model.FlowOps
namespace Deepali

/-- modules/flow.py `ExpFlow` @51-69: the three attributes `forward` reads. -/
structure ExpFlowCfg (α : Type) where
  scale : α
  steps : Nat
  alignCorners : Bool

section
variable {α : Type} [Mul α] [Neg α] [NatCast α]

/-- src: modules/flow.py:ExpFlow.inverse @90-94 (`copy = shallow_copy(self); copy.scale *= -1; return copy`); the
    property `inv` @78-88 returns `self.inverse()`. -/
def ExpFlowCfg.inverse (cfg : ExpFlowCfg α) : ExpFlowCfg α :=
  { cfg with scale := cfg.scale * (-((1 : Nat) : α)) }

/-- a shallow copy whose `align_corners` attribute is assigned
    (nonrigid.py @252-253: `exp = shallow_copy(self.exp); exp.align_corners = …`). -/
def ExpFlowCfg.withAlignCorners (cfg : ExpFlowCfg α) (b : Bool) : ExpFlowCfg α :=
  { cfg with alignCorners := b }

/-- src: modules/flow.py:ExpFlow.forward @73-76: the arguments `U.expv` is called with (`scale = self.scale`,
    `if inverse: scale *= -1`, `steps=self.steps`, `align_corners=self.align_corners`; the `inverse` argument of `expv`
    itself is left at its default `False`, `padding` at `border`, `sampling` at `linear`). -/
def ExpFlowCfg.expvArgs (cfg : ExpFlowCfg α) (inverseFlag : Bool) : ExpFlowCfg α :=
  let scale := cfg.scale
  let scale := if inverseFlag then scale * (-((1 : Nat) : α)) else scale
  { scale := scale, steps := cfg.steps, alignCorners := cfg.alignCorners }

/-- src: spatial/nonrigid.py:StationaryVelocityFieldTransform.grid_ @250-255: the `exp` module after re-gridding onto a
    grid whose `align_corners()` is `gridAC` — unchanged when the flags agree, else a copy with the flag replaced. -/
def svfRegrid (cfg : ExpFlowCfg α) (gridAC : Bool) : ExpFlowCfg α :=
  if cfg.alignCorners ≠ gridAC then cfg.withAlignCorners gridAC else cfg

/-- src: spatial/nonrigid.py:StationaryVelocityFieldTransform.inverse @279-282: the `exp` module of the inverse transform
    (`inv.exp = cast(ExpFlow, self.exp).inverse()`). -/
def svfInverse (cfg : ExpFlowCfg α) : ExpFlowCfg α := cfg.inverse

end

section
variable {α : Type} [Add α] [Sub α] [Mul α] [Div α] [Neg α] [NatCast α] [IntCast α]
  [HasFloor α] [LT α] [DecidableRel (α := α) (· < ·)] {d : Nat}

/-- src: modules/flow.py:ExpFlow.forward @71-76 on a velocity field sampled on a grid of size `n`
    (`StationaryVelocityFieldTransform.update` @293-294 calls it as `self.exp(v)`). -/
def ExpFlowCfg.apply (cfg : ExpFlowCfg α) (n : Fin d → Nat) (v : VField d α) (inverseFlag : Bool) : VField d α :=
  let a := cfg.expvArgs inverseFlag
  expv a.alignCorners .border n a.scale false a.steps v

end
end Deepali
