/-
  Model/FD.lean — finite-difference stencils, spatial_derivatives, derivative keys.
  src: src/deepali/core/image.py (finite_differences @1667-1776, spatial_derivatives @1458-1664,
       conv1d @297-359), src/deepali/core/enum.py (SpatialDim @124-162, SpatialDerivativeKeys
       @170-257, FlowChannelIndex @260-287, FlowDerivativeKeys @295-527),
       src/deepali/core/bspline.py (evaluate_cubic_bspline non-transpose branch @344-385).
  Core Lean only.  A 1-D signal is an index function `Int → α` together with its length `n`;
  a D-dimensional array (one batch item, one channel) is `(Fin D → Int) → α` on the box
  `0 ≤ idx d < sz d`, where `d` is the *spatial* dimension (x = 0, i.e. the LAST tensor axis).
  torch primitives are modelled by their documented semantics:
  `F.pad(mode="replicate")` = index clamping, `F.conv1d(padding=m)` = zero-padded
  cross-correlation (`padding=0`: no padding), slicing = index shift, `torch.cat` = piecewise definition.
-/
import Deepali.Model.Vec
namespace Deepali
namespace FD

/-- index into a D-dimensional array, by spatial dimension (x first). -/
abbrev Idx (D : Nat) := Fin D → Int
/-- one batch item / one channel of an image tensor. -/
abbrev Arr (D : Nat) (α : Type) := Idx D → α

/-- replace coordinate `a` of an index. -/
def setIdx {D} (idx : Idx D) (a : Fin D) (k : Int) : Idx D := fun j => if j = a then k else idx j

/-- apply a 1-D operator along spatial dimension `a` (all other coordinates fixed). -/
def alongAxis {D} {α β : Type} (a : Fin D) (op : (Int → α) → (Int → β)) (A : Arr D α) : Arr D β :=
  fun idx => op (fun k => A (setIdx idx a k)) (idx a)

/-- torch `F.pad(..., mode="replicate")` on one axis: padded index `k` reads `clamp(k - left)`. -/
def clampIdx (n : Nat) (i : Int) : Int :=
  if i < 0 then 0 else if (n : Int) ≤ i then (n : Int) - 1 else i

/-- src: image.py:finite_differences.pad_spatial_dim @1724-1727. -/
def padReplicate {α : Type} (n left : Nat) (f : Int → α) : Int → α :=
  fun k => f (clampIdx n (k - (left : Int)))

/-- finite_differences modes. src: image.py:finite_differences @1704. -/
inductive FDMode | forward | backward | central | fcb
  deriving DecidableEq, Repr, Inhabited

/-- spatial_derivatives modes handled here (finite-difference family). src: image.py @1559. -/
inductive SDMode | forward | backward | central | fcb | prewitt | sobel
  deriving DecidableEq, Repr, Inhabited

/-- src: image.py:spatial_derivatives @1563-1570 (`fd_mode`). -/
def SDMode.fdMode : SDMode → FDMode
  | .forward => .forward
  | .backward => .backward
  | .central => .central
  | .fcb => .fcb
  | .prewitt => .fcb
  | .sobel => .fcb

section Stencils
variable {α : Type} [Add α] [Sub α] [Mul α] [Div α] [Neg α] [NatCast α] [IntCast α]

/-- src: image.py:finite_differences.finite_difference @1729-1734:
    `h = step_size * (j.start - i.start)`; `data[j].sub(data[i]).div_(h)`; output index `k`
    reads `data[j.start + k]` and `data[i.start + k]`. -/
def finiteDifference (f : Int → α) (istart jstart : Int) (h : α) : Int → α :=
  fun k => (f (jstart + k) - f (istart + k)) / (h * ((jstart - istart : Int) : α))

/-- src: image.py:finite_differences @1736-1772 (order == 1), output indices `0 ≤ k < n`.
    `n` = size of the axis, `dil` = dilation, `h` = spacing of this batch item along the axis. -/
def finiteDifferences (mode : FDMode) (n dil : Nat) (h : α) (f : Int → α) : Int → α :=
  match mode with
  | .forward =>   -- pad (0, dil); i = [0, n), j = [dil, n + dil)
      finiteDifference (padReplicate n 0 f) 0 (dil : Int) h
  | .backward =>  -- pad (dil, 0); i = [0, n), j = [dil, n + dil)
      finiteDifference (padReplicate n dil f) 0 (dil : Int) h
  | .central =>   -- pad (dil, dil); i = [0, n), j = [2 dil, n + 2 dil)
      finiteDifference (padReplicate n dil f) 0 (2 * (dil : Int)) h
  | .fcb => fun k =>
      if k < (dil : Int) then
        -- lower: i = [0, dil), j = [dil, 2 dil)
        finiteDifference f 0 (dil : Int) h k
      else if k < (n : Int) - (dil : Int) then
        -- central: i = [0, n - 2 dil), j = [2 dil, n); placed after `lower` by torch.cat
        finiteDifference f 0 (2 * (dil : Int)) h (k - (dil : Int))
      else
        -- upper: i = [n - 2 dil, n - dil), j = [n - dil, n)
        finiteDifference f ((n : Int) - 2 * (dil : Int)) ((n : Int) - (dil : Int)) h (k - ((n : Int) - (dil : Int)))

/-- src: image.py:finite_differences @1753-1758: the only shape-dependent rejection. -/
def finiteDifferencesOk (mode : FDMode) (n dil : Nat) : Bool :=
  match mode with
  | .fcb => decide (2 * dil ≤ n)
  | _ => true

/-- zero padding of `F.conv1d(padding=1)` (used by the averaging BEFORE the repair of F-17d; kept). -/
def zeroPad (n : Nat) (f : Int → α) : Int → α :=
  fun k => if 0 ≤ k ∧ k < (n : Int) then f k else ((0 : Nat) : α)

/-- BEFORE the repair of F-17d: image.py:conv1d @297-359 with a 3-tap kernel and integer `padding=1`
    (→ PaddingMode.ZEROS, margin 1): zero-padded cross-correlation, same length. Kept for reference
    (`avgPerpZero`, `sdStepZero`); not what the code does now. -/
def conv3Zero (n : Nat) (w0 w1 w2 : α) (f : Int → α) : Int → α :=
  fun k => w0 * zeroPad n f (k - 1) + w1 * zeroPad n f k + w2 * zeroPad n f (k + 1)

/-- src: image.py:spatial_derivatives @1579-1582 (repair of F-17d):
    `F.pad(result, (1, 1) on this axis, mode="replicate")` then `conv1d(result, avg_kernel, dim, padding=0)`
    (cross-correlation without padding; conv1d @297-359). With `P[m] = f[clamp(m − 1)]` the output index
    `0 ≤ k < n` reads `P[k], P[k+1], P[k+2] = f[max(k−1, 0)], f[k], f[min(k+1, n−1)]`
    (`Proofs/FDField.conv3_eq_padReplicate` states this against `padReplicate`). -/
def conv3 (n : Nat) (w0 w1 w2 : α) (f : Int → α) : Int → α :=
  fun k => w0 * f (if k - 1 < 0 then 0 else k - 1) + w1 * f k
    + w2 * f (if (n : Int) ≤ k + 1 then (n : Int) - 1 else k + 1)

/-- src: image.py:spatial_derivatives @1563-1566: `[1, c, 1] / sum` with c = 1 (prewitt), 2 (sobel). -/
def SDMode.avgKernel : SDMode → Option (α × α × α)
  | .prewitt => some (((1 : Nat) : α) / ((3 : Nat) : α), ((1 : Nat) : α) / ((3 : Nat) : α), ((1 : Nat) : α) / ((3 : Nat) : α))
  | .sobel => some (((1 : Nat) : α) / ((4 : Nat) : α), ((2 : Nat) : α) / ((4 : Nat) : α), ((1 : Nat) : α) / ((4 : Nat) : α))
  | _ => none

/-- averaging perpendicular to `a`. src: image.py:spatial_derivatives @1576-1582
    (`for d in range(D) if d != sdim: result = F.pad(result, …, "replicate"); result = conv1d(result, avg_kernel, dim, padding=0)`). -/
def avgPerp {D} (sz : Fin D → Nat) (w : α × α × α) (a : Fin D) (dims : List (Fin D)) (A : Arr D α) : Arr D α :=
  dims.foldl (fun R d => if d = a then R else alongAxis d (conv3 (sz d) w.1 w.2.1 w.2.2) R) A

/-- one first-derivative step of `spatial_derivatives` along spatial dimension `a`.
    src: image.py:spatial_derivatives @1574-1586; `sp a` is `spacing[b, sdim]` of this batch item. -/
def sdStep {D} (mode : SDMode) (sz : Fin D → Nat) (sp : Fin D → α) (a : Fin D) (A : Arr D α) : Arr D α :=
  let R := match (mode.avgKernel : Option (α × α × α)) with
    | none => A
    | some w => avgPerp sz w a (List.finRange D) A
  alongAxis a (finiteDifferences mode.fdMode (sz a) 1 (sp a)) R

/-- BEFORE the repair of F-17d: zero-padded averaging perpendicular to `a`. -/
def avgPerpZero {D} (sz : Fin D → Nat) (w : α × α × α) (a : Fin D) (dims : List (Fin D)) (A : Arr D α) : Arr D α :=
  dims.foldl (fun R d => if d = a then R else alongAxis d (conv3Zero (sz d) w.1 w.2.1 w.2.2) R) A

/-- BEFORE the repair of F-17d: derivative step with zero-padded prewitt / sobel averaging. -/
def sdStepZero {D} (mode : SDMode) (sz : Fin D → Nat) (sp : Fin D → α) (a : Fin D) (A : Arr D α) : Arr D α :=
  let R := match (mode.avgKernel : Option (α × α × α)) with
    | none => A
    | some w => avgPerpZero sz w a (List.finRange D) A
  alongAxis a (finiteDifferences mode.fdMode (sz a) 1 (sp a)) R

end Stencils

/-! ### derivative dictionaries (pure bookkeeping; array type `A` abstract) -/

/-- a validated spatial derivative key: the spatial dimensions of its letters. -/
abbrev DKey (D : Nat) := List (Fin D)

section Dict
variable {D : Nat} {A : Type}

def insertSorted (c : Fin D) : DKey D → DKey D
  | [] => [c]
  | x :: xs => if c.val < x.val then c :: x :: xs else x :: insertSorted c xs

/-- src: enum.py:SpatialDerivativeKeys.sorted @235-238 (`sorted` of IntEnum values; stable). -/
def sortKey (k : DKey D) : DKey D := k.foldr insertSorted []

def dedup {β : Type} [DecidableEq β] : List β → List β
  | [] => []
  | x :: xs => let r := dedup xs; if x ∈ xs then r else x :: r

/-- first-occurrence de-duplication (Python dict / set insertion). -/
def dedupFirst {β : Type} [DecidableEq β] (l : List β) : List β := (dedup l.reverse).reverse

/-- src: enum.py:SpatialDerivativeKeys.unique @230-233 (a set; the model keeps first occurrences). -/
def uniqueKeys (ks : List (DKey D)) : List (DKey D) := dedupFirst (ks.map sortKey)

/-- src: enum.py:SpatialDerivativeKeys.max_order @245-247. -/
def maxOrder {β : Type} (ks : List (List β)) : Nat := ks.foldl (fun m k => max m k.length) 0

def assoc {κ : Type} [DecidableEq κ] (k : κ) : List (κ × A) → Option A
  | [] => none
  | (k', v) :: r => if k' = k then some v else assoc k r

/-- body of the double loop of spatial_derivatives. src: image.py @1571-1587. -/
def derivInner (step : Fin D → A → A) (data : A) (i : Nat) (derivs : List (DKey D × A)) (code : DKey D) :
    List (DKey D × A) :=
  let key := code.take (i + 1)
  if i < code.length ∧ (assoc key derivs).isNone then
    match code[i]?, (if i = 0 then some data else assoc (code.take i) derivs) with
    | some c, some prev => derivs ++ [(key, step c prev)]
    | _, _ => derivs          -- not reachable (would be a KeyError)
  else derivs

/-- `for i, code in itertools.product(range(max_order), unique_keys)`. src: image.py @1571. -/
def derivLoop (step : Fin D → A → A) (data : A) (uniq : List (DKey D)) (mo : Nat) : List (DKey D × A) :=
  (List.range mo).foldl (fun derivs i => uniq.foldl (derivInner step data i) derivs) []

/-- finite-difference branch of spatial_derivatives after argument handling:
    `{key: derivs[sorted(key)] for key in which}` (duplicates collapse, first position kept).
    src: image.py @1546-1588. -/
def spatialDerivativesFD (step : Fin D → A → A) (data : A) (which : List (DKey D)) : List (DKey D × Option A) :=
  let derivs := derivLoop step data (uniqueKeys which) (maxOrder which)
  (dedupFirst which).map (fun k => (k, assoc (sortKey k) derivs))

/-- the value the loop is meant to produce: derivative steps applied letter by letter. -/
def chain (step : Fin D → A → A) (k : DKey D) (data : A) : A := k.foldl (fun acc c => step c acc) data

end Dict

/-! ### B-spline mode -/
section BSpline
variable {α : Type} [Add α] [Sub α] [Mul α] [Div α] [Neg α] [NatCast α] [IntCast α]

/-- src: bspline.py:evaluate_cubic_bspline @366-382 along one axis: `conv` (cross-correlation,
    no padding) with each of the `s` kernel rows of 4 weights, rows interleaved
    (`reshape(N, C, s, L) → transpose(2, 3) → flatten`): output `j*s + r` = Σ_k w[r][k]·data[j+k]. -/
def bsplineAxis (s : Nat) (w : Nat → Nat → α) (f : Int → α) : Int → α :=
  fun k =>
    let j := k / (s : Int)
    let r := (k % (s : Int)).toNat
    w r 0 * f j + w r 1 * f (j + 1) + w r 2 * f (j + 2) + w r 3 * f (j + 3)

/-- number of occurrences of dimension `d` in a key. src: image.py @1618-1620. -/
def keyOrder {D} (k : DKey D) (d : Fin D) : Nat := (k.filter (· = d)).length

def powNat (x : α) : Nat → α
  | 0 => ((1 : Nat) : α)
  | n + 1 => powNat x n * x

/-- src: image.py:spatial_derivatives @1617-1630 for one (sorted, unique) key:
    separable evaluation with the kernel of derivative order `order[d]` along each axis, then
    division by `Π_d spacing[b, d] ^ order[d]` when the total order is positive.
    `wts d o` are the weights `cubic_bspline_interpolation_weights(stride[d], o)` (given). -/
def bsplineDeriv {D} (stride : Fin D → Nat) (wts : Fin D → Nat → Nat → Nat → α) (sp : Fin D → α)
    (k : DKey D) (A : Arr D α) : Arr D α :=
  let R := (List.finRange D).foldl (fun R d => alongAxis d (bsplineAxis (stride d) (wts d (keyOrder k d))) R) A
  if k.length > 0 then
    let denom := (List.finRange D).foldl
      (fun acc d => if keyOrder k d > 0 then acc * powNat (sp d) (keyOrder k d) else acc) ((1 : Nat) : α)
    fun idx => R idx / denom
  else R

/-- src: image.py @1617-1631 (after fix 360bf64): the B-spline branch stores `derivs[code]` for the
    unique sorted codes and then re-keys by the request like the other branches:
    `derivs = {key: derivs[SpatialDerivativeKeys.sorted(key)] for key in which}`. -/
def spatialDerivativesBSpline {D} {A : Type} (deriv : DKey D → A) (which : List (DKey D)) : List (DKey D × Option A) :=
  let derivs : List (DKey D × A) := (uniqueKeys which).map (fun k => (k, deriv k))
  (dedupFirst which).map (fun k => (k, assoc (sortKey k) derivs))

end BSpline

/-! ### spacing argument -/
section Spacing
variable {α : Type} [NatCast α]

/-- forms of the `spacing` argument after `as_tensor`. -/
inductive SpacingArg (α : Type)
  | none
  | scalar (s : α)
  | vec (v : List α)
  | mat (rows : List (List α))

/-- src: image.py:spatial_derivatives @1523-1535. Result: `spacing[b, d]` as a function, or the
    ValueError. (1-D input → shape (1, len); allowed shapes (1|N, 1|D); `expand(N, D)`.) -/
def expandSpacing (N D : Nat) : SpacingArg α → Except String (Nat → Nat → α)
  | .none => .ok (fun _ _ => ((1 : Nat) : α))
  | .scalar s => .ok (fun _ _ => s)
  | .vec v =>
      if v.length = 1 ∨ v.length = D then
        .ok (fun _ d => if v.length = 1 then v.getD 0 ((0 : Nat) : α) else v.getD d ((0 : Nat) : α))
      else .error "err:value"
  | .mat rows =>
      match rows with
      | [] => .error "err:value"
      | r0 :: _ =>
        if rows.all (fun r => r.length = r0.length) then
          if (rows.length = 1 ∨ rows.length = N) ∧ (r0.length = 1 ∨ r0.length = D) then
            .ok (fun b d =>
              let row := if rows.length = 1 then rows.getD 0 [] else rows.getD b []
              if r0.length = 1 then row.getD 0 ((0 : Nat) : α) else row.getD d ((0 : Nat) : α))
          else .error "err:value"
        else .error "err:value"

end Spacing

/-! ### derivative key strings -/
section Keys

abbrev Key := List Char

/-- src: enum.py:SpatialDim.from_arg @132-143 restricted to one-letter strings. -/
def letterDim (c : Char) : Option Nat :=
  if c = 'x' ∨ c = 'X' then some 0
  else if c = 'y' ∨ c = 'Y' then some 1
  else if c = 'z' ∨ c = 'Z' then some 2
  else if c = 't' ∨ c = 'T' then some 3
  else none

/-- src: enum.py:SpatialDim.symbol @145-147. -/
def dimLetter (d : Nat) : Char := if d = 0 then 'x' else if d = 1 then 'y' else if d = 2 then 'z' else 't'

def isLowerDimLetter (c : Char) : Bool := c = 'x' || c = 'y' || c = 'z' || c = 't'

/-- src: enum.py:SpatialDerivativeKeys.check @181-192 (`re.search(r"[^xyzt]", key)`). -/
def skCheck (k : Key) : Bool := k.all isLowerDimLetter

/-- src: enum.py:SpatialDerivativeKeys.split @249-252 (ValueError for a foreign letter). -/
def skSplit (k : Key) : Option (List Nat) := k.mapM letterDim

def insertNat (c : Nat) : List Nat → List Nat
  | [] => [c]
  | x :: xs => if c < x then c :: x :: xs else x :: insertNat c xs

def sortNats (l : List Nat) : List Nat := l.foldr insertNat []

/-- src: enum.py:SpatialDerivativeKeys.sorted @235-238 / join @254-257. -/
def skSorted (k : Key) : Option Key := (skSplit k).map (fun ds => (sortNats ds).map dimLetter)

/-- src: enum.py:SpatialDerivativeKeys.is_mixed @203-206. -/
def skIsMixed (k : Key) : Bool := (dedup k).length > 1

/-- src: enum.py:SpatialDerivativeKeys.all @208-221 for one integer order
    (`SpatialDim(d)` raises for d > 3). -/
def skAll (D order : Nat) : Option (List Key) :=
  if D > 4 then none else
  let dims : List Key := (List.range D).map (fun d => [dimLetter d])
  if order = 0 then some [] else
  some ((List.range (order - 1)).foldl
    (fun codes _ => codes.flatMap (fun code => dims.map (fun l => code ++ l))) dims)

/-- src: enum.py:SpatialDerivativeKeys.unmixed @223-228. -/
def skUnmixed (D order : Nat) : Option (List Key) :=
  if order = 0 then some [] else
  if D > 4 then none else some ((List.range D).map (fun d => List.replicate order (dimLetter d)))

/-- src: enum.py:SpatialDerivativeKeys.unique @230-233. -/
def skUnique (ks : List Key) : Option (List Key) := (ks.mapM skSorted).map dedupFirst

/-- Python `re`: `$` also matches just before one trailing newline. -/
def stripTrailingNewline (s : Key) : Key :=
  match s.reverse with
  | '\n' :: r => r.reverse
  | _ => s

def isChannelLetter (c : Char) : Bool := c = 'u' || c = 'v' || c = 'w'

/-- src: enum.py:FlowChannelIndex.from_arg @267-276 for lower-case letters. -/
def channelIndex (c : Char) : Nat := if c = 'u' then 0 else if c = 'v' then 1 else 2
def channelLetter (i : Nat) : Char := if i = 0 then 'u' else if i = 1 then 'v' else 'w'

/-- regex `^(d(?P<channels>[uvw]+)/d)?(?P<derivs>[xyzt]+)$` of FlowDerivativeKeys.from_arg @341:
    returns (channels or none, derivs). -/
def matchFromArg (s0 : Key) : Option (Option Key × Key) :=
  let s := stripTrailingNewline s0
  let plain : Option (Option Key × Key) :=
    if s ≠ [] ∧ s.all isLowerDimLetter then some (none, s) else none
  match s with
  | 'd' :: rest =>
      let ch := rest.takeWhile isChannelLetter
      match rest.dropWhile isChannelLetter with
      | '/' :: 'd' :: ds =>
          if ch ≠ [] ∧ ds ≠ [] ∧ ds.all isLowerDimLetter then some (some ch, ds) else plain
      | _ => plain
  | _ => plain

/-- src: enum.py:FlowDerivativeKeys.symbol @438-454 for (channel index, derivative letters). -/
def fkSymbol (c : Nat) (derivs : Key) : Key := ['d', channelLetter c, '/', 'd'] ++ derivs

/-- src: enum.py:FlowDerivativeKeys.all @456-470 (order ≥ 0; all channels). -/
def fkAll (D order : Nat) : Option (List Key) :=
  if order = 0 then some [] else
  (skAll D order).bind (fun derivs =>
    if D > 3 then none else   -- FlowChannelIndex(c) raises for c > 2
    some ((List.range D).flatMap (fun c => derivs.map (fun d => fkSymbol c d))))

/-- src: enum.py:FlowDerivativeKeys.unmixed @472-486. -/
def fkUnmixed (D order : Nat) : Option (List Key) :=
  if order = 0 then some [] else
  (skUnmixed D order).bind (fun derivs =>
    if D > 3 then none else
    some ((List.range D).flatMap (fun c => derivs.map (fun d => fkSymbol c d))))

/-- src: enum.py:FlowDerivativeKeys.divergence @500-502. -/
def fkDivergence (D : Nat) : Option (List Key) :=
  if D > 3 then none else some ((List.range D).map (fun i => fkSymbol i [dimLetter i]))

/-- src: enum.py:FlowDerivativeKeys.from_arg @308-357. `which = none` ↦ `all(order or 1)`. -/
def fkFromArg (D : Nat) (which : Option (List Key)) (order : Option Nat) : Except String (List Key) :=
  if D < 2 ∨ D > 3 then .error "err:value" else
  match which with
  | none =>
      match fkAll D (order.getD 1) with
      | some ks => .ok ks
      | none => .error "err:value"
  | some args =>
      args.foldlM (fun (keys : List Key) arg =>
        match matchFromArg arg with
        | none => .error "err:value"
        | some (chs, derivs) =>
            if (match order with | none => true | some o => derivs.length = o) then
              let channels : List Char := match chs with
                | none => (List.range D).map channelLetter
                | some cs => cs
              .ok (keys ++ channels.map (fun c => ['d', c, '/', 'd'] ++ derivs))
            else .ok keys) []

/-- src: enum.py:FlowDerivativeKeys.split @417-436 for one key:
    regex `^d([uvw])/d([xXyYzZtT]+)$` then `SpatialDerivativeKeys.check`. -/
def fkSplit (s0 : Key) : Option (Nat × Key) :=
  match stripTrailingNewline s0 with
  | 'd' :: c :: '/' :: 'd' :: ds =>
      if isChannelLetter c ∧ ds ≠ [] ∧ ds.all (fun ch => (letterDim ch).isSome) ∧ skCheck ds
      then some (channelIndex c, ds) else none
  | _ => none

/-- lexicographic order on strings by code point (Python `sorted`). -/
def keyLt : Key → Key → Bool
  | [], [] => false
  | [], _ :: _ => true
  | _ :: _, [] => false
  | a :: as, b :: bs => if a.toNat < b.toNat then true else if b.toNat < a.toNat then false else keyLt as bs

def insertKey (k : Key) : List Key → List Key
  | [] => [k]
  | x :: xs => if keyLt k x then k :: x :: xs else x :: insertKey k xs

/-- src: enum.py:FlowDerivativeKeys.sorted @386-389. -/
def fkSorted (ks : List Key) : List Key := ks.foldr insertKey []

/-- src: enum.py:FlowDerivativeKeys.unique @371-384 (set; first occurrences kept). -/
def fkUnique (ks : List Key) : Option (List Key) :=
  (ks.mapM (fun k => (fkSplit k).bind (fun (c, ds) => (skSorted ds).map (fkSymbol c)))).map dedupFirst

/-- src: enum.py:FlowDerivativeKeys.max_order @401-403. -/
def fkMaxOrder (ks : List Key) : Option Nat := (ks.mapM fkSplit).map (fun l => maxOrder (l.map (·.2)))

/-- src: enum.py:FlowDerivativeKeys.is_mixed @391-394. -/
def fkIsMixed (k : Key) : Option Bool := (fkSplit k).map (fun p => skIsMixed p.2)

/-- letters of a spatial key as dimensions below `D` (else the ValueError raised by
    `SpatialDim.from_arg` / `SpatialDim.tensor_dim` / the `order[spatial_dim]` IndexError). -/
def toDKey (D : Nat) (k : Key) : Option (DKey D) :=
  k.mapM (fun c => (letterDim c).bind (fun d => if h : d < D then some (⟨d, h⟩ : Fin D) else none))

def ofDKey {D} (k : DKey D) : Key := k.map (fun d => dimLetter d.val)

/-- `which` / `order` handling of spatial_derivatives. src: image.py:spatial_derivatives @1537-1544
    (`which=None` ↦ `SpatialDerivativeKeys.all(D, order or 1)`; otherwise filter by `len == order`). -/
def sdWhich (D : Nat) (which : Option (List Key)) (order : Option Nat) : Option (List Key) :=
  match which with
  | none => skAll D (order.getD 1)
  | some ks =>
      match order with
      | none => some ks
      | some o => some (ks.filter (fun k => k.length = o))

end Keys

end FD
end Deepali
