/-
  Model/FlowCalc.lean — flow_derivatives, jacobian_dict/matrix/det, divergence, curl, lie_bracket.
  src: src/deepali/core/flow.py (flow_derivatives @382-457, jacobian_det @460-531,
       jacobian_dict @534-573, jacobian_matrix @576-612, divergence @213-249, curl @162-210,
       lie_bracket @615-677).
  Core Lean only.  A vector field (one batch item) is `Fin D → Arr D α` (component → array).
  The array-valued derivative dictionaries are built exactly as the code builds them
  (grouping per component, unique sorted keys, lookup by sorted key); the arithmetic that
  follows is pointwise, in the order of the in-place operations of the code.
-/
import Deepali.Model.FD
namespace Deepali
namespace FD

/-- a validated flow derivative key `d<channel>/d<letters>`. -/
abbrev FKey (D : Nat) := Fin D × DKey D

section Dict
variable {D : Nat} {A : Type}

/-- lexicographic order of keys = Python string order of the sorted lower-case keys (x < y < z). -/
def dkeyLt : DKey D → DKey D → Bool
  | [], [] => false
  | [], _ :: _ => true
  | _ :: _, [] => false
  | a :: as, b :: bs => if a.val < b.val then true else if b.val < a.val then false else dkeyLt as bs

def insertDKey (k : DKey D) : List (DKey D) → List (DKey D)
  | [] => [k]
  | x :: xs => if dkeyLt k x then k :: x :: xs else x :: insertDKey k xs

/-- src: flow.py:flow_derivatives @433-457. `sd i keys` stands for
    `spatial_derivatives(flow.narrow(1, i, 1), which=keys, …)`; the result is
    `{key: partial_derivatives[key] for key in which}`. -/
def flowDerivatives (sd : Fin D → List (DKey D) → List (DKey D × Option A)) (which : List (FKey D)) :
    List (FKey D × Option A) :=
  let part : List (FKey D × Option A) := (List.finRange D).flatMap (fun i =>
    let spatialKeys := (which.filter (fun k => k.1 = i)).map (·.2)        -- grouped_by_component[i]
    let uniq := (uniqueKeys spatialKeys).foldr insertDKey []               -- sorted(unique(spatial_keys))
    let comp := sd i uniq
    spatialKeys.map (fun k => ((i, k), (assoc (sortKey k) comp).join)))
  (dedupFirst which).map (fun key => (key, (assoc key part).join))

/-- src: enum.py:FlowDerivativeKeys.jacobian @496-498 = all(order=1): product(channels, dims). -/
def jacobianKeys (D : Nat) : List (FKey D) :=
  (List.finRange D).flatMap (fun i => (List.finRange D).map (fun j => (i, [j])))

/-- src: enum.py:FlowDerivativeKeys.divergence @500-502. -/
def divergenceKeys (D : Nat) : List (FKey D) := (List.finRange D).map (fun i => (i, [i]))

/-- entry `(i, j)` of the first-order dictionary. -/
def entry (derivs : List (FKey D × Option A)) (i j : Fin D) : Option A := (assoc (i, [j]) derivs).join

end Dict

section Calc
variable {α : Type} [Add α] [Sub α] [Mul α] [Div α] [Neg α] [NatCast α] [IntCast α]

/-- src: flow.py:jacobian_det @493-495 / jacobian_dict @567-569: `deriv[symbol(i, i)].add_(1)`. -/
def addIdentityPt {D} (flag : Bool) (J : Fin D → Fin D → α) : Fin D → Fin D → α :=
  fun i j => if flag ∧ i = j then J i j + ((1 : Nat) : α) else J i j

/-- src: flow.py:jacobian_det @496-501 (`a.mul(d).sub_(b.mul(c))`). -/
def det2 (a b c d : α) : α := a * d - b * c

/-- src: flow.py:jacobian_det @502-515. -/
def det3 (a b c d e f g h i : α) : α :=
  let term1 := a * (e * i - f * h)
  let term2 := b * (d * i - g * f)
  let term3 := c * (d * h - e * g)
  term1 - term2 + term3

/-- closed forms by dimension; `J i j = du_i/dx_j`. D ∉ {2, 3} is rejected before the generic
    permutation fallback (@516-530) can run: `flow_derivatives` → `FlowDerivativeKeys.from_arg`
    raises ValueError for `spatial_dims ∉ {2, 3}`, so the fallback is dead code. -/
def jacobianDetPt : (D : Nat) → (Fin D → Fin D → α) → Option α
  | 2, J => some (det2 (J 0 0) (J 0 1) (J 1 0) (J 1 1))
  | 3, J => some (det3 (J 0 0) (J 0 1) (J 0 2) (J 1 0) (J 1 1) (J 1 2) (J 2 0) (J 2 1) (J 2 2))
  | _, _ => none

/-- src: flow.py:divergence @243-248: `div = value if div is None else div.add_(value)` over
    `deriv.values()` (dictionary order = order of `which`). -/
def divergencePt {D} (J : Fin D → Fin D → α) : Option α :=
  match List.finRange D with
  | [] => none
  | i :: r => some (r.foldl (fun acc k => acc + J k k) (J i i))

/-- src: flow.py:curl @189-207; D = 2 → one channel `dv/dx − du/dy`; D = 3 → three. -/
def curlPt : (D : Nat) → (Fin D → Fin D → α) → Option (List α)
  | 2, J => some [J 1 0 - J 0 1]
  | 3, J => some [J 2 1 - J 1 2, J 0 2 - J 2 0, J 1 0 - J 0 1]
  | _, _ => none

/-- src: flow.py:lie_bracket @670-677: `w = zeros; w_i.add_(jac_v[i,j] * u_j) …; w_i.sub_(jac_u[i,j] * v_j) …`
    (first argument `v`, second `u`). -/
def lieBracketPt {D} (Jv Ju : Fin D → Fin D → α) (v u : Fin D → α) : Fin D → α :=
  fun i =>
    let w := (List.finRange D).foldl (fun w j => w + Jv i j * u j) ((0 : Nat) : α)
    (List.finRange D).foldl (fun w j => w - Ju i j * v j) w

variable {D : Nat} {A : Type}

/-- first-order dictionary of a vector field for a given spatial_derivatives step:
    `flow_derivatives(flow, which=FlowDerivativeKeys.jacobian(D), …)` with the finite-difference
    branch of spatial_derivatives. src: flow.py:jacobian_dict @562-573.
    (`A` = array representation, `ev` reads it: identity in the theorems, a memo table in the driver.) -/
def jacobianDict (step : Fin D → A → A) (u : Fin D → A) : List (FKey D × Option A) :=
  flowDerivatives (fun i keys => spatialDerivativesFD step (u i) keys) (jacobianKeys D)

/-- values at a point of the requested first-order keys; `none` if an entry is missing
    (never for the keys requested, see Proofs/FDDict). -/
def entriesAt (ev : A → Arr D α) (dict : List (FKey D × Option A)) (keys : List (FKey D)) (idx : Idx D) :
    Option (Fin D → Fin D → α) :=
  if keys.all (fun k => (assoc k dict).join.isSome) then
    some (fun i j => match entry dict i j with
      | some a => ev a idx
      | none => ((0 : Nat) : α))
  else none

/-- src: flow.py:jacobian_det @460-531 at one grid point. -/
def jacobianDet (ev : A → Arr D α) (step : Fin D → A → A) (addId : Bool) (u : Fin D → A) (idx : Idx D) : Option α :=
  (entriesAt ev (jacobianDict step u) (jacobianKeys D) idx).bind (fun J => jacobianDetPt D (addIdentityPt addId J))

/-- src: flow.py:jacobian_matrix @576-612 at one grid point: entry `[i][j] = du_i/dx_j (+ δ_ij)`. -/
def jacobianMatrix (ev : A → Arr D α) (step : Fin D → A → A) (addId : Bool) (u : Fin D → A) (idx : Idx D) :
    Option (Fin D → Fin D → α) :=
  (entriesAt ev (jacobianDict step u) (jacobianKeys D) idx).map (addIdentityPt addId)

/-- src: flow.py:divergence @213-249 at one grid point (dictionary of the `divergence` keys). -/
def divergence (ev : A → Arr D α) (step : Fin D → A → A) (u : Fin D → A) (idx : Idx D) : Option α :=
  let dict := flowDerivatives (fun i keys => spatialDerivativesFD step (u i) keys) (divergenceKeys D)
  (entriesAt ev dict (divergenceKeys D) idx).bind divergencePt

/-- keys requested by curl. src: flow.py:curl @192, @198. -/
def curlKeys : (D : Nat) → List (FKey D)
  | 2 => [(0, [1]), (1, [0])]
  | 3 => [(0, [1]), (0, [2]), (1, [0]), (1, [2]), (2, [0]), (2, [1])]
  | _ => []

/-- src: flow.py:curl @162-210 at one grid point. -/
def curl (ev : A → Arr D α) (step : Fin D → A → A) (u : Fin D → A) (idx : Idx D) : Option (List α) :=
  let dict := flowDerivatives (fun i keys => spatialDerivativesFD step (u i) keys) (curlKeys D)
  (entriesAt ev dict (curlKeys D) idx).bind (curlPt D)

/-- src: flow.py:lie_bracket @615-677 at one grid point (`lie_bracket(v, u)`). -/
def lieBracket (ev : A → Arr D α) (step : Fin D → A → A) (v u : Fin D → A) (idx : Idx D) : Option (Fin D → α) :=
  (entriesAt ev (jacobianDict step u) (jacobianKeys D) idx).bind (fun Ju =>
    (entriesAt ev (jacobianDict step v) (jacobianKeys D) idx).map (fun Jv =>
      lieBracketPt Jv Ju (fun i => ev (v i) idx) (fun i => ev (u i) idx)))

end Calc
end FD
end Deepali
