/-
  Model/FlowOps.lean — displacement / velocity field operations on sampled vector fields.
  src: src/deepali/core/flow.py expv @323-379, compose_flows @58-64, warp_image @929-974,
       compose_svfs @67-159, lie_bracket @615-677; src/deepali/data/flow.py FlowFields.axes @186-198,
       exp @225-246, sample @247-290, warp_image @291-322.

  A vector field on a grid of integral size `n` is a total function `(Fin d → Int) → Vec d α`
  (component c = tensor channel c = x, y, z order); only indices inside the box matter.
-/
import Deepali.Model.Sample
namespace Deepali

abbrev VField (d : Nat) (α : Type) := (Fin d → Int) → Vec d α

section
variable {α : Type} [Add α] [Sub α] [Mul α] [Div α] [Neg α] [NatCast α] [IntCast α]
  [HasFloor α] [LT α] [DecidableRel (α := α) (· < ·)] {d : Nat}

/-- normalised coordinates of the sample with integer index `idx`
    (`Grid(shape=…, align_corners=ac).coords()`). -/
def latticePoint (ac : Bool) (n : Fin d → Nat) (idx : Fin d → Int) : Vec d α :=
  fun i => coordAt (n i) ac (((idx i : Int) : α))

/-- sample every component of a vector field at a normalised point (linear, given padding). -/
def sampleVField (ac : Bool) (pad : Padding) (n : Fin d → Nat) (f : VField d α) (p : Vec d α) : Vec d α :=
  fun c => gridSampleLin ac pad n (fun idx => f idx c) p

/-- core/flow.py `compose_flows(u, v)` @58-64: `w(x) = u(x) + v(x + u(x))`, bilinear,
    `padding_mode="border"`. -/
def composeFlows (ac : Bool) (n : Fin d → Nat) (u v : VField d α) : VField d α :=
  fun idx => (u idx).add (sampleVField ac .border n v ((latticePoint ac n idx).add (u idx)))

/-- one scaling-and-squaring step of `expv` @368-377:
    `disp + warp_image(disp, grid, flow=disp, mode, padding)`. -/
def expvStep (ac : Bool) (pad : Padding) (n : Fin d → Nat) (disp : VField d α) : VField d α :=
  fun idx => (disp idx).add (sampleVField ac pad n disp ((latticePoint ac n idx).add (disp idx)))

def iter {β : Type} (f : β → β) : Nat → β → β
  | 0, x => x
  | k + 1, x => iter f k (f x)

/-- core/flow.py `expv(flow, scale, steps, padding, align_corners, inverse)` @348-378. -/
def expv (ac : Bool) (pad : Padding) (n : Fin d → Nat) (scale : α) (inverse : Bool) (steps : Nat)
    (flow : VField d α) : VField d α :=
  let scale := if inverse then -scale else scale
  if steps = 0 then (fun idx => Vec.smul scale (flow idx))     -- `flow.mul(scale)` (skipped when scale == 1)
  else
    let s : α := scale / (((2 ^ steps : Nat) : Nat) : α)
    iter (expvStep ac pad n) steps (fun idx => Vec.smul s (flow idx))

/-- core/flow.py `warp_image(data, grid, flow)` @929-974 at one output sample: the scalar image
    is sampled at `grid + flow`. -/
def warpImageAt (ac : Bool) (pad : Padding) (n : Fin d → Nat) (img : (Fin d → Int) → α) (p u : Vec d α) : α :=
  gridSampleLin ac pad n img (p.add u)

end

section
variable {α : Type} [Add α] [Sub α] [Mul α] [Div α] [Neg α] [NatCast α] [IntCast α]
  [HasFloor α] [DecidableEq α] [LT α] [DecidableRel (α := α) (· < ·)] {d : Nat}

/-- data/flow.py `FlowFields.axes(to)` @186-198: every vector through `grid.transform_vectors`. -/
def flowAxes (g : Grid d α) (a b : Axes) (f : VField d α) : VField d α :=
  fun idx => g.transformVectors a b (f idx)

/-- axes the exponential is computed in: data/flow.py `exp` @233-235. -/
def expAxes (a : Axes) : Axes := if a = .cubeCorners then .cubeCorners else .cube

/-- data/flow.py `FlowFields.exp` @225-246 as repaired by the `fix:` commit (the converted flow is
    exponentiated, then the original axes are restored). -/
def flowExp (g : Grid d α) (n : Fin d → Nat) (a : Axes) (scale : α) (steps : Nat) (f : VField d α) : VField d α :=
  let ac := decide (a = .cubeCorners)
  let c := expAxes a
  flowAxes g c a (expv ac .border n scale false steps (flowAxes g a c f))

/-- spatial/nonrigid.py `DenseVectorFieldTransform.grid_` @119-143 for one sample of the new parameter grid: `s` is the
    old field (vectors in the cube axes `a` of the old grid `g`) sampled at that point (`FlowFields.sample`: linear
    interpolation); `sample` re-expresses it on the new grid `g'` in the same-named axes
    (`grid_transform_vectors(v, g, a, g', a)`), and `flow.axes(Axes.from_grid(g'))` converts it to the cube axes `a'` of
    the new grid. The result is what `data_()` stores. -/
def denseRegridAt (g g' : Grid d α) (a a' : Axes) (s : Vec d α) : Vec d α :=
  g'.transformVectors a a' (g.transformVectorsTo a g' a s)

/-- the same method as it was before the repair (`data = self.tensor()`): the *unconverted*
    vectors are exponentiated as if they were cube vectors. Kept for the refutation theorem. -/
def flowExpUnrepaired (g : Grid d α) (n : Fin d → Nat) (a : Axes) (scale : α) (steps : Nat) (f : VField d α) :
    VField d α :=
  let ac := decide (a = .cubeCorners)
  let c := expAxes a
  flowAxes g c a (expv ac .border n scale false steps f)

end

section
variable {α : Type} [Add α] [Sub α] [Mul α] [Div α] [Neg α] [NatCast α] {d : Nat}

/-- core/flow.py `lie_bracket(v, u)` @664-677 for an arbitrary family of first-derivative operators
    `D j` (derivative along axis `j` of a scalar field): `[v,u]_i = Σ_j ∂_j v_i · u_j − ∂_j u_i · v_j`. -/
def lieBracket (D : Fin d → (((Fin d → Int) → α) → ((Fin d → Int) → α))) (v u : VField d α) : VField d α :=
  fun idx i =>
    sumFin d (fun j => D j (fun k => v k i) idx * u idx j) - sumFin d (fun j => D j (fun k => u k i) idx * v idx j)

def VField.add (a b : VField d α) : VField d α := fun idx => (a idx).add (b idx)
def VField.sub (a b : VField d α) : VField d α := fun idx => (a idx).sub (b idx)
def VField.smul (c : α) (a : VField d α) : VField d α := fun idx => Vec.smul c (a idx)

/-- the BCH combination of core/flow.py `compose_svfs` @138-159 given the bracket fields
    `vu = [v,u]`, `vvu = [v,[v,u]]`, `uvu = [u,[v,u]]`, `uvvu = [u,[v,[v,u]]]` (`bch_terms ∈ [0, 5]`). -/
def bchCombine (bchTerms : Nat) (u v vu vvu uvu uvvu : VField d α) : VField d α :=
  let one : α := ((1 : Nat) : α)
  let w := v.add u
  let w := if 1 ≤ bchTerms then w.add (VField.smul (one / ((2 : Nat) : α)) vu) else w
  let w := if 2 ≤ bchTerms then w.add (VField.smul (one / ((12 : Nat) : α)) vvu) else w
  let w := if 3 ≤ bchTerms then w.sub (VField.smul (one / ((12 : Nat) : α)) uvu) else w
  let w := if 4 ≤ bchTerms then
      w.sub (VField.smul ((if bchTerms = 4 then one else ((2 : Nat) : α)) / ((48 : Nat) : α)) uvvu) else w
  w

/-- core/flow.py `compose_svfs(u, v, bch_terms)` @138-159 for a bracket operation `lb`. -/
def composeSvfs (lb : VField d α → VField d α → VField d α) (bchTerms : Nat) (u v : VField d α) : VField d α :=
  let vu := lb v u
  let vvu := lb v vu
  bchCombine bchTerms u v vu vvu (lb u vu) (lb u vvu)

end
end Deepali
