/-
  Model/Grad.lean — closed-form gradients of the model functions (property C20).
  Core Lean only.  For every operation that is linear, bilinear, polynomial or rational in the
  differentiated argument the *model function* (transcribed from the code in the other Model files)
  gets an executable gradient formula here; `Props/C20.lean` proves that the formula is the true
  derivative of the model function, the harness compares it with `torch.autograd.grad` of the real
  deepali operation.

  src (what autograd differentiates): src/deepali/losses/functional.py ssd/mse/l1/huber/smooth_l1
  (@780-972, elementwise_loss @1688-1729, masked_loss @1732-1755, reduce_loss @1758-1770),
  dice_score @152-187, tversky_index @216-335, ncc_loss @531-577, grad_loss @1111-1179,
  bending_loss @1182-1231, diffusion_loss @1312-1337; src/deepali/core/image.py grid_sample
  @1079-1131, sample_image @1408-1455, spatial_derivatives @1458-1664, finite_differences
  @1667-1776; src/deepali/core/flow.py compose_flows @58-64, expv @323-379, warp_image @929-974;
  src/deepali/core/bspline.py evaluate_cubic_bspline @259-385, subdivide_cubic_bspline @388-430;
  src/deepali/core/affine.py euler_rotation_matrix (2-D) and spatial/linear.py EulerRotation.angles
  @188-193, Translation, AnisotropicScaling.

  Conventions.  `bump i t x` is `x + t·eᵢ`.  A gradient is always that of the scalarised output
  `Σₖ cotₖ · outₖ` ("vector–Jacobian product" with cotangent `cot`), because that is what
  `torch.autograd.grad(outputs, inputs, grad_outputs=cot)` returns.  Kinks (|x| at 0, Huber at
  ±δ, interpolation at integer sample positions, clamping at the border) are excluded by
  hypothesis in the theorems and by the generators in the harness; at a kink the formulas below
  pick one side and say which.
-/
import Deepali.Model.Losses
import Deepali.Model.FlowOps
import Deepali.Model.FD
import Deepali.Model.BSpline
namespace Deepali.Grad
open Deepali Deepali.Loss

/-! ### generic -/
section Generic
variable {α : Type} [Add α] [Sub α] [Mul α] [Div α] [Neg α] [NatCast α]

/-- `x + t·eᵢ` on flat index functions. -/
def bump (i : Nat) (t : α) (x : Nat → α) : Nat → α := fun j => if j = i then x j + t else x j

/-- unit impulse `eᵢ`. -/
def unit (i : Nat) : Nat → α := fun j => if j = i then ((1 : Nat) : α) else ((0 : Nat) : α)

/-- scalarisation `Σₖ cotₖ · outₖ` of a list valued output. -/
def scalarise (cot : Nat → α) (out : List α) : α :=
  sumTo out.length (fun k => cot k * out.getD k ((0 : Nat) : α))

/-- derivative at `t = 0` of `(a + t·b + t²·b₂)/(c + t·d + t²·e)`: `(b·c − a·d)/c²`. -/
def ratioDeriv (a b c d : α) : α := (b * c - a * d) / (c * c)

end Generic

/-! ### (a) element-wise losses and their reductions, w.r.t. the source image -/
section Pointwise
variable {α : Type} [Add α] [Sub α] [Mul α] [Div α] [Neg α] [NatCast α] [LT α]
  [DecidableRel (α := α) (· < ·)]

/-- `sign` away from 0 (torch: `sign(0) = 0`, the kink, is excluded). -/
def sgn (a : α) : α := if a < ((0 : Nat) : α) then -((1 : Nat) : α) else ((1 : Nat) : α)

/-- ∂/∂a of `(a−b)²`. -/
def dSqDiff (a b : α) : α := ((2 : Nat) : α) * (a - b)
/-- ∂/∂a of `|a−b|`, `a ≠ b`. -/
def dL1 (a b : α) : α := sgn (a - b)
/-- ∂/∂a of `F.huber_loss`: `d` inside `|d| < δ`, `δ·sign d` outside. -/
def dHuber (delta a b : α) : α :=
  let d := a - b
  if absv d < delta then d else delta * sgn d
/-- ∂/∂a of `F.smooth_l1_loss`: `d/β` inside `|d| < β`, `sign d` outside. -/
def dSmoothL1 (beta a b : α) : α :=
  let d := a - b
  if absv d < beta then d / beta else sgn d

def dfn : Pointwise α → α → α → α
  | .ssd => dSqDiff
  | .l1 => dL1
  | .huber d => dHuber d
  | .smoothL1 b => dSmoothL1 b

/-- `gradPointwise` with the denominator of the `mean` reduction (`n` resp. `Σ mask`) passed in. -/
def gradPointwiseD (denom : α) (kind : Pointwise α) (red : Reduction) (x y : Nat → α)
    (m : Option (Nat → α)) (norm : Option α) (cot : Nat → α) (i : Nat) : α :=
  let base : α := match m with
    | none => dfn kind (x i) (y i)
    | some w => dfn kind (x i) (y i) * w i
  let r : α := match red with
    | .none => cot i * base
    | .sum => cot 0 * base
    | .mean => cot 0 * (base / denom)
  match norm with
  | none => r
  | some c => if ((0 : Nat) : α) < c then r / c else r

/-- denominator of `reduce_loss(…, "mean", mask)` @1764-1769. -/
def meanDenom (n : Nat) (m : Option (Nat → α)) : α :=
  match m with
  | none => ((n : Nat) : α)
  | some w => sumTo n w

/-- gradient w.r.t. `x i` of `scalarise cot (applyNorm norm (pointwiseCore kind.fn red n x y m))`
    (ssd_loss @963-971 / elementwise_loss @1717-1728): the mask multiplies, `mean` divides by `n`
    or by `Σ mask`, `norm` divides when positive. -/
def gradPointwise (kind : Pointwise α) (red : Reduction) (n : Nat) (x y : Nat → α)
    (m : Option (Nat → α)) (norm : Option α) (cot : Nat → α) (i : Nat) : α :=
  gradPointwiseD (meanDenom n m) kind red x y m norm cot i

end Pointwise

/-! ### (b) Dice / Tversky w.r.t. the prediction, (c) NCC w.r.t. the source -/
section Rational
variable {α : Type} [Add α] [Sub α] [Mul α] [Div α] [Neg α] [NatCast α]

def wAt (w : Option (Nat → α)) (j : Nat) : α :=
  match w with
  | none => ((1 : Nat) : α)
  | some w => w j

/-- ∂ `diceAt S p y w eps k` / ∂ `p (k·S + s)` (dice_score @183-185):
    numerator `2·Σpyw + ε`, denominator `Σp²w + Σy²w + ε`. -/
def dDiceAt (S : Nat) (p y : Nat → α) (w : Option (Nat → α)) (eps : α) (k s : Nat) : α :=
  let j := k * S + s
  let num := dotCh S p y w k * ((2 : Nat) : α) + eps
  let den := dotCh S p p w k + dotCh S y y w k + eps
  ratioDeriv num (((2 : Nat) : α) * (y j * wAt w j)) den (((2 : Nat) : α) * (p j * wAt w j))

/-- ∂ `tverskyAt S p y w α β eps k` / ∂ `p (k·S + s)` (tversky_index @328-333). -/
def dTverskyAt (S : Nat) (p y : Nat → α) (w : Option (Nat → α)) (alpha beta eps : α) (k s : Nat) : α :=
  let one : α := ((1 : Nat) : α)
  let j := k * S + s
  let num := dotCh S p y w k + eps
  let den := num + dotCh S p (fun i => one - y i) w k * alpha + dotCh S (fun i => one - p i) y w k * beta
  let dnum := y j * wAt w j
  let dden := dnum + (one - y j) * wAt w j * alpha - y j * wAt w j * beta
  ratioDeriv num dnum den dden

/-- gradient of `Σ_k cot k · score k` w.r.t. the flat prediction index `i` (`K` channels·batch items of
    `S` spatial elements each): only the own channel contributes. -/
def gradChannels (S : Nat) (dAt : Nat → Nat → α) (cot : Nat → α) (i : Nat) : α :=
  cot (i / S) * dAt (i / S) (i % S)

/-- ∂ `nccItem n s t eps` / ∂ `s i` (ncc_loss @561-574): with `x = s − mean s`, `y = t − mean t`,
    `a = Σxy`, `b = Σx²`, `c = Σy²`: `−(2a·∂a·(bc+ε) − a²·c·∂b)/(bc+ε)²`, where
    `∂a = yᵢ − (Σy)/n` and `∂b = 2(xᵢ − (Σx)/n)` are the exact partials (the subtracted sums vanish
    mathematically; they are kept so that the formula is the derivative of the model expression
    term by term). -/
def dNccItem (n : Nat) (s t : Nat → α) (eps : α) (i : Nat) : α :=
  let sm := sumTo n s / ((n : Nat) : α)
  let tm := sumTo n t / ((n : Nat) : α)
  let x := fun i => s i - sm
  let y := fun i => t i - tm
  let a := sumTo n (fun i => x i * y i)
  let b := sumTo n (fun i => x i * x i)
  let c := sumTo n (fun i => y i * y i)
  let da := y i - sumTo n y / ((n : Nat) : α)
  let db := ((2 : Nat) : α) * (x i - sumTo n x / ((n : Nat) : α))
  Neg.neg (ratioDeriv (a * a) (((2 : Nat) : α) * a * da) (b * c + eps) (db * c))

/-- gradient of `Σ_k cot k · nccNone … k` w.r.t. flat source index `i` (`N` items of `n` elements). -/
def gradNcc (n : Nat) (s t : Nat → α) (eps : α) (cot : Nat → α) (i : Nat) : α :=
  let k := i / n
  cot k * dNccItem n (fun j => s (k * n + j)) (fun j => t (k * n + j)) eps (i % n)

end Rational

/-! ### (d) multilinear sampling w.r.t. image values and w.r.t. coordinates -/
section Sampling
variable {α : Type} [Add α] [Sub α] [Mul α] [Div α] [Neg α] [NatCast α] [IntCast α]

/-- multilinear interpolation in a *fixed* cell with lower corner `k` (no `floor`): the polynomial
    that `interpLin` coincides with on the cell `[k, k+1)^d`. -/
def interpCell : (d : Nat) → (Fin d → Int) → ((Fin d → Int) → α) → (Fin d → α) → α
  | 0, _, img, _ => img (fun i => i.elim0)
  | d + 1, k, img, x =>
      let w : α := x 0 - ((k 0 : Int) : α)
      (((1 : Nat) : α) - w) * interpCell d (tailVec k) (fun idx => img (consIdx (k 0) idx)) (tailVec x)
        + w * interpCell d (tailVec k) (fun idx => img (consIdx (k 0 + 1) idx)) (tailVec x)

/-- partial derivative of `interpCell` along axis `i`: along axis 0 the difference of the two
    `(d−1)`-dimensional interpolations, along the other axes the blend of their partials. -/
def dInterpCell : (d : Nat) → (Fin d → Int) → ((Fin d → Int) → α) → (Fin d → α) → Fin d → α
  | 0, _, _, _, i => i.elim0
  | d + 1, k, img, x, i =>
      let w : α := x 0 - ((k 0 : Int) : α)
      let lo := fun idx => img (consIdx (k 0) idx)
      let hi := fun idx => img (consIdx (k 0 + 1) idx)
      Fin.cases
        (interpCell d (tailVec k) hi (tailVec x) - interpCell d (tailVec k) lo (tailVec x))
        (fun i' => (((1 : Nat) : α) - w) * dInterpCell d (tailVec k) lo (tailVec x) i'
                    + w * dInterpCell d (tailVec k) hi (tailVec x) i') i

/-- weight of the sample `idx` in the cell interpolation: `Π_a (1−w_a | w_a | 0)`. -/
def cellWeight : (d : Nat) → (Fin d → Int) → (Fin d → α) → (Fin d → Int) → α
  | 0, _, _, _ => ((1 : Nat) : α)
  | d + 1, k, x, idx =>
      let w : α := x 0 - ((k 0 : Int) : α)
      (if idx 0 = k 0 then ((1 : Nat) : α) - w else if idx 0 = k 0 + 1 then w else ((0 : Nat) : α))
        * cellWeight d (tailVec k) (tailVec x) (tailVec idx)

variable [HasFloor α]

/-- the cell of `x`: `⌊x⌋` per axis. -/
def cellOf {d : Nat} (x : Fin d → α) : Fin d → Int := fun i => HasFloor.floor (x i)

/-- ∂ `interpLin d img x` / ∂ `img idx`: the weight of that corner (0 for non-corners). -/
def cornerWeight (d : Nat) (x : Fin d → α) (idx : Fin d → Int) : α := cellWeight d (cellOf x) x idx

/-- ∂ `interpLin d img x` / ∂ `x i` at a non-kink `x` (no coordinate an integer). -/
def dInterpLin (d : Nat) (img : (Fin d → Int) → α) (x : Fin d → α) (i : Fin d) : α :=
  dInterpCell d (cellOf x) img x i

/-- d `unnormalize ac n x` / d `x`: `(n−1)/2` resp. `n/2`. -/
def dUnnormalize (ac : Bool) (n : α) : α :=
  if ac then (n - ((1 : Nat) : α)) / ((2 : Nat) : α) else n / ((2 : Nat) : α)

variable [LT α] [DecidableRel (α := α) (· < ·)]

/-- d `clampCoord n x` / d `x` away from the clamping boundaries: 1 inside `[0, n−1]`, 0 outside
    (what `grid_sample(padding_mode="border")` back-propagates). -/
def dClampCoord (n : Nat) (x : α) : α :=
  let hi : α := ((n : Nat) : α) - ((1 : Nat) : α)
  if x < ((0 : Nat) : α) then ((0 : Nat) : α) else if hi < x then ((0 : Nat) : α) else ((1 : Nat) : α)

/-- ∂ `gridSampleLin ac pad size img p` / ∂ `img idx` for an in-bounds sample `idx`. -/
def gradSampleValue {d : Nat} (ac : Bool) (pad : Padding) (size : Fin d → Nat) (p : Fin d → α)
    (idx : Fin d → Int) : α :=
  let x : Fin d → α := fun i => unnormalize ac ((size i : Nat) : α) (p i)
  match pad with
  | .zeros => cornerWeight d x idx
  | .border => cornerWeight d (fun i => clampCoord (size i) (x i)) idx

/-- ∂ `gridSampleLin ac pad size img p` / ∂ `p i` (chain rule through `unnormalize` and, for border
    padding, the coordinate clamp). -/
def gradSampleCoord {d : Nat} (ac : Bool) (pad : Padding) (size : Fin d → Nat) (img : (Fin d → Int) → α)
    (p : Fin d → α) (i : Fin d) : α :=
  let x : Fin d → α := fun i => unnormalize ac ((size i : Nat) : α) (p i)
  match pad with
  | .zeros => dInterpLin d (extZero size img) x i * dUnnormalize ac ((size i : Nat) : α)
  | .border =>
      dInterpLin d (extZero size img) (fun i => clampCoord (size i) (x i)) i
        * dClampCoord (size i) (x i) * dUnnormalize ac ((size i : Nat) : α)

end Sampling

/-! ### (e) cubic B-spline evaluation and subdivision w.r.t. the coefficients (linear) -/
section BSpline
variable {α : Type} [Add α] [Sub α] [Mul α] [Div α] [Neg α] [NatCast α] [IntCast α]

/-- coefficient of `c i` in `evalAt W c x` (evaluate_cubic_bspline @366-382). -/
def evalCoef (W : List (W4 α)) (x i : Nat) : α :=
  let s := W.length
  let j := x / s
  match W[x % s]? with
  | some w =>
      if i = j then w.w0 else if i = j + 1 then w.w1 else if i = j + 2 then w.w2
      else if i = j + 3 then w.w3 else ((0 : Nat) : α)
  | none => ((0 : Nat) : α)

/-- coefficient of `c i` in `(subdivide1d c)[j]` (subdivide_cubic_bspline @415-429), `L = c.length`. -/
def subdivCoef (L j i : Nat) : α :=
  let n (k : Nat) : α := ((k : Nat) : α)
  let q := j / 2
  if L ≤ i then n 0
  else if j % 2 = 0 then
    (if q ≠ 0 ∧ i = q - 1 then n 1 / n 8 else n 0) + (if i = q then n 3 / n 4 else n 0)
      + (if i = q + 1 then n 1 / n 8 else n 0)
  else (if i = q then n 1 / n 2 else n 0) + (if i = q + 1 then n 1 / n 2 else n 0)

/-- list with `t` added at position `i`. -/
def bumpList (i : Nat) (t : α) (c : List α) : List α := c.set i (getZ c i + t)

/-- unit impulse of length `L`. -/
def unitList (L i : Nat) : List α :=
  (List.range L).map (fun j => if j = i then ((1 : Nat) : α) else ((0 : Nat) : α))

/-- matrix entry `(o, i)` of a linear line operator, read off its impulse response (used for the
    `transpose=True` branch of evaluate_cubic_bspline @329-342, a `conv_transpose1d`). -/
def impulseCoef (f : List α → List α) (L : Nat) (o i : Nat) : α := getZ (f (unitList L i)) o

/-- transposed (adjoint) application of a linear line operator with matrix `coef out in`:
    `g ↦ (Σ_out g[out]·coef out i)_i`, `L` = length of the input line. -/
def adjLine (coef : Nat → Nat → α) (L : Nat) (g : List α) : List α :=
  (List.range L).map (fun i => sumN g.length (fun o => getZ g o * coef o i))

end BSpline

/-! ### (f) finite-difference stencils and quadratic regularisers w.r.t. the field -/
section FDGrad
open FD
variable {α : Type} [Add α] [Sub α] [Mul α] [Div α] [Neg α] [NatCast α] [IntCast α]

/-- unit impulse at `j` on a D-dimensional array. -/
def unitArr {D : Nat} (j : Idx D) : Arr D α :=
  fun idx => if ∀ a, idx a = j a then ((1 : Nat) : α) else ((0 : Nat) : α)

/-- coefficient of `f j` in `finiteDifferences mode n dil h f k`: the impulse response
    (finite_differences @1729-1772 is linear in `data`). -/
def fdCoef (mode : FDMode) (n dil : Nat) (h : α) (k j : Int) : α :=
  finiteDifferences mode n dil h (fun m => if m = j then ((1 : Nat) : α) else ((0 : Nat) : α)) k

/-- sum over a list of indices. -/
def sumIdx {D : Nat} (l : List (Idx D)) (f : Idx D → α) : α := lsum (l.map f)

/-- gradient w.r.t. `A j` of `Σ_idx cot idx · (L A) idx` for a linear operator `L` (a chain of
    `sdStep`s): the cotangent contracted with the impulse response. -/
def gradLinear {D : Nat} (L : Arr D α → Arr D α) (box : List (Idx D)) (cot : Arr D α) (j : Idx D) : α :=
  sumIdx box (fun idx => cot idx * L (unitArr j) idx)

/-- a quadratic regulariser `Σ_l w_l Σ_idx ((L_l A) idx)²` (bending_loss @1221-1229: second
    derivatives, mixed ones weighted 2; grad_loss(p=2, q=1) @1164-1176 / diffusion_loss: first
    derivatives) over the box `box`. -/
def quadReg {D : Nat} (terms : List (α × (Arr D α → Arr D α))) (box : List (Idx D)) (A : Arr D α) : α :=
  lsum (terms.map (fun t => t.1 * sumIdx box (fun idx => t.2 A idx * t.2 A idx)))

/-- ∂ `quadReg terms box A` / ∂ `A j` = `Σ_l w_l Σ_idx 2·(L_l A) idx·(L_l e_j) idx`. -/
def gradQuadReg {D : Nat} (terms : List (α × (Arr D α → Arr D α))) (box : List (Idx D)) (A : Arr D α)
    (j : Idx D) : α :=
  lsum (terms.map (fun t =>
    t.1 * sumIdx box (fun idx => ((2 : Nat) : α) * (t.2 A idx * t.2 (unitArr j) idx))))

end FDGrad

/-! ### (g) compose_flows / one expv step w.r.t. the field values -/
section FlowGrad
variable {α : Type} [Add α] [Sub α] [Mul α] [Div α] [Neg α] [NatCast α] [IntCast α]
  [HasFloor α] [LT α] [DecidableRel (α := α) (· < ·)] {d : Nat}

/-- gradient of `Σ_idx Σ_c cot idx c · (composeFlows ac n u v idx) c` w.r.t. `u idx c'`
    (compose_flows @58-64: `u + v(x + u)`): identity part plus the coordinate gradient of the
    sampled `v`. -/
def gradComposeU (ac : Bool) (pad : Padding) (n : Fin d → Nat) (u v : VField d α) (cot : VField d α)
    (idx : Fin d → Int) (c' : Fin d) : α :=
  cot idx c' + sumFin d (fun c =>
    cot idx c * gradSampleCoord ac pad n (fun k => v k c) ((latticePoint ac n idx).add (u idx)) c')

/-- … w.r.t. `v j c'`: the sampling weights of `j` at every displaced lattice point. -/
def gradComposeV (ac : Bool) (pad : Padding) (n : Fin d → Nat) (u : VField d α) (cot : VField d α)
    (box : List (Fin d → Int)) (j : Fin d → Int) (c' : Fin d) : α :=
  lsum (box.map (fun idx =>
    cot idx c' * gradSampleValue ac pad n ((latticePoint ac n idx).add (u idx)) j))

/-- one `expv` step @368-377 `disp + warp_image(disp, grid, flow=disp)`: `disp` plays both roles. -/
def gradExpvStep (ac : Bool) (pad : Padding) (n : Fin d → Nat) (disp : VField d α) (cot : VField d α)
    (box : List (Fin d → Int)) (j : Fin d → Int) (c' : Fin d) : α :=
  gradComposeU ac pad n disp disp cot j c' + gradComposeV ac pad n disp cot box j c'

end FlowGrad

/-! ### (h) linear transforms applied to points w.r.t. their parameters -/
section LinearParams
variable {α : Type} [Add α] [Sub α] [Mul α] [Div α] [Neg α] [NatCast α]

/-- 2-D rotation applied to a point, `c = cos θ`, `s = sin θ` given
    (affine.py:euler_rotation_matrix, 2-D branch: `[[c, −s], [s, c]]`; transform_points @449). -/
def rot2Apply (c s : α) (x : Vec 2 α) : Vec 2 α :=
  fun i => if i = 0 then c * x 0 - s * x 1 else s * x 0 + c * x 1

/-- ∂/∂p of `rot2Apply (cos θ(p)) (sin θ(p)) x` given `d cos/dθ = −s`, `d sin/dθ = c` and the
    derivative `dθ` of the re-parameterisation (`EulerRotation.angles` @188-193:
    `θ = π·tanh p`, `dθ/dp = π(1 − tanh² p)`), contracted with the cotangent. -/
def gradRot2 (c s dtheta : α) (x cot : Vec 2 α) : α :=
  dtheta * (cot 0 * (-(s * x 0) - c * x 1) + cot 1 * (c * x 0 - s * x 1))

/-- translation `x + t` w.r.t. `t i`, anisotropic scaling `diag(σ)·x` w.r.t. the parameter `p i`
    given `dsigma i = dσ_i/dp_i` (`AnisotropicScaling.scales` @463-468: `σ = exp(tanh(p − 1))`, so
    `dσ/dp = σ·(1 − tanh²(p − 1))`), contracted with the cotangent. -/
def gradTranslate {d : Nat} (cot : Vec d α) (i : Fin d) : α := cot i
def gradScale {d : Nat} (dsigma x cot : Vec d α) (i : Fin d) : α := cot i * (dsigma i * x i)

/-- `diag(σ)·x + t` (what `scaling_transform` / `translation` followed by `transform_points` compute). -/
def scaleTranslateApply {d : Nat} (sigma t x : Vec d α) : Vec d α := fun i => sigma i * x i + t i

end LinearParams

end Deepali.Grad
