/-
  Model/Grid.lean — oriented sampling grid and its coordinate maps.
  src: src/deepali/core/grid.py (line ranges next to each definition).
  The model keeps the *float-valued* `_size` attribute and derives the integral size with
  `ceil` exactly like `Grid.size_tensor()`.
-/
import Deepali.Model.Homog
namespace Deepali

/-- integer rounding primitives; `Rat` instance below, `FloorRing` instance in the proofs. -/
class HasFloor (α : Type) where
  floor : α → Int
  ceil : α → Int

instance : HasFloor Rat := ⟨Rat.floor, Rat.ceil⟩

/-- grid.py `class Axes` @44-62. -/
inductive Axes | grid | cube | cubeCorners | world
  deriving DecidableEq, Repr, Inhabited

/-- grid.py `Axes.from_align_corners` @77-79. -/
def Axes.fromAlignCorners : Bool → Axes
  | true => .cubeCorners
  | false => .cube

/-- grid.py `Grid.__slots__` @110-116. -/
structure Grid (d : Nat) (α : Type) where
  size : Vec d α          -- `_size` (float valued!)
  center : Vec d α        -- `_center`
  spacing : Vec d α       -- `_spacing`
  direction : Mat d α     -- `_direction`
  alignCorners : Bool     -- `_align_corners`

section
variable {α : Type} [Add α] [Sub α] [Mul α] [Div α] [Neg α] [NatCast α] [IntCast α] {d : Nat}

/-- grid.py `_round_size` @399-402 + `size_tensor` @404-406: `where(size == 0, 0, ceil(size))`. -/
def Grid.sizeTensor [HasFloor α] [DecidableEq α] (g : Grid d α) : Vec d α :=
  fun i => if g.size i = ((0 : Nat) : α) then ((0 : Nat) : α) else ((HasFloor.ceil (g.size i) : Int) : α)

/-- grid.py `affine` @579-581: `mm(direction, diag(spacing))`. -/
def Grid.affine (g : Grid d α) : Mat d α := g.direction.mul (Mat.diag g.spacing)

/-- grid.py `inverse_affine` @583-586: `mm(diag(1/spacing), direction.t())`. -/
def Grid.inverseAffine (g : Grid d α) : Mat d α :=
  (Mat.diag (fun i => ((1 : Nat) : α) / g.spacing i)).mul g.direction.transpose

/-- grid.py `extent` @430-434. -/
def Grid.extent [HasFloor α] [DecidableEq α] (g : Grid d α) : Vec d α := g.spacing.mul g.sizeTensor

/-- grid.py `cube_extent` @436-446. -/
def Grid.cubeExtent [HasFloor α] [DecidableEq α] (g : Grid d α) : Vec d α :=
  let n := g.sizeTensor
  let n := if g.alignCorners then (fun i => n i - ((1 : Nat) : α)) else n
  g.spacing.mul n

end

section
variable {α : Type} [Add α] [Sub α] [Mul α] [Div α] [Neg α] [NatCast α] [IntCast α]
  [HasFloor α] [DecidableEq α] [LT α] [DecidableRel (α := α) (· < ·)] {d : Nat}

/-- offset of grid.py `origin` @490-492 / `origin_` @499-501:
    `matmul(affine, where(size > 0, size - 1, size) / 2)`. -/
def Grid.originOffset (g : Grid d α) : Vec d α :=
  let n := g.sizeTensor
  g.affine.mulVec (fun i => (if ((0 : Nat) : α) < n i then n i - ((1 : Nat) : α) else n i) / ((2 : Nat) : α))

/-- grid.py `origin()` @483-493. -/
def Grid.origin (g : Grid d α) : Vec d α := g.center.sub g.originOffset

/-- grid.py `origin_` @496-503 (as used by `Grid(origin=…)` @186-188). -/
def Grid.withOrigin (g : Grid d α) (o : Vec d α) : Grid d α := { g with center := o.add g.originOffset }

/-- grid.py `Grid.__init__(size, origin, spacing, direction)`. -/
def Grid.fromOrigin (size origin spacing : Vec d α) (direction : Mat d α) (ac : Bool) : Grid d α :=
  Grid.withOrigin ⟨size, fun _ => ((0 : Nat) : α), spacing, direction, ac⟩ origin

/-- grid.py `Grid.transform` @588-700, the branch table for `to_grid is None or to_grid == self`.
    Result is in the operand form the code returns (note CUBE↔CUBE_CORNERS returns a bare
    square matrix even for points). -/
def Grid.transform (g : Grid d α) (axes toAxes : Axes) (vectors : Bool) : H d α :=
  let n := g.sizeTensor
  let one : α := ((1 : Nat) : α)
  let two : α := ((2 : Nat) : α)
  let half : α := one / two
  let zero : α := ((0 : Nat) : α)
  let wrap (A : Mat d α) (t : Vec d α) : H d α := if vectors then .aff A else (H.aff A).homogeneousMatrix t
  let compose (a b : H d α) : H d α :=          -- torch.mm for vectors, hmm otherwise
    if vectors then a.matmul b else a.hmm b
  match axes, toAxes with
  | .grid, .grid | .cube, .cube | .cubeCorners, .cubeCorners | .world, .world =>
      wrap Mat.one (fun _ => zero)                                             -- @621-625
  | .grid, .cube => wrap (Mat.diag (fun i => two / n i)) (fun i => one / n i - one)      -- @627-632
  | .grid, .cubeCorners => wrap (Mat.diag (fun i => two / (n i - one))) (fun _ => -one)  -- @633-638
  | .grid, .world => wrap g.affine g.origin                                     -- @639-642
  | .cube, .cubeCorners => .aff (Mat.diag (fun i => n i / (n i - one)))         -- @644-646
  | .cube, .grid => wrap (Mat.diag (fun i => half * n i)) (fun i => half * n i - half)   -- @647-651
  | .cube, .world =>                                                            -- @652-658
      compose (wrap g.affine g.origin)
              (wrap (Mat.diag (fun i => half * n i)) (fun i => half * n i - half))
  | .cubeCorners, .cube => .aff (Mat.diag (fun i => (n i - one) / n i))         -- @660-662
  | .cubeCorners, .grid =>                                                      -- @663-667
      wrap (Mat.diag (fun i => half * (n i - one))) (fun i => half * (n i - one))
  | .cubeCorners, .world =>                                                     -- @668-675
      compose (wrap g.affine g.origin)
              (wrap (Mat.diag (fun i => half * (n i - one))) (fun i => half * (n i - one)))
  | .world, .grid =>                                                            -- @685-688
      if vectors then .aff g.inverseAffine
      else (H.aff g.inverseAffine).hmm (.trans (g.origin.neg))
  | .world, .cube =>                                                            -- @677-684
      compose (wrap (Mat.diag (fun i => two / n i)) (fun i => one / n i - one))
              (if vectors then .aff g.inverseAffine else (H.aff g.inverseAffine).hmm (.trans (g.origin.neg)))
  | .world, .cubeCorners =>
      compose (wrap (Mat.diag (fun i => two / (n i - one))) (fun _ => -one))
              (if vectors then .aff g.inverseAffine else (H.aff g.inverseAffine).hmm (.trans (g.origin.neg)))

/-- grid.py `Grid.transform` @691-697, the branch for a different `to_grid`. -/
def Grid.transformTo (g : Grid d α) (axes : Axes) (g' : Grid d α) (toAxes : Axes) (vectors : Bool) : H d α :=
  let targetToWorld := g.transform axes .world vectors
  let worldToSource := g'.transform .world toAxes vectors
  if vectors then worldToSource.matmul targetToWorld else worldToSource.hmm targetToWorld

/-- what `homogeneous_transform(matrix, input, vectors)` does with the result of `transform`. -/
def H.applyAs (vectors : Bool) (h : H d α) (x : Vec d α) : Vec d α :=
  if vectors then h.applyVec x else h.apply x

/-- grid.py `apply_transform` @734-744 without the decimal rounding (`decimals=None`),
    same grid. -/
def Grid.applyTransform (g : Grid d α) (axes toAxes : Axes) (vectors : Bool) (x : Vec d α) : Vec d α :=
  if axes = toAxes then x else (g.transform axes toAxes vectors).applyAs vectors x

/-- grid.py `apply_transform` @739-742 with `to_grid != self`. -/
def Grid.applyTransformTo (g : Grid d α) (axes : Axes) (g' : Grid d α) (toAxes : Axes) (vectors : Bool)
    (x : Vec d α) : Vec d α :=
  (g.transformTo axes g' toAxes vectors).applyAs vectors x

/-- grid.py `transform_vectors` @802-858, same-grid branch: the *separate* closed-form
    scale / affine path (does not go through `Grid.transform`). `none` = scales, affine. -/
def Grid.transformVectors (g : Grid d α) (axes toAxes : Axes) (v : Vec d α) : Vec d α :=
  let n := g.sizeTensor
  let one : α := ((1 : Nat) : α)
  let two : α := ((2 : Nat) : α)
  if axes = .world ∧ toAxes = .world then v else
  if axes = toAxes then v else
  -- first stage @813-822
  let (affine, scales) : Option (Mat d α) × Option (Vec d α) :=
    match axes with
    | .world => (some g.inverseAffine, none)
    | .cube => (none, some (fun i => n i / two))
    | .cubeCorners => (none, some (fun i => (n i - one) / two))
    | .grid => (none, none)
  -- second stage @823-845
  let (affine, scales) : Option (Mat d α) × Option (Vec d α) :=
    match toAxes with
    | .world =>
        (match scales with
          | none => (some g.affine, scales)        -- `assert affine is None`
          | some s => (some (g.affine.mul (Mat.diag s)), scales))
    | .cube | .cubeCorners =>
        let num : Vec d α := if toAxes = .cubeCorners then (fun i => n i - one) else n
        let gridToCube : Vec d α := fun i => two / num i
        (match affine with
          | none => (none, some (match scales with | none => gridToCube | some s => s.mul gridToCube))
          | some A => (some ((Mat.diag gridToCube).mul A), scales))
    | .grid => (affine, scales)
  -- third stage @846-853
  match affine, scales with
  | none, some s => v.mul s
  | some A, _ => A.mulVec v
  | none, none => v      -- unreachable (`assert scales is not None`)

/-- grid.py `transform_vectors` @855-857, different `to_grid`. -/
def Grid.transformVectorsTo (g : Grid d α) (axes : Axes) (g' : Grid d α) (toAxes : Axes) (v : Vec d α) : Vec d α :=
  if axes = .world ∧ toAxes = .world then v else
  (g.transformTo axes g' toAxes true).applyVec v

end

/-- math.py `round_decimals` @55-66 on exact rationals, with torch's round-half-to-even. -/
def roundHalfEven (x : Rat) : Int :=
  let f := x.floor
  let r := x - (f : Rat)
  if r < (1 : Rat) / 2 then f
  else if (1 : Rat) / 2 < r then f + 1
  else if f % 2 = 0 then f else f + 1

def roundDecimals (decimals : Nat) (x : Rat) : Rat :=
  let scale : Rat := ((10 ^ decimals : Nat) : Rat)
  ((roundHalfEven (x * scale) : Int) : Rat) / scale

/-- grid.py `coords(dim, normalize=True)` @1032-1042 for one axis of `n` samples as the code
    intends it: `arange(first, last, step)` whose k-th element is `first + k·step`, with
    `⌈(last − first)/step⌉` elements. Returns `(first, step, count)`. -/
def coordsArange (n : Nat) (alignCorners : Bool) : Rat × Rat × Int :=
  if n = 1 then (0, 0, 1) else
  if alignCorners then
    let spacing : Rat := 2 / ((n : Rat) - 1)
    let (a, b) : Rat × Rat := (-1, 1 + (1 : Rat) / 10 * spacing)
    (a, spacing, ((b - a) / spacing).ceil)
  else
    let spacing : Rat := 2 / (n : Rat)
    let (a, b) : Rat × Rat := (-1 + (1 : Rat) / 2 * spacing, 1)
    (a, spacing, ((b - a) / spacing).ceil)

end Deepali
