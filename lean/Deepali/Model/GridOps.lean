/-
  Model/GridOps.lean — grids derived from another grid (property C03).
  src: src/deepali/core/grid.py  `_resize` @1076-1104, `resize` @1106-1130, `reshape` @1132-1159,
       `resample` @1161-1194, `pool` @1196-1235, `downsample` @1247-1277, `upsample` @1279-1307,
       `pyramid` @1309-1353, `crop` @1355-1409, `pad` @1411-1465, `center_crop` @1467-1483,
       `center_pad` @1485-1501, `narrow` @1503-1516, `region_of_interest` @1518-1533;
       src/deepali/core/cube.py `Cube.grid` @145-186, grid.py `Grid.cube` @317-327.
  Core Lean only. The float-valued `_size` is kept as a scalar of the field; torch `ceil`/`floor`
  are the `HasFloor` primitives; torch division by zero (inf/nan, no exception) is *not* modelled:
  the predicate `resizeFinite` tells the driver when the code would divide by zero.
-/
import Deepali.Model.Grid
namespace Deepali

section
variable {α : Type} [Add α] [Sub α] [Mul α] [Div α] [Neg α] [NatCast α] [IntCast α]
  [HasFloor α] [DecidableEq α] [LT α] [DecidableRel (α := α) (· < ·)] {d : Nat}

/-- `all()` of a boolean tensor with one entry per axis. -/
def vecAll (p : Fin d → Bool) : Bool := (List.finRange d).all p

/-- grid.py `_round_size` @399-402: `where(size == 0, 0, ceil(size))`. -/
def roundSize (s : Vec d α) : Vec d α :=
  fun i => if s i = ((0 : Nat) : α) then ((0 : Nat) : α) else ((HasFloor.ceil (s i) : Int) : α)

/-- grid.py `size()` @418-423: the rounded size as Python ints. -/
def Grid.sizeInt (g : Grid d α) : Fin d → Int :=
  fun i => if g.size i = ((0 : Nat) : α) then 0 else HasFloor.ceil (g.size i)

/-- grid.py `index_to_world` @901-912 (`decimals=-1` does not round WORLD coordinates). -/
def Grid.indexToWorld (g : Grid d α) (x : Vec d α) : Vec d α := g.applyTransform .grid .world false x

/-- grid.py `world_to_index` @914-925 with `decimals=None`. -/
def Grid.worldToIndex (g : Grid d α) (x : Vec d α) : Vec d α := g.applyTransform .world .grid false x

/-- grid.py `Grid.__init__(size=…, origin=…, spacing=…, direction=…)` @154-188:
    `_size = clamp(size.float(), min=0)`, then `origin_`. -/
def Grid.init (size origin spacing : Vec d α) (direction : Mat d α) (ac : Bool) : Grid d α :=
  Grid.fromOrigin (fun i => if size i < ((0 : Nat) : α) then ((0 : Nat) : α) else size i) origin spacing direction ac

/-- grid.py `_resize` @1076-1104. `ac = none` ↔ `align_corners=None`. The two `assert`s
    @1099/@1103 are not part of the result; `Props/C03.lean` proves they hold exactly. -/
def Grid.resizeCore (g : Grid d α) (size : Vec d α) (ac : Option Bool) : Grid d α :=
  let ac := match ac with
    | some b => b
    | none => g.alignCorners                                                   -- @1088-1089
  if vecAll (fun i => decide (size i = g.size i)) then g else                 -- @1091-1092
  let n := roundSize size                                                      -- @1095
  let one : α := ((1 : Nat) : α)
  let sp : Vec d α :=
    if ac then fun i => (g.extent i - g.spacing i) / (n i - one)               -- @1097
    else fun i => g.extent i / n i                                             -- @1101
  { g with size := size                                                        -- @1094
           spacing := fun i => if ((0 : Nat) : α) < g.size i then sp i else g.spacing i }   -- @1098/@1102

/-- no division by zero in `_resize` (torch would produce inf/nan spacing). -/
def Grid.resizeFinite (g : Grid d α) (size : Vec d α) (ac : Option Bool) : Bool :=
  let ac := match ac with
    | some b => b
    | none => g.alignCorners
  vecAll (fun i => decide (size i = g.size i)) ||
  vecAll (fun i =>
    if ((0 : Nat) : α) < g.size i then
      (if ac then !decide (roundSize size i = ((1 : Nat) : α)) else !decide (roundSize size i = ((0 : Nat) : α)))
    else true)

/-- grid.py `resize` @1106-1130 (`size` are non-negative ints, order `(X, …)`). -/
def Grid.resize (g : Grid d α) (n : Fin d → Nat) (ac : Option Bool) : Grid d α :=
  g.resizeCore (fun i => ((n i : Nat) : α)) ac

/-- grid.py `reshape` @1132-1159: `_resize(shape.flip(0))`. -/
def Grid.reshape (g : Grid d α) (shape : Fin d → Nat) (ac : Option Bool) : Grid d α :=
  g.resizeCore (fun i => ((shape i.rev : Nat) : α)) ac

/-- `2**levels` for a Python int (negative exponent gives the exact float `1/2^k`). -/
def pow2 (levels : Int) : α :=
  if 0 ≤ levels then (((2 : Nat) ^ levels.toNat : Nat) : α)
  else ((1 : Nat) : α) / (((2 : Nat) ^ (-levels).toNat : Nat) : α)

/-- `dims` of `downsample`/`upsample`/`pyramid`: empty means all spatial dimensions. -/
def allDims (dims : List (Fin d)) : List (Fin d) := if dims.isEmpty then List.finRange d else dims

/-- grid.py `downsample` @1267-1276: the float-valued target size
    (`for dim in dims: size[dim] /= scale`, repeated dims repeat; `where(size.ge(min_size), size, self._size)`). -/
def Grid.downsampleSize (g : Grid d α) (levels : Int) (dims : List (Fin d)) (minSize : Nat) : Vec d α :=
  let scale : α := pow2 levels
  let size : Vec d α := (allDims dims).foldl (fun s k => fun i => if i = k then s i / scale else s i) g.size
  fun i => if size i < ((minSize : Nat) : α) then g.size i else size i         -- @1276

/-- grid.py `downsample` @1277. -/
def Grid.downsample (g : Grid d α) (levels : Int) (dims : List (Fin d)) (minSize : Nat) (ac : Option Bool) :
    Grid d α :=
  g.resizeCore (g.downsampleSize levels dims minSize) ac

/-- grid.py `upsample` @1298-1306. -/
def Grid.upsampleSize (g : Grid d α) (levels : Int) (dims : List (Fin d)) : Vec d α :=
  let scale : α := pow2 levels
  (allDims dims).foldl (fun s k => fun i => if i = k then s i * scale else s i) g.size

/-- grid.py `upsample` @1307. -/
def Grid.upsample (g : Grid d α) (levels : Int) (dims : List (Fin d)) (ac : Option Bool) : Grid d α :=
  g.resizeCore (g.upsampleSize levels dims) ac

/-- torch.allclose(a, b) with default `rtol=1e-5, atol=1e-8`: `|a − b| ≤ atol + rtol·|b|`. -/
def allclose (a b : α) : Bool :=
  let abs (x : α) : α := if x < ((0 : Nat) : α) then -x else x
  let atol : α := ((1 : Nat) : α) / ((100000000 : Nat) : α)
  let rtol : α := ((1 : Nat) : α) / ((100000 : Nat) : α)
  !decide (atol + rtol * abs b < abs (a - b))

/-- grid.py `resample` @1184-1194 with an explicit spacing vector. -/
def Grid.resample (g : Grid d α) (sp : Vec d α) (minSize : Nat) : Grid d α :=
  if vecAll (fun i => allclose (sp i) (g.spacing i)) then g else              -- @1185-1186
  let size : Vec d α := fun i => g.extent i / sp i                             -- @1189
  let size : Vec d α := fun i =>                                               -- @1190
    if ((0 : Nat) : α) < g.size i then (if size i < ((minSize : Nat) : α) then ((minSize : Nat) : α) else size i)
    else size i
  { g with size := size, spacing := sp }

/-- `self._spacing.min()` / `.max()` @1174-1179. -/
def vecExtreme (useMax : Bool) (s : Vec d α) : α :=
  match List.finRange d with
  | [] => ((0 : Nat) : α)
  | i :: is => is.foldl (fun m j => if useMax then (if m < s j then s j else m) else (if s j < m then s j else m)) (s i)

/-- grid.py `resample("min" | "max")`. -/
def Grid.resampleIso (g : Grid d α) (useMax : Bool) (minSize : Nat) : Grid d α :=
  g.resample (fun _ => vecExtreme useMax g.spacing) minSize

end

/-! ### `Grid.pyramid`: pure integer recurrences (Python ints) -/

/-- `sum([2**i for i in range(levels)])` @1343. -/
def pow2sum : Nat → Int
  | 0 => 0
  | k + 1 => pow2sum k + 2 ^ k

/-- size at the coarsest level @1346: `int(0.5 + (n + m) / 2**levels)`; for the non-negative ints the
    code sees this is `⌊(2(n+m) + 2^L) / 2^(L+1)⌋` (the float expression is exact below 2^52). -/
def pyrTop (n : Int) (levels : Nat) (ac : Bool) : Int :=
  let m : Int := if ac then pow2sum levels else 0
  (2 * (n + m) + 2 ^ levels) / 2 ^ (levels + 1)

/-- @1347-1348: `sizes[level] = 2 * sizes[level + 1] - 1`, `k` steps up from the coarsest level. -/
def pyrUp (top : Int) : Nat → Int
  | 0 => top
  | k + 1 => 2 * pyrUp top k - 1

/-- @1349-1352: `sizes[level] = (sizes[level-1] + 1) // 2`, kept at the previous size below `min_size`. -/
def pyrDown (minSize : Int) (s0 : Int) : Nat → Int
  | 0 => s0
  | l + 1 =>
      let p := pyrDown minSize s0 l
      let c := (p + 1) / 2
      if c < minSize then p else c

/-- size of one axis at `level ≤ levels` (axes not in `dims` keep `n`). -/
def pyramidSize (n : Int) (levels : Nat) (ac : Bool) (minSize : Int) (inDims : Bool) (level : Nat) : Int :=
  if inDims then pyrDown minSize (pyrUp (pyrTop n levels ac) levels) level else n

section
variable {α : Type} [Add α] [Sub α] [Mul α] [Div α] [Neg α] [NatCast α] [IntCast α]
  [HasFloor α] [DecidableEq α] [LT α] [DecidableRel (α := α) (· < ·)] {d : Nat}

/-- per-axis sizes of pyramid level `level` @1343-1352. -/
def Grid.pyramidSizes (g : Grid d α) (levels : Nat) (dims : List (Fin d)) (minSize : Int) (level : Nat) :
    Fin d → Int :=
  fun i => pyramidSize (g.sizeInt i) levels g.alignCorners minSize ((allDims dims).contains i) level

/-- grid.py `pyramid` @1353: `self.resize(size)` for one level (negative sizes are rejected by
    `resize` with a ValueError — the driver reports `err:value`). -/
def Grid.pyramidLevel (g : Grid d α) (levels : Nat) (dims : List (Fin d)) (minSize : Int) (level : Nat) :
    Grid d α :=
  g.resize (fun i => (g.pyramidSizes levels dims minSize level i).toNat) none

/-- the whole dictionary, finest level first. -/
def Grid.pyramid (g : Grid d α) (levels : Nat) (dims : List (Fin d)) (minSize : Int) : List (Grid d α) :=
  (List.range (levels + 1)).map (fun l => g.pyramidLevel levels dims minSize l)

/-! ### index operations -/

/-- the `args` / `margin` / `num` argument forms of `crop` and `pad` @1378-1397. -/
inductive MarginArg where
  | all (n : Int)               -- scalar `margin` or `num`
  | margin (m : List Int)       -- one number per axis, `(X, …)`
  | num (l : List Int)          -- `(x_lo, x_hi, y_lo, y_hi, …)`
  deriving Repr

/-- @1384-1397: normalise to the per-border tuple; `none` = ValueError (odd length). -/
def MarginArg.toNum (ndim : Nat) : MarginArg → Option (List Int)
  | .all n => some (List.replicate (2 * ndim) n)
  | .margin m => some (m.flatMap (fun n => [n, n]) ++ List.replicate (2 * ndim - 2 * m.length) 0)
  | .num l => if l.length % 2 ≠ 0 then none else some (l ++ List.replicate (2 * ndim - l.length) 0)

/-- grid.py `crop` @1395-1409 on the normalised tuple. -/
def Grid.cropNum (g : Grid d α) (num : List Int) : Grid d α :=
  if num.all (· == 0) then g else                                              -- @1395-1396
  let lo : Fin d → Int := fun i => num.getD (2 * i.val) 0                       -- num_[::2]
  let hi : Fin d → Int := fun i => num.getD (2 * i.val + 1) 0                   -- num_[1::2]
  let one : α := ((1 : Nat) : α)
  let size : Vec d α := fun i =>
    let s := g.size i - ((lo i : Int) : α) - ((hi i : Int) : α)
    let s := if s < one then one else s                                        -- clamp(min=1) @1399
    if ((0 : Nat) : α) < g.size i then s else g.size i                         -- @1400
  let origin := g.indexToWorld (fun i => ((lo i : Int) : α))                   -- @1401
  Grid.init size origin g.spacing g.direction g.alignCorners

/-- grid.py `pad` @1451-1465. -/
def Grid.padNum (g : Grid d α) (num : List Int) : Grid d α :=
  if num.all (· == 0) then g else
  let lo : Fin d → Int := fun i => num.getD (2 * i.val) 0
  let hi : Fin d → Int := fun i => num.getD (2 * i.val + 1) 0
  let one : α := ((1 : Nat) : α)
  let size : Vec d α := fun i =>
    let s := g.size i + ((lo i : Int) : α) + ((hi i : Int) : α)
    let s := if s < one then one else s                                        -- @1455
    if ((0 : Nat) : α) < g.size i then s else g.size i                         -- @1456
  let origin := g.indexToWorld (fun i => -((lo i : Int) : α))                  -- @1457
  Grid.init size origin g.spacing g.direction g.alignCorners

/-- grid.py `center_crop` @1474-1483. -/
def Grid.centerCrop (g : Grid d α) (n : Fin d → Int) : Grid d α :=
  let m := g.sizeInt
  let size : Fin d → Int := fun i => if n i < m i then n i else m i             -- min(m, n)
  let first : Fin d → Int := fun i => (m i - size i) / 2                        -- `//` on ints ≥ 0
  Grid.init (fun i => ((size i : Int) : α)) (g.indexToWorld (fun i => ((first i : Int) : α)))
    g.spacing g.direction g.alignCorners

/-- grid.py `center_pad` @1492-1501. -/
def Grid.centerPad (g : Grid d α) (n : Fin d → Int) : Grid d α :=
  let m := g.sizeInt
  let size : Fin d → Int := fun i => if m i < n i then n i else m i             -- max(m, n)
  let first : Fin d → Int := fun i => -((size i - m i) / 2)
  Grid.init (fun i => ((size i : Int) : α)) (g.indexToWorld (fun i => ((first i : Int) : α)))
    g.spacing g.direction g.alignCorners

/-- grid.py `narrow` @1507-1516 (the `dim` range check @1505 is done by the driver). -/
def Grid.narrow (g : Grid d α) (dim : Nat) (start length : Int) : Grid d α :=
  let m := g.sizeInt
  let size : Fin d → Int := fun i => if i.val = dim then length else m i
  let first : Fin d → Int := fun i => if i.val = dim then start else 0
  Grid.init (fun i => ((size i : Int) : α)) (g.indexToWorld (fun i => ((first i : Int) : α)))
    g.spacing g.direction g.alignCorners

/-- grid.py `region_of_interest` @1530-1533: per-border numbers, then `crop(num=…)`. -/
def Grid.roiNum (g : Grid d α) (start size : Fin d → Int) : List Int :=
  (List.finRange d).flatMap (fun i => [start i, g.sizeInt i - (start i + size i)])

def Grid.regionOfInterest (g : Grid d α) (start size : Fin d → Int) : Grid d α :=
  g.cropNum (g.roiNum start size)

/-- grid.py `pool` @1223-1235 (`stride`, `padding`, `dilation` other than default are rejected). -/
def Grid.pool (g : Grid d α) (ks : Fin d → Nat) (ceilMode : Bool) : Grid d α :=
  let k : Vec d α := fun i => ((ks i : Nat) : α)
  let one : α := ((1 : Nat) : α)
  let two : α := ((2 : Nat) : α)
  let size : Fin d → Int := fun i =>
    let q := g.sizeTensor i / k i
    if ceilMode then HasFloor.ceil q else HasFloor.floor q                      -- @1224-1226
  Grid.init (fun i => ((size i : Int) : α)) (g.indexToWorld (fun i => (k i - one) / two))   -- @1229
    (g.spacing.mul k) g.direction g.alignCorners                               -- @1230

/-! ### Cube ↔ Grid -/

/-- grid.py `Grid.cube` @317-327: `(extent, center, direction)`. -/
def Grid.cube (g : Grid d α) : Vec d α × Vec d α × Mat d α := (g.cubeExtent, g.center, g.direction)

/-- cube.py `Cube.grid(size=…, align_corners=…)` @163-179 (the `size` branch). The final
    `allclose(grid.cube_extent(), self.extent())` check @181-185 is proved exact in Props/C03. -/
def cubeGrid (extent center : Vec d α) (direction : Mat d α) (size : Fin d → Nat) (ac : Bool) : Grid d α :=
  let ncells : Vec d α := fun i =>
    if ac then ((size i : Nat) : α) - ((1 : Nat) : α) else ((size i : Nat) : α)   -- @171-174
  ⟨fun i => ((size i : Nat) : α), center, fun i => extent i / ncells i, direction, ac⟩

/-! ### operations as data (for chains of arbitrary length) -/

inductive GridOp (d : Nat) (α : Type) where
  | resize (n : Fin d → Nat) (ac : Option Bool)
  | reshape (shape : Fin d → Nat) (ac : Option Bool)
  | resample (sp : Vec d α) (minSize : Nat)
  | resampleIso (useMax : Bool) (minSize : Nat)
  | downsample (levels : Int) (dims : List (Fin d)) (minSize : Nat) (ac : Option Bool)
  | upsample (levels : Int) (dims : List (Fin d)) (ac : Option Bool)
  | pyramidLevel (levels : Nat) (dims : List (Fin d)) (minSize : Int) (level : Nat)
  | crop (num : List Int)
  | pad (num : List Int)
  | centerCrop (n : Fin d → Int)
  | centerPad (n : Fin d → Int)
  | narrow (dim : Nat) (start length : Int)
  | roi (start size : Fin d → Int)
  | pool (ks : Fin d → Nat) (ceilMode : Bool)

def GridOp.apply (op : GridOp d α) (g : Grid d α) : Grid d α :=
  match op with
  | .resize n ac => g.resize n ac
  | .reshape s ac => g.reshape s ac
  | .resample sp m => g.resample sp m
  | .resampleIso mx m => g.resampleIso mx m
  | .downsample l dims m ac => g.downsample l dims m ac
  | .upsample l dims ac => g.upsample l dims ac
  | .pyramidLevel l dims m k => g.pyramidLevel l dims m k
  | .crop num => g.cropNum num
  | .pad num => g.padNum num
  | .centerCrop n => g.centerCrop n
  | .centerPad n => g.centerPad n
  | .narrow dim s l => g.narrow dim s l
  | .roi s n => g.regionOfInterest s n
  | .pool ks c => g.pool ks c

/-- apply a chain of operations, first element first. -/
def GridOp.applyAll : List (GridOp d α) → Grid d α → Grid d α
  | [], g => g
  | op :: ops, g => GridOp.applyAll ops (op.apply g)

end
end Deepali
