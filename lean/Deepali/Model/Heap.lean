/-
  Model/Heap.lean — property C15 (no hidden mutation).  Core Lean only.

  Part 1 — tensor-level API.  A call of a public function is observed (TorchDispatchMode) as a
  sequence of aten operations; each is abstracted to one or more `TrOp`s over *tensor ids*:
    fresh t       the op returned a tensor living in a storage that did not exist before
    view t src    the op returned a new tensor object sharing the storage of tensor `src`
    alias t src   the op returned a new handle on the same data as `src` (detach / alias / lift)
    inplace t     the op's schema marks the argument bound to tensor `t` as written (`Tensor(a!)`):
                  trailing-underscore ops, `out=` arguments, `copy_`, `index_put_`, …
  Torch semantics that are *modelled* here (trusted, cross-checked by the observer on every run):
  an aten op writes only to storages of arguments its schema marks as written and to storages it
  allocates itself; views share the storage of their base.

  `exec` gives traces a heap semantics (storage id ↦ abstract content); an in-place op replaces the
  content of the storage of its target by an ARBITRARY new value (`writes step heap`), a fresh op
  allocates the next storage id and initialises it arbitrarily.  `safe` is the monitor: it tracks
  the storage id of every tensor id and rejects a trace iff some in-place op targets a storage
  listed in `args`.

  Part 2 — accessors and copies: object-graph model (objects, dict containers, tensors, grids are
  nodes with identity; slots/entries hold references), a straight-line command language in which
  `copy.copy`, `Grid.clone`, `SpatialTransform.__copy__`, `Module.__setattr__`, the in-place setters
  and the non-underscore accessors of Grid, Cube, Image/ImageBatch/FlowFields and SpatialTransform
  are transcribed, and the frame bookkeeping (`touched`) used to predict which receiver slots change.
-/
namespace Deepali

/-! ## Part 1: op traces, heap semantics, monitor -/

inductive TrOp where
  | fresh (t : Nat)
  | view (t src : Nat)
  | aliasOf (t src : Nat)
  | inplace (t : Nat)
  deriving DecidableEq, Repr

abbrev Trace := List TrOp

/-- tensor id ↦ storage id (most recent binding first) -/
abbrev TEnv := List (Nat × Nat)

/-- a heap of storages: `read s` is the abstract content of storage `s`; storages `< next` exist -/
structure Heap (V : Type) where
  read : Nat → V
  next : Nat

def Heap.write {V} (h : Heap V) (s : Nat) (v : V) : Heap V :=
  { h with read := fun k => if k = s then v else h.read k }

/-- allocate the next storage id and initialise it -/
def Heap.alloc {V} (h : Heap V) (v : V) : Heap V :=
  { read := fun k => if k = h.next then v else h.read k, next := h.next + 1 }

/-- the storage bookkeeping shared by the semantics and the monitor: what a trace op does to the
    tensor-id ↦ storage-id map and to the allocation counter. -/
def envStep (env : TEnv) (next : Nat) : TrOp → TEnv × Nat
  | .fresh t => ((t, next) :: env, next + 1)
  | .view t src | .aliasOf t src =>
      match env.lookup src with
      | some s => ((t, s) :: env, next)
      | none => (env, next)
  | .inplace _ => (env, next)

/-- `writes k h` is the content written by the `k`-th op of the trace when the heap is `h`: any
    function at all (new contents may depend on everything the op can read). -/
def exec {V} (writes : Nat → Heap V → V) : Nat → TEnv → Trace → Heap V → Heap V
  | _, _, [], h => h
  | k, env, op :: tr, h =>
      let h' : Heap V :=
        match op with
        | .fresh _ => h.alloc (writes k h)
        | .inplace t =>
            match env.lookup t with
            | some s => h.write s (writes k h)
            | none => h
        | _ => h
      exec writes (k + 1) (envStep env h.next op).1 tr h'

/-- does this single op write a storage in `args`?  (an in-place op on an undeclared tensor id
    cannot be judged and is rejected) -/
def opSafe (args : List Nat) (env : TEnv) : TrOp → Bool
  | .inplace t =>
      match env.lookup t with
      | some s => !args.contains s
      | none => false
  | _ => true

/-- the monitor: `args` = storage ids of the call's tensor arguments, `env` = the pre-existing
    tensors, `next` = number of storages existing before the call. -/
def safe (args : List Nat) : TEnv → Nat → Trace → Bool
  | _, _, [] => true
  | env, next, op :: tr =>
      opSafe args env op && safe args (envStep env next op).1 (envStep env next op).2 tr

/-- every tensor id a trace refers to has been declared before (by `env` or an earlier op) -/
def wfTrace : TEnv → Nat → Trace → Bool
  | _, _, [] => true
  | env, next, op :: tr =>
      (match op with
        | .fresh _ => true
        | .view _ src | .aliasOf _ src => (env.lookup src).isSome
        | .inplace t => (env.lookup t).isSome)
      && wfTrace (envStep env next op).1 (envStep env next op).2 tr

/-- storages in `args` that some in-place op of the trace targets, in trace order (diagnostics:
    which argument the model says is written) -/
def writtenArgs (args : List Nat) : TEnv → Nat → Trace → List Nat
  | _, _, [] => []
  | env, next, op :: tr =>
      let rest := writtenArgs args (envStep env next op).1 (envStep env next op).2 tr
      match op with
      | .inplace t =>
          match env.lookup t with
          | some s => if args.contains s then s :: rest else rest
          | none => rest
      | _ => rest

/-- storages (argument or not) that exist before the call and are written by the trace -/
def writtenOld (bound : Nat) : TEnv → Nat → Trace → List Nat
  | _, _, [] => []
  | env, next, op :: tr =>
      let rest := writtenOld bound (envStep env next op).1 (envStep env next op).2 tr
      match op with
      | .inplace t =>
          match env.lookup t with
          | some s => if s < bound then s :: rest else rest
          | none => rest
      | _ => rest

/-- final tensor-id ↦ storage-id map (used to say whether a returned tensor aliases an argument) -/
def finalEnv : TEnv → Nat → Trace → TEnv
  | env, _, [] => env
  | env, next, op :: tr => finalEnv (envStep env next op).1 (envStep env next op).2 tr


/-! ## Part 2: object graphs, shallow copies, in-place setters

  Everything with identity is a node: Python objects (their `__dict__`/`__slots__` are the node's
  entries), dict/set/tuple containers, tensors (one node per storage; `data` is an abstract content
  tag that changes on an in-place write), Grid/Cube objects.  Entries hold references or immediate
  values.  Node 0 is `None`.  Keys and type tags are small numbers (tables below; the harness uses
  the same tables). -/

inductive OVal where
  | ref (n : Nat)
  | imm (k : Nat)
  deriving DecidableEq, Repr, Inhabited

structure ONode where
  tag : Nat
  data : Nat
  entries : List (Nat × OVal)
  deriving DecidableEq, Repr, Inhabited

structure OHeap where
  node : Nat → ONode
  next : Nat

-- type tags
def tNone : Nat := 0
def tTensor : Nat := 1
def tParameter : Nat := 2     -- torch.nn.Parameter
def tModule : Nat := 3        -- torch.nn.Module (incl. SpatialTransform, ExpFlow, ModuleDict)
def tFunction : Nat := 4      -- plain callable
def tDict : Nat := 5
def tGrid : Nat := 6
def tCube : Nat := 7
def tImage : Nat := 8         -- Image / ImageBatch / FlowField(s) object
def tTuple : Nat := 9
def tSet : Nat := 10
def tOther : Nat := 11

-- keys (attribute / dict-entry names)
def kParameters : Nat := 1    -- Module._parameters
def kBuffers : Nat := 2       -- Module._buffers
def kModules : Nat := 3       -- Module._modules
def kNonPersistent : Nat := 4 -- Module._non_persistent_buffers_set
def kHooks : Nat := 5         -- Module._forward_pre_hooks (stands for all hook dicts)
def kGrid : Nat := 6          -- _grid
def kArgs : Nat := 7          -- _args
def kKwargs : Nat := 8        -- _kwargs
def kInvert : Nat := 9        -- invert
def kParams : Nat := 10       -- params
def kP : Nat := 11            -- p  (buffered parameters)
def kU : Nat := 12            -- u
def kV : Nat := 13            -- v
def kExp : Nat := 14          -- exp (ExpFlow child module)
def kTransforms : Nat := 15   -- _transforms (ModuleDict)
def kAlignCorners : Nat := 16 -- _align_corners / align_corners
def kSize : Nat := 17         -- _size
def kCenter : Nat := 18       -- _center
def kSpacing : Nat := 19      -- _spacing
def kDirection : Nat := 20    -- _direction
def kExtent : Nat := 21       -- _extent
def kData : Nat := 22         -- tensor data (storage) of a tensor subclass instance
def kAxes : Nat := 23         -- _axes
def kScale : Nat := 24        -- ExpFlow.scale

def lookupEntry (es : List (Nat × OVal)) (k : Nat) : Option OVal := es.lookup k

def setEntry (es : List (Nat × OVal)) (k : Nat) (v : OVal) : List (Nat × OVal) :=
  if (es.lookup k).isSome then es.map (fun e => if e.1 = k then (k, v) else e) else es ++ [(k, v)]

def delEntry (es : List (Nat × OVal)) (k : Nat) : List (Nat × OVal) := es.filter (fun e => e.1 ≠ k)

def OHeap.setNode (h : OHeap) (n : Nat) (v : ONode) : OHeap :=
  { h with node := fun m => if m = n then v else h.node m }

def OHeap.alloc (h : OHeap) (v : ONode) : OHeap :=
  { node := fun m => if m = h.next then v else h.node m, next := h.next + 1 }

/-- machine state: heap, registers (register ↦ node id), the nodes written so far, exception flag -/
structure OState where
  heap : OHeap
  regs : Nat → Nat
  touched : List Nat
  halted : Bool

def OState.setReg (st : OState) (r n : Nat) : OState :=
  { st with regs := fun q => if q = r then n else st.regs q }

/-- primitive commands -/
inductive Prim where
  | copyNode (dst src : Nat)        -- dst := fresh node with tag/data/entries of node(src): copy.copy(obj), dict.copy()
  | newNode (dst tag data : Nat)    -- dst := fresh node without entries: a new tensor / value / empty container
  | load (dst src key : Nat)        -- dst := node referred to by entry `key` of node(src); KeyError/AttributeError if absent
  | store (obj key val : Nat)       -- node(obj)[key] := ref node(val)        (WRITES node(obj))
  | storeImm (obj key k : Nat)      -- node(obj)[key] := imm k                (WRITES node(obj))
  | del (obj key : Nat)             -- delete the entry if present            (WRITES node(obj) if present)
  | poke (obj data : Nat)           -- in-place write of the content          (WRITES node(obj))
  | move (dst src : Nat)
  | raise                           -- an exception propagates: the rest of the program is skipped
  deriving DecidableEq, Repr

def OState.touch (st : OState) (n : Nat) (v : ONode) : OState :=
  { st with heap := st.heap.setNode n v, touched := n :: st.touched }

/-- write node `n` of the state -/
def OState.allocReg (st : OState) (dst : Nat) (v : ONode) : OState :=
  ({ st with heap := st.heap.alloc v } : OState).setReg dst st.heap.next

def OState.loadReg (st : OState) (dst src key : Nat) : OState :=
  match lookupEntry (st.heap.node (st.regs src)).entries key with
  | some (.ref m) => st.setReg dst m
  | _ => { st with halted := true }

def OState.delEntryOf (st : OState) (obj key : Nat) : OState :=
  let n := st.regs obj
  let nd := st.heap.node n
  if (lookupEntry nd.entries key).isSome then st.touch n { nd with entries := delEntry nd.entries key } else st

/-- effect of one primitive on a running (not halted) state -/
def execPrim (st : OState) : Prim → OState
  | .copyNode dst src => st.allocReg dst (st.heap.node (st.regs src))
  | .newNode dst tag data => st.allocReg dst ⟨tag, data, []⟩
  | .load dst src key => st.loadReg dst src key
  | .store obj key val =>
      st.touch (st.regs obj) { st.heap.node (st.regs obj) with
        entries := setEntry (st.heap.node (st.regs obj)).entries key (.ref (st.regs val)) }
  | .storeImm obj key k =>
      st.touch (st.regs obj) { st.heap.node (st.regs obj) with
        entries := setEntry (st.heap.node (st.regs obj)).entries key (.imm k) }
  | .del obj key => st.delEntryOf obj key
  | .poke obj data => st.touch (st.regs obj) { st.heap.node (st.regs obj) with data := data }
  | .move dst src => st.setReg dst (st.regs src)
  | .raise => { st with halted := true }

def stepPrim (st : OState) (p : Prim) : OState := if st.halted then st else execPrim st p

def runPrims (st : OState) (ps : List Prim) : OState := ps.foldl stepPrim st

/-! ### torch.nn.Module attribute protocol (torch/nn/modules/module.py), as dynamic expansions -/

def hasKey (st : OState) (n key : Nat) : Bool := (lookupEntry (st.heap.node n).entries key).isSome

/-- node referred to by entry `key` of node `n` (0 = None when absent or immediate) -/
def deref (st : OState) (n key : Nat) : Nat :=
  match lookupEntry (st.heap.node n).entries key with
  | some (.ref m) => m
  | _ => 0

-- scratch registers used by the expansions
def rP : Nat := 90
def rB : Nat := 91
def rM : Nat := 92
def rNP : Nat := 93
def rTmp : Nat := 94
def rNone : Nat := 95   -- always holds node 0 (None)

/-- `Module.__setattr__(self, name, value)` — torch/nn/modules/module.py @1976-2080, branch by
    branch.  The value's Python type is the tag of its node (`None` = node 0). -/
def expandSetattr (st : OState) (obj name val : Nat) : List Prim :=
  let self := st.regs obj
  let v := st.regs val
  let vtag := (st.heap.node v).tag
  let P := deref st self kParameters
  let B := deref st self kBuffers
  let M := deref st self kModules
  let loads := [Prim.load rP obj kParameters, .load rB obj kBuffers, .load rM obj kModules, .load rNP obj kNonPersistent]
  if vtag = tParameter then
    -- remove_from(self.__dict__, self._buffers, self._modules, self._non_persistent_buffers_set); register_parameter
    loads ++ [.del obj name, .del rB name, .del rM name, .del rNP name, .store rP name val]
  else if hasKey st P name then
    -- "cannot assign … as parameter (torch.nn.Parameter or None expected)"
    if v = 0 then loads ++ [.store rP name val] else [.raise]
  else if vtag = tModule then
    -- remove_from(self.__dict__, self._parameters, self._buffers, self._non_persistent_buffers_set)
    loads ++ [.del obj name, .del rP name, .del rB name, .del rNP name, .store rM name val]
  else if hasKey st M name then
    if v = 0 then loads ++ [.store rM name val] else [.raise]
  else if hasKey st B name then
    -- buffers[name] = value (None or Tensor); persistence flag unchanged
    if v = 0 ∨ vtag = tTensor then loads ++ [.store rB name val] else [.raise]
  else
    [.store obj name val]          -- object.__setattr__

/-- `Module.__delattr__(self, name)` @2087-2098 -/
def expandDelattr (st : OState) (obj name : Nat) : List Prim :=
  let self := st.regs obj
  let P := deref st self kParameters
  let B := deref st self kBuffers
  let M := deref st self kModules
  if hasKey st P name then [.load rP obj kParameters, .del rP name]
  else if hasKey st B name then [.load rB obj kBuffers, .load rNP obj kNonPersistent, .del rB name, .del rNP name]
  else if hasKey st M name then [.load rM obj kModules, .del rM name]
  else if hasKey st self name then [.del obj name]
  else [.raise]                    -- AttributeError

/-- where `getattr(self, name)` finds the attribute: instance dict first, then `Module.__getattr__`
    (@1946-1964): `_parameters`, `_buffers`, `_modules`. -/
def findAttr (st : OState) (self name : Nat) : Option OVal :=
  match lookupEntry (st.heap.node self).entries name with
  | some v => some v
  | none =>
    match lookupEntry (st.heap.node (deref st self kParameters)).entries name with
    | some v => some v
    | none =>
      match lookupEntry (st.heap.node (deref st self kBuffers)).entries name with
      | some v => some v
      | none => lookupEntry (st.heap.node (deref st self kModules)).entries name

def hasAttr (st : OState) (self name : Nat) : Bool := (findAttr st self name).isSome

/-- node of `getattr(self, name)`; 0 (None) if the value is None / immediate / absent -/
def attrNode (st : OState) (self name : Nat) : Nat :=
  match findAttr st self name with
  | some (.ref m) => m
  | _ => 0

def expandGetattr (st : OState) (dst obj name : Nat) : List Prim :=
  let self := st.regs obj
  if hasKey st self name then [.load dst obj name]
  else if hasKey st (deref st self kParameters) name then [.load rP obj kParameters, .load dst rP name]
  else if hasKey st (deref st self kBuffers) name then [.load rB obj kBuffers, .load dst rB name]
  else if hasKey st (deref st self kModules) name then [.load rM obj kModules, .load dst rM name]
  else [.raise]

/-- `Module.register_buffer(name, tensor, persistent)` @… : `_buffers[name] = tensor`, persistence set
    updated (only written when its content changes). KeyError when the name exists elsewhere. -/
def expandRegisterBuffer (st : OState) (obj name val : Nat) (persistent : Bool) : List Prim :=
  let self := st.regs obj
  let B := deref st self kBuffers
  let NP := deref st self kNonPersistent
  if hasAttr st self name ∧ ¬ hasKey st B name then [.raise]
  else
    [.load rB obj kBuffers, .load rNP obj kNonPersistent, .store rB name val] ++
      (if persistent then [.del rNP name]
       else if hasKey st NP name then [] else [.storeImm rNP name 1])

/-- commands: primitives plus the Module attribute protocol -/
inductive Cmd where
  | prim (p : Prim)
  | setattr (obj name val : Nat)
  | delattr (obj name : Nat)
  | delattrIfPresent (obj name : Nat)     -- `try: delattr(self, name) except AttributeError: pass`
  | getattr (dst obj name : Nat)
  | registerBuffer (obj name val : Nat) (persistent : Bool)
  deriving DecidableEq, Repr

def expandCmd (st : OState) : Cmd → List Prim
  | .prim p => [p]
  | .setattr obj name val => expandSetattr st obj name val
  | .delattr obj name => expandDelattr st obj name
  | .delattrIfPresent obj name => if hasAttr st (st.regs obj) name then expandDelattr st obj name else []
  | .getattr dst obj name => expandGetattr st dst obj name
  | .registerBuffer obj name val persistent => expandRegisterBuffer st obj name val persistent

def stepCmd (st : OState) (c : Cmd) : OState :=
  if st.halted then st else runPrims st (expandCmd st c)

def runCmds (st : OState) (cs : List Cmd) : OState := cs.foldl stepCmd st

/-- a *program* may inspect the state it starts in (the `if isinstance(params, Parameter)`,
    `if callable(params)` … tests at the top of a method) and is otherwise straight-line -/
abbrev Prog := OState → List Cmd

def runProg (st : OState) (p : Prog) : OState := runCmds st (p st)

/-- programs in sequence: each inspects the state left by the previous one -/
def runProgs (st : OState) (ps : List Prog) : OState := ps.foldl runProg st

def initState (h : OHeap) (regs : Nat → Nat) : OState := ⟨h, regs, [], false⟩

/-! ### Observation of an object: the tree of everything reachable from it (bounded depth) -/

inductive VTree where
  | imm (k : Nat)
  | cut
  | node (id tag data : Nat) (kids : List (Nat × VTree))
  deriving Repr, Inhabited

def viewVal (h : OHeap) : Nat → OVal → VTree
  | _, .imm k => .imm k
  | 0, .ref _ => .cut
  | fuel + 1, .ref n =>
      let nd := h.node n
      .node n nd.tag nd.data (nd.entries.map (fun e => (e.1, viewVal h fuel e.2)))

/-- paths (key sequences) at which two views differ: different node identity (`rebinding`),
    different content tag, or entries present on one side only; identical nodes are compared
    recursively. -/
partial def diffPaths (pre : List Nat) : VTree → VTree → List (List Nat)
  | .imm a, .imm b => if a = b then [] else [pre]
  | .cut, .cut => []
  | .node i t d ks, .node i' t' d' ks' =>
      if i ≠ i' ∨ t ≠ t' then [pre]
      else
        (if d ≠ d' then [pre] else []) ++
        (ks.flatMap (fun (k, v) =>
          match ks'.lookup k with
          | some v' => diffPaths (pre ++ [k]) v v'
          | none => [pre ++ [k]])) ++
        (ks'.flatMap (fun (k, _) => if (ks.lookup k).isSome then [] else [pre ++ [k]]))
  | _, _ => [pre]

/-! ### Transcriptions.  Register conventions: r0 = self, r1, r2 = arguments, r10 = result,
    r11… temporaries; `rNone` holds None.

    Tensors are two nodes: the tensor *object* (tag `tTensor`/`tParameter`; views, `detach()`,
    `Parameter(t)` create new objects) with one entry `kData` → its *storage* node, whose `data`
    tag changes on an in-place write.  A tensor subclass instance (Image …) is an object with
    `kData` and further attributes. -/

section transcriptions
open Cmd Prim

def p (x : Prim) : Cmd := Cmd.prim x

/-- a primitive program as a command list -/
def prims (l : List Prim) : List Cmd := l.map Cmd.prim

/-- a new tensor with new storage (result of an out-of-place computation) -/
def newTensorP (dst tag data : Nat) : List Prim :=
  [.newNode rTmp tOther data, .newNode dst tag 0, .store dst kData rTmp]

/-- `src.clone()`: new object of the same type, new storage with the same content -/
def cloneTensorP (dst src : Nat) : List Prim :=
  [.copyNode dst src, .load rTmp src kData, .copyNode rTmp rTmp, .store dst kData rTmp]

/-- new tensor object of type `tag` on the storage of `src` (`Parameter(t)`, `t.view(...)`, `t.detach()`) -/
def aliasTensorP (dst src tag : Nat) : List Prim :=
  [.load rTmp src kData, .newNode dst tag 0, .store dst kData rTmp]

/-- in-place write into the storage of tensor object `t` -/
def pokeTensorP (t data : Nat) : List Prim := [.load rTmp t kData, .poke rTmp data]

def newTensor (dst tag data : Nat) : List Cmd := prims (newTensorP dst tag data)
def cloneTensor (dst src : Nat) : List Cmd := prims (cloneTensorP dst src)
def aliasTensor (dst src tag : Nat) : List Cmd := prims (aliasTensorP dst src tag)
def pokeTensor (t data : Nat) : List Cmd := prims (pokeTensorP t data)

/-- form of an array-like argument of a Grid/Cube setter: `cat_scalars`/`as_tensor(arg)` returns the
    argument itself when it is already a tensor of the grid's dtype and device, otherwise a new tensor
    (core/tensor.py:as_tensor @21-45, cat_scalars @97-142) -/
inductive ArgForm where
  | sameTensor      -- tensor of matching dtype/device, right length: stored as is (aliases the argument)
  | converted       -- scalar(s), sequence, tensor needing a cast / repeat: a new tensor
  deriving DecidableEq, Repr

/-- `self.<slot> = <array argument>`  -/
def setSlotFromArg (obj slot arg : Nat) (form : ArgForm) (data : Nat) : List Prim :=
  match form with
  | .sameTensor => [.store obj slot arg]
  | .converted => newTensorP 11 tTensor data ++ [.store obj slot 11]

-- src: core/grid.py:Grid.center_ @468-471, spacing_ @525-531, direction_ @553-577 (`as_tensor(arg).to(...)`),
--      origin_ @496-503 (always `origin.add(offset)`: a new tensor), align_corners_ @385-388
inductive GridSetter where
  | center (form : ArgForm) | origin | spacing (form : ArgForm) | direction (form : ArgForm)
  | alignCorners (b : Nat)
  deriving DecidableEq, Repr

def gridSetter (obj arg data : Nat) : GridSetter → List Prim
  | .center f => setSlotFromArg obj kCenter arg f data
  | .origin => newTensorP 11 tTensor data ++ [.store obj kCenter 11]
  | .spacing f => setSlotFromArg obj kSpacing arg f data
  | .direction f => setSlotFromArg obj kDirection arg f data
  | .alignCorners b => [.storeImm obj kAlignCorners b]

/-- in-place setter on the receiver itself (`grid.center_(x)` …): r0 = self, r1 = arg -/
def gridSetterPrims (s : GridSetter) (data : Nat) : List Prim := gridSetter 0 1 data s ++ [.move 10 0]
def gridSetterProg (s : GridSetter) (data : Nat) : Prog := fun _ => prims (gridSetterPrims s data)

/-- non-underscore accessor with argument: `shallow_copy(self).<setter>_(arg)` — core/grid.py:
    align_corners @379-383, center @458-466, origin @483-494, spacing @515-523, direction @543-551 -/
def gridAccessorPrims (s : GridSetter) (data : Nat) : List Prim := [.copyNode 10 0] ++ gridSetter 10 1 data s
def gridAccessorProg (s : GridSetter) (data : Nat) : Prog := fun _ => prims (gridAccessorPrims s data)

-- src: core/cube.py:Cube.center_ @240-243, origin_ @263-268, direction_ @290-318, extent_ @335-338
inductive CubeSetter where
  | center (form : ArgForm) | origin | direction (form : ArgForm) | extent (form : ArgForm)
  deriving DecidableEq, Repr

def cubeSetter (obj arg data : Nat) : CubeSetter → List Prim
  | .center f => setSlotFromArg obj kCenter arg f data
  | .origin => newTensorP 11 tTensor data ++ [.store obj kCenter 11]
  | .direction f => setSlotFromArg obj kDirection arg f data
  | .extent f => setSlotFromArg obj kExtent arg f data

def cubeSetterPrims (s : CubeSetter) (data : Nat) : List Prim := cubeSetter 0 1 data s ++ [.move 10 0]
def cubeSetterProg (s : CubeSetter) (data : Nat) : Prog := fun _ => prims (cubeSetterPrims s data)

-- src: core/cube.py:Cube.center @234-238, origin @255-261, direction @284-288, extent @329-333
def cubeAccessorPrims (s : CubeSetter) (data : Nat) : List Prim := [.copyNode 10 0] ++ cubeSetter 10 1 data s
def cubeAccessorProg (s : CubeSetter) (data : Nat) : Prog := fun _ => prims (cubeAccessorPrims s data)

/-- `Grid.clone()` / `Cube.clone()` / `__deepcopy__` — core/grid.py @352-367, core/cube.py @207-222:
    shallow copy, then every tensor slot is replaced by a clone.  `dst` := clone of object `src`. -/
def cloneSlotsP (dst src : Nat) (slots : List Nat) : List Prim :=
  [.copyNode dst src] ++ slots.flatMap (fun s => [.load 12 src s] ++ cloneTensorP 13 12 ++ [.store dst s 13])

def cloneSlots (dst src : Nat) (slots : List Nat) : List Cmd := prims (cloneSlotsP dst src slots)

def gridSlots : List Nat := [kSize, kCenter, kSpacing, kDirection]
def cubeSlots : List Nat := [kCenter, kDirection, kExtent]

def gridCloneProg : Prog := fun _ => cloneSlots 10 0 gridSlots
def cubeCloneProg : Prog := fun _ => cloneSlots 10 0 cubeSlots

/-- in-place write through a getter: `grid.center().add_(1)` (the getters return the stored tensor) -/
def pokeSlotProg (slot data : Nat) : Prog := fun _ => prims ([.load 12 0 slot] ++ pokeTensorP 12 data ++ [.move 10 0])

/-! Images.  An Image / ImageBatch / FlowField(s) object has entries `kData` (its storage), `kGrid`
    (Image: the Grid object; batch: a tuple node whose entries 100+i are the grids) and, for flow
    fields, `kAxes` (immediate). -/
inductive ImageOp where
  | gridOfImage           -- Image.grid(g): `_make_instance(grid=g)`: new object, same storage, `_grid = g`   (data/image.py @1085-1098)
  | gridOfBatch (n : Nat) -- ImageBatch.grid(g): same, `_grid = (g,) * N`                                     (data/image.py @249-278)
  | shallow               -- copy.copy(x) / `_make_instance()`: new object on the same storage, same `_grid` (and `_axes`)  (data/tensor.py @63-72)
  | functional            -- any op returning new data and new grid(s): resize, resample, crop/pad with margin, sample, normalize, rescale, axes(a), …
  | deepImage             -- Image.__deepcopy__: data.clone(), grid.clone()                                   (data/image.py @992-1002)
  | deepBatch (n : Nat)   -- ImageBatch.__deepcopy__: data.clone(), tuple(grid.clone() for …)                 (data/image.py @86-96)
  deriving DecidableEq, Repr

/-- The same transcription serves Image / ImageBatch and FlowField / FlowFields: since commit 5463a8b
    `FlowField(s)._make_instance(data=None, grid=None, axes=None)` (data/flow.py @85-100, @413-426) defaults to
    `self.tensor()` (same storage), `self._grid` and `self._axes`, so `grid(g)` and `copy.copy` of a flow field
    build a new object on the same storage exactly like their image counterparts (`_axes` is an immediate entry
    copied by `copyNode`). -/
def imageOpPrims (data : Nat) : ImageOp → List Prim
  | .gridOfImage => [.copyNode 10 0, .store 10 kGrid 1]
  | .gridOfBatch n =>
      [.copyNode 10 0, .newNode 11 tTuple 0] ++ (List.range n).flatMap (fun i => [Prim.store 11 (100 + i) 1]) ++
      [.store 10 kGrid 11]
  | .shallow => [.copyNode 10 0]
  | .functional =>
      [.copyNode 10 0, .newNode 11 tOther data, .store 10 kData 11, .newNode 12 tGrid data, .store 10 kGrid 12]
  | .deepImage =>
      [.copyNode 10 0, .load 12 0 kData, .copyNode 13 12, .store 10 kData 13, .load 14 0 kGrid] ++
      cloneSlotsP 15 14 gridSlots ++ [.store 10 kGrid 15]
  | .deepBatch n =>
      [.copyNode 10 0, .load 12 0 kData, .copyNode 13 12, .store 10 kData 13, .load 18 0 kGrid, .newNode 19 tTuple 0] ++
      (List.range n).flatMap (fun i => [Prim.load 14 18 (100 + i)] ++ cloneSlotsP 15 14 gridSlots ++ [.store 19 (100 + i) 15]) ++
      [.store 10 kGrid 19]

def imageOpProg (op : ImageOp) (data : Nat) : Prog := fun _ => prims (imageOpPrims data op)

/-- in-place variants on the receiver: `image.grid_(g)` (rebinding) and `image.normalize_()` / `image.add_(…)`
    (write into the data storage) -/
def imageGridSetProg (batch : Option Nat) : Prog := fun _ =>
  match batch with
  | none => prims [.store 0 kGrid 1, .move 10 0]                          -- Image.grid_ (data/image.py @1091-1098)
  | some n =>                                                            -- ImageBatch.grid_ (@259-278): `(grid,) * N`
      prims ([.newNode 11 tTuple 0] ++ (List.range n).flatMap (fun i => [Prim.store 11 (100 + i) 1]) ++
      [.store 0 kGrid 11, .move 10 0])
def imagePokeProg (data : Nat) : Prog := fun _ => prims (pokeTensorP 0 data ++ [.move 10 0])

/-! Spatial transforms. -/

/-- `SpatialTransform.__copy__` — spatial/base.py @53-71 (as of commit 3110eb9 "shallow copies of a transform
    no longer share the parameter container"): new object with a copy of `__dict__`; the containers
    `_parameters`, `_buffers`, `_non_persistent_buffers_set`, `_modules` are copied (one level: the
    parameter / buffer / child-module *objects* stay shared), everything else (hook dicts, grid, …) is shared.
    `sharedParams = true` gives the code before that commit (`_parameters` shared), kept for the
    refutation theorem that documents F-15a. -/
def transformCopyOf (sharedParams : Bool) (dst src : Nat) : List Cmd :=
  [p (.copyNode dst src)] ++
  ((if sharedParams then [] else [kParameters]) ++ [kBuffers, kNonPersistent, kModules]).flatMap
    (fun k => [p (.load rTmp src k), p (.copyNode rTmp rTmp), p (.store dst k rTmp)])

def transformCopy (dst src : Nat) : List Cmd := transformCopyOf false dst src

/-- static description of the transform class (which overrides apply) -/
structure TClass where
  nonrigid : Bool      -- NonRigidTransform.clear_buffers deletes `u`, `v`           (base.py @545-553)
  composite : Nat      -- number of child transforms of a CompositeTransform (0 = not composite)
  sequential : Bool    -- SequentialTransform.inverse (composite.py @316-347)
  dense : Bool         -- DenseVectorFieldTransform.grid_ resamples and replaces the parameters (nonrigid.py @119-143)
  svf : Bool           -- Stationary velocity (FFD / field): `exp` child; grid_ of the field variant writes `exp.align_corners`; inverse() replaces `exp`
  bspline : Bool       -- BSplineTransform.grid_ (bspline.py @86-142)
  invertible : Bool    -- has an `inverse()` (InvertibleParametricTransform, stationary-velocity transforms, SequentialTransform);
                       -- otherwise SpatialTransform.inverse raises NotImplementedError (base.py @421-447)
  deriving DecidableEq, Repr

/-- children of a composite: `self._transforms` is a ModuleDict in `_modules`; its own `_modules`
    dict holds the child transforms under keys 100+i.  Loads child i into register `dst`. -/
def loadChild (dst obj i : Nat) : List Cmd :=
  [getattr 26 obj kTransforms, p (.load 26 26 kModules), p (.load dst 26 (100 + i))]

/-- `CompositeTransform.__copy__` — spatial/composite.py @96-108 (repair of F-15f / F-15g): `super().__copy__()`, then
    `copy._transforms = ModuleDict(OrderedDict([(name, shallow_copy(t)) for name, t in self.named_transforms()]))`:
    the copy owns a new ModuleDict holding *shallow copies* of the `n` children (each made by the leaf rule: own
    `_parameters/_buffers/_non_persistent_buffers_set/_modules` containers, parameter and buffer objects shared). -/
def compositeCopy (n : Nat) (dst src : Nat) : List Cmd :=
  transformCopy dst src ++
  [p (.newNode 30 tModule 0), p (.newNode 31 tDict 0), p (.store 30 kModules 31)] ++
  (List.range n).flatMap (fun i => loadChild 20 src i ++ transformCopy 32 20 ++ [p (.store 31 (100 + i) 32)]) ++
  [setattr dst kTransforms 30]

/-- `shallow_copy(self)` for a transform of class `c`.  `sharedChildren = true` gives the composite copy of before the
    F-15f/g repair (base `__copy__` only: child transforms shared), kept for the documenting refutation theorem. -/
def copyOfClassWith (sharedChildren : Bool) (composite : Nat) (dst src : Nat) : List Cmd :=
  if composite = 0 ∨ sharedChildren then transformCopy dst src else compositeCopy composite dst src

/-- `clear_buffers()` for a *leaf* transform (children of composites are leaves in the table) -/
def clearBuffersLeaf (nonrigid : Bool) (obj : Nat) : List Cmd :=
  if nonrigid then [delattrIfPresent obj kU, delattrIfPresent obj kV] else []

/-- `clear_buffers()` — base.py @449-451 (no-op), NonRigidTransform @545-553, CompositeTransform
    composite.py @188-193 (recurses into the shared children). `childNonrigid i` says whether child i is non-rigid. -/
def clearBuffers (c : TClass) (childNonrigid : Nat → Bool) (obj : Nat) : List Cmd :=
  clearBuffersLeaf c.nonrigid obj ++
  (List.range c.composite).flatMap (fun i => loadChild 20 obj i ++ clearBuffersLeaf (childNonrigid i) 20)

/-- `condition_(*args)` of a leaf — base.py @97-102 -/
def conditionSetLeaf (nonrigid : Bool) (obj args : Nat) : List Cmd :=
  clearBuffersLeaf nonrigid obj ++ [setattr obj kArgs args, p (.newNode 21 tDict 0), setattr obj kKwargs 21]

/-- `condition(*args)` — base.py @89-95: `shallow_copy(self).condition_(*args)`;
    CompositeTransform.condition_ (composite.py @163-169) also conditions every child of the receiver — which, for the
    shallow copy made by `CompositeTransform.__copy__`, are the copy's own child copies. r1 = args tuple -/
def conditionProgOf (sharedChildren : Bool) (c : TClass) (childNonrigid : Nat → Bool) : Prog := fun _ =>
  copyOfClassWith sharedChildren c.composite 10 0 ++ clearBuffers c childNonrigid 10 ++
  [setattr 10 kArgs 1, p (.newNode 21 tDict 0), setattr 10 kKwargs 21] ++
  (List.range c.composite).flatMap (fun i => loadChild 20 10 i ++ conditionSetLeaf (childNonrigid i) 20 1)

def conditionProg (c : TClass) (childNonrigid : Nat → Bool) : Prog := conditionProgOf false c childNonrigid

/-- is the `params` attribute of node `self` callable (a Module — incl. a linked transform — or a function)? -/
def paramsCallable (st : OState) (self : Nat) : Bool :=
  let t := (st.heap.node (attrNode st self kParams)).tag
  t = tModule ∨ t = tFunction

def paramsIsParameter (st : OState) (self : Nat) : Bool :=
  (st.heap.node (attrNode st self kParams)).tag = tParameter

/-- `self.params = Parameter(arg, …) if isinstance(params, Parameter) and not isinstance(arg, Parameter) else arg`
    (parametric.py @152-155 and @193-196); `look` = node whose current `params` decide, `obj` = register assigned to -/
def assignParams (st : OState) (look obj arg : Nat) : List Cmd :=
  if paramsIsParameter st look ∧ (st.heap.node (st.regs arg)).tag ≠ tParameter then
    aliasTensor 22 arg tParameter ++ [setattr obj kParams 22]
  else [setattr obj kParams arg]

/-- `data_(arg)` — parametric.py @159-198 (after the type/shape checks): callable params → ReadOnlyParameters -/
def dataSet (st : OState) (nonrigid : Bool) (look obj arg : Nat) : List Cmd :=
  if paramsCallable st look then [p .raise]
  else assignParams st look obj arg ++ clearBuffersLeaf nonrigid obj

/-- `data(arg)` — parametric.py @128-157.  r0 = self, r1 = arg -/
def dataProgOf (sharedParams : Bool) (c : TClass) : Prog := fun st =>
  let self := st.regs 0
  transformCopyOf sharedParams 10 0 ++
  (if paramsCallable st self then [delattr 10 kP] else []) ++
  assignParams st self 10 1 ++ clearBuffersLeaf c.nonrigid 10

def dataProg (c : TClass) : Prog := dataProgOf false c

/-- `link_(other)` — parametric.py @241-276; `look` = node inspected for `hasattr(self, "p")`,
    `o` = node of `other` (register `other` holds it when the commands run) -/
def linkSet (st : OState) (nonrigid : Bool) (look o : Nat) (obj other : Nat) : List Cmd :=
  -- `if "params" in self._parameters: del self._parameters["params"]` (commit 20bab42), then `self.params = other`
  [p (.load rP obj kParameters), p (.del rP kParams), setattr obj kParams other] ++
  (if hasAttr st look kP then []
   else if attrNode st o kParams = 0 then
     -- p = torch.empty(shape); register_buffer; reset_parameters() (@102-111): init.constant_(p, 0) writes the
     -- new buffer, then clear_buffers()
     newTensor 25 tTensor 0 ++ [registerBuffer obj kP 25 false] ++ pokeTensor 25 0 ++ clearBuffersLeaf nonrigid obj
   else
     -- p = other.data(): other's params, or its buffered `p` when those are callable
     (if paramsCallable st o then [getattr 25 other kP] else [getattr 25 other kParams]) ++
     [registerBuffer obj kP 25 false])

/-- `link(other)` — parametric.py @235-239.  r0 = self, r1 = other -/
def linkProg (c : TClass) : Prog := fun st => transformCopy 10 0 ++ linkSet st c.nonrigid (st.regs 0) (st.regs 1) 10 1

/-- `unlink()` — parametric.py @276-285: `self.params = None; if hasattr(self, "p"): delattr(self, "p")` -/
def unlinkProg : Prog := fun st =>
  transformCopy 10 0 ++ [setattr 10 kParams rNone] ++ (if hasAttr st (st.regs 0) kP then [delattr 10 kP] else [])

/-- `ExpFlow.inverse()` — modules/flow.py @90-94: `copy.copy(module)` (plain shallow copy: the Module
    containers are shared), then `copy.scale *= -1` rebinds a float attribute -/
def expInverse (dst src : Nat) : List Cmd := [p (.copyNode dst src), p (.storeImm dst kScale 1)]

/-- `inverse(link, update_buffers)` — InvertibleParametricTransform parametric.py @330-358;
    stationary-velocity variants nonrigid.py @253-284, bspline.py @256-287 (`inv.exp = self.exp.inverse()`,
    optionally `u = inv.exp(v)` registered as buffer); SequentialTransform composite.py @316-347
    (children are leaf invertible transforms: each is inverted with the same flags, the copy gets a new ModuleDict) -/
def inverseLeaf (st : OState) (svf : Bool) (look dst src : Nat) (link ub : Bool) (invertFlag : Nat) : List Cmd :=
  transformCopy dst src ++
  (if link then linkSet st svf look look dst src else []) ++
  (if svf then
     [getattr 27 src kExp] ++ expInverse 28 27 ++ [setattr dst kExp 28] ++
     (if ub ∧ hasAttr st look kV then newTensor 29 tTensor 0 ++ [registerBuffer dst kU 29 false] else [])
   else [p (.storeImm dst kInvert invertFlag)])

def inverseProg (c : TClass) (childSvf childInv : Nat → Bool) (link ub : Bool) (invertFlag : Nat) : Prog := fun st =>
  if ¬ c.invertible then [p .raise]
  else if c.sequential then
    -- `copy = shallow_copy(self)` (composite copy incl. child copies), then a new ModuleDict of the inverted
    -- children of `self` replaces the copy's `_transforms`
    compositeCopy c.composite 10 0 ++
    [p (.newNode 30 tModule 0), p (.newNode 31 tDict 0), p (.store 30 kModules 31)] ++
    -- `for name, transform in reversed(self.named_transforms())`: the last child is inverted first
    ((List.range c.composite).reverse).flatMap (fun i =>
      (if childInv i then [] else [p .raise]) ++
      loadChild 20 0 i ++
      inverseLeaf st (childSvf i) (deref st (deref st (attrNode st (st.regs 0) kTransforms) kModules) (100 + i)) 32 20 link ub invertFlag ++
      [p (.store 31 (100 + i) 32)]) ++
    [setattr 10 kTransforms 30]
  else inverseLeaf st c.svf (st.regs 0) 10 0 link ub invertFlag

/-- `grid_(grid)` — base.py @131-139 (`sameGrid` = the value of
    `self._grid == grid and self._grid.align_corners() == grid.align_corners()`, fix 1487985).  r1 = grid -/
def gridSetBase (c : TClass) (childNonrigid : Nat → Bool) (obj grid : Nat) (sameGrid : Bool) : List Cmd :=
  if sameGrid then [] else clearBuffers c childNonrigid obj ++ [setattr obj kGrid grid]

/-- `grid(g)` — base.py @125-129: `shallow_copy(self).grid_(grid)` with the overrides
    DenseVectorFieldTransform.grid_ nonrigid.py @119-143 (params is a Tensor: resample, `super().grid_`, `data_(new)`),
    StationaryVelocityFieldTransform.grid_ @247-256 (a *copy* of the `exp` child gets the new flag when it differs),
    BSplineTransform.grid_ bspline.py @86-142 (`self._grid = grid`; `data_(subdivided)` when `subdivide`). -/
def gridProgOf (sharedChildren : Bool) (c : TClass) (childNonrigid : Nat → Bool) (sameGrid subdivide valid : Bool) (ac : Nat) : Prog := fun st =>
  let self := st.regs 0
  let isTensor := let t := (st.heap.node (attrNode st self kParams)).tag; t = tTensor ∨ t = tParameter
  copyOfClassWith sharedChildren c.composite 10 0 ++
  (if c.bspline then
     -- `valid` = the new grid passes the checks made when params is a Tensor (align_corners, same domain, size n or 2n-1)
     (if isTensor ∧ ¬ valid then [p .raise] else []) ++
     -- `if self._grid != grid: self.clear_buffers()` (commit 1ce28a8)
     (if sameGrid then [] else clearBuffersLeaf c.nonrigid 10) ++
     [setattr 10 kGrid 1] ++
     (if isTensor ∧ subdivide then newTensor 33 tTensor 1 ++ dataSet st c.nonrigid self 10 33 else [])
   else if c.dense then
     (if isTensor then
        gridSetBase c childNonrigid 10 1 sameGrid ++ newTensor 33 tTensor 1 ++ dataSet st c.nonrigid self 10 33
      else gridSetBase c childNonrigid 10 1 sameGrid) ++
     -- StationaryVelocityFieldTransform.grid_ (repair F-15e): `if self.exp.align_corners != grid.align_corners():
     --   exp = shallow_copy(self.exp); exp.align_corners = …; self.exp = exp` — the child module shared with the
     -- original is never written: a copy of it (plain `copy.copy` of an nn.Module: new object, same containers) gets
     -- the flag and is rebound in the receiver copy's own `_modules`.  The flag currently stored in the child is read
     -- from the heap (the copy still refers to the original's `exp` at this point).
     (if c.svf ∧ lookupEntry (st.heap.node (attrNode st self kExp)).entries kAlignCorners ≠ some (.imm ac) then
        [getattr 27 10 kExp, p (.copyNode 28 27), p (.storeImm 28 kAlignCorners ac), setattr 10 kExp 28]
      else [])
   else gridSetBase c childNonrigid 10 1 sameGrid)

def gridProg (c : TClass) (childNonrigid : Nat → Bool) (sameGrid subdivide valid : Bool) (ac : Nat) : Prog :=
  gridProgOf false c childNonrigid sameGrid subdivide valid ac

/-- `copy.copy(transform)` -/
def copyProg (c : TClass) : Prog := fun _ => copyOfClassWith false c.composite 10 0

/-- `matrix(m)` — base.py @471-477: `shallow_copy(self).matrix_(arg)`; `matrix_` of HomogeneousTransform
    (linear.py @49-55) is `data_(arg)`, of EulerRotation / QuaternionRotation (@216-…, @306-…) `data_(new tensor)`. -/
def matrixProg (direct : Bool) : Prog := fun st =>
  transformCopy 10 0 ++
  (if direct then dataSet st false (st.regs 0) 10 1 else newTensor 33 tTensor 1 ++ dataSet st false (st.regs 0) 10 33)

/-- `copy.deepcopy(transform)`: nn.Module has no `__deepcopy__`; the default reconstructs every reachable
    object once (memo).  Modelled for a leaf transform: new containers, cloned parameters and buffers, cloned grid;
    hook dicts are new containers too. -/
def deepcopyLeafProg (paramKeys bufKeys : List Nat) : Prog := fun _ =>
  [p (.copyNode 10 0)] ++
  [kParameters, kBuffers, kNonPersistent, kModules, kHooks, kKwargs].flatMap (fun k =>
    [p (.load 34 0 k), p (.copyNode 35 34), p (.store 10 k 35)]) ++
  [p (.load 36 10 kParameters)] ++ paramKeys.flatMap (fun k => [p (.load 12 36 k)] ++ cloneTensor 13 12 ++ [p (.store 36 k 13)]) ++
  [p (.load 36 10 kBuffers)] ++ bufKeys.flatMap (fun k => [p (.load 12 36 k)] ++ cloneTensor 13 12 ++ [p (.store 36 k 13)]) ++
  [p (.load 14 0 kGrid)] ++ cloneSlots 15 14 gridSlots ++ [p (.store 10 kGrid 15)]

end transcriptions

/-! ### Canonical object graphs (used by the finite-table theorems of Props/C15.lean and, through the
    driver op `heap.canon`, compared with real transforms on every run) -/

/-- canonical leaf transform (linear, invertible).  Node 1 = the module, 2 = `_parameters` (shared by
    `__copy__`), 3 = `_buffers`, 4 = `_modules`, 5 = `_non_persistent_buffers_set`, 6 = hooks, 7 = grid,
    8 = `_kwargs`, 9/10 = the parameter tensor and its storage, 11/12 = a tensor argument, 13 = an args
    tuple, 14 = another grid, 15 = an `exp` child module (stationary velocity only). -/
def canonTransformHeap (isParam svf : Bool) : OHeap :=
  { node := fun n =>
      match n with
      | 1 => ⟨tModule, 0, [(kParameters, .ref 2), (kBuffers, .ref 3), (kModules, .ref 4), (kNonPersistent, .ref 5),
                            (kHooks, .ref 6), (kGrid, .ref 7), (kArgs, .imm 0), (kKwargs, .ref 8), (kInvert, .imm 0)]⟩
      | 2 => ⟨tDict, 0, if isParam then [(kParams, .ref 9)] else []⟩
      | 3 => ⟨tDict, 0, if isParam then [] else [(kParams, .ref 9)]⟩
      | 4 => ⟨tDict, 0, if svf then [(kExp, .ref 15)] else []⟩
      | 5 => ⟨tSet, 0, []⟩
      | 6 => ⟨tDict, 0, []⟩
      | 7 => ⟨tGrid, 0, []⟩
      | 8 => ⟨tDict, 0, []⟩
      | 9 => ⟨if isParam then tParameter else tTensor, 0, [(kData, .ref 10)]⟩
      | 10 => ⟨tOther, 10, []⟩
      | 11 => ⟨tTensor, 0, [(kData, .ref 12)]⟩
      | 12 => ⟨tOther, 12, []⟩
      | 13 => ⟨tTuple, 0, [(100, .ref 11)]⟩
      | 14 => ⟨tGrid, 1, []⟩
      | 15 => ⟨tModule, 0, [(kAlignCorners, .imm 1), (kScale, .imm 0)]⟩
      | _ => ⟨tNone, 0, []⟩,
    next := 16 }

inductive TAcc where
  | condition | grid | data | unlink | inverse | matrix
  deriving DecidableEq, Repr

def leafClass (svf : Bool) : TClass := ⟨svf, 0, false, svf, svf, false, true⟩

/-- the accessor call on the canonical transform: r0 = self, r1 = the argument -/
def canonRun (isParam svf : Bool) (a : TAcc) : OState :=
  let arg : Nat := match a with
    | .condition => 13 | .grid => 14 | .data => 11 | .matrix => 11 | _ => 0
  let st := initState (canonTransformHeap isParam svf) (fun r => if r = 0 then 1 else if r = 1 then arg else 0)
  let c := leafClass svf
  runProg st (match a with
    | .condition => conditionProg c (fun _ => false)
    | .grid => gridProg c (fun _ => false) false false true 2
    | .data => dataProg c
    | .unlink => unlinkProg
    | .inverse => inverseProg c (fun _ => false) (fun _ => false) false false 1
    | .matrix => matrixProg true)

/-- `data(arg)` on the canonical transform with the `__copy__` of before commit 3110eb9 (`_parameters` shared) -/
def canonRunDataOld (isParam : Bool) : OState :=
  runProg (initState (canonTransformHeap isParam false) (fun r => if r = 0 then 1 else if r = 1 then 11 else 0))
    (dataProgOf true (leafClass false))

/-- every node of the canonical heap is unchanged by the call (so the receiver's parameters, buffers,
    children, grid and arguments are) -/
def canonPure (isParam svf : Bool) (a : TAcc) : Bool :=
  (List.range 16).all (fun n => (canonRun isParam svf a).heap.node n == (canonTransformHeap isParam svf).node n)



/-- canonical composite (SequentialTransform / MultiLevelTransform) with one non-rigid child whose parameters are
    buffer-held and whose displacement `u` is buffered.  Node 1 = the composite, 4 = its `_modules`, 16 = the
    `_transforms` ModuleDict, 17 = the ModuleDict's `_modules`, 18 = the child (20 = its `_buffers`, 22 = its
    non-persistent set), 9/10 params, 24/25 `u`, 11/12 a tensor, 13 an args tuple, 14 another grid. -/
def canonCompositeHeap : OHeap :=
  { node := fun n =>
      match n with
      | 1 => ⟨tModule, 0, [(kParameters, .ref 2), (kBuffers, .ref 3), (kModules, .ref 4), (kNonPersistent, .ref 5),
                            (kHooks, .ref 6), (kGrid, .ref 7), (kArgs, .imm 0), (kKwargs, .ref 8)]⟩
      | 2 => ⟨tDict, 0, []⟩ | 3 => ⟨tDict, 0, []⟩
      | 4 => ⟨tDict, 0, [(kTransforms, .ref 16)]⟩
      | 5 => ⟨tSet, 0, []⟩ | 6 => ⟨tDict, 0, []⟩ | 7 => ⟨tGrid, 0, []⟩ | 8 => ⟨tDict, 0, []⟩
      | 9 => ⟨tTensor, 0, [(kData, .ref 10)]⟩ | 10 => ⟨tOther, 10, []⟩
      | 11 => ⟨tTensor, 0, [(kData, .ref 12)]⟩ | 12 => ⟨tOther, 12, []⟩
      | 13 => ⟨tTuple, 0, [(100, .ref 11)]⟩
      | 14 => ⟨tGrid, 1, []⟩
      | 16 => ⟨tModule, 0, [(kModules, .ref 17)]⟩
      | 17 => ⟨tDict, 0, [(100, .ref 18)]⟩
      | 18 => ⟨tModule, 0, [(kParameters, .ref 19), (kBuffers, .ref 20), (kModules, .ref 21), (kNonPersistent, .ref 22),
                             (kGrid, .ref 7), (kArgs, .imm 0), (kKwargs, .ref 23)]⟩
      | 19 => ⟨tDict, 0, []⟩
      | 20 => ⟨tDict, 0, [(kParams, .ref 9), (kU, .ref 24)]⟩
      | 21 => ⟨tDict, 0, []⟩
      | 22 => ⟨tSet, 0, [(kU, .imm 1)]⟩
      | 23 => ⟨tDict, 0, []⟩
      | 24 => ⟨tTensor, 0, [(kData, .ref 25)]⟩ | 25 => ⟨tOther, 25, []⟩
      | _ => ⟨tNone, 0, []⟩,
    next := 26 }

def compositeClass : TClass := ⟨false, 1, true, false, false, false, true⟩

/-- `condition(x)` (grid = false) / `grid(g)` with another grid (grid = true) on the canonical composite -/
def canonCompositeRun (grid : Bool) : OState :=
  let st := initState canonCompositeHeap (fun r => if r = 0 then 1 else if r = 1 then (if grid then 14 else 13) else 0)
  runProg st (if grid then gridProg compositeClass (fun _ => true) false false true 2
              else conditionProg compositeClass (fun _ => true))

/-- the same calls with the composite copy of before the F-15f/g repair (children shared) -/
def canonCompositeRunOld (grid : Bool) : OState :=
  let st := initState canonCompositeHeap (fun r => if r = 0 then 1 else if r = 1 then (if grid then 14 else 13) else 0)
  runProg st (if grid then gridProgOf true compositeClass (fun _ => true) false false true 2
              else conditionProgOf true compositeClass (fun _ => true))

def canonCompositeChangedOld (grid : Bool) : List Nat :=
  (List.range 26).filter (fun n => (canonCompositeRunOld grid).heap.node n != canonCompositeHeap.node n)

def canonCompositeChanged (grid : Bool) : List Nat :=
  (List.range 26).filter (fun n => (canonCompositeRun grid).heap.node n != canonCompositeHeap.node n)

def canonCompositePure (grid : Bool) : Bool := (canonCompositeChanged grid).isEmpty

end Deepali
