/-
  Model/Homog.lean — homogeneous coordinate transformations in the three operand forms
  deepali accepts.
  src: src/deepali/core/linalg.py  as_homogeneous_tensor @59-76, as_homogeneous_matrix @79-112,
       homogeneous_transform @115-196, hmm @199-214, homogeneous_matmul @217-339,
       homogeneous_matrix @342-376
-/
import Deepali.Model.Vec
namespace Deepali

/-- linalg.py `HomogeneousTensorType`: a translation vector `(D,1)`, a square matrix `(D,D)`,
    or a `(D, D+1)` matrix `[A | t]`. -/
inductive H (d : Nat) (α : Type) where
  | trans (t : Vec d α)
  | aff (A : Mat d α)
  | hom (A : Mat d α) (t : Vec d α)

section
variable {α : Type} [Add α] [Sub α] [Mul α] [Div α] [Neg α] [NatCast α] {d : Nat}

/-- linalg.py:homogeneous_transform @189-196 (`vectors=False`). -/
def H.apply : H d α → Vec d α → Vec d α
  | .trans t, x => x.add t
  | .aff A, x => A.mulVec x
  | .hom A t, x => (A.mulVec x).add t

/-- linalg.py:homogeneous_transform @189-196 (`vectors=True`): translation is skipped. -/
def H.applyVec : H d α → Vec d α → Vec d α
  | .trans _, x => x
  | .aff A, x => A.mulVec x
  | .hom A _, x => A.mulVec x

/-- linalg.py:homogeneous_matmul @296-333, the nine branches for `a ∘ b` (b applied first). -/
def H.matmul : H d α → H d α → H d α
  | .trans a, .trans b => .trans (a.add b)                               -- c = a + b
  | .trans a, .aff B => .hom B a                                         -- cat([b, a])
  | .trans a, .hom B t => .hom B (t.add a)                               -- c[..., D] += a
  | .aff A, .trans b => .hom A (A.mulVec b)                              -- cat([a, bmm(a, b)])
  | .aff A, .aff B => .aff (A.mul B)
  | .aff A, .hom B t => .hom (A.mul B) (A.mulVec t)
  | .hom A s, .trans b => .hom A (s.add (A.mulVec b))                    -- c[..., D] += bmm(a[:D], b)
  | .hom A s, .aff B => .hom (A.mul B) s
  | .hom A s, .hom B t => .hom (A.mul B) (s.add (A.mulVec t))

/-- linalg.py:as_homogeneous_matrix @100-107. -/
def H.toHom : H d α → Mat d α × Vec d α
  | .trans t => (Mat.one, t)
  | .aff A => (A, fun _ => ((0 : Nat) : α))
  | .hom A t => (A, t)

/-- linalg.py:hmm @213-214. -/
def H.hmm (a b : H d α) : H d α :=
  let c := (a.matmul b).toHom
  .hom c.1 c.2

/-- linalg.py:homogeneous_matrix @364-376 (`matrix[..., D] += offset`). -/
def H.homogeneousMatrix (a : H d α) (offset : Vec d α) : H d α :=
  let c := a.toHom
  .hom c.1 (c.2.add offset)

/-- n-ary `homogeneous_matmul(*args)`: left fold, first argument applied last. -/
def H.matmulN : H d α → List (H d α) → H d α
  | a, [] => a
  | a, b :: bs => H.matmulN (a.matmul b) bs

end
end Deepali
