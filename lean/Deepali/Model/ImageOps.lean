/-
  Model/ImageOps.lean — index bookkeeping of the tensor-level and grid-level halves of the
  index-only image operations (crop, pad, center crop/pad, region of interest, narrow, conv crop).
  src: src/deepali/core/image.py crop @634-687, pad @690-742, center_crop @745-781, center_pad @784-830,
       region_of_interest @833-885; src/deepali/core/grid.py crop @1355-1409, pad @1411-1465,
       center_crop @1467-1483, center_pad @1485-1501, narrow @1503-1516, region_of_interest @1518-1533;
       src/deepali/data/image.py wrappers @683-836.

  Everything is per spatial axis in grid order (x first). An index-only operation is described by
  the new size and `first`, the old index of the new sample 0 (`new[j] = old[j + first]`, samples
  outside the old box are fill values).
-/
namespace Deepali

/-- result of an index-only operation on one axis. -/
structure AxisOp where
  newSize : Int
  first : Int
  deriving DecidableEq, Repr

/-- `F.pad(data, (l, r))` on one axis (negative values crop): `out[j] = in[j − l]`. -/
def fpadAxis (n : Int) (l r : Int) : AxisOp := ⟨n + l + r, -l⟩

/-- core/image.py `crop(num=…)` @658-687 → `F.pad(data, -num)`; `lo`, `hi` = `num[2i]`, `num[2i+1]`. -/
def tensorCrop (n lo hi : Int) : AxisOp := fpadAxis n (-lo) (-hi)

/-- core/image.py `pad(num=…)` @713-742. -/
def tensorPad (n lo hi : Int) : AxisOp := fpadAxis n lo hi

/-- core/image.py `center_crop` @770-781: `crop = max(0, m − n) // 2`, slice `[crop, crop + n)` clipped. -/
def tensorCenterCrop (m n : Int) : AxisOp :=
  let c := (max 0 (m - n)) / 2
  ⟨min n (m - c), c⟩

/-- core/image.py `center_pad` @819-830: pad `(p // 2, (p + 1) // 2)` with `p = max(0, n − m)`. -/
def tensorCenterPad (m n : Int) : AxisOp :=
  let p := max 0 (n - m)
  fpadAxis m (p / 2) ((p + 1) / 2)

/-- core/image.py `region_of_interest` @882-885: `crop(num=[start, m − (start + size)])`. -/
def tensorRoi (m start size : Int) : AxisOp := tensorCrop m start (m - (start + size))

/-- `Tensor.narrow(dim, start, length)`. -/
def tensorNarrow (_m start length : Int) : AxisOp := ⟨length, start⟩

/-- grid.py `crop(num=…)` @1398-1409: `size = clamp(n − lo − hi, min=1)`, `origin = index_to_world(lo)`. -/
def gridCrop (n lo hi : Int) : AxisOp := ⟨max 1 (n - lo - hi), lo⟩

/-- grid.py `pad(num=…)` @1454-1465. -/
def gridPad (n lo hi : Int) : AxisOp := ⟨max 1 (n + lo + hi), -lo⟩

/-- grid.py `center_crop` @1474-1483: `size = min(m, n)`, `origin = (m − size) // 2`. -/
def gridCenterCrop (m n : Int) : AxisOp :=
  let s := min m n
  ⟨s, (m - s) / 2⟩

/-- grid.py `center_pad` @1492-1501: `size = max(m, n)`, `origin = −((size − m) // 2)`. -/
def gridCenterPad (m n : Int) : AxisOp :=
  let s := max m n
  ⟨s, -((s - m) / 2)⟩

/-- grid.py `region_of_interest` @1530-1533: `crop(num=[start, m − (start + size)])`. -/
def gridRoi (m start size : Int) : AxisOp := gridCrop m start (m - (start + size))

/-- grid.py `narrow` @1507-1516. -/
def gridNarrow (_m start length : Int) : AxisOp := ⟨length, start⟩

/-- data/image.py `ImageBatch.conv` @832-835: the grid is cropped by `(m − n) // 2` per axis where `n` is the
    size of the filtered data; `tensorConvValid` is the data side for an unpadded convolution with a
    centred odd kernel of size `k` (`out[j] = Σ_t w[t]·in[j + t]`, centre at `j + (k − 1)/2`). -/
def tensorConvValid (m k : Int) : AxisOp := ⟨m - (k - 1), (k - 1) / 2⟩
def gridConvCrop (m n : Int) : AxisOp := gridCrop m ((m - n) / 2) ((m - n) / 2)

end Deepali
