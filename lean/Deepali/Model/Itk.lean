/-
  Model/Itk.lean — property C02: the ITK image-geometry convention as an *independent*
  specification, and deepali's header conversions.

  `Itk.*` is written from ITK's documentation (itk::ImageBase: "Origin = physical position of
  index 0; Spacing; Direction = matrix whose columns are the direction cosines of the index
  axes; `TransformContinuousIndexToPhysicalPoint(i) = Origin + Direction · (Spacing ⊙ i)`,
  `TransformPhysicalPointToContinuousIndex = (Direction · diag Spacing)⁻¹ (x − Origin)`"), not
  from deepali. It is validated against SimpleITK on every run (harness/props/c02.py).

  deepali side, src:
    src/deepali/core/grid.py  `Grid.from_sitk` @302-315, `Grid.__init__` @184-194 (origin/center
      routes), `direction_` @553-577 (flat `D*D` array → `reshape(D, D)`, row-major)
    src/deepali/data/image.py `Image.sitk` @1147-1157 (`origin().tolist()`, `spacing().tolist()`,
      `direction().flatten().tolist()`), `Image.from_sitk` @1131-1145
    src/deepali/utils/simpleitk/torch.py `image_from_tensor` (SetOrigin/SetSpacing/SetDirection,
      size = data shape reversed)
-/
import Deepali.Model.GridOps
namespace Deepali

section
variable {α : Type} [Add α] [Sub α] [Mul α] [Div α] [Neg α] [NatCast α] {d : Nat}

/-- ITK: continuous index → physical point. -/
def Itk.idxToPhys (O S : Vec d α) (D : Mat d α) (i : Vec d α) : Vec d α := O.add (D.mulVec (S.mul i))

/-- determinant / adjugate inverse of 2×2 and 3×3 matrices (what `vnl` computes for ITK's
    `m_PhysicalPointToIndex`); no assumption on the matrix besides `det ≠ 0`. -/
def Mat.det2 (A : Mat 2 α) : α := A 0 0 * A 1 1 - A 0 1 * A 1 0

def Mat.inv2 (A : Mat 2 α) : Mat 2 α :=
  let dt := A.det2
  fun i j =>
    match i.val, j.val with
    | 0, 0 => A 1 1 / dt
    | 0, _ => -(A 0 1) / dt
    | _, 0 => -(A 1 0) / dt
    | _, _ => A 0 0 / dt

def Mat.det3 (A : Mat 3 α) : α :=
  A 0 0 * (A 1 1 * A 2 2 - A 1 2 * A 2 1) - A 0 1 * (A 1 0 * A 2 2 - A 1 2 * A 2 0)
    + A 0 2 * (A 1 0 * A 2 1 - A 1 1 * A 2 0)

def Mat.inv3 (A : Mat 3 α) : Mat 3 α :=
  let dt := A.det3
  fun i j =>
    match i.val, j.val with
    | 0, 0 => (A 1 1 * A 2 2 - A 1 2 * A 2 1) / dt
    | 0, 1 => (A 0 2 * A 2 1 - A 0 1 * A 2 2) / dt
    | 0, _ => (A 0 1 * A 1 2 - A 0 2 * A 1 1) / dt
    | 1, 0 => (A 1 2 * A 2 0 - A 1 0 * A 2 2) / dt
    | 1, 1 => (A 0 0 * A 2 2 - A 0 2 * A 2 0) / dt
    | 1, _ => (A 0 2 * A 1 0 - A 0 0 * A 1 2) / dt
    | _, 0 => (A 1 0 * A 2 1 - A 1 1 * A 2 0) / dt
    | _, 1 => (A 0 1 * A 2 0 - A 0 0 * A 2 1) / dt
    | _, _ => (A 0 0 * A 1 1 - A 0 1 * A 1 0) / dt

/-- ITK: physical point → continuous index, `(D · diag S)⁻¹ (x − O)` with a true matrix inverse. -/
def Itk.physToIdx2 (O S : Vec 2 α) (D : Mat 2 α) (x : Vec 2 α) : Vec 2 α :=
  (D.mul (Mat.diag S)).inv2.mulVec (x.sub O)

def Itk.physToIdx3 (O S : Vec 3 α) (D : Mat 3 α) (x : Vec 3 α) : Vec 3 α :=
  (D.mul (Mat.diag S)).inv3.mulVec (x.sub O)

/-- image header as SimpleITK reports it: `GetSize`, `GetOrigin`, `GetSpacing`, and
    `GetDirection` as a flat tuple of `d*d` numbers (row-major). -/
structure Itk.Header (d : Nat) (α : Type) where
  size : Fin d → Nat
  origin : Vec d α
  spacing : Vec d α
  direction : Fin (d * d) → α

/-- `direction.reshape(D, D)` of a flat row-major array (grid.py `direction_` @558-563). -/
def Itk.reshape (f : Fin (d * d) → α) : Mat d α :=
  fun i j => f ⟨i.val * d + j.val, by
    have hi := i.isLt
    have hj := j.isLt
    calc i.val * d + j.val < i.val * d + d := Nat.add_lt_add_left hj _
      _ = (i.val + 1) * d := by rw [Nat.add_mul, Nat.one_mul]
      _ ≤ d * d := Nat.mul_le_mul_right d hi⟩

/-- `direction().flatten()` (image.py `sitk` @1156). -/
def Itk.flatten (A : Mat d α) : Fin (d * d) → α :=
  fun k =>
    have hd : 0 < d := by
      cases d with
      | zero => exact absurd k.isLt (by simp)
      | succ n => exact Nat.succ_pos n
    A ⟨k.val / d, Nat.div_lt_of_lt_mul k.isLt⟩ ⟨k.val % d, Nat.mod_lt _ hd⟩

end

section
variable {α : Type} [Add α] [Sub α] [Mul α] [Div α] [Neg α] [NatCast α] [IntCast α]
  [HasFloor α] [DecidableEq α] [LT α] [DecidableRel (α := α) (· < ·)] {d : Nat}

/-- grid.py `Grid.from_sitk` @302-315 (= `from_reader`, and the grid of `Image.from_sitk`). -/
def Grid.fromSitk (h : Itk.Header d α) (ac : Bool) : Grid d α :=
  Grid.init (fun i => ((h.size i : Nat) : α)) h.origin h.spacing (Itk.reshape h.direction) ac

/-- image.py `Image.sitk` @1147-1157: the header of the SimpleITK image created from an image
    on grid `g` (size = data shape reversed = `grid.size()`). -/
def Grid.toSitk (g : Grid d α) : Itk.Header d α :=
  ⟨fun i => (g.sizeInt i).toNat, g.origin, g.spacing, Itk.flatten g.direction⟩

/-- grid.py `Grid.__init__(size, center=…)` route @185. -/
def Grid.fromCenter (size center spacing : Vec d α) (direction : Mat d α) (ac : Bool) : Grid d α :=
  ⟨fun i => if size i < ((0 : Nat) : α) then ((0 : Nat) : α) else size i, center, spacing, direction, ac⟩

end
end Deepali
