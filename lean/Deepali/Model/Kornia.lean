/-
  Model/Kornia.lean — conversions between quaternions (w, x, y, z), rotation matrices and
  angle-axis (Rodrigues) vectors: the polynomial parts (property C08).
  src: src/deepali/core/_kornia.py  angle_axis_to_rotation_matrix @42-118,
       rotation_matrix_to_quaternion @147-227, normalize_quaternion @230-254,
       quaternion_to_rotation_matrix @262-327, quaternion_to_angle_axis @330-387,
       quaternion_log_to_exp @390-427, quaternion_exp_to_log @430-472, angle_axis_to_quaternion @479-534

  Core Lean only.  `sqrt`, `sin`, `cos`, `acos`, `atan2` are NOT computed: their values are arguments
  (named after the code's variable) and the theorems carry algebraic hypotheses about them.
  Branch selection (`torch.where` masks, `clamp`) is transcribed with `<` on the scalar.
-/
import Deepali.Model.Affine
namespace Deepali

section
variable {α : Type} [Add α] [Sub α] [Mul α] [Div α] [Neg α] [NatCast α]

def affVec4 (a b c d : α) : Vec 4 α := fun i => match i with
  | 0 => a | 1 => b | 2 => c | 3 => d

variable [LT α] [DecidableRel (α := α) (· < ·)]

/-- `torch.clamp(x, min=lo)`. -/
def korniaClampMin (x lo : α) : α := if x < lo then lo else x

/-- _kornia.py:normalize_quaternion @254 `F.normalize(q, p=2, dim=-1, eps)` = `q / max(‖q‖, eps)`;
    `n` = `‖q‖₂` (square root supplied by the caller). -/
def normalizeQuaternion (q : Vec 4 α) (n eps : α) : Vec 4 α :=
  let den := korniaClampMin n eps
  fun i => q i / den

/-- _kornia.py:quaternion_to_rotation_matrix @293-323 on the already normalised quaternion. -/
def quaternionToRotationMatrixN (q : Vec 4 α) : Mat 3 α :=
  let two : α := ((2 : Nat) : α); let one : α := ((1 : Nat) : α)
  let w := q 0; let x := q 1; let y := q 2; let z := q 3
  let tx := two * x; let ty := two * y; let tz := two * z
  let twx := tx * w; let twy := ty * w; let twz := tz * w
  let txx := tx * x; let txy := ty * x; let txz := tz * x
  let tyy := ty * y; let tyz := tz * y; let tzz := tz * z
  affMat3 (affVec3 (one - (tyy + tzz)) (txy - twz) (txz + twy))
       (affVec3 (txy + twz) (one - (txx + tzz)) (tyz - twx))
       (affVec3 (txz - twy) (tyz + twx) (one - (txx + tyy)))

/-- _kornia.py:quaternion_to_rotation_matrix @290-327. -/
def quaternionToRotationMatrix (q : Vec 4 α) (n eps : α) : Mat 3 α :=
  quaternionToRotationMatrixN (normalizeQuaternion q n eps)

/-- _kornia.py @181-183 `numerator / clamp(denominator, min=tiny)`. -/
def safeZeroDivision (num den tiny : α) : α := num / korniaClampMin den tiny

/-- _kornia.py:rotation_matrix_to_quaternion @187-227.  `r 0 = √(trace + 1)`,
    `r 1 = √(1 + m00 − m11 − m22 + eps)`, `r 2 = √(1 + m11 − m00 − m22 + eps)`,
    `r 3 = √(1 + m22 − m00 − m11 + eps)` (only the selected branch's root is used). -/
def rotationMatrixToQuaternion (m : Mat 3 α) (r : Vec 4 α) (tiny : α) : Vec 4 α :=
  let zero : α := ((0 : Nat) : α); let two : α := ((2 : Nat) : α)
  let quarter : α := ((1 : Nat) : α) / ((4 : Nat) : α)
  let trace := m 0 0 + m 1 1 + m 2 2
  if zero < trace then
    let sq := r 0 * two
    affVec4 (quarter * sq) (safeZeroDivision (m 2 1 - m 1 2) sq tiny) (safeZeroDivision (m 0 2 - m 2 0) sq tiny)
      (safeZeroDivision (m 1 0 - m 0 1) sq tiny)
  else if m 1 1 < m 0 0 ∧ m 2 2 < m 0 0 then
    let sq := r 1 * two
    affVec4 (safeZeroDivision (m 2 1 - m 1 2) sq tiny) (quarter * sq) (safeZeroDivision (m 0 1 + m 1 0) sq tiny)
      (safeZeroDivision (m 0 2 + m 2 0) sq tiny)
  else if m 2 2 < m 1 1 then
    let sq := r 2 * two
    affVec4 (safeZeroDivision (m 0 2 - m 2 0) sq tiny) (safeZeroDivision (m 0 1 + m 1 0) sq tiny) (quarter * sq)
      (safeZeroDivision (m 1 2 + m 2 1) sq tiny)
  else
    let sq := r 3 * two
    affVec4 (safeZeroDivision (m 1 0 - m 0 1) sq tiny) (safeZeroDivision (m 0 2 + m 2 0) sq tiny)
      (safeZeroDivision (m 1 2 + m 2 1) sq tiny) (quarter * sq)

/-- _kornia.py:angle_axis_to_quaternion @509-534.  `theta = √(a·a)`, `sh = sin(theta/2)`,
    `ch = cos(theta/2)`. -/
def angleAxisToQuaternion (a : Vec 3 α) (theta sh ch : α) : Vec 4 α :=
  let zero : α := ((0 : Nat) : α); let one : α := ((1 : Nat) : α)
  let thetaSquared := a 0 * a 0 + a 1 * a 1 + a 2 * a 2
  let mask := zero < thetaSquared
  let k := if mask then sh / theta else one / ((2 : Nat) : α)
  let w := if mask then ch else one
  affVec4 w (a 0 * k) (a 1 * k) (a 2 * k)

/-- _kornia.py:angle_axis_to_rotation_matrix @65-118.  `theta = √(a·a)`, `c = cos theta`,
    `s = sin theta`; `eps` is the `1e-6` added to `theta` @71 and `eps2` the mask threshold @105-106. -/
def angleAxisToRotationMatrix (a : Vec 3 α) (theta c s eps eps2 : α) : Mat 3 α :=
  let one : α := ((1 : Nat) : α)
  let theta2 := a 0 * a 0 + a 1 * a 1 + a 2 * a 2
  if eps2 < theta2 then
    let wx := a 0 / (theta + eps); let wy := a 1 / (theta + eps); let wz := a 2 / (theta + eps)
    affMat3 (affVec3 (c + wx * wx * (one - c)) (wx * wy * (one - c) - wz * s) (wy * s + wx * wz * (one - c)))
         (affVec3 (wz * s + wx * wy * (one - c)) (c + wy * wy * (one - c)) (-wx * s + wy * wz * (one - c)))
         (affVec3 (-wy * s + wx * wz * (one - c)) (wx * s + wy * wz * (one - c)) (c + wz * wz * (one - c)))
  else
    affMat3 (affVec3 one (-(a 2)) (a 1)) (affVec3 (a 2) one (-(a 0))) (affVec3 (-(a 1)) (a 0) one)

/-- _kornia.py:quaternion_to_angle_axis @365-387.  `sinTheta = √(x²+y²+z²)`,
    `atNeg = atan2(−sinTheta, −w)`, `atPos = atan2(sinTheta, w)`. -/
def quaternionToAngleAxis (q : Vec 4 α) (sinTheta atNeg atPos : α) : Vec 3 α :=
  let zero : α := ((0 : Nat) : α); let two : α := ((2 : Nat) : α)
  let cosTheta := q 0
  let sinSquared := q 1 * q 1 + q 2 * q 2 + q 3 * q 3
  let twoTheta := two * (if cosTheta < zero then atNeg else atPos)
  let k := if zero < sinSquared then twoTheta / sinTheta else two
  affVec3 (q 1 * k) (q 2 * k) (q 3 * k)

/-- _kornia.py:quaternion_log_to_exp @417-427.  `n = ‖v‖`, `sn = sin(max(n, eps))`, `cn = cos(max(n, eps))`. -/
def quaternionLogToExp (v : Vec 3 α) (n sn cn eps : α) : Vec 4 α :=
  let nq := korniaClampMin n eps
  affVec4 cn (v 0 * sn / nq) (v 1 * sn / nq) (v 2 * sn / nq)

/-- _kornia.py:quaternion_exp_to_log @461-472.  `n = ‖(x,y,z)‖`, `ac = acos(clamp(w, −1, 1))`. -/
def quaternionExpToLog (q : Vec 4 α) (n ac eps : α) : Vec 3 α :=
  let nq := korniaClampMin n eps
  affVec3 (q 1 * ac / nq) (q 2 * ac / nq) (q 3 * ac / nq)

end
end Deepali
