/-
  Model/LossModules.lean — the normalisation factor of the module classes SSD / L2ImageLoss (MSE) /
  L1ImageLoss (MAE) / HuberImageLoss / SmoothL1ImageLoss (layer D, object layer of the pointwise losses).
  src: src/deepali/losses/base.py (NormalizedPairwiseImageLoss.__init__ @87-115),
       src/deepali/losses/image.py (the `forward` methods @112-223).

  The constructor derives `self.norm` from three optional arguments (`source`, `target`, `norm`); `forward`
  hands it to the functional loss as `norm=self.norm`.  An image is its number of elements and its flat index
  function (the only thing the constructor does with an image is `max_difference`, i.e. its extrema).
  Core Lean only.
-/
import Deepali.Model.Losses
namespace Deepali.Loss

/-- the `norm` argument of `NormalizedPairwiseImageLoss.__init__`: `None` | `True` | `False` | a number or
    0-dim tensor. -/
inductive NormArg (α : Type) | none | true | false | value (v : α)

/-- an image as the constructor uses it: element count and flat index function (`maxDifference n m s t`). -/
abbrev Img (α : Type) := Nat × (Nat → α)

section
variable {α : Type} [Add α] [Sub α] [Mul α] [Div α] [Neg α] [NatCast α] [LT α]
  [DecidableRel (α := α) (· < ·)]

/-- src: losses/base.py:NormalizedPairwiseImageLoss.__init__ @103-115 — the value stored as `self.norm`
    (`none` = Python `None`: the loss is not divided).  Statement by statement:
    `if norm is True: norm = None`; `if norm is None:` substitute the missing image by the given one, and
    with both present `norm = max_difference(source, target).square()`; `elif norm is False: norm = None`;
    anything else is kept. -/
def moduleNorm (arg : NormArg α) (source target : Option (Img α)) : Option α :=
  let arg : NormArg α := match arg with                            -- @103-104 `if norm is True: norm = None`
    | .true => .none
    | a => a
  match arg with
  | .none =>                                                       -- @105 `if norm is None:`
    let st : Option (Img α) × Option (Img α) :=
      match target with
      | none => (source, source)                                   -- @106-107 `target = source`
      | some _ =>
        match source with
        | none => (target, target)                                 -- @108-109 `source = target`
        | some _ => (source, target)
    match st with
    | (some s, some t) =>                                          -- @110 both present
      let d := maxDifference s.1 t.1 s.2 t.2
      some (d * d)                                                 -- @111 `.square()`
    | _ => none                                                    -- stays `None`
  | .false => none                                                 -- @112-113 `elif norm is False: norm = None`
  | .true => some ((1 : Nat) : α)                                  -- not reached (replaced @103-104); Python's `True` is the number 1
  | .value v => some v                                             -- @115 `self.norm = norm`

/-- src: losses/image.py — `forward` of L1ImageLoss @117, HuberImageLoss @162, SmoothL1ImageLoss @204,
    L2ImageLoss @212, SSD @223: the functional loss with `norm=self.norm`, which divides every output value by
    the factor when it is present and positive (`applyNorm`).  `source`/`target` are the constructor's images,
    `x`/`y`/`mask` the arguments of `forward`. -/
def moduleLoss (kind : Pointwise α) (red : Reduction) (arg : NormArg α) (source target : Option (Img α))
    (x y : T α) (mask : Option (T α)) : Except String (List α) :=
  pointwiseLoss kind red x y mask (moduleNorm arg source target)

/-- the five classes derived from `NormalizedPairwiseImageLoss`. -/
inductive NormalizedClass (α : Type) | SSD | L2 | L1 | Huber (delta : α) | SmoothL1 (beta : α)

/-- which functional form and which default `reduction` the class's `forward` calls:
    `ssd_loss` (sum) @223, `mse_loss` (mean; forwards to `ssd_loss`) @212, `mae_loss` @117, `huber_loss` @162,
    `smooth_l1_loss` @204 (all mean). -/
def NormalizedClass.functional : NormalizedClass α → Pointwise α × Reduction
  | .SSD => (.ssd, .sum)
  | .L2 => (.ssd, .mean)
  | .L1 => (.l1, .mean)
  | .Huber d => (.huber d, .mean)
  | .SmoothL1 b => (.smoothL1 b, .mean)

/-- `cls(source, target, norm)(x, y, mask)`. -/
def NormalizedClass.forward (cls : NormalizedClass α) (arg : NormArg α) (source target : Option (Img α))
    (x y : T α) (mask : Option (T α)) : Except String (List α) :=
  moduleLoss cls.functional.1 cls.functional.2 arg source target x y mask

end
end Deepali.Loss
