/-
  Model/Losses.lean — pairwise image similarity and overlap losses (layer D).
  src: src/deepali/losses/functional.py (line ranges next to each definition),
       src/deepali/core/image.py (avg_pool @21-61, dot_channels @376-396),
       src/deepali/losses/image.py (module classes → functional forms, see `Drv/Losses.lean`).

  Conventions.  A tensor is a shape plus a total function `Nat → α` from the flat (row-major)
  index to the value; only indices `< numel` are ever read.  Sums are `sumTo n f = Σ_{i<n} f i`
  (bridged to `Finset.sum (range n)` in Proofs/LossesBasic) or `lsum` over a list of window
  indices.  Every loss has a *core* (pure, total, what the theorems are about) and a wrapper
  that performs the shape checks of the Python function and returns `Except String …`
  (errors as the small enum of the line protocol).  torch primitives are modelled by their
  documented semantics: `mean/sum/square/mul/div/add/neg`, broadcasting (`bcastIdx`),
  `avg_pool*d(stride=1, padding=k//2, count_include_pad=False | divisor_override=1)` (`boxWin`),
  `round` (half to even), `ge`, `narrow`, `repeat`.  `exp`, `log`, `sqrt` are never computed
  here: they enter as functions/values supplied by the caller.
-/
import Deepali.Model.Grid
namespace Deepali.Loss

/-- `reduction` argument of every loss: "none" | "mean" | "sum". -/
inductive Reduction | none | mean | sum
  deriving DecidableEq, Repr, Inhabited

/-- number of elements of a shape. -/
def prod : List Nat → Nat
  | [] => 1
  | n :: ns => n * prod ns

/-- tensor = shape + flat row-major data. -/
structure T (α : Type) where
  shape : List Nat
  data : Nat → α

def T.numel {α} (t : T α) : Nat := prod t.shape

/-- evaluate `f` once on `0..n-1` into an array … -/
def memoArr {β : Type} (n : Nat) (f : Nat → β) : Array β := Array.ofFn (n := n) (fun i => f i.val)

/-- … and serve those indices from it (driver speed only: `getM (memoArr n f) f = f`,
    Proofs/LossesBasic `getM_memoArr`).  The array must be `let`-bound by the caller: a
    three-argument `memo n f i` would rebuild it on every call. -/
def getM {β : Type} (a : Array β) (f : Nat → β) (i : Nat) : β := if h : i < a.size then a[i] else f i

/-- torch broadcasting (right aligned): flat index into a tensor of *reversed* shape `ms`
    paired with flat index `i` of a tensor of *reversed* shape `ls`. -/
def bcastIdx : List Nat → List Nat → Nat → Nat
  | l :: ls, m :: ms, i => (if m = 1 then 0 else i % l) + m * bcastIdx ls ms (i / l)
  | _, _, _ => 0

/-- `ms` broadcasts to `ls` without enlarging `ls` (reversed shapes). -/
def bcastOK : List Nat → List Nat → Bool
  | _, [] => true
  | [], _ :: _ => false
  | l :: ls, m :: ms => (m == 1 || m == l) && bcastOK ls ms

/-- `mask.expand_as(loss)` / implicit broadcasting in `loss.mul(mask)`. -/
def expandAs {α} (ls : List Nat) (m : T α) : Nat → α :=
  fun i => m.data (bcastIdx ls.reverse m.shape.reverse i)

/-- src: functional.py:masked_loss @1754-1759 — the three shape checks, in order, with Python's
    short-circuit `and` (so `loss.shape[1]` is only evaluated when `mask.shape[1] != 1`). -/
def maskedLossCheck (ls ms : List Nat) : Except String Unit :=
  match ms, ls with
  | m0 :: mrest, l0 :: lrest =>
    if m0 ≠ 1 ∧ m0 ≠ l0 then .error "err:value:mask-batch" else       -- @1754-1755
    match mrest with
    | [] => .error "err:index:mask-ndim"                               -- `mask.shape[1]` on 1-d mask
    | m1 :: mtail =>
      if m1 ≠ 1 then
        match lrest with
        | [] => .error "err:index:loss-ndim"                           -- `loss.shape[1]` on 1-d loss (IndexError)
        | l1 :: ltail =>
          if m1 ≠ l1 then .error "err:value:mask-channels"             -- @1756-1757
          else if mtail ≠ ltail then .error "err:value:mask-spatial"   -- @1758-1759
          else .ok ()
      else if mtail ≠ lrest.drop 1 then .error "err:value:mask-spatial" -- @1758-1759
      else .ok ()
  | _, _ => .error "err:index:empty-shape"

section Core
variable {α : Type} [Add α] [Sub α] [Mul α] [Div α] [Neg α] [NatCast α]

/-- `Σ_{i<n} f i`. -/
def sumTo : Nat → (Nat → α) → α
  | 0, _ => ((0 : Nat) : α)
  | n + 1, f => sumTo n f + f n

/-- sum of a list. -/
def lsum : List α → α
  | [] => ((0 : Nat) : α)
  | x :: xs => x + lsum xs

/-- src: functional.py:reduce_loss @1767-1779 on a flattened loss of `n` elements; the mask is
    already expanded (`mask.expand_as(loss)`).  "none" returns the `n` values, otherwise one value. -/
def reduceLoss (red : Reduction) (n : Nat) (loss : Nat → α) (mask : Option (Nat → α)) : List α :=
  match red with
  | .none => (List.range n).map loss                                 -- @1771-1772
  | .mean =>
    match mask with
    | none => [sumTo n loss / ((n : Nat) : α)]                       -- @1773-1774 `loss.mean()`
    | some m => [sumTo n loss / sumTo n m]                           -- @1775-1778 `loss.sum() / mask.expand_as(loss).sum()`
  | .sum => [sumTo n loss]                                           -- @1774 | @1775 `loss.sum()`

/-- src: functional.py:masked_loss @1741-1764: checks, then `loss.mul(mask)` (broadcast). -/
def maskedLoss (ls : List Nat) (loss : Nat → α) : Option (T α) → Except String (Nat → α)
  | none => .ok loss                                                   -- @1748-1749
  | some m => do
    maskedLossCheck ls m.shape
    if m.shape.length ≠ ls.length then throw "err:unmodelled:broadcast-grows"
    pure (fun i => loss i * expandAs ls m i)                           -- @1760-1763

/-- core of `ssd_loss` @966-968 and of `elementwise_loss` @1726-1731: pointwise loss `f`,
    optional (expanded) multiplicative mask, reduction. Without a mask `elementwise_loss` hands the
    reduction to torch's own `F.*_loss(reduction=…)`, which is mean/sum of the elementwise values. -/
def pointwiseCore (f : α → α → α) (red : Reduction) (n : Nat) (x y : Nat → α)
    (m : Option (Nat → α)) : List α :=
  match m with
  | none => reduceLoss red n (fun i => f (x i) (y i)) none
  | some w => reduceLoss red n (fun i => f (x i) (y i) * w i) (some w)

/-- `input.sub(target).square()` — ssd_loss @966. -/
def sqDiff (a b : α) : α := (a - b) * (a - b)

/-- src: functional.py:ncc_loss @563-578 for one batch item of `n = C·X…` flattened elements. -/
def nccItem (n : Nat) (s t : Nat → α) (eps : α) : α :=
  let sm := sumTo n s / ((n : Nat) : α)                              -- source.mean(dim=1)
  let tm := sumTo n t / ((n : Nat) : α)
  let x := fun i => s i - sm
  let y := fun i => t i - tm
  let a := sumTo n (fun i => x i * y i)
  let b := sumTo n (fun i => x i * x i)
  let c := sumTo n (fun i => y i * y i)
  (-(a * a / (b * c + eps))) + ((1 : Nat) : α)                        -- @578

/-- ncc_loss with reduction "none", no mask: one value per batch item. -/
def nccNone (n : Nat) (s t : Nat → α) (eps : α) : Nat → α :=
  fun k => nccItem n (fun i => s (k * n + i)) (fun i => t (k * n + i)) eps

/-- src: functional.py:ncc_loss @569-578 for one batch item with a (broadcast, flattened) mask `m`:
    weighted means `Σ s·m / Σ m`, centred images multiplied by the mask, then the same score. -/
def nccItemM (n : Nat) (s t m : Nat → α) (eps : α) : α :=
  let wsum := sumTo n m                                              -- @570
  let sm := sumTo n (fun i => s i * m i) / wsum
  let tm := sumTo n (fun i => t i * m i) / wsum
  let x := fun i => (s i - sm) * m i                                 -- @571
  let y := fun i => (t i - tm) * m i                                 -- @572
  let a := sumTo n (fun i => x i * y i)
  let b := sumTo n (fun i => x i * x i)
  let c := sumTo n (fun i => y i * y i)
  (-(a * a / (b * c + eps))) + ((1 : Nat) : α)                        -- @578

/-- ncc_loss with reduction "none" and mask: one value per batch item. -/
def nccNoneM (n : Nat) (s t m : Nat → α) (eps : α) : Nat → α :=
  fun k => nccItemM n (fun i => s (k * n + i)) (fun i => t (k * n + i)) (fun i => m (k * n + i)) eps

/-- `avg_pool(data, k, stride=1, padding=k//2, divisor_override=1)` at one output position whose
    in-bounds window is the index list `w` (zero padding contributes nothing). -/
def winSum (w : List Nat) (f : Nat → α) : α := lsum (w.map f)

/-- `avg_pool(…, count_include_pad=False)`: divide by the number of in-bounds window elements. -/
def winMean (w : List Nat) (f : Nat → α) : α := winSum w f / ((w.length : Nat) : α)

/-- `source.sub(local_mean(source))` — lcc_loss @640-644. -/
def centered (win : Nat → List Nat) (s : Nat → α) : Nat → α := fun j => s j - winMean (win j) s

/-- lcc_loss @646-650 at one output position with window `w`, given the centred images. -/
def lccScore (w : List Nat) (x y : Nat → α) (eps : α) : α :=
  let a := winSum w (fun j => x j * y j)
  let b := winSum w (fun j => x j * x j)
  let c := winSum w (fun j => y j * y j)
  (-(a * a / (b * c + eps))) + ((1 : Nat) : α)

/-- src: functional.py:lcc_loss @637-650, reduction "none", before masking, for an arbitrary
    family of windows `win i` (the box filter `boxWin` below in the code). -/
def lccAt (win : Nat → List Nat) (s t : Nat → α) (eps : α) (i : Nat) : α :=
  lccScore (win i) (centered win s) (centered win t) eps

/-- wlcc_loss @736-747 `local_mean(data, weight)`: plain window mean without weight, otherwise
    `local_sum(data·w) / (local_sum(w) + ε)`. -/
def wMean (w : List Nat) (f : Nat → α) (wt : Option (Nat → α)) (eps : α) : α :=
  match wt with
  | none => winMean w f
  | some g => winSum w (fun j => f j * g j) / (winSum w g + eps)

/-- wlcc_loss @761-771: `x = source − local_mean(source, source_mask)`, then `x.mul_(mask)`. -/
def wlccCentered (win : Nat → List Nat) (s : Nat → α) (sw mk : Option (Nat → α)) (eps : α) : Nat → α :=
  let x0 := fun j => s j - wMean (win j) s sw eps
  match mk with
  | none => x0
  | some m => fun j => x0 j * m j

/-- src: functional.py:wlcc_loss @761-777, reduction "none", before the final masking:
    weighted local means, `x.mul_(mask)`, `y.mul_(mask)`, local sums. -/
def wlccAt (win : Nat → List Nat) (s t : Nat → α) (sw tw mk : Option (Nat → α)) (eps : α) (i : Nat) : α :=
  lccScore (win i) (wlccCentered win s sw mk eps) (wlccCentered win t tw mk eps) eps

/-- src: core/image.py:dot_channels @391-396 for channel `k` (flat `(n, c)` index) with `S`
    spatial elements; the weight is already expanded to the shape of `a`. -/
def dotCh (S : Nat) (a b : Nat → α) (w : Option (Nat → α)) (k : Nat) : α :=
  match w with
  | none => sumTo S (fun s => a (k * S + s) * b (k * S + s))
  | some w => sumTo S (fun s => a (k * S + s) * b (k * S + s) * w (k * S + s))

/-- src: functional.py:dice_score @183-185, one `(n, c)` entry. -/
def diceAt (S : Nat) (p y : Nat → α) (w : Option (Nat → α)) (eps : α) (k : Nat) : α :=
  let inter := dotCh S p y w k
  let den := dotCh S p p w k + dotCh S y y w k
  (inter * ((2 : Nat) : α) + eps) / (den + eps)

/-- src: functional.py:tversky_index @328-333, one `(n, c)` entry. -/
def tverskyAt (S : Nat) (p y : Nat → α) (w : Option (Nat → α)) (alpha beta eps : α) (k : Nat) : α :=
  let one : α := ((1 : Nat) : α)
  let inter := dotCh S p y w k
  let fps := dotCh S p (fun i => one - y i) w k * alpha
  let fns := dotCh S (fun i => one - p i) y w k * beta
  let num := inter + eps
  num / (num + fps + fns)

/-- src: functional.py:mi_loss @1065-1077 for one batch item: Parzen responses, joint histogram,
    normalisation, marginals.  `win x c` is the window response of intensity `x` at bin centre `c`,
    `tiny` the literal `1e-5`; `B` bins, `S` samples; with a mask `m` every sample's contribution to the
    joint histogram is weighted by it (`pw_input.mul(mask)` @1067-1068, repair d5da1fc / 4a8506f).
    Returns `(p_joint, p_input, p_target)`. -/
def miProbs (win : α → α → α) (tiny : α) (B S : Nat) (cen : Nat → α)
    (x y : Nat → α) (m : Option (Nat → α)) : (Nat → Nat → α) × (Nat → α) × (Nat → α) :=
  let hist := fun b b' =>                                                             -- bmm @1071
    match m with
    | none => sumTo S (fun s => win (x s) (cen b) * win (y s) (cen b'))
    | some m => sumTo S (fun s => win (x s) (cen b) * m s * win (y s) (cen b'))
  let norm := sumTo B (fun b => sumTo B (fun b' => hist b b')) + tiny                 -- @1072
  let pj := fun b b' => hist b b' / norm                                              -- @1075
  let pi := fun b => sumTo B (fun b' => pj b b')                                      -- sum(dim=2) @1076
  let pt := fun b' => sumTo B (fun b => pj b b')                                      -- sum(dim=1) @1077
  (pj, pi, pt)

/-- src: functional.py:mi_loss @1080-1082: entropies `(ent_input, ent_target, ent_joint)` with the
    logarithm `lg` supplied. -/
def miEntropies (win : α → α → α) (lg : α → α) (tiny : α) (B S : Nat) (cen : Nat → α)
    (x y : Nat → α) (m : Option (Nat → α)) : α × α × α :=
  let p := miProbs win tiny B S cen x y m
  let pj := p.1
  let pi := p.2.1
  let pt := p.2.2
  let ei := -(sumTo B (fun b => pi b * lg (pi b + tiny)))                             -- @1080
  let et := -(sumTo B (fun b => pt b * lg (pt b + tiny)))                             -- @1081
  let ej := -(sumTo B (fun b => sumTo B (fun b' => pj b b' * lg (pj b b' + tiny))))   -- @1082
  (ei, et, ej)

/-- src: functional.py:mi_loss @1084-1087: mean over the batch of `N` items (`m`: mask broadcast to `(N, S)`). -/
def miLossCore (win : α → α → α) (lg : α → α) (tiny : α) (normalized : Bool) (N B S : Nat)
    (cen : Nat → α) (x y : Nat → α) (m : Option (Nat → α)) : α :=
  let e := fun n => miEntropies win lg tiny B S cen (fun s => x (n * S + s)) (fun s => y (n * S + s))
    (m.map (fun m s => m (n * S + s)))
  if normalized then
    ((2 : Nat) : α) - sumTo N (fun n => ((e n).1 + (e n).2.1) / (e n).2.2) / ((N : Nat) : α)
  else
    -(sumTo N (fun n => (e n).1 + (e n).2.1 - (e n).2.2) / ((N : Nat) : α))

/-- mi_loss @1059-1063: Gaussian Parzen window `exp(−(x−c)²/(2σ²))·norm` with `exp` supplied. -/
def parzen (ex : α → α) (twoSigmaSq norm : α) (x c : α) : α :=
  ex (-((x - c) * (x - c) / twoSigmaSq)) * norm

end Core

section Ordered
variable {α : Type} [Add α] [Sub α] [Mul α] [Div α] [Neg α] [NatCast α] [LT α]
  [DecidableRel (α := α) (· < ·)]

/-- `abs`. -/
def absv (a : α) : α := if a < ((0 : Nat) : α) then -a else a

/-- `F.l1_loss(reduction="none")`. -/
def l1Fn (a b : α) : α := absv (a - b)

/-- `F.huber_loss(reduction="none", delta)`: `½d²` if `|d| < δ` else `δ(|d| − ½δ)`. -/
def huberFn (delta : α) (a b : α) : α :=
  let half : α := ((1 : Nat) : α) / ((2 : Nat) : α)
  let d := absv (a - b)
  if d < delta then half * d * d else delta * (d - half * delta)

/-- `F.smooth_l1_loss(reduction="none", beta)`: `½d²/β` if `|d| < β` else `|d| − ½β`. -/
def smoothL1Fn (beta : α) (a b : α) : α :=
  let half : α := ((1 : Nat) : α) / ((2 : Nat) : α)
  let d := absv (a - b)
  if d < beta then half * d * d / beta else d - half * beta

/-- ssd_loss @969-974 / elementwise_loss @1732-1737: divide by `norm` only when `norm > 0`. -/
def applyNorm (norm : Option α) (v : List α) : List α :=
  match norm with
  | none => v
  | some c => if ((0 : Nat) : α) < c then v.map (fun l => l / c) else v

/-- smallest / largest of `f 0 … f (n-1)` (`Tensor.min()`, `Tensor.max()`); `n ≥ 1`. -/
def minTo : Nat → (Nat → α) → α
  | 0, f => f 0
  | 1, f => f 0
  | n + 1, f => let m := minTo n f; if f n < m then f n else m
def maxTo : Nat → (Nat → α) → α
  | 0, f => f 0
  | 1, f => f 0
  | n + 1, f => let m := maxTo n f; if m < f n then f n else m

/-- src: core/math.py:max_difference @34-52 (`source` of `n`, `target` of `m` elements), used by
    losses/base.py:NormalizedPairwiseImageLoss.__init__ @103-111 as `norm = max_difference(…).square()`. -/
def maxDifference (n m : Nat) (s t : Nat → α) : α :=
  let a := absv (maxTo n s - minTo m t)
  let b := absv (maxTo m t - minTo n s)
  if a < b then b else a

end Ordered

/-! ### shape-checking wrappers (what the driver runs, argument for argument) -/

section Wrappers
variable {α : Type} [Add α] [Sub α] [Mul α] [Div α] [Neg α] [NatCast α] [LT α]
  [DecidableRel (α := α) (· < ·)]

/-- what every wrapper computes before the final `reduce_loss(loss, reduction, mask)`:
    number of elements, per-element loss (already multiplied by the mask), expanded mask. -/
abbrev Prep (α : Type) := Except String (Nat × (Nat → α) × Option (Nat → α))

/-- the final `loss = reduce_loss(loss, reduction[, mask]); return loss` of every wrapper. -/
def finish (red : Reduction) (p : Prep α) : Except String (List α) :=
  p.map (fun r => reduceLoss red r.1 r.2.1 r.2.2)

/-- which pointwise loss; the float parameter is `delta` / `beta`. -/
inductive Pointwise (α : Type) | ssd | l1 | huber (delta : α) | smoothL1 (beta : α)

def Pointwise.fn : Pointwise α → α → α → α
  | .ssd => sqDiff
  | .l1 => l1Fn
  | .huber d => huberFn d
  | .smoothL1 b => smoothL1Fn b

/-- src: functional.py:ssd_loss @933-975 (also mse_loss @907-930, which only forwards) and
    elementwise_loss @1697-1738 (l1/mae/huber/smooth_l1 @783-904). -/
def pointwiseLoss (kind : Pointwise α) (red : Reduction) (x y : T α) (mask : Option (T α))
    (norm : Option α) : Except String (List α) := do
  if x.shape ≠ y.shape then throw "err:value:shape"                    -- @964-965 / @1724-1725
  let loss := fun i => kind.fn (x.data i) (y.data i)
  let _ ← maskedLoss x.shape loss mask                                 -- shape checks of masked_loss
  pure (applyNorm norm (pointwiseCore kind.fn red x.numel x.data y.data (mask.map (expandAs x.shape))))

/-- src: functional.py:ncc_loss @530-580 (repair d5da1fc / 4a8506f).  A mask is first broadcast to the image
    shape by `masked_loss(torch.ones_like(source), mask, "ncc_loss")` @560-562 (same shape checks and
    broadcasting as for the pointwise losses), flattened per item, and enters the item score as a weight;
    the final reduction is the plain `reduce_loss(loss, reduction)` @579. -/
def nccPrep (x y : T α) (mask : Option (T α)) (eps : α) : Except String (Nat × (Nat → α) × Option (Nat → α)) := do
  if x.shape ≠ y.shape then throw "err:value:shape"                    -- @557-558
  let N := x.shape.headD 0
  let n := prod (x.shape.drop 1)
  match mask with
  | none => pure (N, nccNone n x.data y.data eps, none)                -- @566-568
  | some m =>
    let me ← maskedLoss x.shape (fun _ => ((1 : Nat) : α)) (some m)    -- @560-562 `ones_like(source) * mask`
    let ma := memoArr (N * n) me
    pure (N, nccNoneM n x.data y.data (getM ma me) eps, none)          -- @569-578

def nccLoss (red : Reduction) (x y : T α) (mask : Option (T α)) (eps : α) : Except String (List α) :=
  finish red (nccPrep x y mask eps)                                    -- @579

/-- in-bounds part of the window `[p − k/2, p − k/2 + k)` on an axis of `n` samples
    (`padding = k // 2`, `stride = 1`). -/
def axisWin (n k p : Nat) : List Nat :=
  (List.range n).filter (fun q => decide (p ≤ q + k / 2) && decide (q + k / 2 < p + k))

/-- flat indices of the in-bounds box window around flat spatial index `i`
    (reversed spatial shape and kernel size: last axis first). -/
def boxWin : List Nat → List Nat → Nat → List Nat
  | n :: ns, k :: ks, i =>
      (boxWin ns ks (i / n)).flatMap (fun r => (axisWin n k (i % n)).map (fun q => q + n * r))
  | _, _, _ => [0]

/-- windows of an `(N, C, …X)` tensor: the box window inside the `(n, c)` slice of `i`. -/
def tensorWin (shape ks : List Nat) : Nat → List Nat :=
  let sp := (shape.drop 2).reverse
  let S := prod (shape.drop 2)
  fun i => (boxWin sp ks.reverse (i % S)).map (fun j => j + (i / S) * S)

/-- avg_pool @33-49 + the shape arithmetic of `F.avg_pool*d(stride=1, padding=k//2)`:
    an even kernel gives `n + 1` outputs per axis and `source.sub(source_mean)` fails to broadcast
    (all axes are assumed to have `n ≥ 2`). -/
def poolCheck (shape ks : List Nat) : Except String Unit :=
  if shape.length < 4 then .error "err:value:pool-ndim"                -- @33-34
  else if shape.length > 5 then .error "err:value:pool-dims"           -- @43-44
  else if ks.length ≠ shape.length - 2 then .error "err:value:kernel-size"  -- @45-48
  else if ks.any (fun k => k = 0) then .error "err:runtime:kernel-zero"
  else if ks.any (fun k => k % 2 = 0) then .error "err:runtime:even-kernel"
  -- torch `pool3d_shape_check` (avg_pool3d only): every spatial size must be ≥ the kernel size
  else if ks.length = 3 ∧ ((shape.drop 2).zip ks).any (fun (n, k) => n < k) then .error "err:runtime:pool3d-kernel"
  else .ok ()

/-- src: functional.py:lcc_loss @583-653. -/
def lccPrep (x y : T α) (mask : Option (T α)) (ks : List Nat) (eps : α) : Except String (Nat × (Nat → α) × Option (Nat → α)) := do
  if x.shape ≠ y.shape then throw "err:value:shape"                    -- @620-621
  poolCheck x.shape ks
  let n := x.numel
  let wa := memoArr n (tensorWin x.shape ks)
  let win := getM wa (tensorWin x.shape ks)
  let xa := memoArr n (centered win x.data)
  let ya := memoArr n (centered win y.data)
  let loss := fun i => lccScore (win i) (getM xa (centered win x.data)) (getM ya (centered win y.data)) eps
  let loss ← maskedLoss x.shape loss mask                              -- @651
  pure (n, loss, mask.map (expandAs x.shape))

def lccLoss (red : Reduction) (x y : T α) (mask : Option (T α)) (ks : List Nat) (eps : α) :
    Except String (List α) :=
  finish red (lccPrep x y mask ks eps)                                 -- @652

/-- wlcc_loss @704-725: per-mask shape checks `(1|N, 1|C, …X)`. -/
def wlccMaskCheck (shape : List Nat) : Option (T α) → Except String Unit
  | none => .ok ()
  | some w =>
    match w.shape, shape with
    | w0 :: w1 :: wsp, t0 :: t1 :: tsp =>
      if w0 ≠ 1 ∧ w0 ≠ t0 then .error "err:value:mask-batch"
      else if w1 ≠ 1 ∧ w1 ≠ t1 then .error "err:value:mask-channels"
      else if wsp ≠ tsp then .error "err:value:mask-spatial"
      else .ok ()
    | _, _ => .error "err:index:mask-ndim"

/-- src: functional.py:wlcc_loss @656-780. -/
def wlccPrep (x y : T α) (mask smask tmask : Option (T α)) (ks : List Nat) (eps : α) : Except String (Nat × (Nat → α) × Option (Nat → α)) := do
  if x.shape ≠ y.shape then throw "err:value:shape"                    -- @705-706
  wlccMaskCheck x.shape mask
  wlccMaskCheck x.shape smask
  wlccMaskCheck x.shape tmask
  poolCheck x.shape ks
  let n := x.numel
  let ex := fun (m : Option (T α)) => m.map (fun m => let a := memoArr n (expandAs x.shape m); getM a (expandAs x.shape m))
  -- @749-756: `mask` doubles as source/target mask when those are both absent
  let (sm, tm) := if mask.isSome ∧ smask.isNone ∧ tmask.isNone then (ex mask, ex mask) else (ex smask, ex tmask)
  -- @767-768: default mask = product of source and target mask
  let mk : Option (Nat → α) :=
    match mask, sm, tm with
    | none, some a, some b => some (fun i => a i * b i)
    | _, _, _ => ex mask
  let wa := memoArr n (tensorWin x.shape ks)
  let win := getM wa (tensorWin x.shape ks)
  let xa := memoArr n (wlccCentered win x.data sm mk eps)
  let ya := memoArr n (wlccCentered win y.data tm mk eps)
  let loss := fun i => lccScore (win i) (getM xa (wlccCentered win x.data sm mk eps))
    (getM ya (wlccCentered win y.data tm mk eps)) eps
  -- @778-779: masked_loss / reduce_loss with the (possibly derived) mask, expanded
  match mk with
  | none => pure (n, loss, none)
  | some m => pure (n, fun i => loss i * m i, some m)

def wlccLoss (red : Reduction) (x y : T α) (mask smask tmask : Option (T α)) (ks : List Nat) (eps : α) :
    Except String (List α) :=
  finish red (wlccPrep x y mask smask tmask ks eps)

/-- dot_channels @385-395 shape rules: `ndim ≥ 4`, equal shapes, in-place `c *= weight`. -/
def dotChannelsCheck (shape : List Nat) (w : Option (T α)) : Except String Unit :=
  if shape.length < 4 then .error "err:value:dot-ndim"
  else match w with
    | none => .ok ()
    | some w => if bcastOK shape.reverse w.shape.reverse then .ok () else .error "err:runtime:weight-broadcast"

/-- src: functional.py:dice_score @152-186 up to the reduction: `(N·C, dsc, None)`. -/
def dicePrep (x y : T α) (w : Option (T α)) (eps : α) : Except String (Nat × (Nat → α) × Option (Nat → α)) := do
  if x.shape.length < 3 then throw "err:value:ndim"                    -- @177-178
  if x.shape ≠ y.shape then throw "err:value:shape"                    -- @179-180
  dotChannelsCheck x.shape w
  let NC := x.shape.headD 0 * (x.shape.drop 1).headD 0
  let S := prod (x.shape.drop 2)
  pure (NC, diceAt S x.data y.data (w.map (expandAs x.shape)) eps, none)

/-- src: functional.py:dice_score @152-187. -/
def diceScore (red : Reduction) (x y : T α) (w : Option (T α)) (eps : α) : Except String (List α) :=
  finish red (dicePrep x y w eps)                                      -- @186

/-- src: functional.py:dice_loss @190-213: `reduce_loss(1 − dice_score(…, "none"), reduction)`. -/
def diceLoss (red : Reduction) (x y : T α) (w : Option (T α)) (eps : α) : Except String (List α) :=
  finish red ((dicePrep x y w eps).map (fun r => (r.1, fun k => ((1 : Nat) : α) - r.2.1 k, none)))  -- @211-212

/-- `Tensor.round()` (half to even) as a scalar function. -/
def roundHE [HasFloor α] [IntCast α] (x : α) : α :=
  let f : Int := HasFloor.floor x
  let r := x - ((f : Int) : α)
  let half : α := ((1 : Nat) : α) / ((2 : Nat) : α)
  if r < half then ((f : Int) : α)
  else if half < r then (((f + 1 : Int)) : α)
  else if f % 2 = 0 then ((f : Int) : α) else (((f + 1 : Int)) : α)

/-- core/tensor.py:as_one_hot_tensor @72-76 on a label map `(N, 1, S)`: `zeros(N, C, S).scatter_(1, labels, 1)`,
    i.e. entry `(n, c, s)` is 1 iff `labels(n, s) = c` (labels integral; equality via the order). -/
def oneHot (C S : Nat) (lab : Nat → α) : Nat → α :=
  fun i =>
    let l := lab ((i / (C * S)) * S + i % S)
    let c : α := (((i / S) % C : Nat) : α)
    if l < c ∨ c < l then ((0 : Nat) : α) else ((1 : Nat) : α)

/-- `x.narrow(1, 1, 1)` on an `(N, 2, S)` tensor: keep channel 1. -/
def narrow1 (S : Nat) (f : Nat → α) : Nat → α := fun i => f ((i / S) * (2 * S) + S + i % S)

/-- src: functional.py:tversky_index @216-335 with `normalize=False` (sigmoid/softmax are not
    modelled).  Branch table of the prediction/target/weight formats:
    `target.ndim == input.ndim` @280-299, `target.ndim + 1 == input.ndim` @300-306 (binary:
    threshold at ½; multi-class: one-hot encoding of the label map), weights @313-327. -/
def tverskyPrep [HasFloor α] [IntCast α] (x y : T α) (w : Option (T α))
    (alpha beta eps : α) (binarize : Bool) : Except String (Nat × (Nat → α) × Option (Nat → α)) := do
  let one : α := ((1 : Nat) : α)
  let half : α := one / ((2 : Nat) : α)
  if x.shape.length < 3 ∨ (x.shape.drop 1).headD 0 < 1 then throw "err:value:input-shape"     -- @259-262
  if y.shape.length < 2 ∨ (y.shape.drop 1).headD 0 < 1 then throw "err:value:target-shape"    -- @263-266
  let N := x.shape.headD 0
  if y.shape.headD 0 ≠ N then throw "err:value:batch"                                          -- @267-271
  let C := (x.shape.drop 1).headD 0
  let sp := x.shape.drop 2
  let S := prod sp
  let rnd := fun (f : Nat → α) => if binarize then (fun i => roundHE (f i)) else f
  let yp0 := rnd x.data                                                                         -- @277-278
  let numClasses := max 2 C                                                                     -- @279
  -- (channels after narrowing, y_pred, y)
  let r : Except String (Nat × (Nat → α) × (Nat → α)) :=
    if y.shape.length = x.shape.length then                                                     -- @280
      let Ct := (y.shape.drop 1).headD 0
      if Ct = 1 then
        if numClasses > 2 then .error "err:value:target-single-channel"                         -- @283-287
        else if C = 2 then .ok (1, narrow1 S yp0, rnd y.data)                                   -- @288-289
        else .ok (C, yp0, rnd y.data)
      else
        if Ct ≠ numClasses then .error "err:value:target-channels"                              -- @291-295
        else if C = 1 then .ok (1, yp0, rnd (narrow1 S y.data))                                 -- @296-297
        else .ok (C, yp0, rnd y.data)
    else if y.shape.length + 1 = x.shape.length then                                            -- @300
      if numClasses = 2 ∧ C = 1 then
        -- `target.unsqueeze(1).ge(0.5)`; rounding a 0/1 tensor changes nothing            @301-304
        .ok (1, yp0, fun i => if y.data i < half then ((0 : Nat) : α) else one)
      else
        -- `as_one_hot_tensor(target.unsqueeze(1), num_classes)` @305-306 (fix 03f6276; here `C ≥ 2`, so
        -- `num_classes = C`): `zeros(N, C, …X).scatter_(1, labels, 1)`; a label outside `[0, C)` makes
        -- `scatter_` raise RuntimeError.  Labels are integral (the code requires an int64 tensor).
        if (List.range (prod y.shape)).any (fun i =>
            decide (y.data i < ((0 : Nat) : α)) || !decide (y.data i < ((numClasses : Nat) : α))) then
          .error "err:runtime:scatter-index"
        else .ok (C, yp0, oneHot C S y.data)
    else .error "err:value:target-ndim"                                                         -- @307-310
  let (C', yp, yv) ← r
  let yshape := N :: C' :: sp
  let ysp := if y.shape.length = x.shape.length then y.shape.drop 2 else y.shape.drop 1
  if ysp ≠ sp then throw "err:value:incompatible"                                               -- @311-312
  if x.shape.length < 4 then throw "err:value:dot-ndim"                                         -- dot_channels @387-388
  let wexp : Except String (Option (Nat → α)) :=
    match w with
    | none => .ok none
    | some w =>
      let wshape := if w.shape.length + 1 = yshape.length then (w.shape.headD 0) :: 1 :: w.shape.drop 1 else w.shape  -- @314-315
      if wshape.length ≠ yshape.length then .error "err:value:weight-ndim"                      -- @316-317
      else if wshape.headD 0 ≠ y.shape.headD 0 then .error "err:value:weight-batch"             -- @318-321
      else
        -- @322-323: a single-channel weight is repeated `y.shape[1]` times when `y` has several channels
        let wC := (wshape.drop 1).headD 0
        let rep := wC = 1 ∧ C' > 1
        let wshape' := if rep then (wshape.headD 0) :: C' :: wshape.drop 2 else wshape
        if wshape' ≠ yshape then .error "err:value:weight-shape"                                 -- @324-327
        else if rep then .ok (some (fun i => w.data ((i / (C' * S)) * S + i % S)))
        else .ok (some w.data)
  let wexp ← wexp
  pure (N * C', tverskyAt S yp yv wexp alpha beta eps, none)                                    -- @328-333

def tverskyIndex [HasFloor α] [IntCast α] (red : Reduction) (x y : T α) (w : Option (T α))
    (alpha beta eps : α) (binarize : Bool) : Except String (List α) :=
  finish red (tverskyPrep x y w alpha beta eps binarize)                                         -- @334

/-- `a ^ n` for a natural exponent (the focal exponent `gamma` when it is integral). -/
def npow (n : Nat) (a : α) : α :=
  match n with
  | 0 => ((1 : Nat) : α)
  | n + 1 => npow n a * a

/-- src: functional.py:tversky_loss @381-433 up to the reduction.  `pw` is the map `t ↦ t ^ gamma`
    (`Tensor.pow_`), supplied by the caller: `npow n` for an integral exponent, a tabulated function
    otherwise.  Branches as coded: `if gamma:` (None and 0 skip), `gamma > 1` → power, `gamma < 1` →
    ValueError (raised *after* `tversky_index` ran), `gamma == 1` → nothing. -/
def tverskyLossPrep [HasFloor α] [IntCast α] (pw : α → α) (x y : T α) (w : Option (T α))
    (alpha beta eps : α) (binarize : Bool) (gamma : Option α) :
    Except String (Nat × (Nat → α) × Option (Nat → α)) := do
  let r ← tverskyPrep x y w alpha beta eps binarize                                             -- @414-424
  let loss := fun k => ((1 : Nat) : α) - r.2.1 k                                                -- @425-426
  match gamma with
  | none => pure (r.1, loss, none)                                                              -- @427 `if gamma:`
  | some g =>
    if ¬ (g < ((0 : Nat) : α) ∨ ((0 : Nat) : α) < g) then pure (r.1, loss, none)                -- @427 (0 is falsy)
    else if ((1 : Nat) : α) < g then pure (r.1, fun k => pw (loss k), none)                     -- @428-429
    else if g < ((1 : Nat) : α) then throw "err:value:gamma"                                    -- @430-431
    else pure (r.1, loss, none)

def tverskyLoss [HasFloor α] [IntCast α] (pw : α → α) (red : Reduction) (x y : T α) (w : Option (T α))
    (alpha beta eps : α) (binarize : Bool) (gamma : Option α) : Except String (List α) :=
  finish red (tverskyLossPrep pw x y w alpha beta eps binarize gamma)                           -- @432

/-- src: functional.py:mi_loss @1014-1053 without random sampling (`num_samples`,
    `sample_ratio` both `None`): shape checks, flattening; the mask `(1|N, 1, …X)` is flattened and
    broadcast over the batch (it weights the joint histogram, `miProbs`; the images themselves are
    left alone — repair d5da1fc / 4a8506f).  Returns `(N, S, input, target, mask)` flattened per item. -/
def miPrep (x y : T α) (mask : Option (T α)) (B : Nat) :
    Except String (Nat × Nat × (Nat → α) × (Nat → α) × Option (Nat → α)) := do
  if y.shape.length < 3 then throw "err:value:ndim"                    -- @1014-1015
  if x.shape ≠ y.shape then throw "err:value:shape"                    -- @1016-1017
  let N := x.shape.headD 0
  let C := (x.shape.drop 1).headD 0
  let sp := x.shape.drop 2
  let S := prod sp
  match mask with
  | none => pure ()
  | some m =>
    if m.shape.length < 3 ∨ m.shape.drop 2 ≠ sp ∨ (m.shape.drop 1).headD 0 ≠ 1 then
      throw "err:value:mask-shape"                                     -- @1036-1039
  -- `x.sub(bin_center)` @1062: `(N, C, S) − (B, 1)` only broadcasts for `C = 1` (or `C = B`)
  if C ≠ 1 then
    if C = B then throw "err:unmodelled:channels-equal-bins" else throw "err:runtime:channels"
  let m : Except String (Option (Nat → α)) :=
    match mask with
    | none => .ok none
    | some m =>
      -- `pw_input.mul(mask)` @1068: `(N, B, S) * (1|N, 1, S)`
      if m.shape.headD 0 ≠ 1 ∧ m.shape.headD 0 ≠ N then .error "err:runtime:mask-batch"
      else
        let me := expandAs [N, 1, S] ⟨[m.shape.headD 0, 1, S], m.data⟩   -- @1040
        let ma := memoArr (N * S) me
        .ok (some (getM ma me))
  let m ← m
  pure (N, S, x.data, y.data, m)

/-- src: functional.py:mi_loss @978-1088 (`cen` are the bin centres as stored by the code:
    `torch.linspace(vmin, vmax, num_bins)` in float32, cast to the input dtype). -/
def miLoss (win : α → α → α) (lg : α → α) (tiny : α) (normalized : Bool) (x y : T α)
    (mask : Option (T α)) (B : Nat) (cen : Nat → α) : Except String α := do
  let (N, S, xm, ym, m) ← miPrep x y mask B
  pure (miLossCore win lg tiny normalized N B S cen xm ym m)

end Wrappers

end Deepali.Loss
