/-
  Model/MetaImage.lean — the native MetaImage (.mha) header writer / reader of deepali and the
  channel-axis shuffle between tensor order `(C, …, X)` and file order `(…, X[, C])`.
  src: src/deepali/utils/imageio/meta.py
         write_meta_image @74-102, meta_image_bytes @310-429,
         read_meta_image_from_fileobj @178-306, read_meta_image @25-71,
         META_IMAGE_TAGS @126-161, META_IMAGE_TYPES @163-174
       src/deepali/utils/simpleitk/torch.py image_from_tensor @29-34, tensor_from_image @55-58
       (the same two axis shuffles).

  Core Lean only.  A header is modelled at *token* level: a file line `Key = v1 v2 …` is a key
  string and the whitespace-separated tokens of the value; a token is a word, an unsigned
  integer literal or a (decimal) number literal.  What is trusted and NOT modelled: the decimal
  rendering `str(float)` / parsing `float(str)` of a number (a number token carries the value
  itself), zlib, `numpy.tobytes/frombuffer`.  numpy arrays are modelled by their row-major
  ravel (`List α`) — `reshape` does not move data, `transpose` is an index permutation.

  The model follows the code as it is after the `fix:` commits c9805be (integer header fields are
  Python ints) and f7684dd (`TransformMatrix` is reshaped to NDims × NDims).
-/
namespace Deepali.MetaIO

/-- exception classes as `harness/lib/core.impl_call` names them. -/
inductive IOErr | value | type | notimpl | assert
  deriving DecidableEq, Repr, Inhabited

def IOErr.toString : IOErr → String
  | .value => "err:value" | .type => "err:type" | .notimpl => "err:notimpl" | .assert => "err:assert"

/-- `str.upper()` on ASCII words (kernel-reducible on literals, unlike `String.toUpper`). -/
def upper (s : String) : String := String.ofList (s.toList.map Char.toUpper)

/-! ### element types — meta.py META_IMAGE_TYPES @163-174 -/

/-- numpy dtypes occurring in the table. -/
inductive ElemType | int8 | uint8 | int16 | uint16 | int32 | uint32 | int64 | uint64 | float32 | float64
  deriving DecidableEq, Repr, Inhabited

/-- META_IMAGE_TYPES in dict order. -/
def elemTable : List (String × ElemType) :=
  [("MET_CHAR", .int8), ("MET_UCHAR", .uint8), ("MET_SHORT", .int16), ("MET_USHORT", .uint16),
   ("MET_INT", .int32), ("MET_UINT", .uint32), ("MET_LONG", .int64), ("MET_ULONG", .uint64),
   ("MET_FLOAT", .float32), ("MET_DOUBLE", .float64)]

/-- writer @408-411: first entry `x` with `np.issubdtype(value, x[1])` (for the concrete numpy
    dtypes of the table `issubdtype` is equality). -/
def ElemType.metName (t : ElemType) : Option String :=
  (elemTable.find? (fun x => x.2 = t)).map (·.1)

/-- reader @255-258: first entry with `x[0] == value.upper()`. -/
def ElemType.ofMetName (s : String) : Option ElemType :=
  (elemTable.find? (fun x => x.1 = upper s)).map (·.2)

/-- `np.dtype(t).itemsize`. -/
def ElemType.itemsize : ElemType → Nat
  | .int8 | .uint8 => 1 | .int16 | .uint16 => 2 | .int32 | .uint32 | .float32 => 4
  | .int64 | .uint64 | .float64 => 8

/-- read_meta_image @67-70 (also tensor_from_image @49-52): torch has no uint16/uint32. -/
def ElemType.tensorDType : ElemType → ElemType
  | .uint16 => .int32 | .uint32 => .int64 | t => t

/-! ### tags — meta.py META_IMAGE_TAGS @126-161 (order matters: it is the order of the lines) -/

inductive Tag
  | comment | objectType | objectSubType | transformType | nDims | nameTag | id | parentID
  | compressedData | compressedDataSize | binaryData | binaryDataByteOrderMSB | elementByteOrderMSB
  | color | position | offset | origin | orientation | rotation | transformMatrix | centerOfRotation
  | anatomicalOrientation | elementSpacing | dimSize | headerSize | headerSizePerSlice | modality
  | sequenceID | elementMin | elementMax | elementNumberOfChannels | elementSize | elementType
  | elementDataFile
  deriving DecidableEq, Repr, Inhabited

def Tag.all : List Tag :=
  [.comment, .objectType, .objectSubType, .transformType, .nDims, .nameTag, .id, .parentID,
   .compressedData, .compressedDataSize, .binaryData, .binaryDataByteOrderMSB, .elementByteOrderMSB,
   .color, .position, .offset, .origin, .orientation, .rotation, .transformMatrix, .centerOfRotation,
   .anatomicalOrientation, .elementSpacing, .dimSize, .headerSize, .headerSizePerSlice, .modality,
   .sequenceID, .elementMin, .elementMax, .elementNumberOfChannels, .elementSize, .elementType,
   .elementDataFile]

def Tag.name : Tag → String
  | .comment => "Comment" | .objectType => "ObjectType" | .objectSubType => "ObjectSubType"
  | .transformType => "TransformType" | .nDims => "NDims" | .nameTag => "Name" | .id => "ID"
  | .parentID => "ParentID" | .compressedData => "CompressedData"
  | .compressedDataSize => "CompressedDataSize" | .binaryData => "BinaryData"
  | .binaryDataByteOrderMSB => "BinaryDataByteOrderMSB" | .elementByteOrderMSB => "ElementByteOrderMSB"
  | .color => "Color" | .position => "Position" | .offset => "Offset" | .origin => "Origin"
  | .orientation => "Orientation" | .rotation => "Rotation" | .transformMatrix => "TransformMatrix"
  | .centerOfRotation => "CenterOfRotation" | .anatomicalOrientation => "AnatomicalOrientation"
  | .elementSpacing => "ElementSpacing" | .dimSize => "DimSize" | .headerSize => "HeaderSize"
  | .headerSizePerSlice => "HeaderSizePerSlice" | .modality => "Modality" | .sequenceID => "SequenceID"
  | .elementMin => "ElementMin" | .elementMax => "ElementMax"
  | .elementNumberOfChannels => "ElementNumberOfChannels" | .elementSize => "ElementSize"
  | .elementType => "ElementType" | .elementDataFile => "ElementDataFile"

/-- reader @193-196 / writer @344-347: case-insensitive lookup of the key in META_IMAGE_TAGS;
    keys that are not tags are kept as they are (`none`). -/
def Tag.ofString (key : String) : Option Tag :=
  Tag.all.find? (fun t => upper t.name = upper key)

/-- how the writer renders a value @364-421. -/
inductive WClass | pass | strOf | join | joinT | etype | dataFile
/-- how the reader types a value @209-260. -/
inductive RClass | str | uint | bool | floats | matrix | ints | float | etype

def Tag.wclass : Tag → WClass
  | .comment | .objectType | .objectSubType | .transformType | .nameTag | .anatomicalOrientation
  | .modality => .pass
  | .nDims | .id | .parentID | .compressedData | .compressedDataSize | .binaryData
  | .binaryDataByteOrderMSB | .elementByteOrderMSB | .headerSize | .headerSizePerSlice | .elementMin
  | .elementMax | .elementNumberOfChannels => .strOf
  | .color | .position | .offset | .origin | .centerOfRotation | .elementSpacing | .dimSize
  | .sequenceID | .elementSize => .join
  | .orientation | .rotation | .transformMatrix => .joinT
  | .elementType => .etype
  | .elementDataFile => .dataFile

def Tag.rclass : Tag → RClass
  | .comment | .objectType | .objectSubType | .transformType | .nameTag | .anatomicalOrientation
  | .modality | .elementDataFile => .str
  | .nDims | .id | .parentID | .compressedDataSize | .headerSize | .headerSizePerSlice
  | .elementNumberOfChannels => .uint
  | .compressedData | .binaryData | .binaryDataByteOrderMSB | .elementByteOrderMSB => .bool
  | .color | .position | .offset | .origin | .centerOfRotation | .elementSpacing | .elementSize => .floats
  | .orientation | .rotation | .transformMatrix => .matrix
  | .dimSize | .sequenceID => .ints
  | .elementMin | .elementMax => .float
  | .elementType => .etype

/-! ### tokens, lines, typed values -/

/-- one whitespace-separated token of a header value. -/
inductive Tok (α : Type) where
  | word (s : String)      -- anything that is not a number literal
  | nat (n : Nat)          -- `[0-9]+`
  | num (x : α)            -- any other literal accepted by `float()`
  deriving Repr, DecidableEq

/-- a header line `key = tokens`. -/
structure Line (α : Type) where
  key : String
  val : List (Tok α)
  deriving Repr, DecidableEq

/-- Python values held in the `meta` dictionaries. A numpy array is its row-major ravel. -/
inductive MVal (α : Type) where
  | str (s : String)
  | raw (toks : List (Tok α))      -- a string value read from a file, as tokens
  | nat (n : Nat)                  -- int / np.uintp
  | bool (b : Bool)
  | num (x : α)                    -- float
  | arr (xs : List α)              -- 1-D float array
  | narr (ns : List Nat)           -- 1-D int array
  | mat (n : Nat) (xs : List α)    -- n×n float array, row-major
  | etype (t : ElemType)           -- numpy dtype
  deriving Repr, DecidableEq

/-- `np.transpose` of an n×n array given by its row-major ravel, as row-major ravel:
    element `k = i·n + j` of the result is element `j·n + i` of the argument. -/
def transposeFlat {α} [NatCast α] (n : Nat) (xs : List α) : List α :=
  (List.range (n * n)).map (fun k => xs.getD ((k % n) * n + k / n) ((0 : Nat) : α))

section
variable {α : Type} [NatCast α]

/-! ### writer -/

/-- the dictionary `meta_out = dict.fromkeys(META_IMAGE_TAGS, None)` @332: a value (or None)
    per tag, iterated in tag order. -/
abbrev Dict (α : Type) := Tag → Option (MVal α)

def Dict.empty : Dict α := fun _ => none
def Dict.set (m : Dict α) (t : Tag) (v : MVal α) : Dict α := fun t' => if t' = t then some v else m t'

/-- typecast of one metadata value to its string tokens @364-421. -/
def writeVal (t : Tag) (v : MVal α) : Except IOErr (List (Tok α)) :=
  match t.wclass, v with
  | .pass, .str s => .ok [.word s]                                           -- @367-376
  | .strOf, .nat n => .ok [.nat n]                                           -- @377-392 `str(value)`
  | .strOf, .bool b => .ok [.word (if b then "True" else "False")]
  | .strOf, .num x => .ok [.num x]
  | .join, .arr xs => .ok (xs.map .num)                                      -- @393-404 ravel, join
  | .join, .narr ns => .ok (ns.map .nat)
  | .join, .mat _ xs => .ok (xs.map .num)
  | .joinT, .mat n xs => .ok ((transposeFlat n xs).map .num)                 -- @405-406 ravel(transpose)
  | .etype, .etype e =>                                                       -- @407-415
      match e.metName with
      | some s => .ok [.word s]
      | none => .error .value
  | .dataFile, .str s => if upper s = "LOCAL" then .ok [.word s] else .error .value   -- @416-419
  | _, _ => .error .type       -- value of a Python type the branch cannot render (not reached by deepali)

/-- @362-426: the header lines, in META_IMAGE_TAGS order, `None` entries skipped. -/
def dictLines (m : Dict α) : Except IOErr (List (Line α)) :=
  Tag.all.foldr (fun t acc =>
    match m t with
    | none => acc
    | some v => do
        let toks ← writeVal t v
        let rest ← acc
        pure (⟨t.name, toks⟩ :: rest)) (.ok [])

/-- `meta_image_bytes` @321-360: the metadata dictionary for an array of shape `shape` (numpy
    order, channel axis last when there are several channels) and dtype `dtype`, overridden by the
    caller's `meta` (only tag keys; applied in order), `blobSize = len(zlib.compress(...))`. -/
def metaImageDict (shape : List Nat) (dtype : ElemType) (metaIn : List (Tag × MVal α)) (blobSize : Nat) :
    Dict α :=
  let nch : Option Nat := (metaIn.reverse.find? (fun p => p.1 = .elementNumberOfChannels)).bind
    (fun p => match p.2 with | .nat n => some n | _ => none)
  -- @324-329
  let multi := match nch with | some n => decide (1 < n) | none => false
  let size := if multi then shape.dropLast.reverse else shape.reverse
  let ndim := if multi then shape.length - 1 else shape.length
  -- @332-339
  let m : Dict α := Dict.empty
  let m := m.set .objectType (.str "Image")
  let m := m.set .nDims (.nat ndim)
  let m := m.set .binaryData (.bool true)
  let m := m.set .binaryDataByteOrderMSB (.bool false)
  let m := m.set .elementSpacing (.arr (List.replicate ndim ((1 : Nat) : α)))
  let m := m.set .dimSize (.narr size)
  let m := m.set .elementType (.etype dtype)
  -- @342-348
  let m := metaIn.foldl (fun m p => m.set p.1 p.2) m
  -- @352
  let m := m.set .elementDataFile (.str "LOCAL")
  -- @358-360 (`meta.get("CompressedData", True)`: the key always exists, None is falsy)
  match m .compressedData with
  | some (.bool true) => m.set .compressedDataSize (.nat blobSize)
  | _ => m

/-! ### the channel-axis shuffle -/

/-- `transpose(0, -1)` / `np.swapaxes(·, 0, -1)` on a shape or on a multi-index. -/
def swapFirstLast : List Nat → List Nat
  | [] => []
  | a :: t =>
      match t.getLast? with
      | none => [a]
      | some z => z :: (t.dropLast ++ [a])

/-- write_meta_image @88-91 and image_from_tensor @29-33: tensor order `(C, …, X)` → file order.
    `unit = 1` acts on shapes, `unit = 0` on multi-indices; `c` is the number of channels
    (`data.shape[0]`).  `c > 1`: `unsqueeze(-1).transpose(0, -1).squeeze(0)`; else `squeeze(0)`. -/
def toFileOrder (unit c : Nat) (l : List Nat) : List Nat :=
  if 1 < c then (swapFirstLast (l ++ [unit])).tail else l.tail

/-- read_meta_image @52-55 and tensor_from_image @55-58: file order → tensor order.
    `c == 1`: `expand_dims(0)`; else `squeeze(swapaxes(expand_dims(0), 0, -1), -1)`. -/
def toTensorOrder (unit c : Nat) (l : List Nat) : List Nat :=
  if c = 1 then unit :: l else (swapFirstLast (unit :: l)).dropLast

/-- row-major (C-order) linear offset of a multi-index: what `tobytes()` / `frombuffer` use. -/
def ravelIndex (shape idx : List Nat) : Nat :=
  (shape.zip idx).foldl (fun acc p => acc * p.1 + p.2) 0

/-! ### what deepali's writer is given, and what it writes -/

/-- the inputs of `write_meta_image(data, grid, path, compress)` that reach the header. -/
structure Header (α : Type) where
  dimSize : List Nat             -- grid.size() = (X, Y[, Z])
  channels : Nat                 -- data.shape[0]
  elementType : ElemType         -- data.dtype
  compressed : Bool
  compressedSize : Option Nat    -- len(zlib.compress(blob)) when compressed
  offset : List α                -- grid.origin()
  spacing : List α               -- grid.spacing()
  direction : List α             -- grid.direction(), row-major D×D
  deriving Repr, DecidableEq

def Header.ndims (h : Header α) : Nat := h.dimSize.length

/-- explicit, decidable well-formedness: what `Image(data, grid)` guarantees. -/
def Header.WF (h : Header α) : Prop :=
  1 ≤ h.ndims ∧ 1 ≤ h.channels ∧ h.offset.length = h.ndims ∧ h.spacing.length = h.ndims ∧
  h.direction.length = h.ndims * h.ndims ∧ h.compressed = h.compressedSize.isSome

instance (h : Header α) : Decidable h.WF := by unfold Header.WF; exact inferInstance

/-- write_meta_image @78-92 for `data.ndim == grid.ndim + 1` (what `Image.write` passes). -/
def headerDict (h : Header α) : Dict α :=
  let tshape := h.channels :: h.dimSize.reverse                -- data.shape = (C, …, X)
  let metaIn : List (Tag × MVal α) :=                           -- @80-86
    [(.compressedData, .bool h.compressed), (.elementNumberOfChannels, .nat h.channels),
     (.elementSpacing, .arr h.spacing), (.offset, .arr h.offset),
     (.transformMatrix, .mat h.ndims h.direction)]
  metaImageDict (toFileOrder 1 h.channels tshape) h.elementType metaIn (h.compressedSize.getD 0)

def serialise (h : Header α) : Except IOErr (List (Line α)) := dictLines (headerDict h)

/-! ### reader -/

/-- @184-205: `meta_in`, the raw value per key (later lines win), up to and including
    `ElementDataFile` — whose value must be `LOCAL` — which must be present.  Keys that are not
    tags are stored by the code and never looked at again; they are dropped here.
    (Lines starting with `#` are skipped by the code; the lexer drops them.) -/
def readRaw : List (Line α) → (Tag → Option (List (Tok α))) → Except IOErr (Tag → Option (List (Tok α)))
  | [], _ => .error .value                                        -- "Missing ElementDataFile header key"
  | l :: ls, m =>
      match Tag.ofString l.key with
      | some .elementDataFile =>
          match l.val with
          | [.word s] => if upper s = "LOCAL" then .ok (fun t => if t = .elementDataFile then some l.val else m t)
                         else .error .notimpl
          | _ => .error .notimpl
      | some t => readRaw ls (fun t' => if t' = t then some l.val else m t')
      | none => readRaw ls m

/-- `np.array(value.split(), dtype=float)`. -/
def toFloats : List (Tok α) → Except IOErr (List α)
  | [] => .ok []
  | .nat n :: ts => do let r ← toFloats ts; pure ((n : α) :: r)
  | .num x :: ts => do let r ← toFloats ts; pure (x :: r)
  | .word _ :: _ => .error .value

/-- `np.array(value.split(), dtype=int)`. -/
def toInts : List (Tok α) → Except IOErr (List Nat)
  | [] => .ok []
  | .nat n :: ts => do let r ← toInts ts; pure (n :: r)
  | _ :: _ => .error .value

/-- @209-261: typecast of one raw value. `ndims` = `int(meta_in.get("NDims", 3))` @249. -/
def readVal (ndims : Nat) (t : Tag) (toks : List (Tok α)) : Except IOErr (MVal α) :=
  match t.rclass with
  | .str => .ok (.raw toks)
  | .uint => match toks with                                      -- int(value) @230
      | [.nat n] => .ok (.nat n)
      | _ => .error .value
  | .bool => match toks with                                      -- value.upper() == "TRUE"
      | [.word s] => .ok (.bool (upper s = "TRUE"))
      | _ => .ok (.bool false)
  | .floats => do let xs ← toFloats toks; pure (.arr xs)
  | .matrix => do
      let xs ← toFloats toks
      -- @249-250 `.reshape(ndims, ndims).transpose()`
      if xs.length = ndims * ndims then pure (.mat ndims (transposeFlat ndims xs)) else .error .value
  | .ints => do let ns ← toInts toks; pure (.narr ns)
  | .float => match toks with
      | [.nat n] => .ok (.num (n : α))
      | [.num x] => .ok (.num x)
      | _ => .error .value
  | .etype => match toks with                                     -- @254-258
      | [.word s] => match ElemType.ofMetName s with
          | some e => .ok (.etype e)
          | none => .error .value
      | _ => .error .value

/-- @208-261 over all tags. -/
def readDict (raw : Tag → Option (List (Tok α))) : Except IOErr (Dict α) := do
  let ndims : Nat := match raw .nDims with | some [.nat n] => n | _ => 3
  Tag.all.foldr (fun t acc =>
    match raw t with
    | none => acc
    | some toks => do
        let v ← readVal ndims t toks
        let m ← acc
        pure (m.set t v)) (.ok Dict.empty)

/-- what `read_meta_image` hands to `Grid(...)` / `torch.from_numpy`. -/
structure ReadMeta (α : Type) where
  dimSize : List Nat
  channels : Nat
  elementType : ElemType             -- dtype of the numpy array (see `tensorDType`)
  compressed : Bool
  compressedSize : Option Nat
  origin : Option (List α)
  spacing : Option (List α)
  matrix : Option (List α)           -- row-major n×n
  deriving Repr, DecidableEq

def Dict.getNat (m : Dict α) (t : Tag) : Option Nat := match m t with | some (.nat n) => some n | _ => none
def Dict.getArr (m : Dict α) (t : Tag) : Option (List α) := match m t with | some (.arr xs) => some xs | _ => none
def Dict.getMat (m : Dict α) (t : Tag) : Option (List α) := match m t with | some (.mat _ xs) => some xs | _ => none
def Dict.getBool (m : Dict α) (t : Tag) : Bool := match m t with | some (.bool b) => b | _ => false

/-- @264-297 (only what depends on the header) and read_meta_image @52-66. -/
def readMeta (m : Dict α) : Except IOErr (ReadMeta α) :=
  -- @264 `np.asarray(meta["DimSize"]).copy()[::-1]` (None: IndexError)
  match m .dimSize with
  | some (.narr dimSize) =>
    -- @265-268 `(meta.get("ElementNumberOfChannels") or 1) > 1`
    let nch := (m.getNat .elementNumberOfChannels).getD 1
    -- @269 `np.dtype(meta["ElementType"])` (`np.dtype(None)` is float64)
    let et := match m .elementType with | some (.etype e) => e | _ => ElemType.float64
    let compressed := m.getBool .compressedData
    -- @266 `np.r_[shape, int]` stays an integer shape; @274-278 checks of the compressed branch
    if compressed ∧ (m.getNat .compressedDataSize).isNone then .error .value          -- @275-276
    else if compressed ∧ (m.getNat .headerSizePerSlice).isSome then .error .value     -- @277-278
    else
      -- read_meta_image @56-66
      let origin := (m.getArr .position).orElse fun _ => (m.getArr .origin).orElse fun _ => m.getArr .offset
      let matrix := (m.getMat .rotation).orElse fun _ =>
        (m.getMat .orientation).orElse fun _ => m.getMat .transformMatrix
      .ok { dimSize := dimSize, channels := if 1 < nch then nch else 1, elementType := et,
            compressed := compressed, compressedSize := m.getNat .compressedDataSize,
            origin := origin, spacing := m.getArr .elementSpacing, matrix := matrix }
  | _ => .error .value

/-- the reader, header part: lines → what `Grid(...)` and the tensor are built from. -/
def parse (lines : List (Line α)) : Except IOErr (ReadMeta α) := do
  let raw ← readRaw lines (fun _ => none)
  let m ← readDict raw
  readMeta m

/-- a written header, seen from the reading side. -/
def Header.toRead (h : Header α) : ReadMeta α :=
  { dimSize := h.dimSize, channels := h.channels, elementType := h.elementType,
    compressed := h.compressed, compressedSize := h.compressedSize,
    origin := some h.offset, spacing := some h.spacing, matrix := some h.direction }

/-- write then read, header level. -/
def roundtrip (h : Header α) : Except IOErr (ReadMeta α) := do
  let lines ← serialise h
  parse lines

end
end Deepali.MetaIO
