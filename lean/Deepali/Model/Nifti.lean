/-
  Model/Nifti.lean — NIfTI geometry and data layout as deepali reads / writes it through nibabel.
  src: src/deepali/utils/imageio/nifti.py  read_nifti_image @28-100, write_nifti_image @103-138
       (after the `fix:` commits 5ccdadc and 91f545a)
       src/deepali/data/flow.py  FlowField.write @537-541, read @524-535, sitk @518-522,
       from_sitk @505-516 (vectors are stored w.r.t. world axes; conversion = Grid.transformVectors).

  Core Lean only.  nibabel itself (header packing, `pixdim` = column norms of the affine, data
  scaling, gzip) is trusted; the model covers what deepali does around it: the 4×4 affine with the
  LPS↔RAS sign flips, the division by the voxel sizes, the clamping of tiny values, the choice of
  the number of spatial dimensions, the layout of scalar (`X×Y[×Z]`) and vector (`X×Y×Z×1×C`,
  intent VECTOR) data, the squeeze of unused dimensions by intent code, the reversal of the axes
  and the leading channel axis.
-/
import Deepali.Model.Grid
import Deepali.Model.MetaImage
namespace Deepali.Nifti
open Deepali Deepali.MetaIO

section
variable {α : Type} [Add α] [Sub α] [Mul α] [Div α] [Neg α] [NatCast α] [IntCast α]

/-- `affine[:2] *= -1` (nifti.py @131) / `origin[:2] *= -1`, `direction[:2] *= -1` (@62-63):
    negate the first two rows — the LPS ↔ RAS change of world axes. -/
def flipRows {n m : Nat} (A : Fin n → Fin m → α) : Fin n → Fin m → α :=
  fun i j => if i.val < 2 then - A i j else A i j

def flipVec {n : Nat} (x : Fin n → α) : Fin n → α := fun i => if i.val < 2 then - x i else x i

end

section
variable {α : Type} [Add α] [Sub α] [Mul α] [Div α] [Neg α] [NatCast α] [IntCast α]
  [HasFloor α] [DecidableEq α] [LT α] [DecidableRel (α := α) (· < ·)]

/-- write_nifti_image @128-131: the homogeneous 4×4 index→world matrix
    `[direction·diag(spacing) | origin; 0 1]` (identity padding for D < 3), rows 0,1 negated. -/
def writeAffine {d : Nat} (g : Grid d α) : Mat 4 α :=
  let zero : α := ((0 : Nat) : α)
  let one : α := ((1 : Nat) : α)
  let A := g.affine
  let o := g.origin
  let M : Mat 4 α := fun i j =>
    if hi : i.val < d then
      if hj : j.val < d then A ⟨i.val, hi⟩ ⟨j.val, hj⟩
      else if j.val = 3 then o ⟨i.val, hi⟩ else zero
    else if i = j then one else zero
  flipRows M

/-- `x[np.abs(x) < epsilon] = 0` @65-67 with `epsilon = sys.float_info.epsilon = 2⁻⁵²`. -/
def clampSmall (x : α) : α :=
  let zero : α := ((0 : Nat) : α)
  let eps : α := ((1 : Nat) : α) / ((4503599627370496 : Nat) : α)
  let a := if x < zero then - x else x
  if a < eps then zero else x

/-- @59, @62, @66: `origin = affine[:D, 3]`, first two entries negated, tiny values clamped. -/
def readOrigin (d : Nat) (hd : d ≤ 3) (A : Mat 4 α) : Vec d α :=
  fun i => clampSmall (flipVec (fun i : Fin d => A ⟨i.val, by omega⟩ 3) i)

/-- @60, @63, @67: `direction = affine[:D, :D] / spacing` (numpy broadcasting: column j is
    divided by `pixdim[j+1]`), first two rows negated, tiny values clamped. -/
def readDirection (d : Nat) (hd : d ≤ 3) (A : Mat 4 α) (pixdim : Vec d α) : Mat d α :=
  fun i j => clampSmall (flipRows (fun i j : Fin d => A ⟨i.val, by omega⟩ ⟨j.val, by omega⟩ / pixdim j) i j)

end

/-! ### data layout -/

/-- write_nifti_image @119-126 on a shape (`unit = 1`) or a multi-index (`unit = 0`) in tensor
    order `(C, …, X)`: reversal of all axes; one channel (`c = 1`): the channel axis is dropped
    (`dataobj[..., 0]`); several: `shape[:D] + (unit,)*(4−D) + shape[D:]`. -/
def toNiftiOrder (unit c d : Nat) (l : List Nat) : List Nat :=
  let r := l.reverse
  if c = 1 then r.dropLast else r.take d ++ List.replicate (4 - d) unit ++ r.drop d

/-- @132-134: intent code written: NIFTI_INTENT_VECTOR (1007) when `dataobj.ndim > 4`, else 0. -/
def writeIntent (shape : List Nat) : Nat := if 4 < shape.length then 1007 else 0

/-- nibabel: header `dim[0..7]` of an array of shape `shape` (unused entries are 1). -/
def headerDim (shape : List Nat) : List Nat :=
  shape.length :: (shape ++ List.replicate (7 - shape.length) 1)

/-- intent codes NIFTI_INTENT_SYMMATRIX / DISPVECT / VECTOR @46, @77. -/
def vectorIntent (intent : Nat) : Bool := intent = 1005 ∨ intent = 1006 ∨ intent = 1007

/-- @46-52 / @86-88: number of leading data axes kept (`realdim`), by intent code.
    `dim` = header `dim[0..7]` (so `dim[0] = ndim`). -/
def realDim (dim : List Nat) (intent : Nat) : Except IOErr Nat :=
  let ndim := dim.getD 0 0
  if vectorIntent intent then
    -- `for realdim in range(4, 1, -1): if dim[realdim] > 1: break; else: realdim = 1`
    .ok (if 1 < dim.getD 4 0 then 4 else if 1 < dim.getD 3 0 then 3 else if 1 < dim.getD 2 0 then 2 else 1)
  else if intent = 1004 then .error .notimpl
  else
    -- `realdim = ndim; while realdim > 3 and dim[realdim] == 1: realdim -= 1`
    let rec go (fuel r : Nat) : Nat :=
      match fuel with
      | 0 => r
      | fuel + 1 => if 3 < r ∧ dim.getD r 0 = 1 then go fuel (r - 1) else r
    .ok (go 8 ndim)

/-- number of grid dimensions @46-55: `min(realdim, 3)` for vector intents, else `min(ndim, 3)`. -/
def gridDim (dim : List Nat) (intent : Nat) : Nat :=
  let ndim := dim.getD 0 0
  if vectorIntent intent then
    match realDim dim intent with
    | .ok r => min r 3
    | .error _ => min ndim 3
  else min ndim 3

def prod (l : List Nat) : Nat := l.foldl (· * ·) 1

/-- @79 / @89, @91, @94-95 on a shape (`unit = 1`) or multi-index (`unit = 0`) in nibabel order:
    keep `l[:r] + l[k:]`, reverse all axes, add the leading channel axis when the rank equals
    the grid's. -/
def fromNiftiOrder (unit r k gd : Nat) (l : List Nat) : List Nat :=
  let t := (l.take r ++ l.drop k).reverse
  if t.length = gd then unit :: t else t

/-- first kept trailing axis: 4 for vector intents (@79), 5 otherwise (@89). -/
def keepFrom (intent : Nat) : Nat := if vectorIntent intent then 4 else 5

/-- @77-95: tensor shape from the nibabel array shape `dim[1..ndim]`, or the exception. -/
def readShape (dim : List Nat) (intent : Nat) : Except IOErr (List Nat) := do
  let ndim := dim.getD 0 0
  let shape := (dim.drop 1).take ndim
  let r ← realDim dim intent
  let k := keepFrom intent
  if prod (shape.take r ++ shape.drop k) ≠ prod shape then throw IOErr.value     -- numpy: cannot reshape
  pure (fromNiftiOrder 1 r k (gridDim dim intent) shape)

end Deepali.Nifti
