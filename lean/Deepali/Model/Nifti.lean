/-
  Model/Nifti.lean — NIfTI geometry as deepali reads / writes it through nibabel.
  src: src/deepali/utils/imageio/nifti.py  read_nifti_image @28-95, write_nifti_image @98-121
       src/deepali/data/flow.py  FlowField.write @537-541, read @524-535, sitk @518-522,
       from_sitk @505-516 (vectors are stored w.r.t. world axes).

  Core Lean only.  nibabel itself (header packing, `pixdim` = column norms of the affine, data
  scaling, gzip) is trusted; the model covers what deepali does around it: the 4×4 affine with the
  LPS↔RAS sign flips, the division by the voxel sizes, the clamping of tiny values, the choice of
  the number of spatial dimensions, the squeeze of unused dimensions by intent code, the reversal
  of the axes and the leading channel axis.

  The model follows the code AS IT STANDS: `write_nifti_image` hands nibabel the D×D matrix
  `grid.affine()` (F-18a), and the vector-intent squeeze keeps `data.shape[5:]` although the
  components live on axis 4 (F-18d).  `writeAffineFixed` / `readShape (fixed := true)` are the
  repairs proposed in FINDINGS_C18.md.
-/
import Deepali.Model.Grid
import Deepali.Model.MetaImage
namespace Deepali.Nifti
open Deepali Deepali.MetaIO

section
variable {α : Type} [Add α] [Sub α] [Mul α] [Div α] [Neg α] [NatCast α] [IntCast α]

/-- `affine[:2] *= -1` (nifti.py @117) / `origin[:2] *= -1`, `direction[:2] *= -1` (@52-53):
    negate the first two rows — the LPS ↔ RAS change of world axes. -/
def flipRows {n m : Nat} (A : Fin n → Fin m → α) : Fin n → Fin m → α :=
  fun i j => if i.val < 2 then - A i j else A i j

def flipVec {n : Nat} (x : Fin n → α) : Fin n → α := fun i => if i.val < 2 then - x i else x i

/-- nibabel `Nifti1Image(dataobj, affine)`: "Affine should be shape 4,4". -/
def nibabelAcceptsAffine (rows cols : Nat) : Bool := rows = 4 ∧ cols = 4

/-- nifti.py `write_nifti_image` @116-120: `affine = grid.affine()` is the D×D matrix
    `direction · diag(spacing)`; its first two rows are negated and it is passed to nibabel,
    which rejects every shape other than 4×4. Returns the matrix handed over, or the error. -/
def writeAffine {d : Nat} (g : Grid d α) : Except IOErr (Mat d α) :=
  let A := flipRows g.affine
  if nibabelAcceptsAffine d d then .ok A else .error .value

end

section
variable {α : Type} [Add α] [Sub α] [Mul α] [Div α] [Neg α] [NatCast α] [IntCast α]
  [HasFloor α] [DecidableEq α] [LT α] [DecidableRel (α := α) (· < ·)]

/-- proposed repair of @116-117: the homogeneous 4×4 index→world matrix
    `[direction·diag(spacing) | origin; 0 1]` padded with the identity for D < 3, rows 0,1 negated. -/
def writeAffineFixed {d : Nat} (g : Grid d α) : Mat 4 α :=
  let zero : α := ((0 : Nat) : α)
  let one : α := ((1 : Nat) : α)
  let A := g.affine
  let o := g.origin
  let M : Mat 4 α := fun i j =>
    if hi : i.val < d then
      if hj : j.val < d then A ⟨i.val, hi⟩ ⟨j.val, hj⟩
      else if j.val = 3 then o ⟨i.val, hi⟩ else zero
    else if i = j then one else zero
  flipRows M

/-- `x[np.abs(x) < epsilon] = 0` @55-57 with `epsilon = sys.float_info.epsilon = 2⁻⁵²`. -/
def clampSmall (x : α) : α :=
  let zero : α := ((0 : Nat) : α)
  let eps : α := ((1 : Nat) : α) / ((4503599627370496 : Nat) : α)
  let a := if x < zero then - x else x
  if a < eps then zero else x

/-- @49, @52, @56: `origin = affine[:D, 3]`, first two entries negated, tiny values clamped. -/
def readOrigin (d : Nat) (hd : d ≤ 3) (A : Mat 4 α) : Vec d α :=
  fun i => clampSmall (flipVec (fun i : Fin d => A ⟨i.val, by omega⟩ 3) i)

/-- @50, @53, @57: `direction = affine[:D, :D] / spacing` (numpy broadcasting: column j is
    divided by `pixdim[j+1]`), first two rows negated, tiny values clamped. -/
def readDirection (d : Nat) (hd : d ≤ 3) (A : Mat 4 α) (pixdim : Vec d α) : Mat d α :=
  fun i j => clampSmall (flipRows (fun i j : Fin d => A ⟨i.val, by omega⟩ ⟨j.val, by omega⟩ / pixdim j) i j)

end

/-- intent codes NIFTI_INTENT_SYMMATRIX / DISPVECT / VECTOR @68. -/
def vectorIntent (intent : Nat) : Bool := intent = 1005 ∨ intent = 1006 ∨ intent = 1007

/-- @67-84: number of leading data axes kept (`realdim`), by intent code.
    `dim` = header `dim[0..7]` (so `dim[0] = ndim`). -/
def realDim (dim : List Nat) (intent : Nat) : Except IOErr Nat :=
  let ndim := dim.getD 0 0
  if vectorIntent intent then
    -- `for realdim in range(4, 1, -1): if dim[realdim] > 1: break; else: realdim = 1`
    .ok (if 1 < dim.getD 4 0 then 4 else if 1 < dim.getD 3 0 then 3 else if 1 < dim.getD 2 0 then 2 else 1)
  else if intent = 1004 then .error .notimpl
  else
    -- `realdim = ndim; while realdim > 3 and dim[realdim] == 1: realdim -= 1`
    let rec go (fuel r : Nat) : Nat :=
      match fuel with
      | 0 => r
      | fuel + 1 => if 3 < r ∧ dim.getD r 0 = 1 then go fuel (r - 1) else r
    .ok (go 8 ndim)

/-- number of grid dimensions @44-45: `D = min(ndim, 3)`; with the proposed repair a vector
    image has `D = min(realdim, 3)` (ITK stores a 2-D vector image as `X×Y×1×1×C`). -/
def gridDim (fixed : Bool) (dim : List Nat) (intent : Nat) : Nat :=
  let ndim := dim.getD 0 0
  if fixed ∧ vectorIntent intent then
    match realDim dim intent with
    | .ok r => min r 3
    | .error _ => min ndim 3
  else min ndim 3

def prod (l : List Nat) : Nat := l.foldl (· * ·) 1

/-- @84-90: tensor shape from the nibabel array shape `dim[1..ndim]`:
    `reshape(shape[:realdim] + shape[k:])` with `k = 5` in the code (repair: 4 for vector intents,
    where the components are), reversal of all axes, leading channel axis when
    `data.ndim == grid.ndim`. -/
def readShape (fixed : Bool) (dim : List Nat) (intent : Nat) : Except IOErr (List Nat) := do
  let ndim := dim.getD 0 0
  let shape := (dim.drop 1).take ndim
  let r ← realDim dim intent
  let k := if fixed ∧ vectorIntent intent then 4 else 5
  let newShape := shape.take r ++ shape.drop k
  if prod newShape ≠ prod shape then throw IOErr.value            -- numpy: cannot reshape
  let t := newShape.reverse
  pure (if t.length = gridDim fixed dim intent then 1 :: t else t)

end Deepali.Nifti
