/-
  Model/Regularizers.lean — deformation regularisers (layer D), assembled from the derivative
  dictionaries of Model/FD.lean / Model/FlowCalc.lean exactly as the code assembles them.
  src: src/deepali/losses/functional.py grad_loss @1111-1179, bending_loss @1182-1227,
       bspline_bending_loss @1234-1255, curvature_loss @1262-1309, diffusion_loss @1312-1337,
       divergence_loss @1340-1373, lame_parameters @1376-1483, elasticity_loss @1486-1558,
       total_variation_loss @1561-1585, inverse_consistency_loss @1591-1685;
       src/deepali/core/flow.py denormalize_flow @761-787, warp_grid @844-893, warp_points @896-926;
       src/deepali/core/pointset.py transform_grid @221-266, transform_points @269-320;
       src/deepali/losses/flow.py, src/deepali/losses/bspline.py (module classes: argument plumbing only).
  Core Lean only.  Arrays are abstract (`A`, read through `ev : A → Arr D α`) as in Model/FlowCalc.
  `sqrt` and powers with non-integer exponents are NOT computed: they enter as functions supplied by
  the caller (`sqrtF`, `.fn f`).  The model follows the code after the repairs 4eb1789, eb24e6a, a498630,
  aeea172, 363ef5e, 1259250 (lame_parameters (ν,E) and (λ,E) branches; denormalize_flow gets the grid's
  `align_corners`; `reduction="sum"` of inverse_consistency_loss is the sum and the masked mean counts the
  cropped mask; elasticity_loss accumulates on the shape of the derivatives).  The prewitt / sobel
  averaging is the replicate-padded one of Model/FD.lean (repair of F-17d).  Still as coded: the replicate-padded
  forward / backward / central stencils (F-17d', F-17d'').
-/
import Deepali.Model.FlowCalc
import Deepali.Model.Losses
import Deepali.Model.FlowOps
namespace Deepali
namespace Reg
open FD Loss

/-! ### derivative keys requested by the regularisers -/
section Keys
variable {D : Nat}

/-- src: enum.py:FlowDerivativeKeys.all(spatial_dims=D, order=2) @456-470:
    `product(channels, SpatialDerivativeKeys.all(D, 2))`. -/
def hessianKeys (D : Nat) : List (FKey D) :=
  (List.finRange D).flatMap (fun i => (List.finRange D).flatMap (fun a => (List.finRange D).map (fun b => (i, [a, b]))))

/-- src: enum.py:FlowDerivativeKeys.unique @371-384 (a set of `symbol(channel, sorted(key))`;
    first occurrences kept, the order is fixed by the `sorted` that follows). -/
def fkeyUnique (ks : List (FKey D)) : List (FKey D) := dedupFirst (ks.map (fun k => (k.1, sortKey k.2)))

/-- Python string order of `d<u|v|w>/d<letters>` keys. -/
def fkeyLt (a b : FKey D) : Bool :=
  if a.1.val < b.1.val then true else if b.1.val < a.1.val then false else dkeyLt a.2 b.2

def insertFKey (k : FKey D) : List (FKey D) → List (FKey D)
  | [] => [k]
  | x :: xs => if fkeyLt k x then k :: x :: xs else x :: insertFKey k xs

/-- Python `sorted(...)` of flow derivative keys. -/
def fkeySorted (ks : List (FKey D)) : List (FKey D) := ks.foldr insertFKey []

/-- src: functional.py:bending_loss @1216-1217:
    `which = sorted(FlowDerivativeKeys.unique(FlowDerivativeKeys.all(spatial_dims=D, order=2)))`. -/
def bendingKeys (D : Nat) : List (FKey D) := fkeySorted (fkeyUnique (hessianKeys D))

/-- src: enum.py:FlowDerivativeKeys.curvature @504-508: `product(channels, unmixed(D, order=2))`. -/
def curvatureKeys (D : Nat) : List (FKey D) :=
  (List.finRange D).flatMap (fun c => (List.finRange D).map (fun d => (c, [d, d])))

/-- src: functional.py:grad_loss @1160: `SpatialDerivativeKeys.all(spatial_dims=D, order=1)`. -/
def gradKeys (D : Nat) : List (DKey D) := (List.finRange D).map (fun d => [d])

/-- src: enum.py:SpatialDerivativeKeys.is_mixed @203-206 (more than one distinct letter). -/
def isMixed (k : DKey D) : Bool := (dedup k).length > 1

end Keys

/-! ### derivative back ends -/

/-- `mode` argument: a finite-difference family member or 'bspline' ('gaussian' is not modelled). -/
inductive Mode | fd (m : SDMode) | bspline
  deriving DecidableEq, Repr, Inhabited

/-- src: functional.py:bending_loss @1215 / curvature_loss @1300: `mode=mode or "sobel"`. -/
def secondOrderMode (m : Option Mode) : Mode := m.getD (.fd .sobel)

/-- src: image.py:spatial_derivatives @1554-1555: `if mode is None: mode = "forward_central_backward"`
    (grad_loss, divergence_loss, elasticity_loss pass `mode` through unchanged). -/
def firstOrderMode (m : Option Mode) : Mode := m.getD (.fd .fcb)

/-- `spatial_derivatives(component, which=keys, mode, spacing, stride)` of one batch item, with the
    spacing row of the item already fixed: finite-difference step or B-spline evaluation. -/
inductive Backend (D : Nat) (A : Type)
  | fd (step : Fin D → A → A)
  | bspline (deriv : DKey D → A → A)

section Backend
variable {D : Nat} {A : Type}

/-- src: image.py:spatial_derivatives @1559-1588 | @1590-1630. -/
def Backend.sd (be : Backend D A) (data : A) (keys : List (DKey D)) : List (DKey D × Option A) :=
  match be with
  | .fd step => spatialDerivativesFD step data keys
  | .bspline deriv => spatialDerivativesBSpline (fun k => deriv k data) keys

/-- src: flow.py:flow_derivatives @382-457. -/
def Backend.flowDerivs (be : Backend D A) (u : Fin D → A) (which : List (FKey D)) : List (FKey D × Option A) :=
  flowDerivatives (fun i keys => be.sd (u i) keys) which

end Backend

section Spacing
variable {α : Type} [Sub α] [Div α] [NatCast α] {D : Nat}

/-- src: functional.py:grad_loss @1157-1158 and flow.py:flow_derivatives @434-435:
    `spacing=None` ↦ `tuple(reversed([2 / (n - 1) for n in u.shape[2:]]))` (x first). -/
def regSpacing (sz : Fin D → Nat) : SpacingArg α → SpacingArg α
  | .none => .vec ((List.finRange D).map (fun d => ((2 : Nat) : α) / (((sz d : Nat) : α) - ((1 : Nat) : α))))
  | s => s

end Spacing

/-! ### values at one grid point -/
section Point
variable {α : Type} [Add α] [Sub α] [Mul α] [Div α] [Neg α] [NatCast α] [IntCast α]
variable {D : Nat} {A : Type}

/-- all entries of a derivative dictionary at one grid point, in dictionary order
    (`deriv.items()`); `none` if an entry is missing (KeyError). -/
def valsAt {κ : Type} (ev : A → Arr D α) (dict : List (κ × Option A)) (idx : Idx D) : Option (List (κ × α)) :=
  dict.mapM (fun kv => kv.2.map (fun a => (kv.1, ev a idx)))

/-- `loss = value if loss is None else loss.add_(value)` over a sequence of values. -/
def accumulate : List α → Option α
  | [] => none
  | x :: r => some (r.foldl (fun acc v => acc + v) x)

/-- src: functional.py:bending_loss @1220-1223: `value.square_()`, `.mul_(2)` for mixed keys. -/
def bendingTerm (k : FKey D) (v : α) : α :=
  let s := v * v
  if isMixed k.2 then s * ((2 : Nat) : α) else s

/-- src: functional.py:bending_loss @1219-1225 at one grid point. -/
def bendingPt (vals : List (FKey D × α)) : Option α := accumulate (vals.map (fun kv => bendingTerm kv.1 kv.2))

/-- src: functional.py:curvature_loss @1304-1307 at one grid point: `loss = zeros(N, D, …)`;
    `loss[:, i] += deriv[symbol(i, j, j)]` for `(i, j) in product(range(D), repeat=2)`;
    `loss.square_().sum(dim=1)`. -/
def curvaturePt (vals : List (FKey D × α)) : Option α :=
  let comp (i : Fin D) : Option α :=
    (List.finRange D).foldlM (fun acc j => (assoc ((i, [j, j]) : FKey D) vals).map (fun v => acc + v)) ((0 : Nat) : α)
  (List.finRange D).foldlM (fun acc i => (comp i).map (fun c => acc + c * c)) ((0 : Nat) : α)

/-- src: flow.py:divergence @243-247: in-place sum over `deriv.values()`; then
    functional.py:divergence_loss @1371 `.square_()`. -/
def divergenceLossPt (vals : List (FKey D × α)) : Option α :=
  (accumulate (vals.map (·.2))).map (fun d => d * d)

section Ordered
variable [LT α] [DecidableRel (α := α) (· < ·)]

/-- exponent `p` of grad_loss: an integer, or a non-integer float whose power function is supplied. -/
inductive PPow (α : Type) | nat (p : Nat) | fn (f : α → α)
/-- exponent `q` of grad_loss. -/
inductive QPow (α : Type) | nat (q : Nat) | fn (f : α → α)

/-- src: functional.py:grad_loss @1162-1168: `p == 1` → `abs_()`; `p != 0`: even → `pow_(p)`,
    otherwise `abs_().pow_(p)`; `p == 0` → unchanged. -/
def applyP : PPow α → α → α
  | .nat p, v =>
      if p = 1 then absv v
      else if p ≠ 0 then (if p % 2 = 0 then powNat v p else powNat (absv v) p)
      else v
  | .fn f, v => f (absv v)

/-- src: functional.py:grad_loss @1174-1177: `q == 0` → `abs_()`; `q != 1` → `pow_(q)`. -/
def applyQ : QPow α → α → α
  | .nat q, v => if q = 0 then absv v else if q ≠ 1 then powNat v q else v
  | .fn f, v => f v

/-- src: functional.py:grad_loss @1169-1177 at one grid point; `g c j = ∂u_c/∂x_j` is the value of
    `deriv[j]` in channel `c`: per key `value.sum(dim=1)`, accumulated over the keys, then `q`. -/
def gradPt (p : PPow α) (q : QPow α) (g : Fin D → Fin D → α) : Option α :=
  (accumulate ((List.finRange D).map (fun j =>
      (List.finRange D).foldl (fun acc c => acc + applyP p (g c j)) ((0 : Nat) : α)))).map (applyQ q)

end Ordered

/-- src: functional.py:elasticity_loss @1547-1556 at one grid point (`J i j = ∂u_i/∂x_j`):
    `loss = zeros`; `if lambd != 0: loss += Σ_i J_ii; loss = loss² · (lambd / 2)`;
    `if mu != 0: loss += (J_jk + J_kj)² · (mu / 4)` for all `(j, k)`. -/
def elasticityPt [DecidableEq α] (lambd mu : α) (J : Fin D → Fin D → α) : α :=
  let zero : α := ((0 : Nat) : α)
  let l1 := if lambd ≠ zero then
      let t := (List.finRange D).foldl (fun acc i => acc + J i i) zero
      (t * t) * (lambd / ((2 : Nat) : α))
    else zero
  if mu ≠ zero then
    ((List.finRange D).flatMap (fun j => (List.finRange D).map (fun k => (j, k)))).foldl
      (fun acc jk => acc + ((J jk.1 jk.2 + J jk.2 jk.1) * (J jk.1 jk.2 + J jk.2 jk.1)) * (mu / ((4 : Nat) : α))) l1
  else l1

/-- first-order dictionary values as a matrix (`deriv[symbol(i, j)]`). -/
def jacAt (vals : List (FKey D × α)) : Option (Fin D → Fin D → α) :=
  if (jacobianKeys D).all (fun k => (assoc k vals).isSome) then
    some (fun i j => (assoc ((i, [j]) : FKey D) vals).getD ((0 : Nat) : α))
  else none

end Point

/-! ### the 'none' tensor of one batch item (a function of the output grid point)

  Each regulariser is split into the derivative dictionary (a value, computed once) and the
  evaluation at a grid point; `…Field` is their composition (what the theorems are about). -/
section Fields
variable {α : Type} [Add α] [Sub α] [Mul α] [Div α] [Neg α] [NatCast α] [IntCast α]
variable {D : Nat} {A : Type}

/-- src: functional.py:bending_loss @1215-1218. -/
def bendingDict (be : Backend D A) (u : Fin D → A) : List (FKey D × Option A) := be.flowDerivs u (bendingKeys D)
/-- src: functional.py:bending_loss @1219-1225. -/
def bendingAt (ev : A → Arr D α) (dict : List (FKey D × Option A)) (idx : Idx D) : Option α :=
  (valsAt ev dict idx).bind bendingPt
def bendingField (ev : A → Arr D α) (be : Backend D A) (u : Fin D → A) (idx : Idx D) : Option α :=
  bendingAt ev (bendingDict be u) idx

/-- src: functional.py:curvature_loss @1300-1302. -/
def curvatureDict (be : Backend D A) (u : Fin D → A) : List (FKey D × Option A) := be.flowDerivs u (curvatureKeys D)
/-- src: functional.py:curvature_loss @1303-1307. -/
def curvatureAt (ev : A → Arr D α) (dict : List (FKey D × Option A)) (idx : Idx D) : Option α :=
  (valsAt ev dict idx).bind curvaturePt
def curvatureField (ev : A → Arr D α) (be : Backend D A) (u : Fin D → A) (idx : Idx D) : Option α :=
  curvatureAt ev (curvatureDict be u) idx

/-- src: flow.py:divergence @241-242. -/
def divergenceDict (be : Backend D A) (u : Fin D → A) : List (FKey D × Option A) := be.flowDerivs u (divergenceKeys D)
/-- src: functional.py:divergence_loss @1370-1371 (flow.py:divergence @243-247). -/
def divergenceAt (ev : A → Arr D α) (dict : List (FKey D × Option A)) (idx : Idx D) : Option α :=
  (valsAt ev dict idx).bind divergenceLossPt
def divergenceField (ev : A → Arr D α) (be : Backend D A) (u : Fin D → A) (idx : Idx D) : Option α :=
  divergenceAt ev (divergenceDict be u) idx

/-- src: functional.py:elasticity_loss @1544-1546. -/
def elasticityDict (be : Backend D A) (u : Fin D → A) : List (FKey D × Option A) := be.flowDerivs u (jacobianKeys D)
/-- src: functional.py:elasticity_loss @1547-1556. -/
def elasticityAt [DecidableEq α] (ev : A → Arr D α) (lambd mu : α) (dict : List (FKey D × Option A)) (idx : Idx D) :
    Option α :=
  ((valsAt ev dict idx).bind jacAt).map (elasticityPt lambd mu)
def elasticityField [DecidableEq α] (ev : A → Arr D α) (be : Backend D A) (lambd mu : α) (u : Fin D → A) (idx : Idx D) :
    Option α :=
  elasticityAt ev lambd mu (elasticityDict be u) idx

/-- src: functional.py:grad_loss @1159-1161: `spatial_derivatives(u, which=all(order=1))` acts on
    every channel separately (`be.sd (u c)`); entry `c` of the list is the dictionary of channel `c`. -/
def gradDicts (be : Backend D A) (u : Fin D → A) : List (List (DKey D × Option A)) :=
  (List.finRange D).map (fun c => be.sd (u c) (gradKeys D))
/-- src: functional.py:grad_loss @1162-1177; `deriv[j]` holds all channels. -/
def gradAt [LT α] [DecidableRel (α := α) (· < ·)] (ev : A → Arr D α) (p : PPow α) (q : QPow α)
    (dicts : List (List (DKey D × Option A))) (idx : Idx D) : Option α :=
  let look (c j : Fin D) : Option A := (assoc [j] (dicts.getD c.val [])).join
  if (List.finRange D).all (fun c => (List.finRange D).all (fun j => (look c j).isSome)) then
    gradPt p q (fun c j => match look c j with
      | some a => ev a idx
      | none => ((0 : Nat) : α))
  else none
def gradField [LT α] [DecidableRel (α := α) (· < ·)] (ev : A → Arr D α) (be : Backend D A) (p : PPow α) (q : QPow α)
    (u : Fin D → A) (idx : Idx D) : Option α :=
  gradAt ev p q (gradDicts be u) idx

end Fields

/-! ### batch, reduction, wrappers -/
section Batch
variable {α : Type} [Add α] [Sub α] [Mul α] [Div α] [Neg α] [NatCast α] [IntCast α]
variable {D : Nat}

def boxTotal (sz : Fin D → Nat) : Nat := (List.finRange D).foldl (fun p d => p * sz d) 1

/-- stride of spatial dimension `d` in tensor order (x = dimension 0 is the fastest). -/
def strideOf (sz : Fin D → Nat) (d : Fin D) : Nat :=
  ((List.finRange D).filter (fun e => e.val < d.val)).foldl (fun p e => p * sz e) 1

/-- all grid points of a box in tensor (row-major, x fastest) order. -/
def boxPoints (sz : Fin D → Nat) : List (Idx D) :=
  (List.range (boxTotal sz)).map (fun lin => fun d => (((lin / strideOf sz d) % sz d : Nat) : Int))

/-- the tensor argument of a regulariser after the shape tests at the top of each function. -/
inductive RegInput (D : Nat) (α : Type)
  | linear                                               -- `u.ndim < 4`
  | badShape                                             -- `u.ndim - 2 != D`
  | batch (pts : List (Idx D)) (items : List (Idx D → Option α))   -- (N, D, …, X): output points, per item values

/-- `reduce_loss(loss, reduction)` on the concatenated per-item values. -/
def reduceVals (red : Reduction) (vals : List α) : List α :=
  reduceLoss red vals.length (fun i => vals.getD i ((0 : Nat) : α)) none

/-- common frame of the regularisers. src: functional.py e.g. bending_loss @1205-1214, @1226-1227;
    curvature/diffusion/divergence end in `.mul_(0.5)` (`half`). -/
def regFinish (red : Reduction) (half : Bool) : RegInput D α → Except String (List α)
  | .linear =>
      if red = .none then .error "err:notimpl"           -- NotImplementedError
      else .ok [((0 : Nat) : α)]                          -- `torch.tensor(0)` (times 0.5)
  | .badShape => .error "err:value"
  | .batch pts items =>
      match (items.flatMap (fun f => pts.map f)).mapM id with
      | none => .error "err:key"
      | some vals =>
          let r := reduceVals red vals
          .ok (if half then r.map (fun v => v * (((1 : Nat) : α) / ((2 : Nat) : α))) else r)

end Batch

/-! ### shapes in mode='bspline' -/
section Shapes
variable {D : Nat}

/-- src: image.py:spatial_derivatives docstring / bspline.py:evaluate_cubic_bspline: the derivative tensors of
    mode='bspline' have spatial size `(n − 3) · stride` per axis. -/
def bsplineOutSize (stride sz : Fin D → Nat) : Fin D → Nat := fun d => stride d * (sz d - 3)

/-- src: functional.py:elasticity_loss @1546-1547 (after fix 1259250): the accumulator is
    `zeros((N, 1) + deriv[symbol(0, 0)].shape[2:])`, i.e. it has the spatial shape of the derivative tensors
    (`bsplineOutSize` in mode='bspline', the shape of `u` otherwise), so the in-place adds always fit. -/
def elasticityOutSize (bspline : Bool) (stride sz : Fin D → Nat) : Fin D → Nat :=
  if bspline then bsplineOutSize stride sz else sz

end Shapes

/-! ### lame_parameters -/
section Lame
variable {α : Type} [Add α] [Sub α] [Mul α] [Div α] [Neg α] [NatCast α] [DecidableEq α] [LT α]
  [DecidableRel (α := α) (· < ·)]

/-- `material_name` argument. -/
inductive Material | none | rubber | other
  deriving DecidableEq, Repr

/-- `RUBBER_POISSONS_RATIO = 0.4999`, `RUBBER_SHEAR_MODULUS = 0.0006`, threshold `1e-9`. -/
def rubberNu : α := ((4999 : Nat) : α) / ((10000 : Nat) : α)
def rubberG : α := ((6 : Nat) : α) / ((10000 : Nat) : α)
def lameTiny : α := ((1 : Nat) : α) / ((1000000000 : Nat) : α)

/-- Python float division: `ZeroDivisionError` for a zero denominator. -/
def pyDiv (a b : α) : Except String α := if b = ((0 : Nat) : α) then .error "err:zerodiv" else .ok (a / b)

/-- src: functional.py:lame_parameters @1441-1469 — the conversion table, after `second_parameter`
    and `shear_modulus` have been unified (`shear`).  Returns (first, second), possibly still unknown. -/
def lameTable (sqrtF : α → α) (first shear poisson young : Option α) : Except String (Option α × Option α) :=
  let one : α := ((1 : Nat) : α)
  let two : α := ((2 : Nat) : α)
  match first with
  | none =>
    match shear with
    | none =>
      match poisson, young with
      | some nu, some E =>
        do let l ← pyDiv (nu * E) ((one + nu) * (one - two * nu))              -- @1443-1446 (after fix 4eb1789)
           let m ← pyDiv E (two * (one + nu))                                  -- @1447
           pure (some l, some m)
      | _, _ => .ok (none, shear)
    | some G =>
      match young with
      | none =>
        let nu := poisson.getD rubberNu                                        -- @1449-1450
        do let l ← pyDiv (two * G * nu) (one - two * nu)                       -- @1451
           pure (some l, shear)
      | some E =>
        do let l ← pyDiv (G * (E - two * G)) (((3 : Nat) : α) * G - E)         -- @1453-1457
           pure (some l, shear)
  | some lam =>
    match shear with
    | none =>
      match young with
      | none =>
        let nu := poisson.getD rubberNu                                        -- @1460-1461
        do let m ← pyDiv (lam * (one - two * nu)) (two * nu)                   -- @1462
           pure (first, some m)
      | some E =>
        let r := sqrtF (E * E + ((9 : Nat) : α) * (lam * lam) + two * E * lam) -- @1464-1468
        .ok (first, some ((E - ((3 : Nat) : α) * lam + r) / ((4 : Nat) : α)))  -- @1469 (after fix eb24e6a)
    | some _ => .ok (first, shear)

/-- src: functional.py:lame_parameters @1475-1482. -/
def lameClip (name : String) (v : α) : Except String α :=
  if v < ((0 : Nat) : α) then .error ("err:value:" ++ name)
  else if v < lameTiny then .ok ((0 : Nat) : α) else .ok v

/-- src: functional.py:lame_parameters @1376-1483. -/
def lameParameters (sqrtF : α → α) (mat : Material) (first second shear poisson young : Option α) :
    Except String (α × α) := do
  let nGiven := ([first, second, poisson, young, shear].filter Option.isSome).length   -- `kwargs` @1403-1416
  -- @1418-1432
  let (poisson, shear) ← (match mat with
    | .rubber => if nGiven ≠ 0 then .error "err:value" else .ok (some rubberNu, some rubberG)
    | .other => .error "err:value"
    | .none => if nGiven ≠ 2 then .error "err:value" else .ok (poisson, shear) : Except String (Option α × Option α))
  -- @1433-1440
  let shear ← (match second, shear with
    | none, sh => .ok sh
    | some s, none => .ok (some s)
    | some _, some _ => .error "err:value" : Except String (Option α))
  let (f, s) ← lameTable sqrtF first shear poisson young
  match f, s with
  | some l, some m =>
      let l ← lameClip "first" l
      let m ← lameClip "second" m
      pure (l, m)
  | _, _ => .error "err:notimpl"                                               -- @1470-1474

end Lame

/-! ### inverse_consistency_loss -/
section IC
variable {α : Type} [Add α] [Sub α] [Mul α] [Div α] [Neg α] [NatCast α] [IntCast α]
  [HasFloor α] [DecidableEq α] [LT α] [DecidableRel (α := α) (· < ·)] {d : Nat}

/-- tensor representation of a spatial transformation (one batch item): a 3-dimensional tensor
    (translation / matrix / [A|t]) or a flow field sampled on the grid at hand. -/
inductive Transform (d : Nat) (α : Type)
  | lin (h : H d α)
  | flow (f : VField d α)

/-- src: pointset.py:transform_grid @262-266 → affine.py:transform_points | flow.py:warp_grid @887-893
    (`grid_reshape` to the same shape is the identity): `y = A x + t` | `y = x + u`. -/
def transformGrid (fwd : Transform d α) (x : Vec d α) (idx : Fin d → Int) : Vec d α :=
  match fwd with
  | .lin h => h.apply x
  | .flow u => x.add (u idx)

/-- src: pointset.py:transform_points @316-320 → flow.py:warp_points @923-926, sample_flow @833-841
    (`grid_sample`, linear, `padding=border`). -/
def transformPoints (ac : Bool) (n : Fin d → Nat) (inv : Transform d α) (y : Vec d α) : Vec d α :=
  match inv with
  | .lin h => h.apply y
  | .flow v => y.add (sampleVField ac .border n v y)

/-- src: functional.py:inverse_consistency_loss @1640-1643: `error = y - x`. -/
def icError (ac : Bool) (n : Fin d → Nat) (fwd inv : Transform d α) (idx : Fin d → Int) : Vec d α :=
  let x : Vec d α := latticePoint ac n idx
  let y := transformGrid fwd x idx
  let y := transformPoints ac n inv y
  y.sub x

/-- src: flow.py:denormalize_flow @777-784 on one vector (channels last). -/
def denormalizeFlow (ac : Bool) (n : Fin d → Nat) (sideLength : α) (v : Vec d α) : Vec d α :=
  fun i =>
    let size : α := ((n i : Nat) : α)
    let size_ : α := if ac then size - ((1 : Nat) : α) else size
    let w : α := if 1 < n i then v i * size_ else ((0 : Nat) : α)
    if sideLength ≠ ((1 : Nat) : α) then w / sideLength else w

/-- src: flow.py:normalize_flow @698-706 on one vector (channels last): `size_ = size − 1` for align_corners,
    `data * side_length` unless it is 1, then `where(size > 1, data / size_, 0)`. -/
def normalizeFlow (ac : Bool) (n : Fin d → Nat) (sideLength : α) (v : Vec d α) : Vec d α :=
  fun i =>
    let size : α := ((n i : Nat) : α)
    let size_ : α := if ac then size - ((1 : Nat) : α) else size
    let w : α := if sideLength ≠ ((1 : Nat) : α) then v i * sideLength else v i
    if 1 < n i then w / size_ else ((0 : Nat) : α)

inductive Units | cube | voxel | world
  deriving DecidableEq, Repr

/-- src: functional.py:inverse_consistency_loss @1674-1680 (after fix a498630):
    `denormalize_flow(error, size=grid.size(), align_corners=grid.align_corners(), channels_last=True)`;
    `error *= grid.spacing()` for 'world'. -/
def icScale (units : Units) (ac : Bool) (n : Fin d → Nat) (spacing : Vec d α) (e : Vec d α) : Vec d α :=
  match units with
  | .cube => e
  | .voxel => denormalizeFlow ac n ((2 : Nat) : α) e
  | .world => (denormalizeFlow ac n ((2 : Nat) : α) e).mul spacing

inductive Margin (α : Type) | int (k : Int) | float (r : α)

/-- src: functional.py:inverse_consistency_loss @1660-1668: margins per dimension, `none` when
    `margin <= 0`. -/
def icMargins (n : Fin d → Nat) : Margin α → Except String (Option (Fin d → Nat))
  | .int k => if 0 < k then .ok (some (fun _ => k.toNat)) else .ok none
  | .float r =>
      if ((0 : Nat) : α) < r then
        if r < ((0 : Nat) : α) ∨ ¬ r < ((1 : Nat) : α) then .error "err:value"
        else .ok (some (fun i => (HasFloor.floor (r * ((n i : Nat) : α))).toNat))
      else .ok none

/-- grid points of a box in tensor order (x fastest), `Fin d → Int`. -/
def icPoints (n : Fin d → Nat) : List (Fin d → Int) := boxPoints n

/-- src: functional.py:inverse_consistency_loss @1645-1658: `error[mask == 0] = 0`. -/
def icErrMasked (ac : Bool) (n : Fin d → Nat) (fwd inv : Transform d α) (mask : Option ((Fin d → Int) → α))
    (idx : Fin d → Int) : Vec d α :=
  match mask with
  | some m => if m idx = ((0 : Nat) : α) then (fun _ => ((0 : Nat) : α)) else icError ac n fwd inv idx
  | none => icError ac n fwd inv idx

/-- src: functional.py:inverse_consistency_loss @1669-1670: the sub-grid `[m, n − m)` per axis. -/
def icKept (n : Fin d → Nat) (m : Option (Fin d → Nat)) : List (Fin d → Int) :=
  match m with
  | none => icPoints n
  | some m => (icPoints n).filter (fun idx => (List.finRange d).all (fun i =>
      decide (((m i : Nat) : Int) ≤ idx i ∧ idx i < ((n i : Nat) : Int) - ((m i : Nat) : Int))))

/-- src: functional.py:inverse_consistency_loss @1672-1677: unit conversion and `norm(p=2, dim=-1)`. -/
def icVals (sqrtF : α → α) (ac : Bool) (n : Fin d → Nat) (spacing : Vec d α) (fwd inv : Transform d α)
    (mask : Option ((Fin d → Int) → α)) (units : Units) (kept : List (Fin d → Int)) : List α :=
  kept.map (fun idx =>
    let e := icScale units ac n spacing (icErrMasked ac n fwd inv mask idx)
    sqrtF (sumFin d (fun i => e i * e i)))

/-- src: functional.py:inverse_consistency_loss @1670-1672, @1683-1690 (after fix aeea172): 'sum' is the sum;
    'mean' divides by the number of values, or — with a mask — by the number of non-zero mask values inside the
    evaluated (margin-cropped) region `kept`; 0/0 is nan. -/
def icReduce (red : Reduction) (mask : Option ((Fin d → Int) → α)) (kept : List (Fin d → Int)) (vals : List α) :
    Except String (List α) :=
  match red with
  | .none => .ok vals
  | .sum => .ok [lsum vals]
  | .mean =>
      let count : Nat :=
        match mask with
        | some mk => (kept.filter (fun idx => mk idx ≠ ((0 : Nat) : α))).length   -- `(mask != 0).sum()` of the cropped mask
        | none => vals.length
      if count = 0 then .error "nan" else .ok [lsum vals / ((count : Nat) : α)]

/-- src: functional.py:inverse_consistency_loss @1591-1685, one batch item, `grid` of integral size
    `n`, `align_corners = ac`, spacing `spacing`; `mask` has shape (1, 1, …, X). -/
def icLoss (sqrtF : α → α) (ac : Bool) (n : Fin d → Nat) (spacing : Vec d α) (fwd inv : Transform d α)
    (mask : Option ((Fin d → Int) → α)) (margin : Margin α) (units : Units) (red : Reduction) :
    Except String (List α) := do
  let m ← icMargins n margin
  icReduce red mask (icKept n m) (icVals sqrtF ac n spacing fwd inv mask units (icKept n m))

end IC

end Reg
end Deepali
