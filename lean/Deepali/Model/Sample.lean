/-
  Model/Sample.lean — how deepali samples an image on another grid.
  src: src/deepali/data/image.py ImageBatch.sample @903-937, src/deepali/core/image.py
       grid_sample @1079-1131, grid_resize @1010-1043; independent ITK specification.
-/
import Deepali.Model.TorchPrim
import Deepali.Model.Itk
namespace Deepali

section
variable {α : Type} [Add α] [Sub α] [Mul α] [Div α] [Neg α] [NatCast α] [IntCast α]

/-- grid.py `coords(normalize=True)` @1032-1042: k-th element of the `arange` along an axis with
    `n` samples (`first + k·step`; `n = 1` is special-cased to 0). -/
def coordAt (n : Nat) (ac : Bool) (k : α) : α :=
  if n = 1 then ((0 : Nat) : α) else
  if ac then
    (-((1 : Nat) : α)) + k * (((2 : Nat) : α) / (((n : Nat) : α) - ((1 : Nat) : α)))
  else
    let spacing : α := ((2 : Nat) : α) / ((n : Nat) : α)
    (-((1 : Nat) : α) + ((1 : Nat) : α) / ((2 : Nat) : α) * spacing) + k * spacing

/-- ITK: physical point → continuous index for an orthonormal direction,
    `diag(1/S)·Dᵀ·(x − O)`. -/
def Itk.physToIdx {d : Nat} (O S : Vec d α) (D : Mat d α) (x : Vec d α) : Vec d α :=
  fun i => (D.transpose.mulVec (x.sub O)) i / S i

end

section
variable {α : Type} [Add α] [Sub α] [Mul α] [Div α] [Neg α] [NatCast α] [IntCast α]
  [HasFloor α] [DecidableEq α] [LT α] [DecidableRel (α := α) (· < ·)] {d : Nat}

/-- data/image.py `ImageBatch.sample` @920-929: normalised source coordinates at which the
    source image is sampled for target index `j` — `tgt.coords(align_corners=ac)` mapped by
    `grid_transform_points(p, tgt, axes, src, axes)` with `ac = src.align_corners()`. The
    default rounding to 12 decimals is applied by the driver (`Rat` only). -/
def sampleCoord (src tgt : Grid d α) (n : Fin d → Nat) (j : Fin d → α) : Vec d α :=
  let ac := src.alignCorners
  let axes := Axes.fromAlignCorners ac
  let p : Vec d α := fun i => coordAt (n i) ac (j i)
  tgt.applyTransformTo axes src axes false p

/-- `ImageBatch.sample(grid)`: value at target index `j` (linear interpolation).
    `srcN`/`tgtN` are the integral grid sizes. -/
def sampleOnGrid (src tgt : Grid d α) (srcN tgtN : Fin d → Nat) (pad : Padding)
    (img : (Fin d → Int) → α) (j : Fin d → α) : α :=
  gridSampleLin src.alignCorners pad srcN img (sampleCoord src tgt tgtN j)

/-- core/image.py `grid_sample` @1117-1128 with a scalar `padding` value `c`:
    subtract `c`, sample with zero padding, add `c`. -/
def gridSampleLinConst (ac : Bool) (size : Fin d → Nat) (img : (Fin d → Int) → α) (c : α) (p : Fin d → α) : α :=
  gridSampleLin ac .zeros size (fun idx => img idx - c) p + c

/-- the independent specification: ITK's resampler with the identity transform and linear
    interpolation evaluates the source at `physToIdx_src (idxToPhys_tgt j)`. -/
def Itk.resampleLin (srcO srcS : Vec d α) (srcD : Mat d α) (tgtO tgtS : Vec d α) (tgtD : Mat d α)
    (srcN : Fin d → Nat) (img : (Fin d → Int) → α) (j : Vec d α) : α :=
  interpLin d (extZero srcN img) (Itk.physToIdx srcO srcS srcD (Itk.idxToPhys tgtO tgtS tgtD j))

end
end Deepali
