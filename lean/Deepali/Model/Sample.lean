/-
  Model/Sample.lean — how deepali samples an image on another grid.
  src: src/deepali/data/image.py ImageBatch.sample @903-937, src/deepali/core/image.py
       grid_sample @1079-1131, grid_resize @1010-1043; src/deepali/modules/sample.py AlignImage /
       TransformImage with the identity transform; independent ITK specification.
-/
import Deepali.Model.TorchPrim
import Deepali.Model.Itk
namespace Deepali

section
variable {α : Type} [Add α] [Sub α] [Mul α] [Div α] [Neg α] [NatCast α] [IntCast α]

/-- grid.py `coords(normalize=True)` @1032-1042: k-th element of the `arange` along an axis with
    `n` samples (`first + k·step`; `n = 1` is special-cased to 0). -/
def coordAt (n : Nat) (ac : Bool) (k : α) : α :=
  if n = 1 then ((0 : Nat) : α) else
  if ac then
    (-((1 : Nat) : α)) + k * (((2 : Nat) : α) / (((n : Nat) : α) - ((1 : Nat) : α)))
  else
    let spacing : α := ((2 : Nat) : α) / ((n : Nat) : α)
    (-((1 : Nat) : α) + ((1 : Nat) : α) / ((2 : Nat) : α) * spacing) + k * spacing

/-- ITK: physical point → continuous index for an orthonormal direction,
    `diag(1/S)·Dᵀ·(x − O)`. -/
def Itk.physToIdx {d : Nat} (O S : Vec d α) (D : Mat d α) (x : Vec d α) : Vec d α :=
  fun i => (D.transpose.mulVec (x.sub O)) i / S i

end

section
variable {α : Type} [Add α] [Sub α] [Mul α] [Div α] [Neg α] [NatCast α] [IntCast α]
  [HasFloor α] [DecidableEq α] [LT α] [DecidableRel (α := α) (· < ·)] {d : Nat}

/-- data/image.py `ImageBatch.sample` @920-929: normalised source coordinates at which the
    source image is sampled for target index `j` — `tgt.coords(align_corners=ac)` mapped by
    `grid_transform_points(p, tgt, axes, src, axes)` with `ac = src.align_corners()`. The
    default rounding to 12 decimals is applied by the driver (`Rat` only). -/
def sampleCoord (src tgt : Grid d α) (n : Fin d → Nat) (j : Fin d → α) : Vec d α :=
  let ac := src.alignCorners
  let axes := Axes.fromAlignCorners ac
  let p : Vec d α := fun i => coordAt (n i) ac (j i)
  tgt.applyTransformTo axes src axes false p

/-- `ImageBatch.sample(grid)`: value at target index `j` (linear interpolation).
    `srcN`/`tgtN` are the integral grid sizes. -/
def sampleOnGrid (src tgt : Grid d α) (srcN tgtN : Fin d → Nat) (pad : Padding)
    (img : (Fin d → Int) → α) (j : Fin d → α) : α :=
  gridSampleLin src.alignCorners pad srcN img (sampleCoord src tgt tgtN j)

/-! ### `ImageBatch.pyramid`: how the data of the finest level is obtained
  src: src/deepali/data/image.py `ImageBatch.pyramid` @706-741; src/deepali/core/grid.py `Grid.align_corners(arg)`
       @379-388. -/

/-- grid.py `Grid.align_corners(arg)` @379-388: shallow copy with the flag replaced. data/image.py @709-710:
    `grids = tuple(grid.align_corners(align_corners) for grid in self._grid)`; `source_grids = grids`. -/
def Grid.reflag (g : Grid d α) (ac : Bool) : Grid d α := { g with alignCorners := ac }

/-- data/image.py `ImageBatch.pyramid` @722-741, the two ways the finest-level data is produced: `close` is the outcome
    of the test `torch.allclose(grids[0].cube_extent(), source_grids[0].cube_extent())`; `resized` is
    `U.grid_resize(self, grids[0].size(), mode, align_corners=align_corners)`, `sampled` is `U.grid_sample` at
    `grid_transform_points(grid.coords(align_corners), grid, axes, source_grid, axes)`. -/
def pyramidFinestData {β : Type} (close : Bool) (resized sampled : β) : β := if close then resized else sampled

/-- the decision of `ImageBatch.pyramid` for an image grid `img` (under its own flag), the requested convention `ac`
    and the finest-level grid `new` (derived from `source = img.reflag ac` by `Grid.resample` / `Grid.pyramid`, hence
    flagged `ac`): BOTH cube extents are taken from grids flagged `ac`. `extClose` stands for `torch.allclose`. -/
def pyramidFinest {β : Type} (img new : Grid d α) (ac : Bool) (extClose : Vec d α → Vec d α → Bool)
    (resized sampled : β) : β :=
  pyramidFinestData (extClose new.cubeExtent (img.reflag ac).cubeExtent) resized sampled

/-! ### module entry points `deepali.modules.AlignImage` / `TransformImage` (identity transform)
  src: src/deepali/modules/sample.py `SampleImage.__init__` @42-55, `align_corners` @88-90,
       `_matrix` @92-100, `_transform_target_to_source` @102-105, `_sample_source_image` @107-188,
       `TransformImage._grid` @265-267 / `forward` @269-285, `AlignImage._grid` @329-331 /
       `forward` @333-349; src/deepali/core/grid.py `Grid.points` @1058-1073. -/

/-- modules/sample.py `SampleImage.__init__` @44-46: `axes=None` means `Axes.from_grid(target)`
    (= `Axes.from_align_corners(target.align_corners())`, grid.py @72-79). -/
def moduleAxes (tgt : Grid d α) (axes : Option Axes) : Axes :=
  match axes with
  | none => Axes.fromAlignCorners tgt.alignCorners
  | some a => a

/-- grid.py `Grid.points(axes)` @1058-1073 at the (possibly fractional) index vector `j`:
    `coords(normalize=(axes is CUBE), align_corners=False)` — i.e. the normalised lattice of the
    `align_corners=False` cube when `axes` is CUBE, the plain indices `arange(n)` otherwise (grid.py
    `coords` @1031-1047; the flag of the grid itself is NOT consulted) — followed by
    `apply_transform(coords, GRID, to_axes=axes)` unless `axes` is CUBE or GRID. `n` is the integral
    grid size. The default rounding of `apply_transform` (12 decimals when mapping to
    CUBE_CORNERS, grid.py @745-751) is applied by the driver (`Rat` only). -/
def Grid.pointAt (g : Grid d α) (n : Fin d → Nat) (axes : Axes) (j : Vec d α) : Vec d α :=
  let coords : Vec d α := if axes = .cube then (fun i => coordAt (n i) false (j i)) else j
  if axes = .cube ∨ axes = .grid then coords else g.applyTransform .grid axes false coords

/-- modules/sample.py `SampleImage._matrix` @92-100 with `align_centers=False`, applied to a point
    by `homogeneous_transform(self.matrix, grid)` (@102-105; `AlignImage.forward` @341-349 with
    `transform=None` does the same): `grid_points_transform(target, axes, source, to_axes)` with
    `to_axes = Axes.from_align_corners(target.align_corners())`, the branch of `Grid.transform`
    for a different `to_grid` (grid.py @691-697). -/
def moduleMapPoint (src tgt : Grid d α) (axes : Axes) (p : Vec d α) : Vec d α :=
  tgt.applyTransformTo axes src (Axes.fromAlignCorners tgt.alignCorners) false p

/-- the same when `to_grid == self` (grid.py `Grid.transform` @620: `source` is `None` or compares
    equal to `target`; `Grid.__eq__` @1543-1565 ignores the `align_corners` flag): the same-grid branch
    table, which for CUBE ↔ CUBE_CORNERS is a bare square matrix. -/
def moduleMapPointSame (tgt : Grid d α) (axes : Axes) (p : Vec d α) : Vec d α :=
  (tgt.transform axes (Axes.fromAlignCorners tgt.alignCorners) false).applyAs false p

/-- normalised source coordinates at which `AlignImage` / `TransformImage` (identity transform)
    sample the source for target index `j`: the precomputed `grid` buffer `target.points(axes)`
    mapped by the precomputed `matrix`. -/
def moduleSampleCoord (src tgt : Grid d α) (tgtN : Fin d → Nat) (axes : Axes) (j : Vec d α) : Vec d α :=
  moduleMapPoint src tgt axes (tgt.pointAt tgtN axes j)

/-- `moduleSampleCoord` when the source grid is (equal to) the target grid. -/
def moduleSampleCoordSame (tgt : Grid d α) (tgtN : Fin d → Nat) (axes : Axes) (j : Vec d α) : Vec d α :=
  moduleMapPointSame tgt axes (tgt.pointAt tgtN axes j)

/-- modules/sample.py `_sample_source_image` @152-160: `grid_sample(data, grid, align_corners=
    self.align_corners())` where `SampleImage.align_corners()` @88-90 is the TARGET grid's flag
    (`ImageBatch.sample` uses the source's). Linear interpolation. -/
def moduleSample (src tgt : Grid d α) (srcN tgtN : Fin d → Nat) (axes : Axes) (pad : Padding)
    (img : (Fin d → Int) → α) (j : Vec d α) : α :=
  gridSampleLin tgt.alignCorners pad srcN img (moduleSampleCoord src tgt tgtN axes j)

/-- core/image.py `grid_sample` @1117-1128 with a scalar `padding` value `c`:
    subtract `c`, sample with zero padding, add `c`. -/
def gridSampleLinConst (ac : Bool) (size : Fin d → Nat) (img : (Fin d → Int) → α) (c : α) (p : Fin d → α) : α :=
  gridSampleLin ac .zeros size (fun idx => img idx - c) p + c

/-- the independent specification: ITK's resampler with the identity transform and linear
    interpolation evaluates the source at `physToIdx_src (idxToPhys_tgt j)`. -/
def Itk.resampleLin (srcO srcS : Vec d α) (srcD : Mat d α) (tgtO tgtS : Vec d α) (tgtD : Mat d α)
    (srcN : Fin d → Nat) (img : (Fin d → Int) → α) (j : Vec d α) : α :=
  interpLin d (extZero srcN img) (Itk.physToIdx srcO srcS srcD (Itk.idxToPhys tgtO tgtS tgtD j))

end
/-- grid.py `Grid.__eq__` @1543-1565 on exact rationals: every slot except `_align_corners` compared
    with `torch.allclose(value, other, rtol=1e-5, atol=1e-8)`, i.e. `|a − b| ≤ atol + rtol·|b|`
    elementwise. Decides which branch of `Grid.transform` the module matrix comes from. -/
def Grid.eqApprox {d : Nat} (g g' : Grid d Rat) : Bool :=
  let abs (x : Rat) : Rat := if x < 0 then -x else x
  let close (a b : Rat) : Bool := decide (abs (a - b) ≤ (1 : Rat) / 100000000 + (1 : Rat) / 100000 * abs b)
  (List.finRange d).all (fun i =>
    close (g.size i) (g'.size i) && close (g.center i) (g'.center i) && close (g.spacing i) (g'.spacing i)
      && (List.finRange d).all (fun k => close (g.direction i k) (g'.direction i k)))

end Deepali
