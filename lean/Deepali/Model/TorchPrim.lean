/-
  Model/TorchPrim.lean — documented semantics of the torch primitives deepali's sampling code
  calls. These are *modelled* (part of the trusted base) and validated against torch itself by
  the primitive-conformance stream of the harness (harness/props/prim.py, run by every check
  that depends on them).

  Conventions: an image with `d` spatial axes is a total function `(Fin d → Int) → α` on integer
  sample indices in the order (x, y, z) — i.e. axis 0 is the LAST tensor dimension — together
  with its size `Fin d → Nat`; out-of-bounds behaviour is added by an extension wrapper.
-/
import Deepali.Model.Grid
namespace Deepali

section
variable {α : Type} [Add α] [Sub α] [Mul α] [Div α] [Neg α] [NatCast α] [IntCast α]

/-- `F.grid_sample`: map a normalised coordinate to a continuous sample index.
    `align_corners=True`: `(x+1)/2·(n−1)`; `False`: `((x+1)·n − 1)/2`. -/
def unnormalize (ac : Bool) (n : α) (x : α) : α :=
  if ac then (x + ((1 : Nat) : α)) / ((2 : Nat) : α) * (n - ((1 : Nat) : α))
  else ((x + ((1 : Nat) : α)) * n - ((1 : Nat) : α)) / ((2 : Nat) : α)

/-- prepend one index (axis 0 = x). -/
def consIdx {d : Nat} (a : Int) (f : Fin d → Int) : Fin (d + 1) → Int :=
  fun i => Fin.cases a f i

def tailVec {β : Type} {d : Nat} (x : Fin (d + 1) → β) : Fin d → β := fun i => x i.succ

/-- multilinear interpolation of a total index function at continuous index `x`
    (`floor`, weights `1−w`, `w` along each axis, all 2^d corners). -/
def interpLin [HasFloor α] : (d : Nat) → ((Fin d → Int) → α) → (Fin d → α) → α
  | 0, img, _ => img (fun i => i.elim0)
  | d + 1, img, x =>
      let i0 : Int := HasFloor.floor (x 0)
      let w : α := x 0 - ((i0 : Int) : α)
      (((1 : Nat) : α) - w) * interpLin d (fun idx => img (consIdx i0 idx)) (tailVec x)
        + w * interpLin d (fun idx => img (consIdx (i0 + 1) idx)) (tailVec x)

/-- zero extension (`padding_mode="zeros"`). -/
def extZero {d : Nat} (size : Fin d → Nat) (img : (Fin d → Int) → α) : (Fin d → Int) → α :=
  fun idx => if ∀ i, 0 ≤ idx i ∧ idx i < (size i : Int) then img idx else ((0 : Nat) : α)

/-- clamp an integer index into `[0, n−1]` (`n ≥ 1`). -/
def clampIdx (n : Nat) (i : Int) : Int := max 0 (min i ((n : Int) - 1))

/-- border extension (replicate the edge samples). -/
def extBorder {d : Nat} (size : Fin d → Nat) (img : (Fin d → Int) → α) : (Fin d → Int) → α :=
  fun idx => img (fun i => clampIdx (size i) (idx i))

end

section
variable {α : Type} [Add α] [Sub α] [Mul α] [Div α] [Neg α] [NatCast α] [IntCast α]
  [HasFloor α] [LT α] [DecidableRel (α := α) (· < ·)]

/-- clamp a continuous coordinate to `[0, n−1]` (`padding_mode="border"` clips first). -/
def clampCoord (n : Nat) (x : α) : α :=
  let hi : α := ((n : Nat) : α) - ((1 : Nat) : α)
  if x < ((0 : Nat) : α) then ((0 : Nat) : α) else if hi < x then hi else x

inductive Padding | zeros | border
  deriving DecidableEq, Repr

/-- `F.grid_sample(mode="bilinear")` at one normalised point `p` (order x, y, z). -/
def gridSampleLin {d : Nat} (ac : Bool) (pad : Padding) (size : Fin d → Nat) (img : (Fin d → Int) → α)
    (p : Fin d → α) : α :=
  let x : Fin d → α := fun i => unnormalize ac ((size i : Nat) : α) (p i)
  match pad with
  | .zeros => interpLin d (extZero size img) x
  | .border => interpLin d (extZero size img) (fun i => clampCoord (size i) (x i))

/-- `F.interpolate(mode="linear"|"bilinear"|"trilinear")`: source index of output sample `j`
    on an axis resized from `n` to `m` samples. -/
def interpolateSrc (ac : Bool) (n m : Nat) (j : Nat) : α :=
  if ac then
    (if m ≤ 1 then ((0 : Nat) : α)
     else ((j : Nat) : α) * (((n : Nat) : α) - ((1 : Nat) : α)) / (((m : Nat) : α) - ((1 : Nat) : α)))
  else
    let s : α := (((j : Nat) : α) + ((1 : Nat) : α) / ((2 : Nat) : α)) * ((n : Nat) : α) / ((m : Nat) : α)
                  - ((1 : Nat) : α) / ((2 : Nat) : α)
    if s < ((0 : Nat) : α) then ((0 : Nat) : α) else s

/-- `F.interpolate` linear modes: value of output sample `j` (edge samples replicated). -/
def interpolateLin {d : Nat} (ac : Bool) (size newSize : Fin d → Nat) (img : (Fin d → Int) → α)
    (j : Fin d → Nat) : α :=
  interpLin d (extBorder size img) (fun i => interpolateSrc ac (size i) (newSize i) (j i))

end

/-- `torch.round` / `nearbyint`: round half to even, on exact rationals. -/
def nearestIdx (x : Rat) : Int := roundHalfEven x

/-- `F.grid_sample(mode="nearest")` on `Rat` (ties to even, as `nearbyint`). -/
def gridSampleNearest {d : Nat} (ac : Bool) (pad : Padding) (size : Fin d → Nat) (img : (Fin d → Int) → Rat)
    (p : Fin d → Rat) : Rat :=
  let x : Fin d → Rat := fun i => unnormalize ac ((size i : Nat) : Rat) (p i)
  let x : Fin d → Rat := match pad with
    | .zeros => x
    | .border => fun i => clampCoord (size i) (x i)
  extZero size img (fun i => nearestIdx (x i))

end Deepali
