/-
  Model/TransformState.lean — layer E: the buffer / parameter-sharing state machine of
  `SpatialTransform` objects (properties C09 and the `C07_shared_params` clause of C07).

  Core Lean only. The model is pure bookkeeping (no scalars): tensors are *cells* holding a
  version-coded content, grids and conditioning arguments are version numbers, an evaluation
  (`call`, `disp`) yields the versions it used (`Obs`).

  What is transcribed (branch by branch, as the code stands AFTER the repairs 1ce28a8 — B-spline
  `grid_` clears the buffers —, 3110eb9 — `__copy__` copies the `_parameters` container —, 20bab42 —
  `link_` deletes a registered parameter `params` first — and the repair of F-15f/g:
  `CompositeTransform.__copy__` gives the shallow copy of a composite shallow copies of its children,
  `copyAny`/`copyMembers`):
    src/deepali/spatial/base.py        SpatialTransform.__copy__ @53-71, condition_ @97-102,
                                       grid_ @131-139, _update_hook/register_update_hook @391-399,
                                       NonRigidTransform.tensor @498-525, clear_buffers @545-553
    src/deepali/spatial/parametric.py  __init__ @63-96, reset_parameters @102-111, data @128-157,
                                       data_ @159-198, _data @200-233, link/link_ @235-274,
                                       unlink/unlink_ @276-285, update @287-293, inverse @330-358
    src/deepali/spatial/nonrigid.py    DenseVectorFieldTransform.grid_ @118-144, evaluate @146-156,
                                       DisplacementFieldTransform.update @191-196,
                                       StationaryVelocityFieldTransform.inverse @253-284, update @286-293
    src/deepali/spatial/bspline.py     BSplineTransform.grid_ @86-142, FreeFormDeformation.update
                                       @216-221, StationaryVelocityFreeFormDeformation.inverse
                                       @256-287, update @289-296
    src/deepali/spatial/composite.py   CompositeTransform.condition_ @149-155, disp @157-179,
                                       update @181-186, clear_buffers @188-193,
                                       Multi/SequentialTransform.forward, SequentialTransform.inverse @316-348
    torch.nn.Module                    __setattr__/__getattr__/__delattr__/register_buffer/
                                       register_parameter (documented semantics; the typed slots
                                       `_parameters`, `_buffers`, `_modules` and the lookup order)

  Abstractions (stated in harness ASSUMPTIONS):
    * grids are the versions `g` of one family on a fixed domain, `size(g) = 4·2^g + 1`; hence for a
      B-spline transform "new size = 2n − 1" ⇔ `g' = g + 1`, "same size" ⇔ `g' = g`.
    * re-gridding a tensor-held parameter (resampling for dense fields, subdivision for B-splines)
      creates a *new* tensor with the *same* content version: the model assumes the clause
      `C09_regrid_preserves_world`; it is checked by the oracle, not proved here.
    * arguments of `data_`/`data(arg)` are plain tensors (never `nn.Parameter`).
    * composites have leaf members only (depth 1).

  Deviation from DESIGN.md Appendix B: finite maps are functions `Nat → _` with allocation
  counters (instead of association lists) and `Op` carries the version written by the op.
-/
namespace Deepali.TState

/-- Python class of a transform. The flag of `dvf`/`svf` is `stride = 1` (else `stride = 2`): it decides
    when `evaluate()` returns a *view* of the data tensor (nonrigid.py @150-156), see `isView`. -/
inductive Cls
  | dvf (stride1 : Bool) | svf (stride1 : Bool) | ffd | svffd | seq | multi
  deriving DecidableEq, Repr

/-- `type(self)` (link_ compares Python types, not strides). -/
def Cls.pyType : Cls → Nat
  | .dvf _ => 0 | .svf _ => 1 | .ffd => 2 | .svffd => 3 | .seq => 4 | .multi => 5

def Cls.isComposite : Cls → Bool
  | .seq | .multi => true
  | _ => false

def Cls.isBSpline : Cls → Bool
  | .ffd | .svffd => true
  | _ => false

/-- content of a tensor: a version-coded literal, or the value `f(condition c)` of callable `f`. -/
inductive Content
  | lit (v : Nat) | pred (f c : Nat)
  deriving DecidableEq, Repr

/-- exception classes (what the harness maps Python exceptions to). -/
inductive Err
  | assert | value | type | attr | notimpl | readonly | noobj | inplace
  deriving DecidableEq, Repr

/-- a value of the attribute `params`. -/
inductive Val
  | none | param (c : Nat) | tensor (c : Nat) | fn (f : Nat) | fnmod (f : Nat) | obj (o : Nat)
  deriving DecidableEq, Repr

/-- `callable(params)` (parametric.py: plain functions, `nn.Module`s and linked transforms). -/
def Val.callable : Val → Bool
  | .fn _ | .fnmod _ | .obj _ => true
  | _ => false

/-- where the *instance* keeps `params`, apart from the shared `_parameters` container:
    its `__dict__`, its own `_buffers`, its own `_modules` (both copied by `__copy__`). -/
inductive Slot
  | absent | dict (v : Val) | buf (c : Option Nat) | mod (m : Option Val)
  deriving DecidableEq, Repr

/-- the versions an evaluation used; the conditioning version is part of `pred f c`. -/
structure Obs where
  params : Content
  grid : Nat
  inverted : Bool
  deriving DecidableEq, Repr

/-- the conditioning version an evaluation used (only callables use one). -/
def Obs.condVer (o : Obs) : Option Nat :=
  match o.params with
  | .pred _ c => some c
  | .lit _ => none

/-- a buffered field `u`/`v`: a snapshot tagged with what it was computed from, or a view of a cell. -/
inductive UBuf
  | snap (o : Obs) | view (cell grid : Nat) (inverted : Bool)
  deriving DecidableEq, Repr

/-- one SpatialTransform instance. `pdict` is the id of its `_parameters` container; `slot`, `p`,
    `u`, `v` live in `__dict__`/`_buffers`/`_modules`. `__copy__` copies ALL these containers
    (fix 3110eb9: `_parameters` too — the copy gets a new container holding the same entries, so
    the Parameter *tensors* stay shared, the registration does not). -/
structure Obj where
  cls : Cls
  pdict : Nat
  slot : Slot
  p : Option Nat
  u : Option UBuf
  v : Option UBuf
  grid : Nat
  cond : Nat
  invert : Bool
  members : List Nat
  deriving DecidableEq, Repr

structure World where
  objs : Nat → Option Obj
  cells : Nat → Content
  /-- spatial shape of tensor `k`, as the grid version whose `data_shape` it has. -/
  shapes : Nat → Nat
  /-- `_parameters['params']` of container `k`: `none` = key absent, `some none` = `None`. -/
  pdicts : Nat → Option (Option Nat)
  nObj : Nat
  nCell : Nat
  nDict : Nat

def World.empty : World :=
  ⟨fun _ => none, fun _ => .lit 0, fun _ => 0, fun _ => none, 0, 0, 0⟩

def World.setObj (w : World) (id : Nat) (o : Obj) : World :=
  { w with objs := fun i => if i = id then some o else w.objs i }

def World.addObj (w : World) (o : Obj) : World × Nat :=
  ({ w with objs := fun i => if i = w.nObj then some o else w.objs i, nObj := w.nObj + 1 }, w.nObj)

def World.newCell (w : World) (c : Content) (sg : Nat) : World × Nat :=
  ({ w with cells := fun i => if i = w.nCell then c else w.cells i,
            shapes := fun i => if i = w.nCell then sg else w.shapes i, nCell := w.nCell + 1 }, w.nCell)

def World.setCell (w : World) (k : Nat) (c : Content) : World :=
  { w with cells := fun i => if i = k then c else w.cells i }

def World.setPdict (w : World) (k : Nat) (e : Option Nat) : World :=
  { w with pdicts := fun i => if i = k then some e else w.pdicts i }

/-- `del self._parameters["params"]` -/
def World.delPdict (w : World) (k : Nat) : World :=
  { w with pdicts := fun i => if i = k then none else w.pdicts i }

/-- `self.params`: instance `__dict__` first, then `Module.__getattr__`: `_parameters`,
    `_buffers`, `_modules`. (`absent` with no shared key would be an AttributeError; every
    constructor path sets `params`, so that branch is unreachable and reads as `None`.) -/
def World.lookup (w : World) (o : Obj) : Val :=
  match o.slot with
  | .dict v => v
  | s =>
    match w.pdicts o.pdict with
    | some (some c) => .param c
    | some none => .none
    | none =>
      match s with
      | .buf (some c) => .tensor c
      | .mod (some m) => m
      | _ => .none

/-- `self.params = val` — torch `Module.__setattr__` (typed slots). -/
def setParams (w : World) (o : Obj) (val : Val) : Except Err (World × Obj) :=
  match val with
  | .param c =>
    -- isinstance(value, Parameter): remove_from(__dict__, _buffers, _modules); register_parameter
    .ok (w.setPdict o.pdict (some c), { o with slot := .absent })
  | _ =>
    match w.pdicts o.pdict with
    | some _ =>
      -- name in self._parameters: only None may be assigned (this is F-07's TypeError)
      match val with
      | .none => .ok (w.setPdict o.pdict none, o)
      | _ => .error .type
    | none =>
      match val with
      | .obj _ | .fnmod _ =>
        -- isinstance(value, Module): remove_from(__dict__, _parameters, _buffers); modules[name] = value
        .ok (w, { o with slot := .mod (some val) })
      | _ =>
        match o.slot with
        | .mod _ =>
          -- name in modules: "cannot assign … as child module (torch.nn.Module or None expected)"
          match val with
          | .none => .ok (w, { o with slot := .mod none })
          | _ => .error .type
        | .buf _ =>
          -- name in buffers: Tensor or None
          match val with
          | .none => .ok (w, { o with slot := .buf none })
          | .tensor c => .ok (w, { o with slot := .buf (some c) })
          | _ => .error .type
        | _ => .ok (w, { o with slot := .dict val })

/-- base.py `NonRigidTransform.clear_buffers` @545-553 on a leaf. -/
def clearLeaf (w : World) (id : Nat) : World :=
  match w.objs id with
  | some o => w.setObj id { o with u := none, v := none }
  | none => w

/-- composite.py `CompositeTransform.clear_buffers` @188-193 (leaf: the above). -/
def clearObj (w : World) (id : Nat) : World :=
  match w.objs id with
  | some o => o.members.foldl clearLeaf (clearLeaf w id)
  | none => w

/-- parametric.py `data()` getter @132-138: `params` if a tensor, buffer `p` if callable. -/
def dataCell (w : World) (o : Obj) : Except Err Nat :=
  match w.lookup o with
  | .none => .error .assert
  | .param c | .tensor c => .ok c
  | _ => match o.p with
    | some c => .ok c
    | none => .error .attr

/-- parametric.py `_data()` @200-233: linked → `other.data()`; callable → evaluate on the
    condition (a new tensor); tensor → itself. -/
def freshData (w : World) (o : Obj) : Except Err (World × Nat) :=
  match w.lookup o with
  | .none => .error .assert
  | .obj s =>
    match w.objs s with
    | none => .error .noobj
    | some so =>
      match dataCell w so with
      | .ok c => .ok (w, c)
      | .error e => .error e
  | .fn f | .fnmod f => .ok (w.newCell (.pred f o.cond) o.grid)
  | .param c | .tensor c => .ok (w, c)

/-- nonrigid.py `evaluate` @150-156: `grid_reshape(u, grid.shape)` is the identity (so `u` is a view of the
    data tensor) exactly when the tensor's spatial shape equals the grid's. A tensor made for grid
    version `sg` has the shape of grid `sg` for stride 1 and of grid `sg − 1` for stride 2
    (`ceil((4·2^sg + 1)/2) = 4·2^(sg−1) + 1`). -/
def isView (stride1 : Bool) (sg g : Nat) : Bool :=
  if stride1 then sg == g else sg == g + 1

def World.readBuf (w : World) : UBuf → Obs
  | .snap o => o
  | .view c g i => ⟨w.cells c, g, i⟩

/-- the buffers the class-specific `update()` registers from `self.data()` = cell `c`
    (nonrigid.py @191-196, @286-293; bspline.py @216-221, @289-296). `u` is registered AFTER it
    was evaluated. Dense `evaluate()` returns a view of the data tensor exactly when stride = 1 and the
    tensor already has the grid's shape (`grid_reshape` is then the identity), else a resized copy. -/
def registerUV (w : World) (o : Obj) (c : Nat) : Obj :=
  let snapU : UBuf := .snap ⟨w.cells c, o.grid, o.invert⟩
  let snapV : UBuf := .snap ⟨w.cells c, o.grid, false⟩
  match o.cls with
  | .dvf a => { o with u := some (if isView a (w.shapes c) o.grid then .view c o.grid o.invert else snapU) }
  | .svf a => { o with v := some (if isView a (w.shapes c) o.grid then .view c o.grid false else snapV), u := some snapU }
  | .ffd => { o with u := some snapU }
  | .svffd => { o with v := some snapV, u := some snapU }
  | _ => o

/-- `update()` of a leaf: parametric.py @287-293 (refresh `p` when present), then the class update. -/
def updateLeaf (w : World) (id : Nat) (o : Obj) : Except Err World :=
  let r : Except Err (World × Obj) :=
    match o.p with
    | some _ =>
      match freshData w o with
      | .ok (w', c) => .ok (w', { o with p := some c })
      | .error e => .error e
    | none => .ok (w, o)
  match r with
  | .error e => .error e
  | .ok (w1, o1) =>
    match dataCell w1 o1 with
    | .error e => .error e
    | .ok c => .ok (w1.setObj id (registerUV w1 o1 c))

/-- base.py `NonRigidTransform.tensor()` @506-525: `u` if registered, else `self.update().u`. -/
def tensorLeaf (w : World) (id : Nat) : Except Err (World × Obs) :=
  match w.objs id with
  | none => .error .noobj
  | some o =>
    match o.u with
    | some b => .ok (w, w.readBuf b)
    | none =>
      match updateLeaf w id o with
      | .error e => .error e
      | .ok w' =>
        match (w'.objs id).bind (·.u) with
        | some b => .ok (w', w'.readBuf b)
        | none => .error .assert

/-- sequential pass over members; on an error the state reached so far is kept (as in Python). -/
def updateMembers (w : World) : List Nat → World × Option Err
  | [] => (w, none)
  | m :: ms =>
    match w.objs m with
    | none => (w, some .noobj)
    | some o =>
      match updateLeaf w m o with
      | .error e => (w, some e)
      | .ok w' => updateMembers w' ms

/-- members' `forward` → `tensor()` one after the other (composite.py forward @208-232, @271-289). -/
def tensorMembers (w : World) : List Nat → World × Except Err (List Obs)
  | [] => (w, .ok [])
  | m :: ms =>
    match tensorLeaf w m with
    | .error e => (w, .error e)
    | .ok (w', ob) =>
      match tensorMembers w' ms with
      | (w'', .ok obs) => (w'', .ok (ob :: obs))
      | (w'', .error e) => (w'', .error e)

/-- base.py `__copy__` @66-71: copies `__dict__`, `_parameters`, `_buffers`, `_modules` (containers,
    not the objects registered in them). -/
def copyRec (w : World) (o : Obj) : Obj := { o with pdict := w.nDict }

/-- the shallow copy: a NEW `_parameters` container (id `w.nDict`) with the same entry, the record
    `copyRec w o` stored under the next object id. -/
def World.copyDict (w : World) (k : Nat) : World :=
  { w with pdicts := fun i => if i = w.nDict then w.pdicts k else w.pdicts i, nDict := w.nDict + 1 }

def copyObj (w : World) (o : Obj) : World × Nat :=
  (w.copyDict o.pdict).addObj (copyRec w o)

/-- composite.py `CompositeTransform.__copy__` (repair of F-15f/g): the children of a shallow copy of
    a composite are shallow copies of the original's children, made in order (leaf copy rule). -/
def copyMembers (w : World) : List Nat → World × List Nat
  | [] => (w, [])
  | m :: ms =>
    match w.objs m with
    | none => let r := copyMembers w ms; (r.1, m :: r.2)       -- unreachable: members exist
    | some o =>
      let r := copyMembers (copyObj w o).1 ms
      (r.1, (copyObj w o).2 :: r.2)

/-- `shallow_copy(t)`: a leaf by `SpatialTransform.__copy__`; a composite additionally gets copies of
    its children (`copy._transforms = ModuleDict(… shallow_copy(child) …)`). The composite copy is
    numbered first, its child copies next, in order. -/
def copyAny (w : World) (o : Obj) : World × Nat :=
  if o.cls.isComposite then
    let r := copyMembers (copyObj w o).1 o.members
    (r.1.setObj (copyObj w o).2 { copyRec w o with members := r.2 }, (copyObj w o).2)
  else copyObj w o

/-- parametric.py `link_` from `self.params = other` on (@265-274): assign through `__setattr__`,
    then make sure a buffer `p` exists. Returns the (possibly partially modified) world and an error. -/
def linkCore (w : World) (id : Nat) (o : Obj) (oid : Nat) (other : Obj) : World × Option Err :=
  match setParams w o (.obj oid) with
  | .error e => (w, some e)
  | .ok (w1, o1) =>
    match o1.p with
    | some _ => (w1.setObj id o1, none)
    | none =>
      match w1.lookup other with
      | .none =>
        -- p = torch.empty(...); register; reset_parameters(): zero `p`, clear buffers
        let (w2, c) := w1.newCell (.lit 0) o1.grid
        (clearLeaf (w2.setObj id { o1 with p := some c }) id, none)
      | _ =>
        match dataCell w1 other with
        | .ok c => (w1.setObj id { o1 with p := some c }, none)
        | .error e => (w1.setObj id o1, some e)

/-- parametric.py `link_` @241-274: the checks, then (fix 20bab42)
    `if "params" in self._parameters: del self._parameters["params"]`, then `linkCore`. -/
def linkInto (w : World) (id : Nat) (o : Obj) (oid : Nat) : World × Option Err :=
  if oid = id then (w, some .value) else
  match w.objs oid with
  | none => (w, some .noobj)
  | some other =>
    if other.cls.pyType ≠ o.cls.pyType then (w, some .type) else
    linkCore (if (w.pdicts o.pdict).isSome then w.delPdict o.pdict else w) id o oid other

/-- parametric.py `unlink_` @280-285. -/
def unlinkInto (w : World) (id : Nat) (o : Obj) : Except Err World :=
  match setParams w o .none with
  | .error e => .error e
  | .ok (w1, o1) => .ok (w1.setObj id { o1 with p := none })

/-- parametric.py @193-196 / @152-155: a plain tensor replacing a Parameter is wrapped as Parameter. -/
def wrapLike (cur : Val) (c : Nat) : Val :=
  match cur with
  | .param _ => .param c
  | _ => .tensor c

/-- parametric.py @193-197 / @152-156: wrap like the current value, assign through `__setattr__`,
    `clear_buffers()`. `cur` is what `self.params` was read as at the start of the method. -/
def assignData (w : World) (id : Nat) (o : Obj) (cur : Val) (ver : Content) : Except Err World :=
  let w1 := (w.newCell ver o.grid).1
  let c := (w.newCell ver o.grid).2
  match setParams w1 o (wrapLike cur c) with
  | .error e => .error e
  | .ok (w2, o2) => .ok (clearLeaf (w2.setObj id o2) id)

/-- parametric.py `data_` @159-198 (shapes always match in the harness). -/
def dataSet (w : World) (id : Nat) (o : Obj) (ver : Content) : Except Err World :=
  if (w.lookup o).callable then .error .readonly else assignData w id o (w.lookup o) ver

/-- base.py `grid_` @131-139. -/
def baseGrid (w : World) (id : Nat) (o : Obj) (g : Nat) : World :=
  if o.grid = g then w else
  let w1 := clearObj w id
  match w1.objs id with
  | some o1 => w1.setObj id { o1 with grid := g }
  | none => w1

/-- `grid_` per class: nonrigid.py @118-144 (dense: resample + `data_`), bspline.py @86-142
    (subdivision only; `_grid` assigned directly, buffers untouched unless `data_` runs). -/
def gridSet (w : World) (id : Nat) (o : Obj) (g : Nat) : World × Option Err :=
  if o.cls.isComposite then (baseGrid w id o g, none) else
  if o.cls.isBSpline then
    match w.lookup o with
    | .param c | .tensor c =>
      if g = o.grid then (w, none)                    -- same size everywhere: `_grid = grid`, nothing else
      else if g = o.grid + 1 then
        -- fix 1ce28a8: `if self._grid != grid: self.clear_buffers()`, then `_grid = grid`, then `data_`
        let w1 := w.setObj id { o with u := none, v := none, grid := g }
        match dataSet w1 id { o with u := none, v := none, grid := g } (w.cells c) with
        | .ok w2 => (w2, none)
        | .error e => (w1, some e)
      else (w, some .value)
    | _ =>
      if g = o.grid then (w, none)
      else (w.setObj id { o with u := none, v := none, grid := g }, none)
  else
    match w.lookup o with
    | .param c | .tensor c =>
      let w1 := baseGrid w id o g
      match w1.objs id with
      | none => (w1, some .noobj)
      | some o1 =>
        match dataSet w1 id o1 (w.cells c) with
        | .ok w2 => (w2, none)
        | .error e => (w1.setObj id { o1 with grid := o.grid }, some e)
    | _ => (baseGrid w id o g, none)

/-- base.py `condition_` @97-102 on a leaf: clear buffers, set the arguments. -/
def condOne (c : Nat) (w : World) (i : Nat) : World :=
  match (clearLeaf w i).objs i with
  | some o => (clearLeaf w i).setObj i { o with cond := c }
  | none => clearLeaf w i

/-- base.py `condition_` @97-102 / composite.py @149-155 (own clear_buffers — recursive for a
    composite — and arguments first, then every member's `condition_`). -/
def condSet (w : World) (id : Nat) (c : Nat) : World :=
  match w.objs id with
  | none => w
  | some o =>
    o.members.foldl (condOne c)
      (match (clearObj w id).objs id with
       | some o1 => (clearObj w id).setObj id { o1 with cond := c }
       | none => clearObj w id)

/-- parametric.py `reset_parameters` @102-111: zero `params` (or `p` if callable) IN PLACE, clear. -/
def resetParams (w : World) (id : Nat) (o : Obj) : Except Err World :=
  match w.lookup o with
  | .none => .ok w
  | .param c | .tensor c => .ok (clearLeaf (w.setCell c (.lit 0)) id)
  | _ =>
    match o.p with
    | some c => .ok (clearLeaf (w.setCell c (.lit 0)) id)
    | none => .error .attr

/-- classes that implement `inverse` (nonrigid.py @253, bspline.py @256); the others inherit
    base.py `inverse` @421-447: NotImplementedError. -/
def Cls.invertible : Cls → Bool
  | .svf _ | .svffd => true
  | _ => false

/-- tail of `inverse`: `inv.exp = self.exp.inverse()` (the flag), and with `update_buffers=True`
    `u = inv.exp(v)` from the COPIED buffer `v` if there is one (nonrigid.py @278-283). -/
def invFinish (w : World) (oi : Obj) (inv ub : Bool) : Obj :=
  if ub then
    match oi.v with
    | some b => { oi with invert := inv, u := some (.snap ⟨(w.readBuf b).params, (w.readBuf b).grid, inv⟩) }
    | none => { oi with invert := inv }
  else { oi with invert := inv }

/-- inverse of a leaf: nonrigid.py @275-284, bspline.py @278-287 (SVF/SVFFD only). -/
def inverseLeaf (w : World) (id : Nat) (o : Obj) (link ub : Bool) : Except Err (World × Nat) :=
  if o.cls.invertible then
    let nid := (copyObj w o).2
    let r : World × Option Err :=
      if link then linkInto (copyObj w o).1 nid (copyRec w o) id else ((copyObj w o).1, none)
    match r.2 with
    | some e => .error e
    | none =>
      match r.1.objs nid with
      | none => .error .noobj
      | some oi => .ok (r.1.setObj nid (invFinish r.1 oi (!o.invert) ub), nid)
  else .error .notimpl

/-- composite.py `SequentialTransform.inverse` @342-348: shallow copy, members inverted in reverse order. -/
def inverseMembers (w : World) (link ub : Bool) : List Nat → Except Err (World × List Nat)
  | [] => .ok (w, [])
  | m :: ms =>
    match w.objs m with
    | none => .error .noobj
    | some o =>
      match inverseLeaf w m o link ub with
      | .error e => .error e
      | .ok (w1, nid) =>
        match inverseMembers w1 link ub ms with
        | .error e => .error e
        | .ok (w2, ids) => .ok (w2, nid :: ids)

inductive Kind
  | none | param | buffer | fn (f : Nat) | fnmod (f : Nat)
  deriving DecidableEq, Repr

inductive Op
  | mk (cls : Cls) (k : Kind) (v g : Nat)
  | mkcomp (cls : Cls) (members : List Nat) (g : Nat)
  | copy (o : Nat)
  | inverse (o : Nat) (link ub : Bool)
  | link_ (a b : Nat) | link (a b : Nat)
  | unlink_ (o : Nat) | unlink (o : Nat)
  | data_ (o v : Nat) | dataCopy (o v : Nat) | dataGet (o : Nat)
  | inplace (o v : Nat)
  | grid_ (o g : Nat) | gridCopy (o g : Nat)
  | condition_ (o c : Nat) | condCopy (o c : Nat)
  | reset (o : Nat) | update (o : Nat) | call (o : Nat) | disp (o : Nat) | clear (o : Nat)
  deriving Repr

inductive Out
  | ok | new (id : Nat) | obs (l : List Obs) | val (c : Content) | err (e : Err)
  deriving DecidableEq, Repr

/-- parametric.py `__init__` @63-96 for a leaf class. -/
def mkLeaf (w : World) (cls : Cls) (k : Kind) (v g : Nat) : World × Nat :=
  let pd := w.nDict
  let w := { w with nDict := w.nDict + 1 }
  let base : Obj := ⟨cls, pd, .absent, none, none, none, g, 0, false, []⟩
  match k with
  | .none => w.addObj { base with slot := .dict .none }
  | .param =>
    let (w1, c) := w.newCell (.lit v) g
    (w1.setPdict pd (some c)).addObj base
  | .buffer =>
    let (w1, c) := w.newCell (.lit v) g
    w1.addObj { base with slot := .buf (some c) }
  | .fn f =>
    let (w1, c) := w.newCell (.lit 0) g
    w1.addObj { base with slot := .dict (.fn f), p := some c }
  | .fnmod f =>
    let (w1, c) := w.newCell (.lit 0) g
    w1.addObj { base with slot := .mod (some (.fnmod f)), p := some c }

/-- one operation. Operations that create an object return `new id`; a failing creating
    operation leaves the world as it was (the half-built copy is unreachable). -/
def step (w : World) : Op → World × Out
  | .mk cls k v g =>
    if cls.isComposite then (w, .err .type) else
    let (w', id) := mkLeaf w cls k v g
    (w', .new id)
  | .mkcomp cls ms g =>
    if !cls.isComposite then (w, .err .type) else
    if ms.all (fun m => match w.objs m with | some o => !o.cls.isComposite | none => false) then
      let pd := w.nDict
      let (w', id) := ({ w with nDict := w.nDict + 1 }).addObj ⟨cls, pd, .absent, none, none, none, g, 0, false, ms⟩
      (w', .new id)
    else (w, .err .type)
  | .copy id =>
    match w.objs id with
    | none => (w, .err .noobj)
    | some o => ((copyAny w o).1, .new (copyAny w o).2)
  | .inverse id link ub =>
    match w.objs id with
    | none => (w, .err .noobj)
    | some o =>
      match o.cls with
      | .seq =>
        -- `copy = shallow_copy(self)` also copies the children, but `copy._transforms` is replaced by the
        -- inverses right away: those temporary child copies are unreachable and not numbered
        let (w1, cid) := copyObj w o
        match inverseMembers w1 link ub o.members.reverse with
        | .error e => (w, .err e)
        | .ok (w2, ids) => (w2.setObj cid { copyRec w o with members := ids }, .new cid)
      | .multi => (w, .err .notimpl)
      | _ =>
        match inverseLeaf w id o link ub with
        | .error e => (w, .err e)
        | .ok (w', n) => (w', .new n)
  | .link_ a b =>
    match w.objs a with
    | none => (w, .err .noobj)
    | some o =>
      if o.cls.isComposite then (w, .err .attr) else
      match linkInto w a o b with
      | (w', none) => (w', .ok)
      | (w', some e) => (w', .err e)
  | .link a b =>
    match w.objs a with
    | none => (w, .err .noobj)
    | some o =>
      if o.cls.isComposite then (w, .err .attr) else
      if (w.objs b).isNone then (w, .err .noobj) else
      let (w1, n) := copyObj w o
      match linkInto w1 n (copyRec w o) b with
      | (w', none) => (w', .new n)
      | (_, some e) => (w, .err e)
  | .unlink_ id =>
    match w.objs id with
    | none => (w, .err .noobj)
    | some o =>
      if o.cls.isComposite then (w, .err .attr) else
      match unlinkInto w id o with
      | .ok w' => (w', .ok)
      | .error e => (w, .err e)
  | .unlink id =>
    match w.objs id with
    | none => (w, .err .noobj)
    | some o =>
      if o.cls.isComposite then (w, .err .attr) else
      let (w1, n) := copyObj w o
      match unlinkInto w1 n (copyRec w o) with
      | .ok w' => (w', .new n)
      | .error e => (w, .err e)
  | .data_ id v =>
    match w.objs id with
    | none => (w, .err .noobj)
    | some o =>
      if o.cls.isComposite then (w, .err .attr) else
      match dataSet w id o (.lit v) with
      | .ok w' => (w', .ok)
      | .error e => (w, .err e)
  | .dataCopy id v =>
    -- parametric.py `data(arg)` @139-157: shallow copy; delattr(copy, "p") if callable; assign; clear
    match w.objs id with
    | none => (w, .err .noobj)
    | some o =>
      if o.cls.isComposite then (w, .err .attr) else
      let cur := w.lookup o
      if cur.callable && o.p.isNone then (w, .err .attr) else
      let oc : Obj := if cur.callable then { o with p := none } else o
      -- the shallow copy (new `_parameters` container, next id) enters the world once `assignData`
      -- has stored it
      match assignData { w.copyDict oc.pdict with nObj := w.nObj + 1 } w.nObj (copyRec w oc) cur (.lit v) with
      | .error e => (w, .err e)
      | .ok w' => (w', .new w.nObj)
  | .dataGet id =>
    match w.objs id with
    | none => (w, .err .noobj)
    | some o =>
      if o.cls.isComposite then (w, .err .attr) else
      match dataCell w o with
      | .ok c => (w, .val (w.cells c))
      | .error e => (w, .err e)
  | .inplace id v =>
    -- harness: `with no_grad(): t.params.copy_(new)` when `t.params` is a tensor
    match w.objs id with
    | none => (w, .err .noobj)
    | some o =>
      match w.lookup o with
      | .param c | .tensor c => (w.setCell c (.lit v), .ok)
      | _ => (w, .err .inplace)
  | .grid_ id g =>
    match w.objs id with
    | none => (w, .err .noobj)
    | some o =>
      match gridSet w id o g with
      | (w', none) => (w', .ok)
      | (w', some e) => (w', .err e)
  | .gridCopy id g =>
    match w.objs id with
    | none => (w, .err .noobj)
    | some o =>
      match (copyAny w o).1.objs (copyAny w o).2 with
      | none => (w, .err .noobj)
      | some oc =>
        match gridSet (copyAny w o).1 (copyAny w o).2 oc g with
        | (w', none) => (w', .new (copyAny w o).2)
        | (_, some e) => (w, .err e)
  | .condition_ id c =>
    match w.objs id with
    | none => (w, .err .noobj)
    | some _ => (condSet w id c, .ok)
  | .condCopy id c =>
    match w.objs id with
    | none => (w, .err .noobj)
    | some o =>
      (condSet (copyAny w o).1 (copyAny w o).2 c, .new (copyAny w o).2)
  | .reset id =>
    match w.objs id with
    | none => (w, .err .noobj)
    | some o =>
      if o.cls.isComposite then (w, .err .attr) else
      match resetParams w id o with
      | .ok w' => (w', .ok)
      | .error e => (w, .err e)
  | .update id =>
    match w.objs id with
    | none => (w, .err .noobj)
    | some o =>
      if o.cls.isComposite then
        match updateMembers w o.members with
        | (w', none) => (w', .ok)
        | (w', some e) => (w', .err e)
      else
        match updateLeaf w id o with
        | .ok w' => (w', .ok)
        | .error e => (w, .err e)
  | .call id =>
    -- `transform(x)`: forward pre-hook `update()` (base.py @391-399), then `forward`
    match w.objs id with
    | none => (w, .err .noobj)
    | some o =>
      if o.cls.isComposite then
        match updateMembers w o.members with
        | (w', some e) => (w', .err e)
        | (w', none) =>
          match tensorMembers w' o.members with
          | (w'', .ok obs) => (w'', .obs obs)
          | (w'', .error e) => (w'', .err e)
      else
        match updateLeaf w id o with
        | .error e => (w, .err e)
        | .ok w' =>
          match tensorLeaf w' id with
          | .ok (w'', ob) => (w'', .obs [ob])
          | .error e => (w', .err e)
  | .disp id =>
    -- `disp()`: `tensor()` without the hook (base.py @294-338; composite.py @157-179 → forward)
    match w.objs id with
    | none => (w, .err .noobj)
    | some o =>
      if o.cls.isComposite then
        match tensorMembers w o.members with
        | (w', .ok obs) => (w', .obs obs)
        | (w', .error e) => (w', .err e)
      else
        match tensorLeaf w id with
        | .ok (w', ob) => (w', .obs [ob])
        | .error e => (w, .err e)
  | .clear id =>
    match w.objs id with
    | none => (w, .err .noobj)
    | some _ => (clearObj w id, .ok)

/-- run a history, collecting the outputs. -/
def runOuts (w : World) : List Op → World × List Out
  | [] => (w, [])
  | op :: ops =>
    let (w1, o) := step w op
    let (w2, os) := runOuts w1 ops
    (w2, o :: os)

def run (w : World) (ops : List Op) : World := ops.foldl (fun w op => (step w op).1) w

/-- what a leaf holds NOW, independent of its buffers `u`/`v`/own `p`: the content of the
    tensor its `params` resolves to (a linked transform: what the linked-to transform's `data()`
    returns now — I-10), its grid, its inversion flag. -/
def current (w : World) (id : Nat) : Except Err Obs :=
  match w.objs id with
  | none => .error .noobj
  | some o =>
    match w.lookup o with
    | .none => .error .assert
    | .param c | .tensor c => .ok ⟨w.cells c, o.grid, o.invert⟩
    | .fn f | .fnmod f => .ok ⟨.pred f o.cond, o.grid, o.invert⟩
    | .obj s =>
      match w.objs s with
      | none => .error .noobj
      | some so =>
        match dataCell w so with
        | .ok c => .ok ⟨w.cells c, o.grid, o.invert⟩
        | .error e => .error e

end Deepali.TState
