/-
  Model/Transforms.lean — spatial transformation models (properties C06, C07).
  src: src/deepali/spatial/linear.py   (parameter → tensor per class incl. the `invert` flag, reset_parameters)
       src/deepali/spatial/parametric.py (reset_parameters @103-111, InvertibleParametricTransform.inverse @330-358)
       src/deepali/spatial/composite.py  (CompositeTransform.disp @157-179, MultiLevelTransform @197-254,
                                          SequentialTransform @257-348)
       src/deepali/spatial/base.py       (SpatialTransform.forward @228-242, points @244-292, disp @294-339,
                                          LinearTransform.matrix @471-477, NonRigidTransform.tensor @499-525)
       src/deepali/spatial/transformer.py (ImageTransformer.__init__ @126-170, forward @202-213,
                                          PointSetTransformer.forward @283-301)
       src/deepali/modules/sample.py     (SampleImage._matrix @92-100, forward @205-213, _sample_source_image @155-161)
       src/deepali/core/pointset.py      (transform_grid @225-268, transform_points @271-314)
       src/deepali/core/flow.py          (affine_flow @21-55, sample_flow @790-841, warp_grid @844-893, warp_points @896-926)

  Core Lean only.  The model follows the code as it stands.  Repaired in /repo and followed here (FINDINGS_C06.md):
  F-06a `QuaternionRotation.reset_parameters` writes (w, x, y, z) = (1, 0, 0, 0) (4602d00); F-06d
  `HomogeneousTransform.reset_parameters` writes `[I | 0]` (5a1bee8); F-06b `MultiLevelTransform.tensor()` of linear
  members is `Σ Aᵢ − (n−1)·I | Σ tᵢ`, computed out of place (23e4cf3); F-20a `CompositeTransform.disp` maps the points
  of a foreign grid with `decimals=None` (1b0b194); F-08a `as_homogeneous_matrix` accepts `(N, D, 1)` (8afe377).
  F-06e base-class `disp(grid)` of a linear transform conjugates the matrix through the grid maps when `grid` has another
  domain (eb11384); F-06g non-rigid `disp(grid)` converts the sampled vectors to the cube axes of `grid` when the
  `align_corners` flags differ (8e0bb59); F-06f `ImageTransformer.forward` passes `grid=self._grid_is_lattice` (c2e2ce2).
  Squashed parameters (`tanh(p)·π`, `exp(tanh(p−1))`, `tan(…)`, `cos`, `sin`) are passed in as VALUES.
  Everything is per batch element (batch broadcasting of tensors is property C08's business).
-/
import Deepali.Model.Kornia
import Deepali.Model.FlowOps
namespace Deepali

/-! ## 1. Linear transformation classes: parameters → `tensor()` -/

section linear
variable {α : Type} [Add α] [Sub α] [Mul α] [Div α] [Neg α] [NatCast α]

/-- `torch.inverse` of a 2×2 matrix, modelled by its documented semantics (the matrix inverse),
    written as adjugate / determinant. -/
def matInv2 (A : Mat 2 α) : Mat 2 α :=
  let det := affineDet2 A
  affMat2 (affVec2 (A 1 1 / det) (-(A 0 1) / det)) (affVec2 (-(A 1 0) / det) (A 0 0 / det))

/-- `torch.inverse` of a 3×3 matrix (adjugate / determinant). -/
def matInv3 (A : Mat 3 α) : Mat 3 α :=
  let det := affineDet3 A
  affMat3 (affVec3 ((A 1 1 * A 2 2 - A 1 2 * A 2 1) / det) ((A 0 2 * A 2 1 - A 0 1 * A 2 2) / det)
             ((A 0 1 * A 1 2 - A 0 2 * A 1 1) / det))
       (affVec3 ((A 1 2 * A 2 0 - A 1 0 * A 2 2) / det) ((A 0 0 * A 2 2 - A 0 2 * A 2 0) / det)
             ((A 0 2 * A 1 0 - A 0 0 * A 1 2) / det))
       (affVec3 ((A 1 0 * A 2 1 - A 1 1 * A 2 0) / det) ((A 0 1 * A 2 0 - A 0 0 * A 2 1) / det)
             ((A 0 0 * A 1 1 - A 0 1 * A 1 0) / det))

/-- `torch.inverse` for the dimensions deepali's transforms are defined in (grids are 2- or 3-D). -/
def matInv : (d : Nat) → Mat d α → Mat d α
  | 2, A => matInv2 A
  | 3, A => matInv3 A
  | _, A => A

variable {d : Nat}

/-- linear.py:Translation.tensor @125-135: `offset = -offset` when `invert`; `U.translation(offset)`
    returns the `(N, D, 1)` form. -/
def translationTensor (invert : Bool) (offset : Vec d α) : H d α :=
  translationH (if invert then offset.neg else offset) false

/-- linear.py:EulerRotation.tensor @228-238 for a 2-D grid (`c = cos θ`, `s = sin θ`). -/
def eulerTensor2 (invert : Bool) (c s : α) : H 2 α :=
  .aff (invertRotation invert (eulerRotationMatrix2 c s))

/-- linear.py:EulerRotation.tensor @228-238 for a 3-D grid: `angles()` has shape `(N, 3)`, hence one
    leading dimension; `order` is the string `self.order` (normalised by `euler_rotation_order`). -/
def eulerTensor3 (invert : Bool) (order : Option (List Char)) (c s : Vec 3 α) : Except String (H 3 α) := do
  let o ← eulerRotationOrder order 3
  let m ← eulerRotationMatrix3 o c s
  pure (.aff (invertRotation invert m))

/-- linear.py:QuaternionRotation.tensor @318-329: `quaternion_to_rotation_matrix(self.data())`
    (which normalises; `n = ‖q‖`), transposed when `invert`. -/
def quaternionTensor [LT α] [DecidableRel (α := α) (· < ·)] (invert : Bool) (q : Vec 4 α) (n eps : α) : H 3 α :=
  .aff (invertRotation invert (quaternionToRotationMatrix q n eps))

/-- linear.py:IsotropicScaling.tensor @405-416: `scales.expand(N, D)`; `1 / scales` when `invert`. -/
def isotropicScalingTensor (invert : Bool) (s : α) : H d α :=
  let s := if invert then ((1 : Nat) : α) / s else s
  .aff (scalingTransform (fun _ => s))

/-- linear.py:AnisotropicScaling.tensor @491-502. -/
def anisotropicScalingTensor (invert : Bool) (s : Vec d α) : H d α :=
  let s : Vec d α := if invert then (fun i => ((1 : Nat) : α) / s i) else s
  .aff (scalingTransform s)

/-- linear.py:Shearing.tensor @576-586: `torch.inverse(mat)` when `invert`; `t k = tan(angles[k])`. -/
def shearingTensor (invert : Bool) (t : Nat → α) : H d α :=
  let m : Mat d α := shearMatrix t
  .aff (if invert then matInv d m else m)

/-- linear.py:HomogeneousTransform.tensor @57-74: with `invert` the `(D+1)×(D+1)` matrix `[[A, t], [0, 1]]`
    is inverted by `torch.inverse` and the first `D` rows are kept, i.e. `[A⁻¹ | −A⁻¹ t]`. -/
def homogeneousTensor (invert : Bool) (A : Mat d α) (t : Vec d α) : H d α :=
  if invert then
    let Ai := matInv d A
    .hom Ai (Ai.mulVec t).neg
  else .hom A t

/-! ### default parameters (`reset_parameters`) as the values `tensor()` sees -/

/-- parametric.py:reset_parameters @103-111 `init.constant_(params, 0.0)`: Translation offset. -/
def defaultOffset : Vec d α := fun _ => ((0 : Nat) : α)
/-- EulerRotation: parameter 0 ↦ angle `tanh(0)·π = 0` (`eulerAnglesGet 0 π`), `cos 0 = 1`. -/
def defaultCos : α := ((1 : Nat) : α)
/-- … and `sin 0 = 0`. -/
def defaultSin : α := ((0 : Nat) : α)
/-- linear.py:QuaternionRotation.reset_parameters @287-292: `[1, 0, 0, 0]` as (w, x, y, z). -/
def defaultQuaternion : Vec 4 α := affVec4 ((1 : Nat) : α) ((0 : Nat) : α) ((0 : Nat) : α) ((0 : Nat) : α)
/-- linear.py:*Scaling.reset_parameters @371-376/@457-462 `init.constant_(params, 1)`:
    `scales() = exp(tanh(1 − 1)) = exp 0 = 1`. -/
def defaultScale : α := ((1 : Nat) : α)
/-- Shearing: parameter 0 ↦ angle `tanh(0)·π/4 = 0`, `tan 0 = 0`. -/
def defaultTan : Nat → α := fun _ => ((0 : Nat) : α)
/-- linear.py:HomogeneousTransform.reset_parameters @49-57: zero-filled by the base class, then the diagonal of the
    `(D, D+1)` matrix is set to 1, i.e. `[I | 0]`. -/
def defaultHomMatrix : Mat d α := Mat.one
def defaultHomOffset : Vec d α := fun _ => ((0 : Nat) : α)

end linear

/-! ## 2. Parametric transforms and `inverse()` (property C07) -/

section parametric
variable {α : Type} {d : Nat}

/-- an `InvertibleParametricTransform` as far as `tensor()` is concerned: the class-specific map from
    the flag `invert` to the tensor (the parameters are captured), and the current flag. -/
structure ParamTransform (d : Nat) (α : Type) where
  tensorOf : Bool → H d α
  invert : Bool

/-- `tensor()`. -/
def ParamTransform.tensor (t : ParamTransform d α) : H d α := t.tensorOf t.invert

/-- parametric.py:InvertibleParametricTransform.inverse @354-358: shallow copy sharing the parameters,
    `inv.invert = not self.invert`. -/
def ParamTransform.inverse (t : ParamTransform d α) : ParamTransform d α := { t with invert := !t.invert }

/-- composite.py:SequentialTransform.inverse @342-348: members in reversed order, each inverted. -/
def seqInverse (ts : List (ParamTransform d α)) : List (ParamTransform d α) :=
  ts.reverse.map ParamTransform.inverse

end parametric

/-! ## 3. Members of composites, `SequentialTransform`, `MultiLevelTransform` -/

/-- context of `forward(points, grid=True)`: the points form a lattice of shape `shape` (x, y, z order)
    and the point in question has index `idx`. -/
structure Lat (d : Nat) where
  shape : Fin d → Nat
  idx : Fin d → Nat

/-- a member of a composite as `forward` sees it: a linear transform with its `tensor()`, or a
    non-linear one with its two evaluation modes (`grid=False` / `grid=True`). -/
inductive Member (d : Nat) (α : Type) where
  | linear (h : H d α)
  | nonlin (fP : Vec d α → Vec d α) (fG : Lat d → Vec d α → Vec d α)

section composite
variable {α : Type} [Add α] [Sub α] [Mul α] [Div α] [Neg α] [NatCast α] {d : Nat}

def Member.isLinear : Member d α → Bool
  | .linear _ => true
  | .nonlin _ _ => false

/-- base.py:SpatialTransform.forward @228-242 (`transform_grid if grid else transform_points`; both are
    `A.transform_points` for a 3-dimensional tensor). -/
def Member.forward : Member d α → Option (Lat d) → Vec d α → Vec d α
  | .linear h, _, x => h.apply x
  | .nonlin fP _, none, x => fP x
  | .nonlin _ fG, some l, x => fG l x

/-- the tensors of the linear members (in order). -/
def linearTensors : List (Member d α) → List (H d α)
  | [] => []
  | .linear h :: ms => h :: linearTensors ms
  | .nonlin _ _ :: ms => linearTensors ms

def allLinear (ms : List (Member d α)) : Bool := ms.all Member.isLinear

/-- composite.py:SequentialTransform.tensor @305-314 (linear branch):
    `mat = t₀.tensor(); for t in rest: mat = homogeneous_matmul(t.tensor(), mat)`;
    no members: `eye(D, D+1)`. -/
def seqTensor : List (H d α) → H d α
  | [] => .hom Mat.one (fun _ => ((0 : Nat) : α))
  | t0 :: rest => rest.foldl (fun mat t => t.matmul mat) t0

/-- composite.py:SequentialTransform.forward @281-289, non-linear branch:
    `y = transform.forward(y, grid=grid and i == 0)`. -/
def seqForwardLoop : List (Member d α) → Option (Lat d) → Vec d α → Vec d α
  | [], _, y => y
  | t :: ts, g, y => seqForwardLoop ts none (t.forward g y)

/-- composite.py:SequentialTransform.forward @271-289. -/
def seqForward (ms : List (Member d α)) (g : Option (Lat d)) (x : Vec d α) : Vec d α :=
  if allLinear ms then (seqTensor (linearTensors ms)).apply x      -- `super().forward` with `self.tensor()`
  else seqForwardLoop ms g x

/-- a `SequentialTransform` is itself a possible member of another composite. -/
def seqMember (ms : List (Member d α)) : Member d α :=
  if allLinear ms then .linear (seqTensor (linearTensors ms))
  else .nonlin (seqForwardLoop ms none) (fun l => seqForwardLoop ms (some l))

/-- base.py:LinearTransform.matrix @471-477: `as_homogeneous_matrix(self.tensor())`
    (linalg.py @100-108; since commit 8afe377 the identity block is expanded to the leading dimensions, so the
    batched `(N, D, 1)` form of a `Translation` is accepted too). -/
def matrixOf (h : H d α) : H d α := .hom h.toHom.1 h.toHom.2

/-- composite.py:MultiLevelTransform.tensor @244-260 (linear branch):
    `mat = as_homogeneous_matrix(t₀.tensor()); for t in rest: mat = mat + as_homogeneous_matrix(t.tensor())`
    (out of place), then `mat = mat - (len(transforms) - 1) * eye(D, D+1)` when there is more than one member. -/
def mlTensor : List (H d α) → H d α
  | [] => .hom Mat.one (fun _ => ((0 : Nat) : α))
  | t0 :: rest =>
      let m := rest.foldl (fun (acc : Mat d α × Vec d α) t => (acc.1.add t.toHom.1, acc.2.add t.toHom.2)) t0.toHom
      if rest.isEmpty then .hom m.1 m.2
      else
        let k : α := ((rest.length : Nat) : α)
        .hom (fun i j => m.1 i j - k * (Mat.one : Mat d α) i j) m.2

/-- composite.py:MultiLevelTransform.forward @220-232, non-linear branch:
    `u += transform.forward(x, grid=grid and i == 0) - x`, `y = x + u`. -/
def mlForwardLoop : List (Member d α) → Option (Lat d) → Vec d α → Vec d α → Vec d α
  | [], _, _, u => u
  | t :: ts, g, x, u => mlForwardLoop ts none x (u.add ((t.forward g x).sub x))

/-- composite.py:MultiLevelTransform.forward @208-232. -/
def mlForward (ms : List (Member d α)) (g : Option (Lat d)) (x : Vec d α) : Vec d α :=
  if ms.isEmpty then x
  else if allLinear ms then (mlTensor (linearTensors ms)).apply x
  else x.add (mlForwardLoop ms g x (fun _ => ((0 : Nat) : α)))

/-- a `MultiLevelTransform` as a member of another composite. -/
def mlMember (ms : List (Member d α)) : Member d α :=
  if allLinear ms then .linear (mlTensor (linearTensors ms))   -- includes the empty composite (`eye(D, D+1)`)
  else .nonlin (fun x => x.add (mlForwardLoop ms none x (fun _ => ((0 : Nat) : α))))
               (fun l x => x.add (mlForwardLoop ms (some l) x (fun _ => ((0 : Nat) : α))))

/-- the mapping the class docstring states: `y = x + Σᵢ uᵢ(x)`. -/
def mlSpec (ms : List (Member d α)) (x : Vec d α) : Vec d α :=
  x.add (ms.foldl (fun u t => u.add ((t.forward none x).sub x)) (fun _ => ((0 : Nat) : α)))

end composite

/-! ## 4. Non-rigid transforms: evaluation of the buffered displacement field `u` -/

section nonrigid
variable {α : Type} [Add α] [Sub α] [Mul α] [Div α] [Neg α] [NatCast α] [IntCast α]
  [HasFloor α] [LT α] [DecidableRel (α := α) (· < ·)] {d : Nat}

/-- flow.py:warp_points @896-926 / sample_flow @790-841: `y = x + u(x)`, `u` sampled with linear
    interpolation and `padding=border`; `ac` = the transform's `align_corners()`, `n` = size of `u`. -/
def warpPoint (ac : Bool) (n : Fin d → Nat) (u : VField d α) (x : Vec d α) : Vec d α :=
  x.add (sampleVField ac .border n u x)

/-- flow.py:warp_grid @844-893: `u` is resized to the shape of the point lattice by `grid_reshape`
    (`F.interpolate`, linear) and added to the points — whatever their coordinates are. -/
def warpGridPoint (ac : Bool) (n : Fin d → Nat) (u : VField d α) (l : Lat d) (x : Vec d α) : Vec d α :=
  x.add (fun c => interpolateLin ac n l.shape (fun idx => u idx c) l.idx)

/-- a `NonRigidTransform` whose `tensor()` is the buffered field `u` (base.py @499-525) as a member. -/
def nonRigidMember (ac : Bool) (n : Fin d → Nat) (u : VField d α) : Member d α :=
  .nonlin (warpPoint ac n u) (warpGridPoint ac n u)

end nonrigid

/-! ## 5. Views: `points`, `disp`

Every function comes in two layers: `…With` takes the grid-to-grid maps as already built matrices (the code
builds each matrix once with `Grid.transform` and applies it to all points), and the un-suffixed version
builds them from the grids exactly as the code does. The driver evaluates the `…With` layer on the matrices
produced by the same expressions (forced once), the theorems are about the un-suffixed layer. -/

section views
variable {α : Type} [Add α] [Sub α] [Mul α] [Div α] [Neg α] [NatCast α] [IntCast α]
  [HasFloor α] [DecidableEq α] [LT α] [DecidableRel (α := α) (· < ·)] {d : Nat}

/-- grid.py:apply_transform @734-744: the matrix applied to the points, `none` when the input is returned
    unchanged (`to_grid == self` — Grid.__eq__, which ignores `align_corners`, decided by the caller — and
    `axes is to_axes`). `to_grid == self` selects the one-grid table of `Grid.transform` @620, otherwise the
    route via WORLD @691-697. -/
def Grid.transformSel (g : Grid d α) (axes : Axes) (g' : Grid d α) (toAxes : Axes) (same : Bool) : Option (H d α) :=
  if same then (if axes = toAxes then none else some (g.transform axes toAxes false))
  else some (g.transformTo axes g' toAxes false)

/-- `homogeneous_transform(matrix, points)` or the unchanged input. -/
def applyOpt (m : Option (H d α)) (x : Vec d α) : Vec d α :=
  match m with
  | none => x
  | some h => h.apply x

/-- grid.py:apply_transform with `decimals=None`. -/
def Grid.applyTransformSel (g : Grid d α) (axes : Axes) (g' : Grid d α) (toAxes : Axes) (same : Bool)
    (x : Vec d α) : Vec d α := applyOpt (g.transformSel axes g' toAxes same) x

/-- base.py:SpatialTransform.axes @107-114. -/
def transformAxes (tg : Grid d α) : Axes := Axes.fromAlignCorners tg.alignCorners

def transformPointsWith (T : Vec d α → Vec d α) (m₁ m₂ : Option (H d α)) (x : Vec d α) : Vec d α :=
  applyOpt m₂ (T (applyOpt m₁ x))

/-- base.py:SpatialTransform.points @244-292 and transformer.py:PointSetTransformer.forward @283-301
    (identical code): `(grid, axes)` → transform cube, `forward`, transform cube → `(to_grid, to_axes)`,
    all with `decimals=None`. `T` is `forward(points)`; `same₁/same₂` are `grid == self.grid()` and
    `self.grid() == to_grid`. -/
def transformPoints (T : Vec d α → Vec d α) (tg : Grid d α) (grid : Grid d α) (axes : Axes)
    (toGrid : Grid d α) (toAxes : Axes) (same₁ same₂ : Bool) (x : Vec d α) : Vec d α :=
  transformPointsWith T (grid.transformSel axes tg (transformAxes tg) same₁)
    (tg.transformSel (transformAxes tg) toGrid toAxes same₂) x

/-- flow.py:affine_flow @21-55: `A.transform_points(matrix, grid.coords()) − grid.coords()` — the matrix applied to the
    normalised coordinates of `grid` (its own `align_corners`) directly. -/
def affineFlowAt (h : H d α) (gridAc : Bool) (gridN : Fin d → Nat) (j : Vec d α) : Vec d α :=
  let x : Vec d α := fun i => coordAt (gridN i) gridAc (j i)
  (h.apply x).sub x

def dispCompositeWith (T : Vec d α → Vec d α) (gridAc : Bool) (gridN : Fin d → Nat) (maps : Option (H d α × H d α))
    (j : Vec d α) : Vec d α :=
  let x : Vec d α := fun i => coordAt (gridN i) gridAc (j i)
  match maps with
  | none => (T x).sub x
  | some (toT, fromT) => (fromT.apply (T (toT.apply x))).sub x

/-- composite.py:CompositeTransform.disp @157-179: same domain → `forward(x) − x`; otherwise the grid
    points are mapped to the transform's cube and back by `grid_transform_points(…, decimals=None)`. -/
def dispCompositeMaps (tg grid : Grid d α) (sameDomain : Bool) : Option (H d α × H d α) :=
  let axes := Axes.fromAlignCorners grid.alignCorners
  if sameDomain then none
  else some (grid.transformTo axes tg (transformAxes tg) false, tg.transformTo (transformAxes tg) grid axes false)

def dispComposite (T : Vec d α → Vec d α) (tg grid : Grid d α) (gridN : Fin d → Nat) (sameDomain : Bool)
    (j : Vec d α) : Vec d α :=
  dispCompositeWith T grid.alignCorners gridN (dispCompositeMaps tg grid sameDomain) j

/-- base.py:SpatialTransform.disp @321-332 for a linear transform with tensor `h`:
    `grid.same_domain_as(self.grid())` → `affine_flow(h, grid)`; otherwise the points of `grid` are mapped to the cube of
    the transform's grid (`decimals=None`), the matrix is applied, and the result is mapped back — the same recipe (and the
    same grid maps, `dispCompositeMaps`) as `CompositeTransform.disp`. -/
def dispLinearWith (h : H d α) (gridAc : Bool) (gridN : Fin d → Nat) (maps : Option (H d α × H d α)) (j : Vec d α) :
    Vec d α :=
  match maps with
  | none => affineFlowAt h gridAc gridN j
  | some (toT, fromT) =>
      let x : Vec d α := fun i => coordAt (gridN i) gridAc (j i)
      (fromT.apply (h.apply (toT.apply x))).sub x

def dispLinear (h : H d α) (tg grid : Grid d α) (gridN : Fin d → Nat) (sameDomain : Bool) (j : Vec d α) : Vec d α :=
  dispLinearWith h grid.alignCorners gridN (dispCompositeMaps tg grid sameDomain) j

def dispNonRigidWith (ac gridAc : Bool) (n gridN : Fin d → Nat) (u : VField d α) (sameGrid sameFlowGrid : Bool)
    (toFlow vecBack : H d α) (conv : Vec d α → Vec d α) (rnd : Vec d α → Vec d α) (pad : Padding) (j : Fin d → Nat) :
    Vec d α :=
  if sameGrid ∧ gridAc = ac then
    (fun c => interpolateLin ac n gridN (fun idx => u idx c) j)
  else
    let v : Vec d α :=
      if sameFlowGrid then u (fun i => ((j i : Nat) : Int))
      else
        let p : Vec d α := fun i => coordAt (gridN i) ac (((j i : Nat) : α))
        let q := rnd (toFlow.apply p)
        vecBack.applyVec (sampleVField ac pad n u q)
    if gridAc = ac then v else conv v

/-- base.py:SpatialTransform.disp @334-352 for a non-rigid transform with buffered field `u` of size `n`
    on `flowGrid = self.grid().reshape(u.shape[2:])`:
    * `grid == self.grid()` and equal `align_corners`: `u`, resized by `grid_reshape` if the shapes differ;
    * otherwise `FlowFields(u, flowGrid, axes=self.axes()).sample(grid)` (data/flow.py @247-290 on top of data/image.py
      `ImageBatch.sample` @903-937): returned unchanged if `grid == flowGrid` (`Grid.__eq__` ignores `align_corners`), else
      sampled at the points of `grid` (linear, zero padding: `ImageBatch.sample` defaults to `padding=None` = zeros) and every
      vector mapped by `grid_transform_vectors(v, flowGrid, axes, grid, axes)` with `axes` the axes of the *transform*;
      then, if the `align_corners` flags differ, `grid.transform_vectors(data, axes=self.axes(), to_axes=Axes.from_grid(grid))`
      (the closed-form one-grid path, `conv`). -/
def dispNonRigid (tg flowGrid grid : Grid d α) (n gridN : Fin d → Nat) (u : VField d α)
    (sameGrid sameFlowGrid : Bool) (rnd : Vec d α → Vec d α) (pad : Padding) (j : Fin d → Nat) : Vec d α :=
  let axes := transformAxes tg
  dispNonRigidWith tg.alignCorners grid.alignCorners n gridN u sameGrid sameFlowGrid
    (grid.transformTo axes flowGrid axes false) (flowGrid.transformTo axes grid axes true)
    (grid.transformVectors axes (Axes.fromAlignCorners grid.alignCorners)) rnd pad j

end views

/-! ## 6. `ImageTransformer`: where the source image is sampled -/

section warp
variable {α : Type} [Add α] [Sub α] [Mul α] [Div α] [Neg α] [NatCast α] [IntCast α]
  [HasFloor α] [DecidableEq α] [LT α] [DecidableRel (α := α) (· < ·)] {d : Nat}

/-- transformer.py:ImageTransformer.__init__ @166-168: the map applied to
    `target.coords(align_corners=transform.align_corners())` by
    `target.transform_points(x, axes=transform.axes(), to_grid=transform.grid())`
    (`sameTT` = `target == transform.grid()`). -/
def imageTransformerGridMap (tg tgt : Grid d α) (sameTT : Bool) : Option (H d α) :=
  tgt.transformSel (transformAxes tg) tg (transformAxes tg) sameTT

/-- modules/sample.py:SampleImage._matrix @92-100 with `target = transform.grid()`, `axes` the transform's
    axes, `align_centers=False`: `grid_points_transform(target, axes, source, to_axes)` where
    `to_axes = Axes.from_align_corners(target.align_corners())`; `sameTS` = `source == transform.grid()`
    (grid.py:transform @620: one-grid table, here the identity since both axes coincide). -/
def sampleImageMatrix (tg src : Grid d α) (sameTS : Bool) : H d α :=
  let axes := transformAxes tg
  if sameTS then tg.transform axes axes false else tg.transformTo axes src axes false

def imageTransformerCoordWith (T : Vec d α → Vec d α) (ac : Bool) (tgtN : Fin d → Nat) (gridMap : Option (H d α))
    (matrix : H d α) (rnd : Vec d α → Vec d α) (j : Vec d α) : Vec d α :=
  let x : Vec d α := fun i => coordAt (tgtN i) ac (j i)      -- target.coords(align_corners=transform.align_corners())
  let x := rnd (applyOpt gridMap x)                           -- default rounding to 12 decimals
  matrix.apply (T x)                                          -- SampleImage.forward: homogeneous_transform(matrix, grid)

/-- transformer.py:ImageTransformer.forward @208-213 + SampleImage.forward @209-212: normalised source
    coordinates handed to `grid_sample(data, ·, align_corners=transform.align_corners())` for target
    index `j`; `T` is `self._transform(grid_coords, grid=True)` at that point. -/
def imageTransformerCoord (T : Vec d α → Vec d α) (tg tgt src : Grid d α) (tgtN : Fin d → Nat)
    (sameTT sameTS : Bool) (rnd : Vec d α → Vec d α) (j : Vec d α) : Vec d α :=
  imageTransformerCoordWith T tg.alignCorners tgtN (imageTransformerGridMap tg tgt sameTT)
    (sampleImageMatrix tg src sameTS) rnd j

/-- transformer.py:ImageTransformer.forward @214-216: `self._transform(grid_coords, grid=self._grid_is_lattice)` —
    the evaluation context of the point with target index `k`; `isLattice` is the flag computed at construction
    @170-175 (`allclose(mapped target coordinates, Grid(shape=target.shape, align_corners=…).coords(), atol=1e-5)`). -/
def imageTransformerLat (isLattice : Bool) (tgtN : Fin d → Nat) (k : Fin d → Nat) : Option (Lat d) :=
  if isLattice then some ⟨tgtN, k⟩ else none

/-- … for a transform given as a composite member. -/
def imageTransformerMemberCoord (m : Member d α) (isLattice : Bool) (tg tgt src : Grid d α) (tgtN : Fin d → Nat)
    (sameTT sameTS : Bool) (rnd : Vec d α → Vec d α) (k : Fin d → Nat) : Vec d α :=
  imageTransformerCoord (m.forward (imageTransformerLat isLattice tgtN k)) tg tgt src tgtN sameTT sameTS rnd
    (fun i => ((k i : Nat) : α))

/-- the value `ImageTransformer` returns at target index `j` (linear interpolation; `pad` as configured). -/
def imageTransformerValue (T : Vec d α → Vec d α) (tg tgt src : Grid d α) (srcN tgtN : Fin d → Nat)
    (sameTT sameTS : Bool) (rnd : Vec d α → Vec d α) (pad : Padding) (img : (Fin d → Int) → α) (j : Vec d α) : α :=
  gridSampleLin tg.alignCorners pad srcN img (imageTransformerCoord T tg tgt src tgtN sameTT sameTS rnd j)

end warp
end Deepali
