/-
  Model/Vec.lean — small dense linear algebra used by every layer of the model.
  Core Lean only (no Mathlib): the same definitions run on `Rat` in the driver and are
  reasoned about over an arbitrary field in `Deepali/Proofs`.
-/
namespace Deepali

abbrev Vec (d : Nat) (α : Type) := Fin d → α
abbrev Mat (d : Nat) (α : Type) := Fin d → Fin d → α

section
variable {α : Type} [Add α] [Sub α] [Mul α] [Div α] [Neg α] [NatCast α]

/-- `Σ_{i<d} f i`, by recursion on `d` (bridged to `Finset.sum` in Proofs/VecBridge). -/
def sumFin : (d : Nat) → (Fin d → α) → α
  | 0, _ => ((0 : Nat) : α)
  | d + 1, f => sumFin d (fun i => f i.castSucc) + f (Fin.last d)

def Vec.add {d} (x y : Vec d α) : Vec d α := fun i => x i + y i
def Vec.sub {d} (x y : Vec d α) : Vec d α := fun i => x i - y i
def Vec.neg {d} (x : Vec d α) : Vec d α := fun i => - x i
def Vec.mul {d} (x y : Vec d α) : Vec d α := fun i => x i * y i      -- elementwise (torch `*`)
def Vec.div {d} (x y : Vec d α) : Vec d α := fun i => x i / y i      -- elementwise (torch `/`)
def Vec.smul {d} (c : α) (x : Vec d α) : Vec d α := fun i => c * x i
def Vec.const {d} (c : α) : Vec d α := fun _ => c
def Vec.ofNat {d} (n : Fin d → Nat) : Vec d α := fun i => ((n i : Nat) : α)

def Mat.mulVec {d} (A : Mat d α) (x : Vec d α) : Vec d α := fun i => sumFin d (fun j => A i j * x j)
def Mat.mul {d} (A B : Mat d α) : Mat d α := fun i k => sumFin d (fun j => A i j * B j k)
def Mat.transpose {d} (A : Mat d α) : Mat d α := fun i j => A j i
def Mat.diag {d} (s : Vec d α) : Mat d α := fun i j => if i = j then s i else ((0 : Nat) : α)
def Mat.one {d} : Mat d α := fun i j => if i = j then ((1 : Nat) : α) else ((0 : Nat) : α)
def Mat.add {d} (A B : Mat d α) : Mat d α := fun i j => A i j + B i j

end

/-- Force evaluation of a vector/matrix given as a closure (keeps driver runs polynomial). -/
def Vec.memo {d} {α} [Inhabited α] (x : Vec d α) : Vec d α :=
  let a := Array.ofFn x
  fun i => a[i.val]!
def Mat.memo {d} {α} [Inhabited α] (A : Mat d α) : Mat d α :=
  let a := Array.ofFn (fun i => Array.ofFn (A i))
  fun i j => (a[i.val]!)[j.val]!

end Deepali
