/-
  Proofs/AffPow.lean — iterating an affine map: linear part = matrix power.
-/
import Deepali.Proofs.FlowHull
import Mathlib.Algebra.Group.Basic

set_option linter.unusedSectionVars false

namespace Deepali
open Matrix
variable {K : Type} [Field K] [LinearOrder K] [IsStrictOrderedRing K] [FloorRing K] {d : Nat}

/-- translation part of the `k`-fold iterate: `Σ_{i<k} M^i t`. -/
def iterTrans (M : Mat d K) (t : Vec d K) : Nat → Vec d K
  | 0 => fun _ => 0
  | k + 1 => (M.mulVec (iterTrans M t k)).add t

/-- the `k`-fold iterate of `x ↦ M x + t` is `x ↦ M^k x + Σ_{i<k} M^i t` (Mathlib matrix power). -/
theorem affMap_iterate (M : Mat d K) (t : Vec d K) (k : Nat) (x : Vec d K) :
    (affMap M t)^[k] x = ((toM M) ^ k) *ᵥ x + iterTrans M t k := by
  induction k generalizing x with
  | zero => simp [iterTrans]; rfl
  | succ k ih =>
    rw [Function.iterate_succ', Function.comp_apply, ih]
    simp only [affMap, iterTrans, vadd_eq, mulVec_eq]
    rw [Matrix.mulVec_add, Matrix.mulVec_mulVec, ← pow_succ']
    abel

end Deepali
