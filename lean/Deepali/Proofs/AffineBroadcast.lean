/-
  Proofs/AffineBroadcast.lean — leading-shape broadcasting of `homogeneous_matmul` /
  `homogeneous_transform`: result shapes and element-wise meaning (used by C08).
-/
import Deepali.Proofs.HomogLaws
import Deepali.Model.Broadcast
import Mathlib.Tactic.Linarith

set_option linter.unusedSectionVars false
set_option linter.unusedSimpArgs false
set_option linter.unnecessarySeqFocus false

namespace Deepali
open Matrix
variable {K : Type} [Field K] {d : Nat}

@[simp] theorem hbcNumel_nil : hbcNumel [] = 1 := rfl
@[simp] theorem hbcNumel_one (n : Nat) : hbcNumel [n] = n := by simp [hbcNumel]

theorem hbcExpandOK_refl (s : List Nat) : hbcExpandOK s s = true := by
  simp [hbcExpandOK, List.all_eq_true]
  intro a b h
  have := List.of_mem_zip h
  rcases List.mem_iff_getElem.mp h with ⟨i, hi, he⟩
  simp [List.getElem_zip] at he
  right; rw [← he.1, ← he.2]

/-- the result's leading shape is one of the operands' leading shapes. -/
theorem bcLeading_cases {la lb l : List Nat} (h : bcLeading la lb = .ok l) : l = la ∨ l = lb := by
  unfold bcLeading at h
  dsimp only at h
  repeat' split at h
  all_goals first
    | (simp only [Except.ok.injEq] at h; subst h; simp)
    | simp at h

/-- element-wise meaning of one batched composition step. -/
theorem HB_matmul_elem {a b c : HB d K} (h : a.matmul b = .ok c) (i : Nat) :
    c.elem i = (a.elem (bcPick (hbcNumel a.lead) i)).matmul (b.elem (bcPick (hbcNumel b.lead) i)) := by
  unfold HB.matmul at h
  cases hl : bcLeading a.lead b.lead with
  | error e => simp [hl, bind, Except.bind] at h
  | ok l =>
    simp only [hl, bind, Except.bind, pure, Except.pure, Except.ok.injEq] at h
    subst h; rfl

theorem HB_matmul_lead {a b c : HB d K} (h : a.matmul b = .ok c) : bcLeading a.lead b.lead = .ok c.lead := by
  unfold HB.matmul at h
  cases hl : bcLeading a.lead b.lead with
  | error e => simp [hl, bind, Except.bind] at h
  | ok l =>
    simp only [hl, bind, Except.bind, pure, Except.pure, Except.ok.injEq] at h
    subst h; rfl

theorem HB_matmul_kind {a b c : HB d K} (h : a.matmul b = .ok c) : c.kind = a.kind.matmul b.kind := by
  unfold HB.matmul at h
  cases hl : bcLeading a.lead b.lead with
  | error e => simp [hl, bind, Except.bind] at h
  | ok l =>
    simp only [hl, bind, Except.bind, pure, Except.pure, Except.ok.injEq] at h
    subst h; rfl

/-- the kind bookkeeping agrees with the operand forms actually produced. -/
theorem matmul_kind (a b : H d K) : (a.matmul b).kind = a.kind.matmul b.kind := by
  cases a <;> cases b <;> rfl

/-- the table (none, 1, N) × (none, 1, N): every combination succeeds and has the expected shape. -/
theorem bcLeading_table (n : Nat) (hn : 1 < n) :
    bcLeading [] [] = .ok [] ∧ bcLeading [] [1] = .ok [1] ∧ bcLeading [1] [] = .ok [1] ∧
    bcLeading [1] [1] = .ok [1] ∧ bcLeading [n] [] = .ok [n] ∧ bcLeading [] [n] = .ok [n] ∧
    bcLeading [n] [1] = .ok [n] ∧ bcLeading [1] [n] = .ok [n] ∧ bcLeading [n] [n] = .ok [n] := by
  have h1 : ¬ (1 < 1) := by decide
  have hn' : ¬ n < 1 := by omega
  refine ⟨rfl, rfl, rfl, rfl, ?_, ?_, ?_, ?_, ?_⟩ <;>
    simp [bcLeading, hbcNumel, hbcExpandOK, hn, h1]

/-- different batch sizes `N ≠ M` (both > 1) are rejected. -/
theorem bcLeading_mismatch (n m : Nat) (hn : 1 < n) (hm : 1 < m) (hne : n ≠ m) :
    bcLeading [n] [m] = .error "err:value" := by
  simp [bcLeading, hbcNumel, hn, hm, hne]

/-- `as_homogeneous_matrix` on a batch of any leading shape keeps the map of every element. -/
theorem HB_asMatrix_apply (a : HB d K) (i : Nat) (x : Vec d K) :
    (a.asMatrix.elem i).apply x = (a.elem i).apply x := toHom_apply _ _

theorem HB_asMatrix_applyVec (a : HB d K) (i : Nat) (x : Vec d K) :
    (a.asMatrix.elem i).applyVec x = (a.elem i).applyVec x := toHom_applyVec _ _

/-- element-wise meaning of `homogeneous_transform` on batches. -/
theorem homogeneousTransformB_rows {n : Nat} {elem : Nat → H d K} {vectors : Bool} {pshape : List Nat}
    {pts : Nat → Vec d K} {out : List Nat} {rows : Nat → Vec d K}
    (h : homogeneousTransformB n elem vectors pshape pts = .ok (out, rows)) (k : Nat) :
    rows k = (if vectors then (elem (transformPick n pshape k).1).applyVec (pts (transformPick n pshape k).2)
              else (elem (transformPick n pshape k).1).apply (pts (transformPick n pshape k).2))
      ∧ transformOutShape n d pshape = .ok (out, (match transformOutShape n d pshape with | .ok o => o.2 | .error _ => [])) := by
  unfold homogeneousTransformB at h
  cases ho : transformOutShape n d pshape with
  | error e => simp [ho, bind, Except.bind] at h
  | ok o =>
    simp only [ho, bind, Except.bind, pure, Except.pure, Except.ok.injEq, Prod.mk.injEq] at h
    obtain ⟨h1, h2⟩ := h
    subst h1; subst h2
    exact ⟨rfl, rfl⟩

end Deepali
