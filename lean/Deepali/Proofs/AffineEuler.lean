/-
  Proofs/AffineEuler.lean — Euler rotation matrices: closed forms and the generic fallback are the
  product of the elementary rotations; orthogonality and determinant (used by C08).
-/
import Deepali.Proofs.VecBridge
import Deepali.Model.Affine
import Mathlib.Tactic.Ring
import Mathlib.Tactic.FinCases
import Mathlib.Tactic.LinearCombination
import Mathlib.Algebra.BigOperators.Fin
import Mathlib.LinearAlgebra.Matrix.Determinant.Basic

set_option linter.unusedSectionVars false
set_option linter.unusedSimpArgs false
set_option linter.unnecessarySeqFocus false
set_option linter.unreachableTactic false
set_option linter.unusedTactic false

namespace Deepali
open Matrix
variable {K : Type} [Field K]

/-- product of the three elementary rotations in the order `a b c` (first factor applied last). -/
def eulerProduct (a b c : Axis) (cs sn : Vec 3 K) : Mat 3 K :=
  ((a.rot (cs 0) (sn 0)).mul (b.rot (cs 1) (sn 1))).mul (c.rot (cs 2) (sn 2))

theorem affineMul3_apply (A B : Mat 3 K) (i k : Fin 3) :
    A.mul B i k = A i 0 * B 0 k + A i 1 * B 1 k + A i 2 * B 2 k := by
  simp only [Mat.mul, sumFin_eq, Fin.sum_univ_three]

theorem eulerXYZ_eq (cs sn : Vec 3 K) : eulerXYZ cs sn = eulerProduct .X .Y .Z cs sn := by
  funext i j
  fin_cases i <;> fin_cases j <;>
    simp [eulerXYZ, eulerProduct, affineMul3_apply, Axis.rot, rotX, rotY, rotZ, affMat3, affVec3] <;> ring

theorem eulerZYX_eq (cs sn : Vec 3 K) : eulerZYX cs sn = eulerProduct .Z .Y .X cs sn := by
  funext i j
  fin_cases i <;> fin_cases j <;>
    simp [eulerZYX, eulerProduct, affineMul3_apply, Axis.rot, rotX, rotY, rotZ, affMat3, affVec3] <;> ring

theorem eulerZXY_eq (cs sn : Vec 3 K) : eulerZXY cs sn = eulerProduct .Z .X .Y cs sn := by
  funext i j
  fin_cases i <;> fin_cases j <;>
    simp [eulerZXY, eulerProduct, affineMul3_apply, Axis.rot, rotX, rotY, rotZ, affMat3, affVec3] <;> ring

theorem eulerXZX_eq (cs sn : Vec 3 K) : eulerXZX cs sn = eulerProduct .X .Z .X cs sn := by
  funext i j
  fin_cases i <;> fin_cases j <;>
    simp [eulerXZX, eulerProduct, affineMul3_apply, Axis.rot, rotX, rotY, rotZ, affMat3, affVec3] <;> ring

theorem eulerZXZ_eq (cs sn : Vec 3 K) : eulerZXZ cs sn = eulerProduct .Z .X .Z cs sn := by
  funext i j
  fin_cases i <;> fin_cases j <;>
    simp [eulerZXZ, eulerProduct, affineMul3_apply, Axis.rot, rotX, rotY, rotZ, affMat3, affVec3] <;> ring

theorem elemRot_axis (a : Axis) (i : Nat) (h : i < 3) (cs sn : Vec 3 K) :
    elemRot a.char i cs sn = .ok (a.rot (cs ⟨i, h⟩) (sn ⟨i, h⟩)) := by
  cases a <;> simp [elemRot, h, Axis.char, Axis.rot]

/-- the generic fallback loop computes the product, for every order triple. -/
theorem eulerGenericLoop_eq (a b c : Axis) (cs sn : Vec 3 K) :
    eulerGenericLoop cs sn (orderName a b c) 0 none = .ok (eulerProduct a b c cs sn) := by
  simp only [orderName, eulerGenericLoop, elemRot_axis _ _ (by decide : 0 < 3),
    elemRot_axis _ _ (by decide : 0 + 1 < 3), elemRot_axis _ _ (by decide : 0 + 1 + 1 < 3),
    bind, Except.bind, eulerProduct]
  rfl

/-- every branch of `euler_rotation_matrix` (five closed forms + fallback), all 27 triples. -/
theorem eulerRotationMatrix3_eq (a b c : Axis) (cs sn : Vec 3 K) :
    eulerRotationMatrix3 (orderName a b c) cs sn = .ok (eulerProduct a b c cs sn) := by
  have hgen := eulerGenericLoop_eq a b c cs sn
  cases a <;> cases b <;> cases c <;>
    simp [eulerRotationMatrix3, orderName, Axis.char, eulerXYZ_eq, eulerZYX_eq, eulerZXY_eq,
      eulerXZX_eq, eulerZXZ_eq] at hgen ⊢ <;>
    simp [hgen]

theorem eulerRotationMatrix3_ok (a b c : Axis) (cs sn : Vec 3 K) (m : Mat 3 K)
    (h : eulerRotationMatrix3 (orderName a b c) cs sn = .ok m) : m = eulerProduct a b c cs sn := by
  rw [eulerRotationMatrix3_eq] at h
  simpa using h.symm

/-! ### proper rotations -/

theorem affineRot_mul_transpose (a : Axis) (c s : K) (h : c * c + s * s = 1) :
    (a.rot c s).mul (a.rot c s).transpose = Mat.one := by
  funext i j
  cases a <;> fin_cases i <;> fin_cases j <;>
    simp [affineMul3_apply, Mat.transpose, Mat.one, Axis.rot, rotX, rotY, rotZ, affMat3, affVec3] <;>
    first | ring1 | linear_combination h

theorem affineRot_transpose_mul (a : Axis) (c s : K) (h : c * c + s * s = 1) :
    (a.rot c s).transpose.mul (a.rot c s) = Mat.one := by
  funext i j
  cases a <;> fin_cases i <;> fin_cases j <;>
    simp [affineMul3_apply, Mat.transpose, Mat.one, Axis.rot, rotX, rotY, rotZ, affMat3, affVec3] <;>
    first | ring1 | linear_combination h

theorem affineDet3_eq (m : Mat 3 K) : affineDet3 m = (toM m).det := by
  rw [Matrix.det_fin_three]; simp only [affineDet3, toM_apply]; ring

theorem affineRot_det (a : Axis) (c s : K) (h : c * c + s * s = 1) : affineDet3 (a.rot c s) = 1 := by
  cases a <;> simp [affineDet3, Axis.rot, rotX, rotY, rotZ, affMat3, affVec3] <;> linear_combination h

theorem affineMul_orth {A B : Mat 3 K} (hA : A.mul A.transpose = Mat.one) (hB : B.mul B.transpose = Mat.one) :
    (A.mul B).mul (A.mul B).transpose = Mat.one := by
  have hA' : toM A * (toM A)ᵀ = 1 := by rw [← transpose_eq, ← mmul_eq, hA, one_eq]
  have hB' : toM B * (toM B)ᵀ = 1 := by rw [← transpose_eq, ← mmul_eq, hB, one_eq]
  have : toM ((A.mul B).mul (A.mul B).transpose) = toM (Mat.one : Mat 3 K) := by
    rw [mmul_eq, transpose_eq, mmul_eq, Matrix.transpose_mul, one_eq]
    calc toM A * toM B * ((toM B)ᵀ * (toM A)ᵀ) = toM A * (toM B * (toM B)ᵀ) * (toM A)ᵀ := by
          simp only [Matrix.mul_assoc]
      _ = 1 := by rw [hB', Matrix.mul_one, hA']
  exact this

theorem affineMul_orth' {A B : Mat 3 K} (hA : A.transpose.mul A = Mat.one) (hB : B.transpose.mul B = Mat.one) :
    (A.mul B).transpose.mul (A.mul B) = Mat.one := by
  have hA' : (toM A)ᵀ * toM A = 1 := by rw [← transpose_eq, ← mmul_eq, hA, one_eq]
  have hB' : (toM B)ᵀ * toM B = 1 := by rw [← transpose_eq, ← mmul_eq, hB, one_eq]
  have : toM ((A.mul B).transpose.mul (A.mul B)) = toM (Mat.one : Mat 3 K) := by
    rw [mmul_eq, transpose_eq, mmul_eq, Matrix.transpose_mul, one_eq]
    calc (toM B)ᵀ * (toM A)ᵀ * (toM A * toM B) = (toM B)ᵀ * ((toM A)ᵀ * toM A) * toM B := by
          simp only [Matrix.mul_assoc]
      _ = 1 := by rw [hA', Matrix.mul_one, hB']
  exact this

theorem affineMul_det (A B : Mat 3 K) : affineDet3 (A.mul B) = affineDet3 A * affineDet3 B := by
  rw [affineDet3_eq, affineDet3_eq, affineDet3_eq, mmul_eq, Matrix.det_mul]

theorem eulerProduct_orth (a b c : Axis) (cs sn : Vec 3 K) (h : ∀ i, cs i * cs i + sn i * sn i = 1) :
    (eulerProduct a b c cs sn).mul (eulerProduct a b c cs sn).transpose = Mat.one :=
  affineMul_orth (affineMul_orth (affineRot_mul_transpose a _ _ (h 0)) (affineRot_mul_transpose b _ _ (h 1))) (affineRot_mul_transpose c _ _ (h 2))

theorem eulerProduct_orth' (a b c : Axis) (cs sn : Vec 3 K) (h : ∀ i, cs i * cs i + sn i * sn i = 1) :
    (eulerProduct a b c cs sn).transpose.mul (eulerProduct a b c cs sn) = Mat.one :=
  affineMul_orth' (affineMul_orth' (affineRot_transpose_mul a _ _ (h 0)) (affineRot_transpose_mul b _ _ (h 1))) (affineRot_transpose_mul c _ _ (h 2))

theorem eulerProduct_det (a b c : Axis) (cs sn : Vec 3 K) (h : ∀ i, cs i * cs i + sn i * sn i = 1) :
    affineDet3 (eulerProduct a b c cs sn) = 1 := by
  unfold eulerProduct
  rw [affineMul_det, affineMul_det, affineRot_det a _ _ (h 0), affineRot_det b _ _ (h 1), affineRot_det c _ _ (h 2)]; ring

/-! ### 2-D -/

theorem euler2_orth (c s : K) (h : c * c + s * s = 1) :
    (eulerRotationMatrix2 c s).mul (eulerRotationMatrix2 c s).transpose = Mat.one := by
  funext i j
  fin_cases i <;> fin_cases j <;>
    simp [Mat.mul, sumFin_eq, Fin.sum_univ_two, Mat.transpose, Mat.one, eulerRotationMatrix2, affMat2, affVec2] <;>
    first | ring1 | linear_combination h

theorem euler2_det (c s : K) (h : c * c + s * s = 1) : affineDet2 (eulerRotationMatrix2 c s) = 1 := by
  simp [affineDet2, eulerRotationMatrix2, affMat2, affVec2]; linear_combination h

end Deepali
