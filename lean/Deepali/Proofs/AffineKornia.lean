/-
  Proofs/AffineKornia.lean — quaternion / angle-axis algebra (used by C08).
-/
import Deepali.Proofs.AffineEuler
import Deepali.Model.Kornia
import Mathlib.Tactic.FieldSimp
import Mathlib.Tactic.Linarith
import Mathlib.Algebra.Order.Field.Basic

set_option linter.unusedSectionVars false
set_option linter.unusedSimpArgs false
set_option linter.unnecessarySeqFocus false
set_option linter.unreachableTactic false
set_option linter.unusedTactic false

namespace Deepali
open Matrix

section poly
variable {K : Type} [Field K]

/-- homogeneous form of the quaternion matrix: equals `quaternionToRotationMatrixN` on unit
    quaternions and satisfies `H Hᵀ = |q|⁴ I`, `det H = |q|⁶` identically. -/
def quatH (q : Vec 4 K) : Mat 3 K :=
  let w := q 0; let x := q 1; let y := q 2; let z := q 3
  affMat3 (affVec3 (w * w + x * x - y * y - z * z) (2 * (x * y - z * w)) (2 * (x * z + y * w)))
       (affVec3 (2 * (x * y + z * w)) (w * w - x * x + y * y - z * z) (2 * (y * z - x * w)))
       (affVec3 (2 * (x * z - y * w)) (2 * (y * z + x * w)) (w * w - x * x - y * y + z * z))

def quatNorm2 (q : Vec 4 K) : K := q 0 * q 0 + q 1 * q 1 + q 2 * q 2 + q 3 * q 3

theorem quatN_eq_quatH (q : Vec 4 K) (h : quatNorm2 q = 1) : quaternionToRotationMatrixN q = quatH q := by
  unfold quatNorm2 at h
  funext i j
  fin_cases i <;> fin_cases j <;>
    simp [quaternionToRotationMatrixN, quatH, affMat3, affVec3] <;>
    first | ring1 | linear_combination h | linear_combination -h

theorem quatH_orth (q : Vec 4 K) : (quatH q).mul (quatH q).transpose = fun i j => quatNorm2 q * quatNorm2 q * (Mat.one : Mat 3 K) i j := by
  funext i j
  fin_cases i <;> fin_cases j <;>
    simp [quatH, affineMul3_apply, Mat.transpose, Mat.one, quatNorm2, affMat3, affVec3] <;> ring

theorem quatH_orth' (q : Vec 4 K) : (quatH q).transpose.mul (quatH q) = fun i j => quatNorm2 q * quatNorm2 q * (Mat.one : Mat 3 K) i j := by
  funext i j
  fin_cases i <;> fin_cases j <;>
    simp [quatH, affineMul3_apply, Mat.transpose, Mat.one, quatNorm2, affMat3, affVec3] <;> ring

theorem quatH_det (q : Vec 4 K) : affineDet3 (quatH q) = quatNorm2 q * quatNorm2 q * quatNorm2 q := by
  simp [affineDet3, quatH, quatNorm2, affMat3, affVec3]; ring

/-- unit quaternion ↦ proper rotation. -/
theorem quatN_orth (q : Vec 4 K) (h : quatNorm2 q = 1) :
    (quaternionToRotationMatrixN q).mul (quaternionToRotationMatrixN q).transpose = Mat.one := by
  rw [quatN_eq_quatH q h, quatH_orth, h]; funext i j; ring

theorem quatN_orth' (q : Vec 4 K) (h : quatNorm2 q = 1) :
    (quaternionToRotationMatrixN q).transpose.mul (quaternionToRotationMatrixN q) = Mat.one := by
  rw [quatN_eq_quatH q h, quatH_orth', h]; funext i j; ring

theorem quatN_det (q : Vec 4 K) (h : quatNorm2 q = 1) : affineDet3 (quaternionToRotationMatrixN q) = 1 := by
  rw [quatN_eq_quatH q h, quatH_det, h]; ring

/-- `q` and `-q` give the same rotation. -/
theorem quatN_neg (q : Vec 4 K) : quaternionToRotationMatrixN (fun i => - q i) = quaternionToRotationMatrixN q := by
  funext i j
  fin_cases i <;> fin_cases j <;> simp [quaternionToRotationMatrixN, affMat3, affVec3] <;> ring

end poly

section ordered
variable {K : Type} [Field K] [LinearOrder K] [IsStrictOrderedRing K]

theorem korniaClampMin_of_le {x lo : K} (h : lo ≤ x) : korniaClampMin x lo = x := by
  unfold korniaClampMin; rw [if_neg (not_lt.mpr h)]

/-- normalising with the true norm `n` (not smaller than `eps`) gives a unit quaternion. -/
theorem quatNormalize_unit (q : Vec 4 K) (n eps : K) (hn : n * n = quatNorm2 q) (hpos : 0 < n) (heps : eps ≤ n) :
    quatNorm2 (normalizeQuaternion q n eps) = 1 := by
  have hne : n ≠ 0 := ne_of_gt hpos
  simp only [quatNorm2, normalizeQuaternion, korniaClampMin_of_le heps] at hn ⊢
  field_simp
  linear_combination -hn

/-- scaling a quaternion by a sign does not change the rotation. -/
theorem quatN_sign (q : Vec 4 K) (σ : K) (hσ : σ * σ = 1) :
    quaternionToRotationMatrixN (fun i => σ * q i) = quaternionToRotationMatrixN q := by
  funext i j
  fin_cases i <;> fin_cases j <;> simp [quaternionToRotationMatrixN, affMat3, affVec3] <;>
    first
    | ring1
    | linear_combination (2 * q 2 * q 2 + 2 * q 3 * q 3) * hσ
    | linear_combination (-(2 * q 2 * q 2 + 2 * q 3 * q 3)) * hσ
    | linear_combination (2 * q 1 * q 1 + 2 * q 3 * q 3) * hσ
    | linear_combination (-(2 * q 1 * q 1 + 2 * q 3 * q 3)) * hσ
    | linear_combination (2 * q 1 * q 1 + 2 * q 2 * q 2) * hσ
    | linear_combination (-(2 * q 1 * q 1 + 2 * q 2 * q 2)) * hσ
    | linear_combination (2 * q 2 * q 1 - 2 * q 3 * q 0) * hσ
    | linear_combination (2 * q 3 * q 1 + 2 * q 2 * q 0) * hσ
    | linear_combination (2 * q 2 * q 1 + 2 * q 3 * q 0) * hσ
    | linear_combination (2 * q 3 * q 2 - 2 * q 1 * q 0) * hσ
    | linear_combination (2 * q 3 * q 1 - 2 * q 2 * q 0) * hσ
    | linear_combination (2 * q 3 * q 2 + 2 * q 1 * q 0) * hσ

/-- verification form of `rotation_matrix_to_quaternion`, trace-positive branch: given the root
    `r0 = √(trace + 1)`, the quaternion computed from the matrix of a unit quaternion maps back to
    the same matrix. -/
theorem rotationMatrixToQuaternion_roundtrip_trace (q : Vec 4 K) (r : Vec 4 K) (tiny : K)
    (hq : quatNorm2 q = 1)
    (htr : 0 < quaternionToRotationMatrixN q 0 0 + quaternionToRotationMatrixN q 1 1 + quaternionToRotationMatrixN q 2 2)
    (hr : r 0 * r 0 = quaternionToRotationMatrixN q 0 0 + quaternionToRotationMatrixN q 1 1 + quaternionToRotationMatrixN q 2 2 + 1)
    (hr0 : 0 < r 0) (htiny : tiny ≤ r 0 * 2) :
    quaternionToRotationMatrixN (rotationMatrixToQuaternion (quaternionToRotationMatrixN q) r tiny)
      = quaternionToRotationMatrixN q := by
  have hne : r 0 ≠ 0 := ne_of_gt hr0
  have h4 : r 0 * r 0 = 4 * (q 0 * q 0) := by
    rw [hr]; unfold quatNorm2 at hq
    simp [quaternionToRotationMatrixN, affMat3, affVec3]; linear_combination (-4 : K) * hq
  have hres : rotationMatrixToQuaternion (quaternionToRotationMatrixN q) r tiny
      = fun i => (2 * q 0 / r 0) * q i := by
    unfold rotationMatrixToQuaternion
    simp only [Nat.cast_zero, htr, if_true]
    funext i
    fin_cases i <;>
      simp [affVec4, safeZeroDivision, korniaClampMin_of_le htiny, quaternionToRotationMatrixN, affMat3, affVec3] <;>
      field_simp <;> first | ring1 | linear_combination h4 | linear_combination -h4
  rw [hres]
  apply quatN_sign
  field_simp
  linear_combination -h4

/-- Rodrigues' formula (with the `1e-6` perturbation of `theta` set to 0) agrees with the route
    through the quaternion, given the half-angle identities. -/
theorem angleAxis_routes_agree (a : Vec 3 K) (theta c s sh ch eps2 : K)
    (hθ : theta * theta = a 0 * a 0 + a 1 * a 1 + a 2 * a 2) (hpos : 0 < a 0 * a 0 + a 1 * a 1 + a 2 * a 2)
    (heps : eps2 < a 0 * a 0 + a 1 * a 1 + a 2 * a 2)
    (hh : ch * ch + sh * sh = 1) (hc : c = ch * ch - sh * sh) (hs : s = 2 * sh * ch) :
    quaternionToRotationMatrixN (angleAxisToQuaternion a theta sh ch)
      = angleAxisToRotationMatrix a theta c s 0 eps2 := by
  have hne : theta ≠ 0 := by
    intro h0; rw [h0, mul_zero] at hθ; rw [← hθ] at hpos; exact lt_irrefl _ hpos
  have hu : a 0 / theta * (a 0 / theta) + a 1 / theta * (a 1 / theta) + a 2 / theta * (a 2 / theta) = 1 := by
    field_simp; linear_combination -hθ
  subst hc hs
  unfold angleAxisToQuaternion angleAxisToRotationMatrix
  simp only [Nat.cast_zero, Nat.cast_one, hpos, heps, if_true, add_zero]
  funext i j
  have e0 : a 0 * (sh / theta) = a 0 / theta * sh := by ring
  have e1 : a 1 * (sh / theta) = a 1 / theta * sh := by ring
  have e2 : a 2 * (sh / theta) = a 2 / theta * sh := by ring
  generalize a 0 / theta = u0 at *
  generalize a 1 / theta = u1 at *
  generalize a 2 / theta = u2 at *
  fin_cases i <;> fin_cases j <;>
    simp [quaternionToRotationMatrixN, affVec4, affMat3, affVec3, e0, e1, e2] <;>
    first
    | ring1
    | linear_combination (-2 * sh * sh) * hu - (1 - u0 * u0) * hh
    | linear_combination (-2 * sh * sh) * hu - (1 - u1 * u1) * hh
    | linear_combination (-2 * sh * sh) * hu - (1 - u2 * u2) * hh
    | linear_combination (2 * sh * sh) * hu + (1 - u0 * u0) * hh
    | linear_combination (2 * sh * sh) * hu + (1 - u1 * u1) * hh
    | linear_combination (2 * sh * sh) * hu + (1 - u2 * u2) * hh
    | linear_combination (u0 * u1) * hh
    | linear_combination (u0 * u2) * hh
    | linear_combination (u1 * u2) * hh
    | linear_combination (-(u0 * u1)) * hh
    | linear_combination (-(u0 * u2)) * hh
    | linear_combination (-(u1 * u2)) * hh

end ordered
end Deepali
