/-
  Proofs/AffineOrder.lean — `euler_rotation_order`: finite tables over the 27 order triples and
  the general rejection lemma (used by C08).
-/
import Deepali.Model.Affine
import Mathlib.Tactic.FinCases

set_option linter.unusedSectionVars false
set_option linter.unnecessarySeqFocus false

namespace Deepali

/-- all four spellings of all 27 triples are normalised to the triple. -/
theorem order_upper (a b c : Axis) :
    eulerRotationOrder (some (orderName a b c)) 3 = .ok (orderName a b c) := by
  cases a <;> cases b <;> cases c <;> rfl

theorem order_lower (a b c : Axis) :
    eulerRotationOrder (some (orderNameLower a b c)) 3 = .ok (orderName a b c) := by
  cases a <;> cases b <;> cases c <;> rfl

theorem order_notation (a b c : Axis) :
    eulerRotationOrder (some (orderNotation a b c)) 3 = .ok (orderName a b c) := by
  cases a <;> cases b <;> cases c <;> rfl

theorem order_notation_upper (a b c : Axis) :
    eulerRotationOrder (some (orderNotationUpper a b c)) 3 = .ok (orderName a b c) := by
  cases a <;> cases b <;> cases c <;> rfl

theorem isXYZ_char {ch : Char} (h : isXYZ ch = true) : ∃ a : Axis, ch = a.char := by
  simp only [isXYZ, Bool.or_eq_true, decide_eq_true_eq] at h
  rcases h with (h | h) | h
  · exact ⟨.X, h⟩
  · exact ⟨.Y, h⟩
  · exact ⟨.Z, h⟩

/-- whatever passes the final regular expression is one of the 27 triples (possibly followed by the
    newline Python's `$` tolerates). -/
theorem matchXYZ3_sound {o : List Char} (h : matchXYZ3 o = true) :
    ∃ a b c : Axis, o = orderName a b c ∨ o = orderName a b c ++ ['\n'] := by
  rcases o with _ | ⟨x, _ | ⟨y, _ | ⟨z, _ | ⟨w, _ | ⟨v, t⟩⟩⟩⟩⟩
  · simp [matchXYZ3] at h
  · simp [matchXYZ3] at h
  · simp [matchXYZ3] at h
  · simp only [matchXYZ3, Bool.and_eq_true] at h
    obtain ⟨a, rfl⟩ := isXYZ_char h.1.1
    obtain ⟨b, rfl⟩ := isXYZ_char h.1.2
    obtain ⟨c, rfl⟩ := isXYZ_char h.2
    exact ⟨a, b, c, Or.inl rfl⟩
  · by_cases hw : w = '\n'
    · subst hw
      simp only [matchXYZ3, Bool.and_eq_true] at h
      obtain ⟨a, rfl⟩ := isXYZ_char h.1.1
      obtain ⟨b, rfl⟩ := isXYZ_char h.1.2
      obtain ⟨c, rfl⟩ := isXYZ_char h.2
      exact ⟨a, b, c, Or.inr rfl⟩
    · exfalso
      unfold matchXYZ3 at h
      split at h
      · simp_all
      · simp_all
      · simp at h
  · exfalso
    unfold matchXYZ3 at h
    split at h
    · simp_all
    · simp_all
    · simp at h

/-- rejection: the only strings `euler_rotation_order` returns for `ndim = 3` are the 27 triples. -/
theorem order_sound {arg : Option (List Char)} {o : List Char} (h : eulerRotationOrder arg 3 = .ok o) :
    ∃ a b c : Axis, o = orderName a b c ∨ o = orderName a b c ++ ['\n'] := by
  unfold eulerRotationOrder at h
  rw [if_neg (by decide), if_neg (by decide)] at h
  dsimp only at h
  have key : ∀ s : List Char, (if matchXYZ3 s = true then (Except.ok s : Except String (List Char))
      else Except.error "err:value") = Except.ok o → ∃ a b c, o = orderName a b c ∨ o = orderName a b c ++ ['\n'] := by
    intro s hs
    split at hs
    · next hm =>
      simp only [Except.ok.injEq] at hs
      subst hs
      exact matchXYZ3_sound hm
    · simp at hs
  split at h
  · exact key _ h
  · exact key _ h

end Deepali
