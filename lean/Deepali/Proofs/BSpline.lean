/-
  Proofs/BSpline.lean — the weight tables of `cubic_bspline_interpolation_weights` are the
  analytic cubic B-spline basis (SPEC `basis`) and its derivatives; `cubic_bspline_value`
  is the same function; index lemmas for the two evaluation algorithms; control grid sizes.
-/
import Deepali.Model.BSpline
import Mathlib.Tactic.Ring
import Mathlib.Tactic.FieldSimp
import Mathlib.Tactic.Linarith
import Mathlib.Tactic.NormNum
import Mathlib.Tactic.IntervalCases
import Mathlib.Algebra.Order.Field.Basic
import Mathlib.Order.Lattice

set_option linter.unusedSectionVars false

namespace Deepali

variable {K : Type} [Field K] [LinearOrder K] [IsStrictOrderedRing K]

/-! ### the SPEC basis on each knot interval -/

theorem basis_lt (d : Nat) (x : K) (h : x < -2) : basis d x = 0 := by
  simp only [basis, Nat.cast_ofNat, Nat.cast_one, Nat.cast_zero]
  rw [if_pos h]

theorem basis_ge (d : Nat) (x : K) (h : 2 ≤ x) : basis d x = 0 := by
  simp only [basis, Nat.cast_ofNat, Nat.cast_one, Nat.cast_zero]
  rw [if_neg (by linarith), if_neg (by linarith), if_neg (by linarith), if_neg (by linarith), if_neg (by linarith)]

theorem basis_piece0 (d : Nat) (x : K) (h1 : -2 ≤ x) (h2 : x < -1) : basis d x = basisPiece 0 d x := by
  simp only [basis, Nat.cast_ofNat, Nat.cast_one, Nat.cast_zero]
  rw [if_neg (by linarith), if_pos h2]

theorem basis_piece1 (d : Nat) (x : K) (h1 : -1 ≤ x) (h2 : x < 0) : basis d x = basisPiece 1 d x := by
  simp only [basis, Nat.cast_ofNat, Nat.cast_one, Nat.cast_zero]
  rw [if_neg (by linarith), if_neg (by linarith), if_pos h2]

theorem basis_piece2 (d : Nat) (x : K) (h1 : 0 ≤ x) (h2 : x < 1) : basis d x = basisPiece 2 d x := by
  simp only [basis, Nat.cast_ofNat, Nat.cast_one, Nat.cast_zero]
  rw [if_neg (by linarith), if_neg (by linarith), if_neg (by linarith), if_pos h2]

theorem basis_piece3 (d : Nat) (x : K) (h1 : 1 ≤ x) (h2 : x < 2) : basis d x = basisPiece 3 d x := by
  simp only [basis, Nat.cast_ofNat, Nat.cast_one, Nat.cast_zero]
  rw [if_neg (by linarith), if_neg (by linarith), if_neg (by linarith), if_neg (by linarith), if_pos h2]

/-- the derivative pieces really are the successive derivatives of the order-0 pieces
    (Taylor expansion is exact for cubics): `P₀(x+h) = P₀(x) + P₁(x)h + P₂(x)h²/2 + P₃(x)h³/6`. -/
theorem basisPiece_taylor (i : Nat) (hi : i < 4) (x h : K) :
    basisPiece i 0 (x + h)
      = basisPiece i 0 x + basisPiece i 1 x * h + basisPiece i 2 x * h ^ 2 / 2 + basisPiece i 3 x * h ^ 3 / 6 := by
  interval_cases i <;> simp only [basisPiece, Nat.cast_ofNat, Nat.cast_one] <;> field_simp <;> ring

/-- … and likewise for the first and second derivative pieces. -/
theorem basisPiece_taylor1 (i : Nat) (hi : i < 4) (x h : K) :
    basisPiece i 1 (x + h) = basisPiece i 1 x + basisPiece i 2 x * h + basisPiece i 3 x * h ^ 2 / 2 := by
  interval_cases i <;> simp only [basisPiece, Nat.cast_ofNat, Nat.cast_one] <;> field_simp <;> ring

theorem basisPiece_taylor2 (i : Nat) (hi : i < 4) (x h : K) :
    basisPiece i 2 (x + h) = basisPiece i 2 x + basisPiece i 3 x * h := by
  interval_cases i <;> simp only [basisPiece, Nat.cast_ofNat, Nat.cast_one] <;> ring

/-- the pieces join C² at the knots −2, −1, 0, 1, 2 (value, first and second derivative). -/
theorem basisPiece_joins (d : Nat) (hd : d ≤ 2) :
    basisPiece 0 d (-2 : K) = 0 ∧ basisPiece 0 d (-1 : K) = basisPiece 1 d (-1) ∧
    basisPiece 1 d (0 : K) = basisPiece 2 d 0 ∧ basisPiece 2 d (1 : K) = basisPiece 3 d 1 ∧
    basisPiece 3 d (2 : K) = 0 := by
  interval_cases d <;> simp only [basisPiece, Nat.cast_ofNat, Nat.cast_one] <;> norm_num

/-- the textbook truncated-power form of the uniform cubic B-spline:
    `B(x) = (1/6) Σ_{k=0}^{4} (−1)^k C(4,k) (x + 2 − k)₊³`. -/
theorem basis_truncated_power (x : K) :
    basis 0 x = ((max (x + 2) 0) ^ 3 - 4 * (max (x + 1) 0) ^ 3 + 6 * (max x 0) ^ 3
      - 4 * (max (x - 1) 0) ^ 3 + (max (x - 2) 0) ^ 3) / 6 := by
  rcases lt_or_ge x (-2) with h1 | h1
  · rw [basis_lt 0 x h1, max_eq_right (by linarith), max_eq_right (by linarith), max_eq_right (by linarith),
      max_eq_right (by linarith), max_eq_right (by linarith)]
    norm_num
  rcases lt_or_ge x (-1) with h2 | h2
  · rw [basis_piece0 0 x h1 h2, max_eq_left (by linarith), max_eq_right (by linarith), max_eq_right (by linarith),
      max_eq_right (by linarith), max_eq_right (by linarith)]
    simp only [basisPiece, Nat.cast_ofNat]; ring
  rcases lt_or_ge x 0 with h3 | h3
  · rw [basis_piece1 0 x h2 h3, max_eq_left (by linarith), max_eq_left (by linarith), max_eq_right (by linarith),
      max_eq_right (by linarith), max_eq_right (by linarith)]
    simp only [basisPiece, Nat.cast_ofNat]; ring
  rcases lt_or_ge x 1 with h4 | h4
  · rw [basis_piece2 0 x h3 h4, max_eq_left (by linarith), max_eq_left (by linarith), max_eq_left (by linarith),
      max_eq_right (by linarith), max_eq_right (by linarith)]
    simp only [basisPiece, Nat.cast_ofNat]; ring
  rcases lt_or_ge x 2 with h5 | h5
  · rw [basis_piece3 0 x h4 h5, max_eq_left (by linarith), max_eq_left (by linarith), max_eq_left (by linarith),
      max_eq_left (by linarith), max_eq_right (by linarith)]
    simp only [basisPiece, Nat.cast_ofNat]; ring
  · rw [basis_ge 0 x h5, max_eq_left (by linarith), max_eq_left (by linarith), max_eq_left (by linarith),
      max_eq_left (by linarith), max_eq_left (by linarith)]
    ring

/-! ### weight rows = basis -/

theorem weightRow_eq_pieces (d : Nat) (hd : d ≤ 3) (t : K) :
    (weightRow d t).w0 = basisPiece 3 d (t + 1) ∧ (weightRow d t).w1 = basisPiece 2 d t ∧
    (weightRow d t).w2 = basisPiece 1 d (t - 1) ∧ (weightRow d t).w3 = basisPiece 0 d (t - 2) := by
  interval_cases d
  · refine ⟨?_, ?_, ?_, ?_⟩ <;> simp only [weightRow, basisPiece, Nat.cast_ofNat, Nat.cast_one] <;>
      field_simp <;> ring
  · refine ⟨?_, ?_, ?_, ?_⟩ <;> simp only [weightRow, basisPiece, Nat.cast_ofNat, Nat.cast_one] <;>
      field_simp <;> ring
  · refine ⟨?_, ?_, ?_, ?_⟩ <;> simp only [weightRow, basisPiece, Nat.cast_ofNat, Nat.cast_one] <;> ring
  · refine ⟨?_, ?_, ?_, ?_⟩ <;> simp only [weightRow, basisPiece, Nat.cast_ofNat, Nat.cast_one]

/-- weight `j` at offset `t ∈ [0, 1)` is the basis function (d-th derivative) centred at local
    control position `j − 1`, evaluated at `t`. -/
theorem weightRow_eq_basis (d : Nat) (hd : d ≤ 3) (t : K) (h0 : 0 ≤ t) (h1 : t < 1) :
    (weightRow d t).w0 = basis d (t + 1) ∧ (weightRow d t).w1 = basis d t ∧
    (weightRow d t).w2 = basis d (t - 1) ∧ (weightRow d t).w3 = basis d (t - 2) := by
  obtain ⟨e0, e1, e2, e3⟩ := weightRow_eq_pieces d hd t
  rw [basis_piece3 d (t + 1) (by linarith) (by linarith), basis_piece2 d t h0 h1,
    basis_piece1 d (t - 1) (by linarith) (by linarith), basis_piece0 d (t - 2) (by linarith) (by linarith)]
  exact ⟨e0, e1, e2, e3⟩

theorem weightRow_sum (d : Nat) (t : K) : (weightRow d t).sum = if d = 0 then 1 else 0 := by
  match d with
  | 0 => simp only [weightRow, W4.sum, Nat.cast_ofNat, Nat.cast_one, if_true]; ring
  | 1 => simp only [weightRow, W4.sum, Nat.cast_ofNat, Nat.cast_one]; norm_num; ring
  | 2 => simp only [weightRow, W4.sum, Nat.cast_ofNat, Nat.cast_one]; norm_num; ring
  | 3 => simp only [weightRow, W4.sum, Nat.cast_ofNat, Nat.cast_one]; norm_num
  | n + 4 => simp [weightRow, W4.sum]

/-- first moment about the local control positions −1, 0, 1, 2. -/
theorem weightRow_moment (d : Nat) (t : K) :
    (weightRow d t).w0 * (-1) + (weightRow d t).w1 * 0 + (weightRow d t).w2 * 1 + (weightRow d t).w3 * 2
      = if d = 0 then t else if d = 1 then 1 else 0 := by
  match d with
  | 0 => simp only [weightRow, Nat.cast_ofNat, Nat.cast_one, if_true]; ring
  | 1 => simp only [weightRow, Nat.cast_ofNat, Nat.cast_one]; norm_num; ring
  | 2 => simp only [weightRow, Nat.cast_ofNat, Nat.cast_one]; norm_num; ring
  | 3 => simp only [weightRow, Nat.cast_ofNat, Nat.cast_one]; norm_num
  | n + 4 => simp [weightRow]

/-- a row applied to samples of an affine function of the control index. -/
theorem weightRow_dot_affine (d : Nat) (t a b i : K) :
    (weightRow d t).dot (a + b * i) (a + b * (i + 1)) (a + b * (i + 2)) (a + b * (i + 3))
      = if d = 0 then a + b * (i + 1 + t) else if d = 1 then b else 0 := by
  have hs := weightRow_sum d t
  have hm := weightRow_moment d t
  simp only [W4.sum] at hs
  simp only [W4.dot]
  have key : (weightRow d t).w0 * (a + b * i) + (weightRow d t).w1 * (a + b * (i + 1))
      + (weightRow d t).w2 * (a + b * (i + 2)) + (weightRow d t).w3 * (a + b * (i + 3))
      = (a + b * (i + 1)) * ((weightRow d t).w0 + (weightRow d t).w1 + (weightRow d t).w2 + (weightRow d t).w3)
        + b * ((weightRow d t).w0 * (-1) + (weightRow d t).w1 * 0 + (weightRow d t).w2 * 1 + (weightRow d t).w3 * 2) := by
    ring
  rw [key, hs, hm]
  split_ifs <;> ring

/-! ### `cubic_bspline_value` (kernels.py) is the SPEC basis for derivative orders 0, 1, 2 -/

theorem cubicBSplineValue_eq_basis (d : Nat) (hd : d ≤ 2) (x : K) :
    cubicBSplineValue x d = some (basis d x) := by
  have h2 : (2 : K) ≠ 0 := two_ne_zero
  have h3 : (3 : K) ≠ 0 := three_ne_zero
  have h6 : (6 : K) ≠ 0 := by norm_num
  simp only [cubicBSplineValue, Nat.cast_ofNat, Nat.cast_one, Nat.cast_zero]
  rcases lt_or_ge x 0 with hx | hx
  · rw [if_pos hx]
    rcases lt_or_ge (-x) 2 with ht | ht
    · rw [if_neg (not_not.mpr ht)]
      rcases lt_or_ge (-x) 1 with ht1 | ht1
      · rw [basis_piece1 d x (by linarith) hx]
        interval_cases d <;> simp [basisPiece, ht1] <;> (try field_simp) <;> (try ring)
      · have hn1 : ¬ (-x < 1) := not_lt.mpr ht1
        rcases eq_or_lt_of_le ht1 with he | hl
        · have hx1 : x = -1 := by linarith
          subst hx1
          rw [basis_piece1 d (-1) (le_refl _) (by norm_num)]
          interval_cases d <;> simp [basisPiece] <;> norm_num
        · rw [basis_piece0 d x (by linarith) (by linarith)]
          interval_cases d <;> simp [basisPiece, hn1, hx] <;> (try field_simp) <;> (try ring)
    · rw [if_pos (not_lt.mpr ht)]
      rcases eq_or_lt_of_le ht with he | hl
      · have hx2 : x = -2 := by linarith
        subst hx2
        rw [basis_piece0 d (-2) (le_refl _) (by norm_num)]
        interval_cases d <;> simp [basisPiece]
      · rw [basis_lt d x (by linarith)]
  · rw [if_neg (not_lt.mpr hx)]
    rcases lt_or_ge x 2 with ht | ht
    · rw [if_neg (not_not.mpr ht)]
      rcases lt_or_ge x 1 with ht1 | ht1
      · rw [basis_piece2 d x hx ht1]
        interval_cases d <;> simp [basisPiece, ht1] <;> (try field_simp) <;> (try ring)
      · rw [basis_piece3 d x ht1 ht]
        have hn1 : ¬ (x < 1) := not_lt.mpr ht1
        have hn0 : ¬ (x < 0) := not_lt.mpr hx
        interval_cases d <;> simp [basisPiece, hn1, hn0] <;> (try field_simp) <;> (try ring)
    · rw [if_pos (not_lt.mpr ht), basis_ge d x ht]

/-! ### control grid sizes (pure `Nat`) -/

theorem ctrlSize_covers (m s : Nat) (hs : 1 ≤ s) : m ≤ (ctrlSize m s - 3) * s := by
  have h1 := Nat.div_add_mod m s
  have h2 := Nat.mod_lt m hs
  unfold ctrlSize
  generalize m / s = q at *
  generalize m % s = r at *
  split_ifs with h
  · have : q + 3 - 3 = q := by omega
    rw [this]; subst h; nlinarith
  · have : q + 3 + 1 - 3 = q + 1 := by omega
    rw [this]; nlinarith

/-- no wasted control point: one fewer would not cover the image. -/
theorem ctrlSize_minimal (m s : Nat) (hs : 1 ≤ s) (hm : 1 ≤ m) : (ctrlSize m s - 4) * s < m := by
  have h1 := Nat.div_add_mod m s
  have h2 := Nat.mod_lt m hs
  unfold ctrlSize
  generalize m / s = q at *
  generalize m % s = r at *
  split_ifs with h
  · subst h
    have hq : 1 ≤ q := by
      rcases Nat.eq_zero_or_pos q with h0 | h0
      · subst h0; simp at h1; omega
      · exact h0
    have : q + 3 - 4 = q - 1 := by omega
    rw [this]
    obtain ⟨p, rfl⟩ : ∃ p, q = p + 1 := ⟨q - 1, by omega⟩
    simp only [Nat.add_sub_cancel]; nlinarith
  · have : q + 3 + 1 - 4 = q := by omega
    rw [this]
    have : 0 < r := Nat.pos_of_ne_zero h
    nlinarith

theorem ctrlSize_ge_four (m s : Nat) (hs : 1 ≤ s) (hm : 1 ≤ m) : 4 ≤ ctrlSize m s := by
  have h1 := Nat.div_add_mod m s
  unfold ctrlSize
  generalize m / s = q at *
  generalize m % s = r at *
  split_ifs with h
  · have : 1 ≤ q := by
      rcases Nat.eq_zero_or_pos q with h0 | h0
      · subst h0; subst h; simp at h1; omega
      · exact h0
    omega
  · omega

theorem ctrlSize_le (M s : Nat) : ctrlSize M s ≤ M / s + 4 := by
  unfold ctrlSize; split_ifs <;> omega

/-- `BSplineTransform.grid_`: after subdivision (2n − 1 coefficients) the crop
    `narrow(dim, 1, ctrlSize (2m − 1) s)` stays inside, and never keeps the last coefficient. -/
theorem ctrlSize_refined_le (m s : Nat) (hs : 1 ≤ s) (hm : 1 ≤ m) :
    ctrlSize (2 * m - 1) s + 3 ≤ 2 * ctrlSize m s := by
  have h1 := Nat.div_add_mod m s
  have h2 := Nat.mod_lt m hs
  by_cases h : m % s = 0
  · -- m = s·q, q ≥ 1:  (2m − 1)/s ≤ 2q − 1
    have hn : ctrlSize m s = m / s + 3 := by unfold ctrlSize; rw [if_pos h]
    have hq : 1 ≤ m / s := by
      rcases Nat.eq_zero_or_pos (m / s) with h0 | h0
      · rw [h0, h] at h1; simp at h1; omega
      · exact h0
    have hd : (2 * m - 1) / s < 2 * (m / s) := by
      rw [Nat.div_lt_iff_lt_mul hs]
      rw [h] at h1
      generalize m / s = q at *
      have e2 : 2 * q * s = 2 * m := by rw [← h1]; ring
      omega
    have := ctrlSize_le (2 * m - 1) s
    omega
  · have hn : ctrlSize m s = m / s + 3 + 1 := by unfold ctrlSize; rw [if_neg h]
    have hd : (2 * m - 1) / s < 2 * (m / s) + 2 := by
      rw [Nat.div_lt_iff_lt_mul hs]
      generalize m / s = q at *
      generalize m % s = r at *
      have e2 : (2 * q + 2) * s = 2 * (s * q) + 2 * s := by ring
      omega
    have := ctrlSize_le (2 * m - 1) s
    omega

end Deepali
