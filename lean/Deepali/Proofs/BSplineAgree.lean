/-
  Proofs/BSplineAgree.lean — both evaluation algorithms compute the analytic spline
  `Σ_i c_i · B⁽ᵈ⁾(x/s + 1 − i)`; hence they agree.
-/
import Deepali.Proofs.BSplineEval

set_option linter.unusedSectionVars false

namespace Deepali

variable {K : Type} [Field K] [LinearOrder K] [IsStrictOrderedRing K]

/-! ### finite sums -/

theorem sumN_congr (n : Nat) (f g : Nat → K) (h : ∀ i, i < n → f i = g i) : sumN n f = sumN n g := by
  induction n with
  | zero => rfl
  | succ n ih =>
    simp only [sumN]
    rw [ih (fun i hi => h i (by omega)), h n (by omega)]

theorem sumN_eq_zero (n : Nat) (f : Nat → K) (h : ∀ i, i < n → f i = 0) : sumN n f = 0 := by
  induction n with
  | zero => simp [sumN]
  | succ n ih =>
    simp only [sumN]
    rw [ih (fun i hi => h i (by omega)), h n (by omega), add_zero]

theorem sumN_add (a b : Nat) (f : Nat → K) : sumN (a + b) f = sumN a f + sumN b (fun i => f (a + i)) := by
  induction b with
  | zero => simp [sumN]
  | succ b ih =>
    rw [← Nat.add_assoc]
    simp only [sumN]
    rw [ih, add_assoc]

/-- a sum whose terms vanish outside the window `i0 … i0+3`. -/
theorem sumN_window (L i0 : Nat) (f : Nat → K) (h : i0 + 3 < L)
    (hz : ∀ i, i < L → (i < i0 ∨ i0 + 3 < i) → f i = 0) :
    sumN L f = f i0 + f (i0 + 1) + f (i0 + 2) + f (i0 + 3) := by
  obtain ⟨r, hr⟩ : ∃ r, L = i0 + (4 + r) := ⟨L - i0 - 4, by omega⟩
  rw [hr, sumN_add, sumN_add]
  rw [sumN_eq_zero i0 f (fun i hi => hz i (by omega) (Or.inl hi))]
  rw [sumN_eq_zero r _ (fun i hi => hz _ (by omega) (Or.inr (by omega)))]
  simp [sumN]

/-- the analytic spline (derivative `d`) with coefficients `c` at control-index coordinate `t`. -/
def splineSum (c : List K) (d : Nat) (t : K) : K :=
  sumN c.length (fun i => getZ c i * basis d (t - ((i : Nat) : K)))

theorem basis_le_neg_two (x : K) (h : x ≤ -2) : basis 0 x = 0 := by
  rcases eq_or_lt_of_le h with he | hl
  · rw [he, basis_piece0 0 (-2) (le_refl _) (by norm_num)]
    simp [basisPiece]
  · exact basis_lt 0 x hl

/-! ### the weight algorithm computes the analytic spline and its derivatives -/

theorem evalWeights_is_spline (s d : Nat) (hs : 1 ≤ s) (hd : d ≤ 3) (c : List K) (x : Nat)
    (hx : x < (c.length - 3) * s) :
    getZ (evalWeights (weightTable s d) c) x
      = splineSum c d (((x : Nat) : K) / ((s : Nat) : K) + 1) := by
  have hi := idx_bound c.length s x hx
  have hs0 : (0 : K) < ((s : Nat) : K) := by exact_mod_cast hs
  have hsK : ((s : Nat) : K) ≠ 0 := ne_of_gt hs0
  have hk := Nat.mod_lt x (show 0 < s by omega)
  rw [getZ_evalWeights _ _ _ (by rw [weightTable_length]; exact hx), evalAt_divmod s d c x (by omega)]
  have hxe : ((x : Nat) : K) = ((x / s : Nat) : K) * ((s : Nat) : K) + ((x % s : Nat) : K) := by
    have := Nat.div_add_mod' x s
    exact_mod_cast this.symm
  generalize x / s = i at *
  generalize x % s = k at *
  have ht0 : (0 : K) ≤ ((k : Nat) : K) / ((s : Nat) : K) := div_nonneg (Nat.cast_nonneg k) (le_of_lt hs0)
  have ht1 : ((k : Nat) : K) / ((s : Nat) : K) < 1 := by
    rw [div_lt_one hs0]; exact_mod_cast hk
  have hxs : ((x : Nat) : K) / ((s : Nat) : K) = ((i : Nat) : K) + ((k : Nat) : K) / ((s : Nat) : K) := by
    rw [hxe]; field_simp
  obtain ⟨e0, e1, e2, e3⟩ := weightRow_eq_basis d hd _ ht0 ht1
  unfold splineSum
  rw [sumN_window c.length i _ hi]
  · simp only [W4.dot, e0, e1, e2, e3, hxs]
    push_cast
    have a0 : ((i : Nat) : K) + ((k : Nat) : K) / ((s : Nat) : K) + 1 - (i : K) = ((k : Nat) : K) / ((s : Nat) : K) + 1 := by ring
    have a1 : ((i : Nat) : K) + ((k : Nat) : K) / ((s : Nat) : K) + 1 - ((i : K) + 1) = ((k : Nat) : K) / ((s : Nat) : K) := by ring
    have a2 : ((i : Nat) : K) + ((k : Nat) : K) / ((s : Nat) : K) + 1 - ((i : K) + 2) = ((k : Nat) : K) / ((s : Nat) : K) - 1 := by ring
    have a3 : ((i : Nat) : K) + ((k : Nat) : K) / ((s : Nat) : K) + 1 - ((i : K) + 3) = ((k : Nat) : K) / ((s : Nat) : K) - 2 := by ring
    rw [a0, a1, a2, a3]; ring
  · intro j _ hj
    rw [hxs]
    rcases hj with hj | hj
    · have : ((j : Nat) : K) + 1 ≤ ((i : Nat) : K) := by exact_mod_cast hj
      rw [basis_ge d _ (by linarith), mul_zero]
    · have : ((i : Nat) : K) + 3 + 1 ≤ ((j : Nat) : K) := by exact_mod_cast hj
      rw [basis_lt d _ (by linarith), mul_zero]

/-! ### the transposed-convolution algorithm computes the same spline -/

/-- the dense kernel `cubic_bspline1d(s)` as values of the SPEC basis. -/
def denseKernel (s : Nat) : List K :=
  (List.range (4 * s - 1)).map (fun κ =>
    basis 0 (((((κ : Nat) : Int) - ((2 * s - 1 : Nat) : Int) : Int) : K) / ((s : Nat) : K)))

theorem kernel1dValues_eq (s : Nat) (hs : 1 ≤ s) : kernel1dValues (α := K) s 0 = .ok (denseKernel s) := by
  have hr : (4 * s - 1) / 2 = 2 * s - 1 := by omega
  have hk : kernel1d (α := K) s 0 = (denseKernel (K := K) s).map some := by
    simp only [kernel1d, denseKernel, hr, List.map_map]
    apply List.map_congr_left
    intro κ _
    simp only [Function.comp]
    exact cubicBSplineValue_eq_basis 0 (by omega) _
  simp only [kernel1dValues, hk, List.map_map]
  have h1 : ((denseKernel (K := K) s).map some).all Option.isSome = true := by
    simp [List.all_map]
  rw [if_pos h1]
  congr 1
  simp [Function.comp]

theorem denseKernel_length (s : Nat) : (denseKernel (K := K) s).length = 4 * s - 1 := by
  simp [denseKernel]

theorem getZ_denseKernel (s κ : Nat) (h : κ < 4 * s - 1) :
    getZ (denseKernel (K := K) s) κ
      = basis 0 ((((κ : Nat) : K) - ((2 * s - 1 : Nat) : K)) / ((s : Nat) : K)) := by
  simp [getZ, denseKernel, h]

theorem getZ_drop_take' (l : List K) (a n j : Nat) (hj : j < n) :
    getZ ((l.drop a).take n) j = getZ l (a + j) := by
  simp [getZ, List.getD_eq_getElem?_getD, hj]

theorem evalTranspose_is_spline (s : Nat) (hs : 1 ≤ s) (c : List K) (m x : Nat) (hx : x < m)
    (hL : 1 ≤ c.length) (hb : s + x < c.length * s) :
    getZ (evalTranspose s (denseKernel s) c (some m)) x
      = splineSum c 0 (((x : Nat) : K) / ((s : Nat) : K) + 1) := by
  have hs0 : (0 : K) < ((s : Nat) : K) := by exact_mod_cast hs
  have hsK : ((s : Nat) : K) ≠ 0 := ne_of_gt hs0
  have hp : (4 * s - 1 - 1) / 2 = 2 * s - 1 := by omega
  simp only [evalTranspose, denseKernel_length, hp]
  rw [getZ_drop_take' _ _ _ _ hx]
  have hlen : (c.length - 1) * s + (4 * s - 1 - 1) + (s - 1) + 1 - 2 * (2 * s - 1) = c.length * s := by
    obtain ⟨n, hn⟩ : ∃ n, c.length = n + 1 := ⟨c.length - 1, by omega⟩
    rw [hn, Nat.add_sub_cancel]
    have : (n + 1) * s = n * s + s := by ring
    omega
  have hget : getZ (convTranspose1d c (denseKernel s) s (2 * s - 1) (s - 1)) (s + x)
      = sumN c.length (fun i =>
          if i * s ≤ s + x + (2 * s - 1) ∧ s + x + (2 * s - 1) - i * s < 4 * s - 1
          then getZ c i * getZ (denseKernel (K := K) s) (s + x + (2 * s - 1) - i * s) else 0) := by
    simp [getZ, convTranspose1d, denseKernel_length, hlen, hb]
  rw [hget]
  unfold splineSum
  apply sumN_congr
  intro i _
  have h2s : ((2 * s - 1 : Nat) : K) = 2 * ((s : Nat) : K) - 1 := by
    rw [Nat.cast_sub (by omega)]; push_cast; ring
  split_ifs with hc
  · obtain ⟨hc1, hc2⟩ := hc
    rw [getZ_denseKernel s _ hc2, Nat.cast_sub hc1]
    congr 2
    push_cast
    rw [h2s]
    field_simp
    ring
  · rw [not_and_or] at hc
    rcases hc with hc | hc
    · -- i·s > x + 3s − 1: argument ≤ −2
      have h1 : s + x + (2 * s - 1) + 1 ≤ i * s := by omega
      have h2 : ((s : Nat) : K) + ((x : Nat) : K) + ((2 * s - 1 : Nat) : K) + 1 ≤ ((i : Nat) : K) * ((s : Nat) : K) := by
        exact_mod_cast h1
      rw [h2s] at h2
      have : ((x : Nat) : K) / ((s : Nat) : K) + 1 - ((i : Nat) : K) ≤ -2 := by
        have : ((x : Nat) : K) / ((s : Nat) : K) + 1 - ((i : Nat) : K)
            = (((x : Nat) : K) + ((s : Nat) : K) - ((i : Nat) : K) * ((s : Nat) : K)) / ((s : Nat) : K) := by
          field_simp
        rw [this, div_le_iff₀ hs0]; linarith
      rw [basis_le_neg_two _ this, mul_zero]
    · -- x − i·s ≥ s: argument ≥ 2
      by_cases hle : i * s ≤ s + x + (2 * s - 1)
      · have h1 : 4 * s - 1 + i * s ≤ s + x + (2 * s - 1) := by omega
        have h2 : ((4 * s - 1 : Nat) : K) + ((i : Nat) : K) * ((s : Nat) : K)
            ≤ ((s : Nat) : K) + ((x : Nat) : K) + ((2 * s - 1 : Nat) : K) := by exact_mod_cast h1
        have h4s : ((4 * s - 1 : Nat) : K) = 4 * ((s : Nat) : K) - 1 := by
          rw [Nat.cast_sub (by omega)]; push_cast; ring
        rw [h2s, h4s] at h2
        have : 2 ≤ ((x : Nat) : K) / ((s : Nat) : K) + 1 - ((i : Nat) : K) := by
          have : ((x : Nat) : K) / ((s : Nat) : K) + 1 - ((i : Nat) : K)
              = (((x : Nat) : K) + ((s : Nat) : K) - ((i : Nat) : K) * ((s : Nat) : K)) / ((s : Nat) : K) := by
            field_simp
          rw [this, le_div_iff₀ hs0]; linarith
        rw [basis_ge 0 _ this, mul_zero]
      · -- Nat subtraction truncated to 0 < 4s − 1: impossible together with hc
        exfalso
        have : s + x + (2 * s - 1) - i * s = 0 := by omega
        omega

/-- **the two algorithms agree** on every sample both produce. -/
theorem evalTranspose_eq_evalWeights (s : Nat) (hs : 1 ≤ s) (c : List K) (m x : Nat) (hx : x < m)
    (hm : m ≤ (c.length - 3) * s) :
    getZ (evalTranspose s (denseKernel s) c (some m)) x
      = getZ (evalWeightsCrop (weightTable s 0) c (some m)) x := by
  have hx' : x < (c.length - 3) * s := by omega
  have h3 := idx_bound c.length s x hx'
  have h4 : 4 ≤ c.length := by
    generalize x / s = q at h3; omega
  have hb : s + x < c.length * s := by
    obtain ⟨n, hn⟩ : ∃ n, c.length = n + 3 := ⟨c.length - 3, by omega⟩
    rw [hn] at hx' ⊢
    simp only [Nat.add_sub_cancel] at hx'
    have : (n + 3) * s = n * s + 3 * s := by ring
    omega
  rw [evalTranspose_is_spline s hs c m x hx (by omega) hb]
  simp only [evalWeightsCrop]
  have : getZ ((evalWeights (weightTable s 0) c).take m) x = getZ (evalWeights (weightTable s 0) c) x := by
    simp [getZ, List.getD_eq_getElem?_getD, List.getElem?_take, hx]
  rw [this, evalWeights_is_spline s 0 hs (by omega) c x hx']

/-! ### list-level agreement and lifting to a tensor axis -/

theorem list_ext_getZ (l1 l2 : List K) (h : l1.length = l2.length)
    (h' : ∀ i, i < l1.length → getZ l1 i = getZ l2 i) : l1 = l2 := by
  apply List.ext_getElem h
  intro i h1 h2
  have := h' i h1
  simp only [getZ, List.getD_eq_getElem?_getD, List.getElem?_eq_getElem h1, List.getElem?_eq_getElem h2,
    Option.getD_some] at this
  exact this

/-- 1-D operations that agree on every line of the right length agree after lifting to an axis. -/
theorem mapAxis_congr (f g : List K → List K) (t : Tensor K) (axis : Nat)
    (h : ∀ l : List K, l.length = t.shape.getD axis 1 → f l = g l) :
    t.mapAxis f axis = t.mapAxis g axis := by
  have h1 : f (List.replicate (t.shape.getD axis 1) ((0 : Nat) : K)) = g (List.replicate (t.shape.getD axis 1) ((0 : Nat) : K)) :=
    h _ (by simp)
  have h2 : ∀ (o j : Nat), f ((List.range (t.shape.getD axis 1)).map
        (fun i => t.data.getD ((o * t.shape.getD axis 1 + i) * shapeProd (t.shape.drop (axis + 1)) + j) ((0 : Nat) : K)))
      = g ((List.range (t.shape.getD axis 1)).map
        (fun i => t.data.getD ((o * t.shape.getD axis 1 + i) * shapeProd (t.shape.drop (axis + 1)) + j) ((0 : Nat) : K))) :=
    fun o j => h _ (by simp)
  simp only [Tensor.mapAxis, h1, h2]

theorem evalTranspose_eq_evalWeights_list (s : Nat) (hs : 1 ≤ s) (c : List K) (m : Nat)
    (hm : m ≤ (c.length - 3) * s) :
    evalTranspose s (denseKernel s) c (some m) = evalWeightsCrop (weightTable s 0) c (some m) := by
  rcases Nat.eq_zero_or_pos m with h0 | hpos
  · subst h0; simp [evalTranspose, evalWeightsCrop]
  have h4 : 4 ≤ c.length := by
    rcases Nat.lt_or_ge c.length 4 with h | h
    · have : c.length - 3 = 0 := by omega
      rw [this] at hm; omega
    · exact h
  obtain ⟨n, hn⟩ : ∃ n, c.length = n + 4 := ⟨c.length - 4, by omega⟩
  have hm' : m ≤ (n + 1) * s := by rw [hn] at hm; exact hm
  have e1 : (n + 1) * s = n * s + s := by ring
  have l1 : (evalTranspose s (denseKernel s) c (some m)).length = m := by
    simp only [evalTranspose, List.length_take, List.length_drop, convTranspose1d, List.length_map,
      List.length_range, denseKernel_length, hn]
    have e2 : (n + 4 - 1) * s = n * s + 3 * s := by
      have : n + 4 - 1 = n + 3 := by omega
      rw [this]; ring
    rw [e2]; omega
  have l2 : (evalWeightsCrop (weightTable s 0) c (some m)).length = m := by
    simp only [evalWeightsCrop, List.length_take, evalWeights_length, weightTable_length, hn]
    have : n + 4 - 3 = n + 1 := by omega
    rw [this]; omega
  apply list_ext_getZ _ _ (by rw [l1, l2])
  intro i hi
  rw [l1] at hi
  exact evalTranspose_eq_evalWeights s hs c m i hi hm


/-! ### the API functions on 1-D coefficient tensors `(N, C, X)` reduce to the per-line operations -/

theorem subdivide_api_1d (t : Tensor K) (N C L : Nat) (hsh : t.shape = [N, C, L]) (hL : 2 ≤ L) :
    subdivideCubicBSpline t [0] = .ok (t.mapAxis subdivide1d 2) := by
  have hf : (List.range 3).filter (fun td => decide (2 = td)) = [2] := by decide
  have hn : ¬ (L < 2) := by omega
  simp [subdivideCubicBSpline, hsh]
  rw [hf]
  simp [hsh, hn]

theorem mapAxis_shape (f : List K → List K) (t : Tensor K) (axis : Nat) :
    (t.mapAxis f axis).shape = t.shape.set axis (f (List.replicate (t.shape.getD axis 1) ((0 : Nat) : K))).length := rfl

theorem ffd_refine_api_1d (t : Tensor K) (N C m s : Nat) (hs : 1 ≤ s) (hm : 1 ≤ m)
    (hsh : t.shape = [N, C, ctrlSize m s]) :
    ffdGridRefine t [m] [2 * m - 1] [s]
      = .ok ((t.mapAxis subdivide1d 2).mapAxis (fun c => (c.drop 1).take (ctrlSize (2 * m - 1) s)) 2) := by
  have h4 := ctrlSize_ge_four m s hs hm
  have hr := ctrlSize_refined_le m s hs hm
  have hsub := subdivide_api_1d t N C (ctrlSize m s) hsh (by omega)
  have e1 : 2 * m - 1 + 1 = 2 * m := by omega
  have hlen : (subdivide1d (List.replicate (ctrlSize m s) ((0 : Nat) : K))).length = 2 * ctrlSize m s - 1 := by
    rw [subdivide1d_length]; simp
  have hnot : ¬ (2 * ctrlSize m s - 1 < 1 + ctrlSize (2 * m - 1) s) := by omega
  simp [ffdGridRefine, hsub, e1, hsh, mapAxis_shape, ffdDataShape]
  rw [subdivide1d_length]
  simp
  omega


end Deepali
