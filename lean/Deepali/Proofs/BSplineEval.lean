/-
  Proofs/BSplineEval.lean — index lemmas for the weight algorithm (`evalWeights`), exactness on
  affine coefficient sequences, subdivision masks.
-/
import Deepali.Proofs.BSpline
import Mathlib.Data.List.Basic
import Mathlib.Data.Nat.Cast.Order.Field
import Mathlib.Tactic.Push
import Mathlib.Logic.Function.Iterate

set_option linter.unusedSectionVars false

namespace Deepali

variable {K : Type} [Field K] [LinearOrder K] [IsStrictOrderedRing K]

theorem weightTable_length (s d : Nat) : (weightTable (α := K) s d).length = s := by
  simp [weightTable]

theorem weightTable_getElem? (s d k : Nat) (hk : k < s) :
    (weightTable (α := K) s d)[k]? = some (weightRow d (((k : Nat) : K) / ((s : Nat) : K))) := by
  simp [weightTable, hk]

theorem evalWeights_length (W : List (W4 K)) (c : List K) :
    (evalWeights W c).length = (c.length - 3) * W.length := by
  simp [evalWeights]

theorem getZ_evalWeights (W : List (W4 K)) (c : List K) (x : Nat) (hx : x < (c.length - 3) * W.length) :
    getZ (evalWeights W c) x = evalAt W c x := by
  simp [getZ, evalWeights, hx]

theorem getZ_of_le (c : List K) (i : Nat) (h : c.length ≤ i) : getZ c i = 0 := by
  simp [getZ, h]

theorem div_mod_decomp (s i k : Nat) (hk : k < s) : (i * s + k) / s = i ∧ (i * s + k) % s = k := by
  have hs : 0 < s := by omega
  constructor
  · rw [Nat.add_comm, Nat.add_mul_div_right _ _ hs, Nat.div_eq_of_lt hk, Nat.zero_add]
  · rw [Nat.add_comm, Nat.add_mul_mod_self_right, Nat.mod_eq_of_lt hk]

/-- output sample `x = i·s + k` of the weight algorithm: row `k` of the table on `c[i..i+3]`. -/
theorem evalAt_decomp (s d : Nat) (c : List K) (i k : Nat) (hk : k < s) :
    evalAt (weightTable s d) c (i * s + k)
      = (weightRow d (((k : Nat) : K) / ((s : Nat) : K))).dot (getZ c i) (getZ c (i + 1)) (getZ c (i + 2)) (getZ c (i + 3)) := by
  obtain ⟨e1, e2⟩ := div_mod_decomp s i k hk
  simp only [evalAt, weightTable_length, e1, e2, weightTable_getElem? s d k hk]

theorem evalAt_divmod (s d : Nat) (c : List K) (x : Nat) (hs : 0 < s) :
    evalAt (weightTable s d) c x
      = (weightRow d ((((x % s : Nat) : Nat) : K) / ((s : Nat) : K))).dot
          (getZ c (x / s)) (getZ c (x / s + 1)) (getZ c (x / s + 2)) (getZ c (x / s + 3)) := by
  have h := evalAt_decomp (K := K) s d c (x / s) (x % s) (Nat.mod_lt x hs)
  rw [Nat.div_add_mod' x s] at h
  exact h

/-! ### affine coefficient sequences -/

theorem idx_bound (L s x : Nat) (hx : x < (L - 3) * s) : x / s + 3 < L := by
  have hs : 0 < s := by
    rcases Nat.eq_zero_or_pos s with h | h
    · subst h; simp at hx
    · exact h
  have : x / s < L - 3 := (Nat.div_lt_iff_lt_mul hs).mpr hx
  generalize x / s = q at *
  omega

theorem evalWeights_affine (s : Nat) (hs : 1 ≤ s) (d : Nat) (c : List K) (a b : K)
    (hc : ∀ j, j < c.length → getZ c j = a + b * (((j : Nat) : K) - 1) * ((s : Nat) : K))
    (x : Nat) (hx : x < (c.length - 3) * s) :
    getZ (evalWeights (weightTable s d) c) x
      = if d = 0 then a + b * ((x : Nat) : K) else if d = 1 then b * ((s : Nat) : K) else 0 := by
  have hi := idx_bound c.length s x hx
  have hsK : ((s : Nat) : K) ≠ 0 := by
    have : (0 : K) < ((s : Nat) : K) := by exact_mod_cast hs
    exact ne_of_gt this
  rw [getZ_evalWeights _ _ _ (by rw [weightTable_length]; exact hx), evalAt_divmod s d c x (by omega)]
  rw [hc _ (by omega), hc _ (by omega), hc _ (by omega), hc _ (by omega)]
  have hxe : ((x : Nat) : K) = ((x / s : Nat) : K) * ((s : Nat) : K) + ((x % s : Nat) : K) := by
    have := Nat.div_add_mod' x s
    exact_mod_cast this.symm
  have key := weightRow_dot_affine d (((x % s : Nat) : K) / ((s : Nat) : K)) (a - b * ((s : Nat) : K))
    (b * ((s : Nat) : K)) ((x / s : Nat) : K)
  have e : ∀ n : K, a + b * (n - 1) * ((s : Nat) : K) = (a - b * ((s : Nat) : K)) + (b * ((s : Nat) : K)) * n := by
    intro n; ring
  push_cast
  rw [e, e, e, e, key, hxe]
  split_ifs
  · field_simp; ring
  · rfl
  · rfl


/-! ### subdivision masks -/

theorem subdivide1d_length (c : List K) : (subdivide1d c).length = 2 * c.length - 1 := by
  simp [subdivide1d]

theorem subdivide1d_even (c : List K) (q : Nat) (h0 : 0 < q) (hq : q < c.length) :
    getZ (subdivide1d c) (2 * q) = 1 / 8 * getZ c (q - 1) + 3 / 4 * getZ c q + 1 / 8 * getZ c (q + 1) := by
  have h1 : 2 * q < 2 * c.length - 1 := by omega
  have h2 : 2 * q % 2 = 0 := by omega
  have h3 : 2 * q / 2 = q := by omega
  have h4 : q ≠ 0 := by omega
  simp [subdivide1d, getZ, h1, h2, h3, subdivEven, hq, h4]

theorem subdivide1d_odd (c : List K) (q : Nat) (hq : q + 1 < c.length) :
    getZ (subdivide1d c) (2 * q + 1) = 1 / 2 * getZ c q + 1 / 2 * getZ c (q + 1) := by
  have h1 : 2 * q + 1 < 2 * c.length - 1 := by omega
  have h2 : (2 * q + 1) % 2 = 1 := by omega
  have h3 : (2 * q + 1) / 2 = q := by omega
  have h5 : q < c.length - 1 := by omega
  simp [subdivide1d, getZ, h1, h2, h3, subdivOdd, h5]


/-- refined spline at parameter `2u` (first half of the interval) equals the original at `u`. -/
theorem subdiv_poly_first (u c0 c1 c2 c3 : K) :
    (weightRow 0 (2 * u)).dot (1 / 2 * c0 + 1 / 2 * c1) (1 / 8 * c0 + 3 / 4 * c1 + 1 / 8 * c2)
        (1 / 2 * c1 + 1 / 2 * c2) (1 / 8 * c1 + 3 / 4 * c2 + 1 / 8 * c3)
      = (weightRow 0 u).dot c0 c1 c2 c3 := by
  simp only [weightRow, W4.dot, Nat.cast_ofNat, Nat.cast_one]
  field_simp
  ring

/-- refined spline at parameter `2u − 1` of the next refined interval (second half) equals the original at `u`. -/
theorem subdiv_poly_second (u c0 c1 c2 c3 : K) :
    (weightRow 0 (2 * u - 1)).dot (1 / 8 * c0 + 3 / 4 * c1 + 1 / 8 * c2) (1 / 2 * c1 + 1 / 2 * c2)
        (1 / 8 * c1 + 3 / 4 * c2 + 1 / 8 * c3) (1 / 2 * c2 + 1 / 2 * c3)
      = (weightRow 0 u).dot c0 c1 c2 c3 := by
  simp only [weightRow, W4.dot, Nat.cast_ofNat, Nat.cast_one]
  field_simp
  ring

theorem evalWeights_subdivide (s : Nat) (hs : 1 ≤ s) (c : List K) (x : Nat) (hx : x < (c.length - 3) * s) :
    getZ (evalWeights (weightTable s 0) (subdivide1d c)) (s + 2 * x)
      = getZ (evalWeights (weightTable s 0) c) x := by
  have hi := idx_bound c.length s x hx
  have hsK : ((s : Nat) : K) ≠ 0 := by
    have : (0 : K) < ((s : Nat) : K) := by exact_mod_cast hs
    exact ne_of_gt this
  have hk := Nat.mod_lt x (show 0 < s by omega)
  have hxe := (Nat.div_add_mod' x s).symm
  have h3 : 3 ≤ c.length := by
    have := hi
    generalize x / s = q at this
    omega
  obtain ⟨n, hn⟩ : ∃ n, c.length = n + 3 := ⟨c.length - 3, (Nat.sub_add_cancel h3).symm⟩
  have hL : ((subdivide1d c).length - 3) * s = (2 * n + 2) * s := by
    have : 2 * (n + 3) - 1 - 3 = 2 * n + 2 := by omega
    rw [subdivide1d_length, hn, this]
  have hb : s + 2 * x < (2 * n + 2) * s := by
    rw [hn] at hx; simp only [Nat.add_sub_cancel] at hx
    have : (2 * n + 2) * s = 2 * (n * s) + 2 * s := by ring
    omega
  rw [getZ_evalWeights _ _ _ (by rw [weightTable_length, hL]; exact hb),
    getZ_evalWeights _ _ _ (by rw [weightTable_length]; exact hx), evalAt_divmod s 0 c x (by omega)]
  generalize hq : x / s = i at *
  generalize hr : x % s = k at *
  by_cases h2 : 2 * k < s
  · have e : s + 2 * x = (2 * i + 1) * s + 2 * k := by rw [hxe]; ring
    rw [e, evalAt_decomp s 0 _ (2 * i + 1) (2 * k) h2]
    have e1 : 2 * i + 1 + 1 = 2 * (i + 1) := by ring
    have e2 : 2 * i + 1 + 2 = 2 * (i + 1) + 1 := by ring
    have e3 : 2 * i + 1 + 3 = 2 * (i + 2) := by ring
    rw [e1, e2, e3, subdivide1d_odd c i (by omega), subdivide1d_even c (i + 1) (by omega) (by omega),
      subdivide1d_odd c (i + 1) (by omega), subdivide1d_even c (i + 2) (by omega) (by omega)]
    simp only [Nat.add_sub_cancel]
    have ew : (((2 * k : Nat) : Nat) : K) / ((s : Nat) : K) = 2 * (((k : Nat) : K) / ((s : Nat) : K)) := by
      push_cast; ring
    have e4 : i + 2 - 1 = i + 1 := by omega
    have e5 : i + 2 + 1 = i + 3 := by omega
    have e6 : i + 1 + 1 = i + 2 := by omega
    rw [ew, e4, e5, e6]
    exact subdiv_poly_first _ _ _ _ _
  · have h2' : s ≤ 2 * k := by omega
    have hk2 : 2 * k - s < s := by omega
    have e : s + 2 * x = (2 * i + 2) * s + (2 * k - s) := by
      have : s + 2 * x = (2 * i + 1) * s + 2 * k := by rw [hxe]; ring
      have e' : (2 * i + 2) * s = (2 * i + 1) * s + s := by ring
      omega
    rw [e, evalAt_decomp s 0 _ (2 * i + 2) (2 * k - s) hk2]
    have e1 : 2 * i + 2 = 2 * (i + 1) := by ring
    have e2 : 2 * (i + 1) + 2 = 2 * (i + 2) := by ring
    have e3 : 2 * (i + 1) + 3 = 2 * (i + 2) + 1 := by ring
    rw [e1, e2, e3, subdivide1d_even c (i + 1) (by omega) (by omega), subdivide1d_odd c (i + 1) (by omega),
      subdivide1d_even c (i + 2) (by omega) (by omega), subdivide1d_odd c (i + 2) (by omega)]
    simp only [Nat.add_sub_cancel]
    have ew : (((2 * k - s : Nat) : Nat) : K) / ((s : Nat) : K) = 2 * (((k : Nat) : K) / ((s : Nat) : K)) - 1 := by
      rw [Nat.cast_sub h2']; push_cast; field_simp
    have e4 : i + 2 - 1 = i + 1 := by omega
    have e5 : i + 2 + 1 = i + 3 := by omega
    have e6 : i + 1 + 1 = i + 2 := by omega
    rw [ew, e4, e5, e6]
    exact subdiv_poly_second _ _ _ _ _


/-! ### repeated subdivision, refinement of an FFD image grid -/

theorem subdivide_bound (s : Nat) (hs : 1 ≤ s) (c : List K) (x : Nat) (hx : x < (c.length - 3) * s) :
    s + 2 * x < ((subdivide1d c).length - 3) * s := by
  have h3 : 3 ≤ c.length := by
    rcases Nat.lt_or_ge c.length 3 with h | h
    · have : c.length - 3 = 0 := by omega
      rw [this] at hx; simp at hx
    · exact h
  obtain ⟨n, hn⟩ : ∃ n, c.length = n + 3 := ⟨c.length - 3, (Nat.sub_add_cancel h3).symm⟩
  have : 2 * (n + 3) - 1 - 3 = 2 * n + 2 := by omega
  rw [subdivide1d_length, hn, this]
  rw [hn] at hx; simp only [Nat.add_sub_cancel] at hx
  have : (2 * n + 2) * s = 2 * (n * s) + 2 * s := by ring
  omega

theorem evalWeights_subdivide_iterate (s : Nat) (hs : 1 ≤ s) (r : Nat) : ∀ (c : List K) (x : Nat),
    x < (c.length - 3) * s →
    getZ (evalWeights (weightTable s 0) (subdivide1d^[r] c)) ((2 ^ r - 1) * s + 2 ^ r * x)
      = getZ (evalWeights (weightTable s 0) c) x := by
  induction r with
  | zero => intro c x _; simp
  | succ r ih =>
    intro c x hx
    rw [Function.iterate_succ_apply]
    have hb := subdivide_bound s hs c x hx
    have := ih (subdivide1d c) (s + 2 * x) hb
    rw [evalWeights_subdivide s hs c x hx] at this
    rw [← this]
    congr 1
    obtain ⟨p, hp⟩ : ∃ p, 2 ^ r = p + 1 := ⟨2 ^ r - 1, (Nat.sub_add_cancel Nat.one_le_two_pow).symm⟩
    rw [pow_succ, hp]
    have e1 : p + 1 - 1 = p := by omega
    have e2 : (p + 1) * 2 - 1 = 2 * p + 1 := by omega
    rw [e1, e2]; ring

theorem getZ_drop_take (l : List K) (n j : Nat) (hj : j < n) :
    getZ ((l.drop 1).take n) j = getZ l (j + 1) := by
  simp [getZ, List.getD_eq_getElem?_getD, hj]

theorem ffdRefine1d_length (m s : Nat) (hs : 1 ≤ s) (hm : 1 ≤ m) (c : List K) (hc : c.length = ctrlSize m s) :
    (ffdRefine1d (2 * m - 1) s c).length = ctrlSize (2 * m - 1) s := by
  have h := ctrlSize_refined_le m s hs hm
  simp only [ffdRefine1d, List.length_take, List.length_drop, subdivide1d_length, hc]
  omega

theorem evalWeights_ffdRefine (m s : Nat) (hs : 1 ≤ s) (hm : 1 ≤ m) (c : List K)
    (hc : c.length = ctrlSize m s) (x : Nat) (hx : x < m) :
    getZ (evalWeights (weightTable s 0) (ffdRefine1d (2 * m - 1) s c)) (2 * x)
      = getZ (evalWeights (weightTable s 0) c) x := by
  have hcov := ctrlSize_covers m s hs
  have hcov' := ctrlSize_covers (2 * m - 1) s hs
  have hx1 : x < (c.length - 3) * s := by rw [hc]; omega
  have hx2 : 2 * x < ((ffdRefine1d (2 * m - 1) s c).length - 3) * s := by
    rw [ffdRefine1d_length m s hs hm c hc]; omega
  rw [← evalWeights_subdivide s hs c x hx1]
  rw [getZ_evalWeights _ _ _ (by rw [weightTable_length]; exact hx2),
    getZ_evalWeights _ _ _ (by rw [weightTable_length]; exact subdivide_bound s hs c x hx1)]
  rw [evalAt_divmod s 0 _ (2 * x) (by omega), evalAt_divmod s 0 _ (s + 2 * x) (by omega)]
  have hi := idx_bound _ s (2 * x) hx2
  rw [ffdRefine1d_length m s hs hm c hc] at hi
  have ed : (s + 2 * x) / s = 2 * x / s + 1 := by
    rw [Nat.add_comm, Nat.add_div_right _ (by omega)]
  have em : (s + 2 * x) % s = 2 * x % s := by
    rw [Nat.add_comm, Nat.add_mod_right]
  rw [ed, em]
  simp only [ffdRefine1d]
  generalize 2 * x / s = i at *
  rw [getZ_drop_take _ _ i (by omega), getZ_drop_take _ _ (i + 1) (by omega),
    getZ_drop_take _ _ (i + 2) (by omega), getZ_drop_take _ _ (i + 3) (by omega)]


end Deepali
