/-
  Proofs/BSplineGrid.lean — where `cubic_bspline_control_point_grid` puts the control points
  (as coded: the control grid keeps the image spacing).
-/
import Deepali.Proofs.BSpline
import Deepali.Proofs.GridMaps

set_option linter.unusedSectionVars false

namespace Deepali
open Matrix

variable {K : Type} [Field K] [LinearOrder K] [IsStrictOrderedRing K] [FloorRing K] {d : Nat}

theorem index_to_world_eq (g : Grid d K) (x : Vec d K) :
    g.applyTransform .grid .world false x = g.affine.mulVec x + g.origin := by
  simp only [Grid.applyTransform, Grid.transform, H.applyAs, Bool.false_eq_true, if_false, wrap_apply,
    reduceCtorEq]

theorem fromOrigin_origin (size o spacing : Vec d K) (direction : Mat d K) (ac : Bool) :
    (Grid.fromOrigin size o spacing direction ac).origin = o := by
  simp only [Grid.fromOrigin, Grid.withOrigin, Grid.origin, Grid.originOffset, Grid.affine, Grid.sizeTensor,
    vadd_eq, vsub_eq]
  abel

theorem fromOrigin_affine (size o spacing : Vec d K) (direction : Mat d K) (ac : Bool) :
    (Grid.fromOrigin size o spacing direction ac).affine = direction.mul (Mat.diag spacing) := rfl

theorem affine_mulVec_eq (direction : Mat d K) (sp x : Vec d K) :
    (direction.mul (Mat.diag sp)).mulVec x = direction.mulVec (fun i => sp i * x i) := by
  rw [mul_mulVec, diag_mulVec']

/-- control index `j` of `cubic_bspline_control_point_grid(grid, s)` lies at image index
    `(j − 1)·s`: one control point before the first sample, spacing `s` samples. -/
theorem controlPointGrid_index_to_world (g : Grid d K) (m s : Fin d → Nat) (j : Vec d K) :
    (controlPointGrid g m s).applyTransform .grid .world false j
      = g.applyTransform .grid .world false (fun i => (j i - 1) * ((s i : Nat) : K)) := by
  rw [index_to_world_eq, index_to_world_eq]
  unfold controlPointGrid
  rw [fromOrigin_origin, fromOrigin_affine, index_to_world_eq]
  simp only [Grid.affine, affine_mulVec_eq]
  simp only [mulVec_eq]
  rw [← add_assoc, ← Matrix.mulVec_add]
  congr 2
  funext i
  simp only [Pi.add_apply]
  ring

end Deepali
