/-
  Proofs/CubeMaps.lean — the `Cube` of a grid defines the same normalised coordinates as the grid.
-/
import Deepali.Model.Cube
import Deepali.Proofs.ResizeRamp

set_option linter.unusedSectionVars false

namespace Deepali
open Matrix
variable {K : Type} [Field K] [LinearOrder K] [IsStrictOrderedRing K] [FloorRing K] {d : Nat}

theorem cube_affine_mulVec (c : Cube d K) (x : Vec d K) :
    c.affine.mulVec x = c.direction.mulVec (fun i => c.extent i / 2 * x i) := by
  unfold Cube.affine; rw [mul_mulVec, diag_mulVec']; simp only [Cube.spacing, Nat.cast_ofNat]

/-- cube → world of a cube: `center + D·(extent/2 ⊙ x)`. -/
theorem cube_to_world_apply (c : Cube d K) (x : Vec d K) :
    (match c.transform .cube .world none false with | .ok h => h.apply x | .errValue => x)
      = c.center + c.direction.mulVec (fun i => c.extent i / 2 * x i) := by
  simp only [Cube.transform, reduceCtorEq, false_or, or_false, false_and, and_false, if_false, and_self,
    Bool.false_eq_true, if_true, wrap_apply, cube_affine_mulVec]
  abel

/-- the grid's own CUBE / CUBE_CORNERS → WORLD map written around the centre. -/
theorem grid_cube_to_world (g : Grid d K) {n : Fin d → Nat} (hv : g.Valid) (hn : g.HasSize n) (h2 : ∀ i, 2 ≤ n i)
    (hpos : ∀ i, 0 < g.size i) (ac : Bool) (x : Vec d K) :
    g.applyTransform (Axes.fromAlignCorners ac) .world false x
      = g.center + g.direction.mulVec (fun i =>
          (g.spacing i * (if ac then g.sizeTensor i - 1 else g.sizeTensor i)) / 2 * x i) := by
  have hw : g.CornersOK .world := fun hc => by cases hc
  rw [applyTransform_eq hv _ _ (hn.cornersOK h2 _) hw, fromGrid_world_center g hpos]
  congr 2
  funext i
  cases ac <;> simp only [Axes.fromAlignCorners, toGrid, Bool.false_eq_true, if_false, if_true] <;> ring

/-- **the cube of a grid defines the grid's normalised coordinates**: `Cube.from_grid(g, ac)` maps cube
    coordinates to the same world points as the grid's CUBE (`ac = False`) resp. CUBE_CORNERS
    (`ac = True`) axes. -/
theorem cube_of_grid_to_world (g : Grid d K) {n : Fin d → Nat} (hv : g.Valid) (hn : g.HasSize n)
    (h2 : ∀ i, 2 ≤ n i) (hpos : ∀ i, 0 < g.size i) (ac : Bool) (x : Vec d K) :
    (match (Cube.ofGrid g (some ac)).transform .cube .world none false with | .ok h => h.apply x | .errValue => x)
      = g.applyTransform (Axes.fromAlignCorners ac) .world false x := by
  rw [cube_to_world_apply, grid_cube_to_world g hv hn h2 hpos]
  simp only [Cube.ofGrid, Grid.cubeExtent, Vec.mul, Nat.cast_one]
  have hs : ({ g with alignCorners := ac } : Grid d K).sizeTensor = g.sizeTensor := rfl
  congr 2
  funext i
  cases ac <;> simp only [hs, Bool.false_eq_true, if_false, if_true]

end Deepali
