/-
  Proofs/Dispatch.lean — C19: the alignment predicate, the operation classes of the partial theorem and the
  basic lemmas about the constructors (`mk*`, `*_Result`) of the dispatch model.
-/
import Deepali.Model.Dispatch

set_option linter.unusedSectionVars false

namespace Deepali.Dispatch

/-- provenance "the data of the item this grid belongs to" -/
def itemOf (g : GridTag) : Prov := .item g.src

/-- `Aligned` for a single result (`a0` = the axes all flow inputs of the program use):
    a typed result has exactly one grid per batch entry, each grid's shape is the data's spatial shape, entry `i`
    holds the data of the input item whose grid it carries (an image: every channel holds data of that item or of no
    item), and a flow result keeps the vector representation. Plain tensors claim nothing. -/
def AlignedS (a0 : Nat) : SVal → Prop
  | .plain _ => True
  | .batch flow t grids a =>
      grids.length = t.shape.headD 0 ∧ (∀ g ∈ grids, g.shape = t.shape.drop 2) ∧ t.prov = grids.map itemOf ∧
        (flow = true → a = a0)
  | .image flow t g a =>
      g.shape = t.shape.drop 1 ∧ (∀ p ∈ t.prov, p = itemOf g ∨ p = .none) ∧ (flow = true → a = a0)

/-- `Aligned` for a program value; an exception yields nothing (DESIGN §5.0 I-1). -/
def AlignedV (a0 : Nat) : Val → Prop
  | .one s => AlignedS a0 s
  | .many l => ∀ s ∈ l, AlignedS a0 s
  | .err _ => True

instance (a0 : Nat) (s : SVal) : Decidable (AlignedS a0 s) := by
  cases s <;> unfold AlignedS <;> infer_instance

instance (a0 : Nat) (v : Val) : Decidable (AlignedV a0 v) := by
  cases v <;> unfold AlignedV <;> infer_instance

/-- the second operand of cat/stack/append is a batch that is itself aligned -/
def OtherOK (a0 : Nat) (other : Option SVal) : Prop :=
  ∀ o, other = some o → (∃ f t g a, o = .batch f t g a) ∧ AlignedS a0 o

/-- one grid per entry and matching shapes (the "not mis-described" half of `Aligned`) -/
def CountShapeOK : SVal → Prop
  | .plain _ => True
  | .batch _ t grids _ => grids.length = t.shape.headD 0 ∧ ∀ g ∈ grids, g.shape = t.shape.drop 2
  | .image _ t g _ => g.shape = t.shape.drop 1

def CountShapeOKV : Val → Prop
  | .one s => CountShapeOK s
  | .many l => ∀ s ∈ l, CountShapeOK s
  | .err _ => True

instance (s : SVal) : Decidable (CountShapeOK s) := by
  cases s <;> unfold CountShapeOK <;> infer_instance

instance (v : Val) : Decidable (CountShapeOKV v) := by
  cases v <;> unfold CountShapeOKV <;> infer_instance

/-! ### operation classes of `C19_aligned_partial` -/

def dim0 : DimArg → Bool
  | .dflt => true
  | .pos d => d == 0
  | .kw d => d == 0

def goodIx : Ix → Bool
  | .ell => false
  | _ => true

def noEllMask : Ix → Bool
  | .ell => false
  | _ => true

/-- operation classes for which the dispatcher as written keeps results aligned, for every kind of value -/
def goodOp : TOp → Bool
  | .ew | .copy | .deepcopy | .pickle | .iter | .pick _ => true
  | .flip _ => true
  | .roll _ _ => true
  | .permute _ => true
  | .transpose _ _ => true
  | .getitem (.single _) => true
  | .getitem (.tuple l) => l.all noEllMask
  | .splitL _ d => dim0 d
  | .splitWS _ d => dim0 d
  | .narrowM _ s _ => decide (0 ≤ s)
  | .append => true
  | .cat _ d => dim0 d
  | .split _ d => dim0 d
  | .tsplitL _ d => dim0 d
  | .narrowF d _ _ => decide (1 ≤ d)
  | .indexSelect _ _ => true
  | .select d _ => decide (1 ≤ d)
  | .reduce all dims _ => !all && dims.all (fun d => decide (1 ≤ d))
  | .interp _ => true
  | .pool _ _ _ => true
  | .chunk _ _ => true
  | .unbind _ => true
  | _ => false

/-! ### list helpers -/

theorem pick_map {α β : Type} (f : α → β) (l : List α) (idx : List Nat) :
    pick (l.map f) idx = (pick l idx).map f := by
  unfold pick
  induction idx with
  | nil => rfl
  | cons i is ih =>
    rw [List.filterMap_cons, List.filterMap_cons, List.getElem?_map]
    cases h : l[i]? with
    | none => simpa using ih
    | some x => simpa using ih

theorem pick_length {α : Type} (l : List α) (idx : List Nat) (h : ∀ i ∈ idx, i < l.length) :
    (pick l idx).length = idx.length := by
  unfold pick
  induction idx with
  | nil => rfl
  | cons i is ih =>
    have hi : i < l.length := h i (by simp)
    have : l[i]? = some l[i] := List.getElem?_eq_getElem hi
    simp only [List.filterMap_cons, this, List.length_cons]
    rw [ih (fun j hj => h j (by simp [hj]))]

theorem pick_mem {α : Type} (l : List α) (idx : List Nat) (x : α) (h : x ∈ pick l idx) : x ∈ l := by
  unfold pick at h
  rw [List.mem_filterMap] at h
  obtain ⟨i, _, hi⟩ := h
  exact List.mem_of_getElem? hi

theorem any_ne_false {α : Type} [DecidableEq α] (l : List GridTag) (f : GridTag → α) (c : α)
    (h : ¬ (l.any (fun g => decide (f g ≠ c)) = true)) : ∀ g ∈ l, f g = c := by
  intro g hg
  by_cases hne : f g = c
  · exact hne
  · exfalso
    apply h
    rw [List.any_eq_true]
    exact ⟨g, hg, by simpa using hne⟩

/-! ### constructors -/

theorem alignedV_ofExcept_mkImageBatch (a0 : Nat) (t : Raw) (gs : List GridTag)
    (h1 : gs.length = t.shape.headD 0) (h2 : t.prov = gs.map itemOf) :
    AlignedV a0 (ofExcept (mkImageBatch t gs)) := by
  unfold mkImageBatch
  split
  · simp [ofExcept, AlignedV]
  · split
    · simp [ofExcept, AlignedV]
    · rename_i hany
      simp only [ofExcept, AlignedV, AlignedS]
      refine ⟨h1, ?_, h2, by simp⟩
      exact any_ne_false gs (fun g => g.shape) _ hany

theorem alignedV_ofExcept_mkFlowFields (a0 : Nat) (t : Raw) (gs : List GridTag) (a : Nat)
    (h1 : gs.length = t.shape.headD 0) (h2 : t.prov = gs.map itemOf) (h3 : a = a0) :
    AlignedV a0 (ofExcept (mkFlowFields t gs (some a))) := by
  have hib := alignedV_ofExcept_mkImageBatch a0 t gs h1 h2
  unfold mkFlowFields
  cases hm : mkImageBatch t gs with
  | error e => simp [ofExcept, AlignedV]
  | ok s =>
    simp only []
    split
    · simp [ofExcept, AlignedV]
    · rw [hm] at hib
      unfold mkImageBatch at hm
      split at hm
      · cases hm
      · split at hm
        · cases hm
        · cases hm
          simp only [ofExcept, AlignedV, AlignedS] at hib ⊢
          exact ⟨hib.1, hib.2.1, hib.2.2.1, fun _ => h3⟩

theorem alignedV_makeInstance (a0 : Nat) (f : Bool) (a : Nat) (t : Raw) (gs : List GridTag)
    (hf : f = true → a = a0) (h1 : gs.length = t.shape.headD 0) (h2 : t.prov = gs.map itemOf) :
    AlignedV a0 (ofExcept (makeInstance f a t gs)) := by
  unfold makeInstance
  split
  · rename_i hft
    split
    · exact alignedV_ofExcept_mkImageBatch a0 t gs h1 h2
    · exact alignedV_ofExcept_mkFlowFields a0 t gs a h1 h2 (hf hft)
  · exact alignedV_ofExcept_mkImageBatch a0 t gs h1 h2

theorem alignedV_ofExcept_mkImage (a0 : Nat) (t : Raw) (g : GridTag)
    (h : ∀ p ∈ t.prov, p = itemOf g ∨ p = .none) : AlignedV a0 (ofExcept (mkImage t g)) := by
  unfold mkImage
  split
  · simp [ofExcept, AlignedV]
  · split
    · simp [ofExcept, AlignedV]
    · rename_i hs
      simp only [ofExcept, AlignedV, AlignedS]
      exact ⟨by simpa using hs, h, by simp⟩

theorem alignedV_ofExcept_mkFlowField (a0 : Nat) (t : Raw) (g : GridTag) (a : Nat)
    (h : ∀ p ∈ t.prov, p = itemOf g ∨ p = .none) (ha : a = a0) :
    AlignedV a0 (ofExcept (mkFlowField t g a)) := by
  have him := alignedV_ofExcept_mkImage a0 t g h
  unfold mkFlowField
  cases hm : mkImage t g with
  | error e => simp [ofExcept, AlignedV]
  | ok s =>
    simp only []
    split
    · simp [ofExcept, AlignedV]
    · rw [hm] at him
      unfold mkImage at hm
      split at hm
      · cases hm
      · split at hm
        · cases hm
        · cases hm
          simp only [ofExcept, AlignedV, AlignedS] at him ⊢
          exact ⟨him.1, him.2.1, fun _ => ha⟩

theorem alignedV_makeSubitem (a0 : Nat) (f : Bool) (a : Nat) (t : Raw) (g : GridTag)
    (hf : f = true → a = a0) (h : ∀ p ∈ t.prov, p = itemOf g ∨ p = .none) :
    AlignedV a0 (ofExcept (makeSubitem f a t g)) := by
  unfold makeSubitem
  split
  · rename_i hc
    exact alignedV_ofExcept_mkFlowField a0 t g a h (hf hc.1)
  · exact alignedV_ofExcept_mkImage a0 t g h

/-! ### `_torch_function_result` -/

theorem alignedV_ibResult (a0 : Nat) (data : Raw) (gs : List GridTag) (h2 : data.prov = gs.map itemOf) :
    AlignedV a0 (ibResult data (some gs)) := by
  unfold ibResult
  cases gs with
  | nil =>
    simp only []
    split
    · rename_i hc
      exact alignedV_ofExcept_mkImageBatch a0 data [] (by rw [hc.2]; rfl) h2
    · simp [AlignedV, AlignedS]
  | cons g0 gs =>
    simp only []
    split
    · rename_i hc
      exact alignedV_ofExcept_mkImageBatch a0 data (g0 :: gs) hc.2.1.symm h2
    · simp [AlignedV, AlignedS]

theorem alignedV_ibResult_none (a0 : Nat) (data : Raw) : AlignedV a0 (ibResult data none) := by
  simp [ibResult, AlignedV, AlignedS]

theorem alignedV_ffResult (a0 : Nat) (data : Raw) (gs : List GridTag) (a : Nat)
    (h2 : data.prov = gs.map itemOf) (ha : a = a0) :
    AlignedV a0 (ffResult data (some gs) (some a)) := by
  unfold ffResult
  cases gs with
  | nil =>
    simp only []
    split
    · rename_i hc
      exact alignedV_ofExcept_mkFlowFields a0 data [] a (by rw [hc.2]; rfl) h2 ha
    · exact alignedV_ibResult a0 data [] h2
  | cons g0 gs =>
    simp only []
    split
    · rename_i hc
      exact alignedV_ofExcept_mkFlowFields a0 data (g0 :: gs) a hc.2.1.symm h2 ha
    · exact alignedV_ibResult a0 data (g0 :: gs) h2

theorem alignedV_imResult (a0 : Nat) (data : Raw) (g : GridTag)
    (h : ∀ p ∈ data.prov, p = itemOf g ∨ p = .none) : AlignedV a0 (imResult data (some g)) := by
  unfold imResult
  simp only []
  split
  · exact alignedV_ofExcept_mkImage a0 data g h
  · simp [AlignedV, AlignedS]

theorem alignedV_fiResult (a0 : Nat) (data : Raw) (g : GridTag) (a : Nat)
    (h : ∀ p ∈ data.prov, p = itemOf g ∨ p = .none) (ha : a = a0) :
    AlignedV a0 (fiResult data (some g) (some a)) := by
  unfold fiResult
  simp only []
  split
  · exact alignedV_ofExcept_mkFlowField a0 data g a h ha
  · exact alignedV_imResult a0 data g h

/-- a tuple of results is aligned when every member is -/
theorem alignedV_collect (a0 : Nat) (l : List Val) (h : ∀ v ∈ l, AlignedV a0 v) : AlignedV a0 (collect l) := by
  unfold collect
  cases hm : l.mapM sval? with
  | none => simp [AlignedV]
  | some ss =>
    simp only [AlignedV]
    intro s hs
    have : ∀ (l : List Val) (ss : List SVal), l.mapM sval? = some ss → ∀ s ∈ ss, Val.one s ∈ l := by
      intro l
      induction l with
      | nil => intro ss h s hs; simp at h; subst h; simp at hs
      | cons v vs ih =>
        intro ss h s hs
        rw [List.mapM_cons] at h
        cases hv : sval? v with
        | none => simp [hv] at h
        | some s0 =>
          cases hr : vs.mapM sval? with
          | none => simp [hv, hr] at h
          | some rs =>
            simp [hv, hr] at h
            subst h
            have hv' : v = .one s0 := by
              cases v <;> simp [sval?] at hv
              subst hv; rfl
            rcases List.mem_cons.mp hs with h1 | h1
            · subst h1; simp [hv']
            · exact List.mem_cons_of_mem _ (ih rs hr s h1)
    have hmem := this l ss hm s hs
    exact h _ hmem

theorem alignedV_many_plain (a0 : Nat) (l : List Raw) : AlignedV a0 (.many (l.map SVal.plain)) := by
  simp only [AlignedV]
  intro s hs
  rw [List.mem_map] at hs
  obtain ⟨r, _, rfl⟩ := hs
  simp [AlignedS]

end Deepali.Dispatch
