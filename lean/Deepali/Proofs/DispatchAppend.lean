/-
  Proofs/DispatchAppend.lean — C19: `append` keeps batches aligned; `FlowFields.append` rejects mismatching axes and
  `FlowFields.from_images` keeps the items' common axes (as repaired in /repo, commit d25ad21).
-/
import Deepali.Proofs.DispatchNarrow

set_option linter.unusedSectionVars false

namespace Deepali.Dispatch

theorem alignedV_batchAppend (a0 : Nat) (f : Bool) (a : Nat) (t : Raw) (gs : List GridTag) (other : Option SVal)
    (hal : AlignedS a0 (.batch f t gs a)) (hother : OtherOK a0 other) :
    AlignedV a0 (batchAppend f a t gs other) := by
  obtain ⟨hcount, _, hprov, hax⟩ := hal
  unfold batchAppend
  cases other with
  | none => exact alignedV_err a0 _
  | some o =>
    obtain ⟨⟨fo, t', gs', ao, rfl⟩, halo⟩ := hother o rfl
    simp only []
    apply alignedV_ite _ _ _ _ (alignedV_err a0 _)
    apply alignedV_ite _ _ _ _ (alignedV_err a0 _)
    apply alignedV_makeInstance a0 f a _ _ hax
    · simp only [List.length_append, List.headD_cons, hcount, halo.1]
    · simp only [List.map_append, hprov, halo.2.2.1]

theorem append_mismatch_raises (a ao : Nat) (t t' : Raw) (gs gs' : List GridTag) (h : ao ≠ a) :
    batchAppend true a t gs (some (.batch true t' gs' ao)) = .err .dispatch := by
  simp [batchAppend, h]

theorem torchFunctionAxes_all (args : List SVal) (a : Nat) (h : torchFunctionAxes args = .ok (some a)) :
    ∀ s ∈ args, ∀ a', axes? s = some a' → a' = a := by
  unfold torchFunctionAxes at h
  cases hf : args.filterMap axes? with
  | nil => simp [hf] at h
  | cons x xs =>
    simp only [hf] at h
    split at h
    · cases h
    · rename_i hany
      cases h
      intro s hs a' ha'
      have hm : a' ∈ args.filterMap axes? := List.mem_filterMap.mpr ⟨s, hs, ha'⟩
      rw [hf] at hm
      rcases List.mem_cons.mp hm with h1 | h1
      · exact h1
      · by_cases hne : a' = a
        · exact hne
        · exfalso
          apply hany
          rw [List.any_eq_true]
          exact ⟨a', h1, by simpa using hne⟩

theorem torchFunctionAxes_none (args : List SVal) (h : torchFunctionAxes args = .ok none) :
    ∀ s ∈ args, axes? s = none := by
  unfold torchFunctionAxes at h
  cases hf : args.filterMap axes? with
  | nil =>
    intro s hs
    cases hx : axes? s with
    | none => rfl
    | some a' =>
      have : a' ∈ args.filterMap axes? := List.mem_filterMap.mpr ⟨s, hs, hx⟩
      rw [hf] at this
      simp at this
  | cons x xs =>
    simp only [hf] at h
    split at h <;> cases h

theorem mkFlowFields_ok (t : Raw) (gs : List GridTag) (ax : Option Nat) (s : SVal) (h : mkFlowFields t gs ax = .ok s) :
    ∃ a, s = .batch true t gs a ∧ (ax = some a ∨ ax = none) := by
  unfold mkFlowFields at h
  cases hm : mkImageBatch t gs with
  | error e => rw [hm] at h; cases h
  | ok s0 =>
    rw [hm] at h
    simp only [] at h
    split at h
    · cases h
    · cases ax with
      | some a => cases h; exact ⟨a, rfl, Or.inl rfl⟩
      | none =>
        simp only [] at h
        split at h
        · cases h
        · cases h; exact ⟨_, rfl, Or.inr rfl⟩

/-- a FlowFields built by `from_images` carries the axes of every flow item it was built from -/
theorem fromImages_axes (l : List SVal) (t : Raw) (gs : List GridTag) (a : Nat)
    (h : fromImages l = .one (.batch true t gs a)) : ∀ s ∈ l, ∀ a', axes? s = some a' → a' = a := by
  unfold fromImages at h
  split at h
  · cases h
  · cases h
  · rename_i f t0 g0 rest _
    split at h
    · cases h
    · simp only [] at h
      split at h
      · -- FlowFields class
        split at h
        · cases h
        · rename_i b hb
          split at h
          · cases h
          · rename_i hax
            intro s hs a' ha'
            rw [torchFunctionAxes_none l hax s hs] at ha'
            cases ha'
          · rename_i a2 hax
            unfold ofExcept at h
            split at h
            · rename_i s2 hm
              obtain ⟨a3, rfl, hor⟩ := mkFlowFields_ok _ _ _ _ hm
              simp only [Val.one.injEq, SVal.batch.injEq] at h
              rcases hor with h1 | h1
              · cases h1
                rw [← h.2.2.2]
                exact torchFunctionAxes_all l _ hax
              · cases h1
            · cases h
      · unfold mkImageBatch at h
        split at h
        · simp [ofExcept] at h
        · split at h
          · simp [ofExcept] at h
          · simp [ofExcept] at h

end Deepali.Dispatch
