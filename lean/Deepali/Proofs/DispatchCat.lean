/-
  Proofs/DispatchCat.lean — C19: concatenation along the batch dimension (`torch.cat` with dim omitted,
  positional 0 or keyword 0) keeps batches aligned.
-/
import Deepali.Proofs.DispatchIndex
import Deepali.Proofs.DispatchGeneric

set_option linter.unusedSectionVars false

namespace Deepali.Dispatch

def argSel (cur : SVal) (other : Option SVal) : Operand → Option SVal
  | .cur => some cur
  | .other => other

theorem callArgs_cat (ops : List Operand) (d : DimArg) (cur : SVal) (other : Option SVal) :
    callArgs (.cat ops d) cur other = ops.mapM (argSel cur other) := by
  simp only [callArgs]
  congr 1

theorem resolveOps_eq (ops : List Operand) (cur : SVal) (other : Option SVal) :
    resolveOps ops cur.raw (other.map SVal.raw) = (ops.mapM (argSel cur other)).map (List.map SVal.raw) := by
  unfold resolveOps
  induction ops with
  | nil => rfl
  | cons o os ih =>
    rw [List.mapM_cons, List.mapM_cons, ih]
    cases o with
    | cur => cases (os.mapM (argSel cur other)) <;> simp [argSel]
    | other =>
      cases other with
      | none => simp [argSel]
      | some x => cases (os.mapM (argSel cur (some x))) <;> simp [argSel]

theorem mapM_argSel_mem (ops : List Operand) (cur : SVal) (other : Option SVal) (args : List SVal)
    (h : ops.mapM (argSel cur other) = some args) : ∀ s ∈ args, s = cur ∨ other = some s := by
  induction ops generalizing args with
  | nil => simp at h; subst h; simp
  | cons o os ih =>
    rw [List.mapM_cons] at h
    cases h1 : argSel cur other o with
    | none => simp [h1] at h
    | some x =>
      cases h2 : os.mapM (argSel cur other) with
      | none => simp [h1, h2] at h
      | some xs =>
        simp [h1, h2] at h
        subst h
        intro s hs
        rcases List.mem_cons.mp hs with h3 | h3
        · subst h3
          cases o with
          | cur => left; simpa [argSel] using h1.symm
          | other => right; simpa [argSel] using h1
        · exact ih xs h2 s h3

/-- every argument is an aligned batch -/
def ArgsOK (a0 : Nat) (args : List SVal) : Prop :=
  ∀ s ∈ args, (∃ f t g a, s = SVal.batch f t g a) ∧ AlignedS a0 s

theorem argsOK_of (a0 : Nat) (ops : List Operand) (f : Bool) (t : Raw) (gs : List GridTag) (a : Nat)
    (other : Option SVal) (args : List SVal)
    (hal : AlignedS a0 (.batch f t gs a)) (hother : OtherOK a0 other)
    (h : ops.mapM (argSel (.batch f t gs a) other) = some args) : ArgsOK a0 args := by
  intro s hs
  rcases mapM_argSel_mem ops _ other args h s hs with h1 | h1
  · subst h1; exact ⟨⟨f, t, gs, a, rfl⟩, hal⟩
  · exact hother s h1

theorem argsOK_prov (a0 : Nat) (args : List SVal) (h : ArgsOK a0 args) :
    ((args.map SVal.raw).map (·.prov)).flatten = ((args.filterMap batchGrids?).flatten).map itemOf := by
  induction args with
  | nil => rfl
  | cons s ss ih =>
    obtain ⟨⟨f, t, g, a, rfl⟩, hal⟩ := h s (by simp)
    have ih' := ih (fun x hx => h x (by simp [hx]))
    simp only [List.map_cons, List.flatten_cons, List.filterMap_cons, batchGrids?, SVal.raw, List.map_append]
    rw [ih', hal.2.2.1]

theorem argsOK_count (a0 : Nat) (args : List SVal) (h : ArgsOK a0 args) :
    ((args.filterMap batchGrids?).flatten).length =
      ((args.map SVal.raw).map (fun r => r.shape.getD 0 0)).foldr (· + ·) 0 := by
  induction args with
  | nil => rfl
  | cons s ss ih =>
    obtain ⟨⟨f, t, g, a, rfl⟩, hal⟩ := h s (by simp)
    have ih' := ih (fun x hx => h x (by simp [hx]))
    simp only [List.map_cons, List.flatten_cons, List.filterMap_cons, batchGrids?, SVal.raw, List.length_append,
      List.foldr_cons]
    rw [ih', hal.1]
    cases t.shape <;> rfl

theorem argsOK_filterMap_cons (a0 : Nat) (s : SVal) (ss : List SVal) (h : ArgsOK a0 (s :: ss)) :
    ∃ g gs', (s :: ss).filterMap batchGrids? = g :: gs' := by
  obtain ⟨⟨f, t, g, a, rfl⟩, _⟩ := h s (by simp)
  exact ⟨g, ss.filterMap batchGrids?, by simp [batchGrids?]⟩

theorem torchFunctionAxes_some (args : List SVal) (a' : Nat) (h : torchFunctionAxes args = .ok (some a')) :
    ∃ s ∈ args, axes? s = some a' := by
  unfold torchFunctionAxes at h
  cases hf : args.filterMap axes? with
  | nil => simp [hf] at h
  | cons x xs =>
    simp only [hf] at h
    split at h
    · cases h
    · cases h
      have : a' ∈ args.filterMap axes? := by rw [hf]; simp
      rw [List.mem_filterMap] at this
      exact this

theorem alignedV_ffResult_noaxes (a0 : Nat) (data : Raw) (gs : List GridTag) (h2 : data.prov = gs.map itemOf) :
    AlignedV a0 (ffResult data (some gs) none) := by
  unfold ffResult
  cases gs with
  | nil =>
    simp only []
    split
    · unfold mkFlowFields
      cases mkImageBatch data [] <;> simp [ofExcept, AlignedV]
    · exact alignedV_ibResult a0 data [] h2
  | cons g0 gs => exact alignedV_ibResult a0 data (g0 :: gs) h2

theorem kwDimIsZero_cat (ops : List Operand) (d : DimArg) (h : dim0 d = true) : kwDimIsZero (.cat ops d) = true := by
  cases d with
  | dflt => rfl
  | pos v => rfl
  | kw v => simpa [kwDimIsZero, dim0] using h

theorem dim0_val (d : DimArg) (h : dim0 d = true) : d.val = 0 := by
  cases d with
  | dflt => rfl
  | pos v => simpa [dim0, DimArg.val] using h
  | kw v => simpa [dim0, DimArg.val] using h

/-- `torch.cat([...], dim 0)` of aligned batches -/
theorem alignedV_batchTF_cat (a0 : Nat) (ops : List Operand) (d : DimArg) (f : Bool) (t : Raw)
    (gs : List GridTag) (a : Nat) (other : Option SVal)
    (hd : dim0 d = true) (hal : AlignedS a0 (.batch f t gs a)) (hother : OtherOK a0 other) :
    AlignedV a0 (batchTorchFunction (.cat ops d) (.batch f t gs a) other) := by
  cases hsem : torchSem (.cat ops d) (SVal.batch f t gs a).raw (other.map SVal.raw) with
  | err => rw [batchTF_err _ _ _ hsem]; exact alignedV_err a0 _
  | ts l =>
    rw [torchSem_cat] at hsem
    repeat' (split at hsem <;> try cases hsem)
  | t data =>
    rw [torchSem_cat, resolveOps_eq] at hsem
    cases hargs : ops.mapM (argSel (.batch f t gs a) other) with
    | none => simp [hargs] at hsem
    | some args =>
      have hok := argsOK_of a0 ops f t gs a other args hal hother hargs
      simp only [hargs, Option.map_some] at hsem
      cases args with
      | nil => simp at hsem
      | cons s ss =>
        simp only [List.map_cons] at hsem
        rw [dim0_val d hd] at hsem
        cases hn : normDim s.raw.ndim 0 with
        | none => simp [hn] at hsem
        | some k =>
          have hk : k = 0 := normDim_zero hn
          subst hk
          simp only [hn] at hsem
          split at hsem
          · cases hsem
          · simp only [if_true, RawRes.t.injEq] at hsem
            have hprov : data.prov = (((s :: ss).filterMap batchGrids?).flatten).map itemOf := by
              rw [← argsOK_prov a0 (s :: ss) hok, ← hsem]
              rfl
            have hcount : (((s :: ss).filterMap batchGrids?).flatten).length = data.shape.headD 0 := by
              rw [argsOK_count a0 (s :: ss) hok, ← hsem]
              simp [setAt]
            obtain ⟨g, gs', hfm⟩ := argsOK_filterMap_cons a0 s ss hok
            have hsem' : torchSem (.cat ops d) (SVal.batch f t gs a).raw (other.map SVal.raw) = .t data := by
              rw [torchSem_cat, resolveOps_eq, hargs]
              simp only [Option.map_some, List.map_cons]
              rw [dim0_val d hd]
              simp only [hn]
              rename_i hany
              simp only [hany, if_true, Bool.false_eq_true, if_false]
              rw [← hsem]
            unfold batchTorchFunction
            simp only [hsem', callArgs_cat, hargs, rangeStepZero, Bool.false_and, Bool.false_eq_true, if_false,
              isSplitFamily]
            have hgrid : torchFunctionGrid (.cat ops d) ((s :: ss).filterMap batchGrids?) =
                some (.flat ((s :: ss).filterMap batchGrids?).flatten) := by
              rw [hfm]
              simp only [torchFunctionGrid, kwDimIsZero_cat ops d hd, if_true]
            rw [hgrid]
            split
            · -- FlowFields path
              cases hax : torchFunctionAxes (s :: ss) with
              | error e => exact alignedV_err a0 _
              | ok axes =>
                simp only []
                cases axes with
                | none => exact alignedV_ffResult_noaxes a0 data _ hprov
                | some a' =>
                  obtain ⟨x, hx, hxa⟩ := torchFunctionAxes_some _ a' hax
                  obtain ⟨⟨f', t', g', a'', rfl⟩, halx⟩ := hok x hx
                  have : a' = a0 := by
                    cases f' with
                    | false => simp [axes?] at hxa
                    | true =>
                      simp only [axes?, Option.some.injEq] at hxa
                      subst hxa
                      exact halx.2.2.2 rfl
                  exact alignedV_ffResult a0 data _ a' hprov this
            · exact alignedV_ibResult a0 data _ hprov

end Deepali.Dispatch
