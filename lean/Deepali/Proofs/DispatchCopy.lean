/-
  Proofs/DispatchCopy.lean — C19: copy / deepcopy / pickle of well-formed values.
-/
import Deepali.Proofs.DispatchDemote

set_option linter.unusedSectionVars false

namespace Deepali.Dispatch

/-- class invariants established by the constructors (`__init__` / `grid_`) -/
def WFS : SVal → Prop
  | .plain _ => True
  | .batch f t gs a =>
      4 ≤ t.ndim ∧ (∀ g ∈ gs, g.shape = t.shape.drop 2) ∧ (f = true → t.shape.getD 1 0 = t.ndim - 2) ∧ (f = false → a = 0)
  | .image f t g a =>
      3 ≤ t.ndim ∧ g.shape = t.shape.drop 1 ∧ (f = true → t.shape.headD 0 = g.shape.length) ∧ (f = false → a = 0)

instance (s : SVal) : Decidable (WFS s) := by
  cases s <;> unfold WFS <;> infer_instance

theorem any_shape_false (gs : List GridTag) (sh : List Nat) (h : ∀ g ∈ gs, g.shape = sh) :
    gs.any (fun g => decide (g.shape ≠ sh)) = false := by
  rw [List.any_eq_false]
  intro g hg
  simp [h g hg]

theorem mkImageBatch_ok (t : Raw) (gs : List GridTag) (h1 : 4 ≤ t.ndim) (h2 : ∀ g ∈ gs, g.shape = t.shape.drop 2) :
    mkImageBatch t gs = .ok (.batch false t gs 0) := by
  unfold mkImageBatch
  rw [if_neg (by omega)]
  simp only [any_shape_false gs _ h2, Bool.false_eq_true, if_false]

theorem mkImage_ok (t : Raw) (g : GridTag) (h1 : 3 ≤ t.ndim) (h2 : g.shape = t.shape.drop 1) :
    mkImage t g = .ok (.image false t g 0) := by
  unfold mkImage
  rw [if_neg (by omega), if_neg (by simp [h2])]

theorem deepcopy_preserve (other : Option SVal) (s : SVal) (h : WFS s) :
    step other .deepcopy (.one s) = .one s := by
  cases s with
  | plain t => simp [step, stepOne, deepcopyVal]
  | batch f t gs a =>
    obtain ⟨h1, h2, h3, h4⟩ := h
    cases f with
    | false =>
      have := h4 rfl
      subst this
      simp [step, stepOne, deepcopyVal, makeInstance, mkImageBatch_ok t gs h1 h2, ofExcept]
    | true =>
      have := h3 rfl
      simp only [List.getD_eq_getElem?_getD] at this
      simp [step, stepOne, deepcopyVal, makeInstance, mkFlowFields, mkImageBatch_ok t gs h1 h2, ofExcept, this]
  | image f t g a =>
    obtain ⟨h1, h2, h3, h4⟩ := h
    cases f with
    | false =>
      have := h4 rfl
      subst this
      simp [step, stepOne, deepcopyVal, mkImage_ok t g h1 h2, ofExcept]
    | true =>
      have := h3 rfl
      simp only [List.headD_eq_head?_getD] at this
      simp [step, stepOne, deepcopyVal, mkFlowField, mkImage_ok t g h1 h2, ofExcept, this]

theorem copy_pickle_preserve (other : Option SVal) (s : SVal) (h : WFS s) :
    step other .pickle (.one s) = .one s ∧ step other .deepcopy (.one s) = .one s ∧
      step other .copy (.one s) = .one s := by
  have hdeep := deepcopy_preserve other s h
  refine ⟨by simp [step, stepOne, pickleVal], hdeep, ?_⟩
  cases s with
  | plain t => simp [step, stepOne, copyVal]
  | batch f t gs a =>
    cases f with
    | true => simpa [step, stepOne, copyVal, deepcopyVal] using hdeep
    | false =>
      obtain ⟨h1, h2, _, h4⟩ := h
      have := h4 rfl
      subst this
      simp [step, stepOne, copyVal, mkImageBatch_ok t gs h1 h2, ofExcept]
  | image f t g a =>
    cases f with
    | true => simpa [step, stepOne, copyVal, deepcopyVal] using hdeep
    | false =>
      obtain ⟨h1, h2, _, h4⟩ := h
      have := h4 rfl
      subst this
      simp [step, stepOne, copyVal, mkImage_ok t g h1 h2, ofExcept]

end Deepali.Dispatch
