/-
  Proofs/DispatchDemote.lean — C19: whatever the operation, a result of `ImageBatch.__torch_function__` /
  `Image.__torch_function__` / `FlowField.__torch_function__` that is typed has one grid per entry and matching
  shapes; everything else is returned as a plain tensor (or the call raises).
-/
import Deepali.Proofs.DispatchStep

set_option linter.unusedSectionVars false

namespace Deepali.Dispatch

theorem countShapeOKV_err (e : ErrKind) : CountShapeOKV (.err e) := by simp [CountShapeOKV]

theorem countShapeOKV_plain (t : Raw) : CountShapeOKV (.one (.plain t)) := by simp [CountShapeOKV, CountShapeOK]

theorem countShapeOKV_ite (c : Prop) [Decidable c] (x y : Val) (hx : CountShapeOKV x) (hy : CountShapeOKV y) :
    CountShapeOKV (if c then x else y) := by
  split <;> assumption

theorem countShapeOKV_many_plain (l : List Raw) : CountShapeOKV (.many (l.map SVal.plain)) := by
  simp only [CountShapeOKV]
  intro s hs
  rw [List.mem_map] at hs
  obtain ⟨r, _, rfl⟩ := hs
  simp [CountShapeOK]

theorem countShapeOKV_mkImageBatch (t : Raw) (gs : List GridTag) (h1 : gs.length = t.shape.headD 0) :
    CountShapeOKV (ofExcept (mkImageBatch t gs)) := by
  unfold mkImageBatch
  split
  · exact countShapeOKV_err _
  · split
    · exact countShapeOKV_err _
    · rename_i hany
      simp only [ofExcept, CountShapeOKV, CountShapeOK]
      exact ⟨h1, any_ne_false gs (fun g => g.shape) _ hany⟩

theorem countShapeOKV_ibResult (data : Raw) (grid : Option (List GridTag)) : CountShapeOKV (ibResult data grid) := by
  unfold ibResult
  cases grid with
  | none => exact countShapeOKV_plain data
  | some gs =>
    cases gs with
    | nil =>
      simp only []
      split
      · rename_i hc
        exact countShapeOKV_mkImageBatch data [] (by rw [hc.2]; rfl)
      · exact countShapeOKV_plain data
    | cons g0 gs =>
      simp only []
      split
      · rename_i hc
        exact countShapeOKV_mkImageBatch data (g0 :: gs) hc.2.1.symm
      · exact countShapeOKV_plain data

theorem countShapeOKV_mkFlowFields (t : Raw) (gs : List GridTag) (ax : Option Nat) (h1 : gs.length = t.shape.headD 0) :
    CountShapeOKV (ofExcept (mkFlowFields t gs ax)) := by
  have hib := countShapeOKV_mkImageBatch t gs h1
  unfold mkFlowFields
  cases hm : mkImageBatch t gs with
  | error e => exact countShapeOKV_err _
  | ok s =>
    rw [hm] at hib
    unfold mkImageBatch at hm
    split at hm
    · cases hm
    · split at hm
      · cases hm
      · cases hm
        simp only []
        split
        · exact countShapeOKV_err _
        · cases ax with
          | some a => simpa [ofExcept, CountShapeOKV, CountShapeOK] using hib
          | none =>
            simp only []
            split
            · exact countShapeOKV_err _
            · simpa [ofExcept, CountShapeOKV, CountShapeOK] using hib

/-- flow.py:FlowFields._torch_function_result (with the batch-size test of commit e158d15) -/
theorem countShapeOKV_ffResult (data : Raw) (grid : Option (List GridTag)) (ax : Option Nat) :
    CountShapeOKV (ffResult data grid ax) := by
  unfold ffResult
  cases grid with
  | none => exact countShapeOKV_ibResult data none
  | some gs =>
    cases gs with
    | nil =>
      simp only []
      split
      · rename_i hc
        exact countShapeOKV_mkFlowFields data [] ax (by rw [hc.2]; rfl)
      · exact countShapeOKV_ibResult data (some [])
    | cons g0 gs =>
      cases ax with
      | none => exact countShapeOKV_ibResult data (some (g0 :: gs))
      | some a =>
        simp only []
        split
        · rename_i hc
          exact countShapeOKV_mkFlowFields data (g0 :: gs) (some a) hc.2.1.symm
        · exact countShapeOKV_ibResult data (some (g0 :: gs))

theorem countShapeOKV_mkImage (t : Raw) (g : GridTag) : CountShapeOKV (ofExcept (mkImage t g)) := by
  unfold mkImage
  split
  · exact countShapeOKV_err _
  · split
    · exact countShapeOKV_err _
    · rename_i hs
      simp only [ofExcept, CountShapeOKV, CountShapeOK]
      simpa using hs

theorem countShapeOKV_mkFlowField (t : Raw) (g : GridTag) (a : Nat) : CountShapeOKV (ofExcept (mkFlowField t g a)) := by
  have him := countShapeOKV_mkImage t g
  unfold mkFlowField
  cases hm : mkImage t g with
  | error e => exact countShapeOKV_err _
  | ok s =>
    simp only []
    split
    · exact countShapeOKV_err _
    · rw [hm] at him
      unfold mkImage at hm
      split at hm
      · cases hm
      · split at hm
        · cases hm
        · cases hm
          simpa [ofExcept, CountShapeOKV, CountShapeOK] using him

theorem countShapeOKV_imResult (data : Raw) (grid : Option GridTag) : CountShapeOKV (imResult data grid) := by
  unfold imResult
  cases grid with
  | none => exact countShapeOKV_plain data
  | some g =>
    simp only []
    split
    · exact countShapeOKV_mkImage data g
    · exact countShapeOKV_plain data

theorem countShapeOKV_fiResult (data : Raw) (grid : Option GridTag) (axes : Option Nat) :
    CountShapeOKV (fiResult data grid axes) := by
  unfold fiResult
  cases grid with
  | none => exact countShapeOKV_imResult data none
  | some g =>
    cases axes with
    | none => exact countShapeOKV_imResult data (some g)
    | some a =>
      simp only []
      split
      · exact countShapeOKV_mkFlowField data g a
      · exact countShapeOKV_imResult data (some g)

theorem countShapeOKV_collect (l : List Val) (h : ∀ v ∈ l, CountShapeOKV v) : CountShapeOKV (collect l) := by
  unfold collect
  cases hm : l.mapM sval? with
  | none => exact countShapeOKV_err _
  | some ss =>
    simp only [CountShapeOKV]
    intro s hs
    have : ∀ (l : List Val) (ss : List SVal), l.mapM sval? = some ss → ∀ s ∈ ss, Val.one s ∈ l := by
      intro l
      induction l with
      | nil => intro ss h s hs; simp at h; subst h; simp at hs
      | cons v vs ih =>
        intro ss h s hs
        rw [List.mapM_cons] at h
        cases hv : sval? v with
        | none => simp [hv] at h
        | some s0 =>
          cases hr : vs.mapM sval? with
          | none => simp [hv, hr] at h
          | some rs =>
            simp [hv, hr] at h
            subst h
            have hv' : v = .one s0 := by
              cases v <;> simp [sval?] at hv
              subst hv; rfl
            rcases List.mem_cons.mp hs with h1 | h1
            · subst h1; simp [hv']
            · exact List.mem_cons_of_mem _ (ih rs hr s h1)
    exact h _ (this l ss hm s hs)

theorem callArgs_stack (ops : List Operand) (d : DimArg) (cur : SVal) (other : Option SVal) :
    callArgs (.stack ops d) cur other = ops.mapM (argSel cur other) := by
  simp only [callArgs]
  congr 1

theorem callArgs_mem (op : TOp) (cur : SVal) (other : Option SVal) (args : List SVal)
    (h : callArgs op cur other = some args) : ∀ s ∈ args, s = cur ∨ other = some s := by
  have hsingle : some [cur] = some args → ∀ s ∈ args, s = cur ∨ other = some s := by
    intro he s hs
    cases he
    left
    simpa using hs
  cases op <;> first
    | exact hsingle h
    | (rw [callArgs_cat] at h; exact mapM_argSel_mem _ cur other args h)
    | (rw [callArgs_stack] at h; exact mapM_argSel_mem _ cur other args h)

/-- `ImageBatch.__torch_function__` / `FlowFields.__torch_function__`, any operation, any arguments: every typed
    result is well described (one grid per entry, grid shape = spatial shape) -/
theorem countShapeOKV_batchTF (op : TOp) (cur : SVal) (other : Option SVal) :
    CountShapeOKV (batchTorchFunction op cur other) := by
  have hone : ∀ (grid : Option GridRes) (axes : Option Nat) (d : Raw),
      CountShapeOKV (match grid with
        | some (.nested []) => ffResult d (some []) axes
        | some (.nested _) => Val.err .dispatch
        | some (.flat g) => ffResult d (some g) axes
        | some .raises => Val.err .dispatch
        | none => ffResult d none axes) := by
    intro grid axes d
    cases grid with
    | none => exact countShapeOKV_ffResult _ _ _
    | some g =>
      cases g with
      | flat g => exact countShapeOKV_ffResult _ _ _
      | raises => exact countShapeOKV_err _
      | nested g =>
        cases g with
        | nil => exact countShapeOKV_ffResult _ _ _
        | cons x xs => exact countShapeOKV_err _
  unfold batchTorchFunction
  cases hsem : torchSem op cur.raw (other.map SVal.raw) with
  | err => exact countShapeOKV_err _
  | t d =>
    simp only []
    cases callArgs op cur other with
    | none => exact countShapeOKV_err _
    | some args =>
      simp only []
      apply countShapeOKV_ite _ _ _ (countShapeOKV_err _)
      apply countShapeOKV_ite
      · cases torchFunctionAxes args with
        | error e => exact countShapeOKV_err _
        | ok axes =>
          simp only []
          apply countShapeOKV_ite _ _ _ (countShapeOKV_err _)
          exact hone _ _ _
      · apply countShapeOKV_ite _ _ _ (countShapeOKV_err _)
        cases torchFunctionGrid op (List.filterMap batchGrids? args) with
        | none => exact countShapeOKV_ibResult d none
        | some g =>
          cases g with
          | flat g => exact countShapeOKV_ibResult d (some g)
          | raises => exact countShapeOKV_err _
          | nested g => exact countShapeOKV_err _
  | ts ds =>
    simp only []
    cases callArgs op cur other with
    | none => exact countShapeOKV_err _
    | some args =>
      simp only []
      apply countShapeOKV_ite _ _ _ (countShapeOKV_err _)
      apply countShapeOKV_ite
      · cases torchFunctionAxes args with
        | error e => exact countShapeOKV_err _
        | ok axes =>
          simp only []
          apply countShapeOKV_ite
          · apply countShapeOKV_collect
            intro v hv
            rw [List.mem_map] at hv
            obtain ⟨d, _, rfl⟩ := hv
            exact hone _ _ _
          · exact countShapeOKV_many_plain ds
      · apply countShapeOKV_ite
        · cases torchFunctionGrid op (List.filterMap batchGrids? args) with
          | none => exact countShapeOKV_err _
          | some g =>
            cases g with
            | flat g => exact countShapeOKV_err _
            | raises => exact countShapeOKV_err _
            | nested g =>
              simp only []
              apply countShapeOKV_ite _ _ _ (countShapeOKV_err _)
              apply countShapeOKV_ite _ _ _ (countShapeOKV_err _)
              apply countShapeOKV_collect
              intro v hv
              rw [List.mem_map] at hv
              obtain ⟨dg, _, rfl⟩ := hv
              exact countShapeOKV_ibResult _ _
        · exact countShapeOKV_many_plain ds

/-- `Image.__torch_function__` / `FlowField.__torch_function__`: every typed result has a grid of the data's shape -/
theorem countShapeOKV_imageTF (op : TOp) (cur : SVal) (other : Option SVal) :
    CountShapeOKV (imageTorchFunction op cur other) := by
  unfold imageTorchFunction
  cases hsem : torchSem op cur.raw (other.map SVal.raw) with
  | err => exact countShapeOKV_err _
  | t d =>
    simp only []
    cases callArgs op cur other with
    | none => exact countShapeOKV_err _
    | some args =>
      simp only []
      apply countShapeOKV_ite _ _ _ (countShapeOKV_err _)
      cases (if args.any SVal.isFlow = true then torchFunctionAxes args else Except.ok none) with
      | error e => exact countShapeOKV_err _
      | ok axes =>
        simp only []
        apply countShapeOKV_ite
        · exact countShapeOKV_fiResult _ _ _
        · exact countShapeOKV_imResult _ _
  | ts ds =>
    simp only []
    cases callArgs op cur other with
    | none => exact countShapeOKV_err _
    | some args =>
      simp only []
      apply countShapeOKV_ite _ _ _ (countShapeOKV_err _)
      cases (if args.any SVal.isFlow = true then torchFunctionAxes args else Except.ok none) with
      | error e => exact countShapeOKV_err _
      | ok axes =>
        simp only []
        apply countShapeOKV_ite
        · apply countShapeOKV_collect
          intro v hv
          rw [List.mem_map] at hv
          obtain ⟨d, _, rfl⟩ := hv
          apply countShapeOKV_ite
          · exact countShapeOKV_fiResult _ _ _
          · exact countShapeOKV_imResult _ _
        · exact countShapeOKV_many_plain ds

end Deepali.Dispatch
