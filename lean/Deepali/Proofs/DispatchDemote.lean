/-
  Proofs/DispatchDemote.lean — C19: whatever the operation, a result of `ImageBatch.__torch_function__` /
  `Image.__torch_function__` / `FlowField.__torch_function__` that is typed has one grid per entry and matching
  shapes; everything else is returned as a plain tensor (or the call raises).
-/
import Deepali.Proofs.DispatchStep

set_option linter.unusedSectionVars false

namespace Deepali.Dispatch

theorem countShapeOKV_err (e : ErrKind) : CountShapeOKV (.err e) := by simp [CountShapeOKV]

theorem countShapeOKV_plain (t : Raw) : CountShapeOKV (.one (.plain t)) := by simp [CountShapeOKV, CountShapeOK]

theorem countShapeOKV_ite (c : Prop) [Decidable c] (x y : Val) (hx : CountShapeOKV x) (hy : CountShapeOKV y) :
    CountShapeOKV (if c then x else y) := by
  split <;> assumption

theorem countShapeOKV_many_plain (l : List Raw) : CountShapeOKV (.many (l.map SVal.plain)) := by
  simp only [CountShapeOKV]
  intro s hs
  rw [List.mem_map] at hs
  obtain ⟨r, _, rfl⟩ := hs
  simp [CountShapeOK]

theorem countShapeOKV_mkImageBatch (t : Raw) (gs : List GridTag) (h1 : gs.length = t.shape.headD 0) :
    CountShapeOKV (ofExcept (mkImageBatch t gs)) := by
  unfold mkImageBatch
  split
  · exact countShapeOKV_err _
  · split
    · exact countShapeOKV_err _
    · rename_i hany
      simp only [ofExcept, CountShapeOKV, CountShapeOK]
      exact ⟨h1, any_ne_false gs (fun g => g.shape) _ hany⟩

theorem countShapeOKV_ibResult (data : Raw) (grid : Option (List GridTag)) : CountShapeOKV (ibResult data grid) := by
  unfold ibResult
  cases grid with
  | none => exact countShapeOKV_plain data
  | some gs =>
    cases gs with
    | nil =>
      simp only []
      split
      · rename_i hc
        exact countShapeOKV_mkImageBatch data [] (by rw [hc.2]; rfl)
      · exact countShapeOKV_plain data
    | cons g0 gs =>
      simp only []
      split
      · rename_i hc
        exact countShapeOKV_mkImageBatch data (g0 :: gs) hc.2.1.symm
      · exact countShapeOKV_plain data

theorem countShapeOKV_mkImage (t : Raw) (g : GridTag) : CountShapeOKV (ofExcept (mkImage t g)) := by
  unfold mkImage
  split
  · exact countShapeOKV_err _
  · split
    · exact countShapeOKV_err _
    · rename_i hs
      simp only [ofExcept, CountShapeOKV, CountShapeOK]
      simpa using hs

theorem countShapeOKV_mkFlowField (t : Raw) (g : GridTag) (a : Nat) : CountShapeOKV (ofExcept (mkFlowField t g a)) := by
  have him := countShapeOKV_mkImage t g
  unfold mkFlowField
  cases hm : mkImage t g with
  | error e => exact countShapeOKV_err _
  | ok s =>
    simp only []
    split
    · exact countShapeOKV_err _
    · rw [hm] at him
      unfold mkImage at hm
      split at hm
      · cases hm
      · split at hm
        · cases hm
        · cases hm
          simpa [ofExcept, CountShapeOKV, CountShapeOK] using him

theorem countShapeOKV_imResult (data : Raw) (grid : Option GridTag) : CountShapeOKV (imResult data grid) := by
  unfold imResult
  cases grid with
  | none => exact countShapeOKV_plain data
  | some g =>
    simp only []
    split
    · exact countShapeOKV_mkImage data g
    · exact countShapeOKV_plain data

theorem countShapeOKV_fiResult (data : Raw) (grid : Option GridTag) (axes : Option Nat) :
    CountShapeOKV (fiResult data grid axes) := by
  unfold fiResult
  cases grid with
  | none => exact countShapeOKV_imResult data none
  | some g =>
    cases axes with
    | none => exact countShapeOKV_imResult data (some g)
    | some a =>
      simp only []
      split
      · exact countShapeOKV_mkFlowField data g a
      · exact countShapeOKV_imResult data (some g)

theorem countShapeOKV_collect (l : List Val) (h : ∀ v ∈ l, CountShapeOKV v) : CountShapeOKV (collect l) := by
  unfold collect
  cases hm : l.mapM sval? with
  | none => exact countShapeOKV_err _
  | some ss =>
    simp only [CountShapeOKV]
    intro s hs
    have : ∀ (l : List Val) (ss : List SVal), l.mapM sval? = some ss → ∀ s ∈ ss, Val.one s ∈ l := by
      intro l
      induction l with
      | nil => intro ss h s hs; simp at h; subst h; simp at hs
      | cons v vs ih =>
        intro ss h s hs
        rw [List.mapM_cons] at h
        cases hv : sval? v with
        | none => simp [hv] at h
        | some s0 =>
          cases hr : vs.mapM sval? with
          | none => simp [hv, hr] at h
          | some rs =>
            simp [hv, hr] at h
            subst h
            have hv' : v = .one s0 := by
              cases v <;> simp [sval?] at hv
              subst hv; rfl
            rcases List.mem_cons.mp hs with h1 | h1
            · subst h1; simp [hv']
            · exact List.mem_cons_of_mem _ (ih rs hr s h1)
    exact h _ (this l ss hm s hs)

theorem callArgs_stack (ops : List Operand) (d : DimArg) (cur : SVal) (other : Option SVal) :
    callArgs (.stack ops d) cur other = ops.mapM (argSel cur other) := by
  simp only [callArgs]
  congr 1

theorem callArgs_mem (op : TOp) (cur : SVal) (other : Option SVal) (args : List SVal)
    (h : callArgs op cur other = some args) : ∀ s ∈ args, s = cur ∨ other = some s := by
  have hsingle : some [cur] = some args → ∀ s ∈ args, s = cur ∨ other = some s := by
    intro he s hs
    cases he
    left
    simpa using hs
  cases op <;> first
    | exact hsingle h
    | (rw [callArgs_cat] at h; exact mapM_argSel_mem _ cur other args h)
    | (rw [callArgs_stack] at h; exact mapM_argSel_mem _ cur other args h)

/-- `ImageBatch.__torch_function__` (no flow field among the arguments): every typed result is well described -/
theorem countShapeOKV_batchTF (op : TOp) (t : Raw) (gs : List GridTag) (a : Nat) (other : Option SVal)
    (hnf : ∀ o, other = some o → o.isFlow = false) :
    CountShapeOKV (batchTorchFunction op (.batch false t gs a) other) := by
  unfold batchTorchFunction
  cases hsem : torchSem op (SVal.batch false t gs a).raw (other.map SVal.raw) with
  | err => exact countShapeOKV_err _
  | t d =>
    simp only []
    cases hargs : callArgs op (.batch false t gs a) other with
    | none => exact countShapeOKV_err _
    | some args =>
      have hflow : args.any SVal.isFlow = false := by
        rw [List.any_eq_false]
        intro s hs
        rcases callArgs_mem op _ other args hargs s hs with h | h
        · rw [h]; simp [SVal.isFlow]
        · simp [hnf s h]
      simp only [hflow, Bool.false_eq_true, if_false]
      apply countShapeOKV_ite _ _ _ (countShapeOKV_err _)
      apply countShapeOKV_ite _ _ _ (countShapeOKV_err _)
      cases torchFunctionGrid op (List.filterMap batchGrids? args) with
      | none => exact countShapeOKV_ibResult d none
      | some g =>
        cases g with
        | flat g => exact countShapeOKV_ibResult d (some g)
        | nested g => exact countShapeOKV_err _
  | ts ds =>
    simp only []
    cases hargs : callArgs op (.batch false t gs a) other with
    | none => exact countShapeOKV_err _
    | some args =>
      have hflow : args.any SVal.isFlow = false := by
        rw [List.any_eq_false]
        intro s hs
        rcases callArgs_mem op _ other args hargs s hs with h | h
        · rw [h]; simp [SVal.isFlow]
        · simp [hnf s h]
      simp only [hflow, Bool.false_eq_true, if_false]
      apply countShapeOKV_ite _ _ _ (countShapeOKV_err _)
      apply countShapeOKV_ite
      · cases torchFunctionGrid op (List.filterMap batchGrids? args) with
        | none => exact countShapeOKV_err _
        | some g =>
          cases g with
          | flat g => exact countShapeOKV_err _
          | nested g =>
            simp only []
            apply countShapeOKV_ite _ _ _ (countShapeOKV_err _)
            apply countShapeOKV_ite _ _ _ (countShapeOKV_err _)
            apply countShapeOKV_collect
            intro v hv
            rw [List.mem_map] at hv
            obtain ⟨dg, _, rfl⟩ := hv
            exact countShapeOKV_ibResult _ _
      · exact countShapeOKV_many_plain ds

/-- `Image.__torch_function__` / `FlowField.__torch_function__`: every typed result has a grid of the data's shape -/
theorem countShapeOKV_imageTF (op : TOp) (cur : SVal) (other : Option SVal) :
    CountShapeOKV (imageTorchFunction op cur other) := by
  unfold imageTorchFunction
  cases hsem : torchSem op cur.raw (other.map SVal.raw) with
  | err => exact countShapeOKV_err _
  | t d =>
    simp only []
    cases callArgs op cur other with
    | none => exact countShapeOKV_err _
    | some args =>
      simp only []
      apply countShapeOKV_ite _ _ _ (countShapeOKV_err _)
      cases (if args.any SVal.isFlow = true then torchFunctionAxes args else Except.ok none) with
      | error e => exact countShapeOKV_err _
      | ok axes =>
        simp only []
        apply countShapeOKV_ite
        · exact countShapeOKV_fiResult _ _ _
        · exact countShapeOKV_imResult _ _
  | ts ds =>
    simp only []
    cases callArgs op cur other with
    | none => exact countShapeOKV_err _
    | some args =>
      simp only []
      apply countShapeOKV_ite _ _ _ (countShapeOKV_err _)
      cases (if args.any SVal.isFlow = true then torchFunctionAxes args else Except.ok none) with
      | error e => exact countShapeOKV_err _
      | ok axes =>
        simp only []
        apply countShapeOKV_ite
        · apply countShapeOKV_collect
          intro v hv
          rw [List.mem_map] at hv
          obtain ⟨d, _, rfl⟩ := hv
          apply countShapeOKV_ite
          · exact countShapeOKV_fiResult _ _ _
          · exact countShapeOKV_imResult _ _
        · exact countShapeOKV_many_plain ds

end Deepali.Dispatch
