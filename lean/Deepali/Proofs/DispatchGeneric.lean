/-
  Proofs/DispatchGeneric.lean — C19: the generic `__torch_function__` paths for operations with one tensor argument.
-/
import Deepali.Proofs.DispatchSem

set_option linter.unusedSectionVars false

namespace Deepali.Dispatch

theorem alignedV_plainVal (a0 : Nat) (r : RawRes) : AlignedV a0 (plainVal r) := by
  cases r with
  | t r => simp [plainVal, AlignedV, AlignedS]
  | ts l => exact alignedV_many_plain a0 l
  | err => simp [plainVal, AlignedV]

/-- operations on a plain tensor give plain tensors (or nothing) -/
theorem alignedV_stepOne_plain (a0 : Nat) (other : Option SVal) (op : TOp) (t : Raw) :
    AlignedV a0 (stepOne other op (.plain t)) := by
  cases op <;> simp only [stepOne, copyVal, deepcopyVal, pickleVal] <;>
    first
    | exact alignedV_plainVal a0 _
    | simp [AlignedV, AlignedS]

/-- generic path of `__torch_function__` for an operation with one tensor argument that keeps dim-0 provenance -/
theorem alignedV_batchTF_stable (a0 : Nat) (op : TOp) (f : Bool) (t : Raw) (gs : List GridTag) (a : Nat)
    (other : Option SVal) (r : Raw)
    (hsem : torchSem op t (other.map SVal.raw) = .t r)
    (hargs : callArgs op (.batch f t gs a) other = some [.batch f t gs a])
    (hgrid : torchFunctionGrid op [gs] = some (.flat gs))
    (hsplit : isSplitFamily op = false) (hzero : rangeStepZero op = false)
    (hal : AlignedS a0 (.batch f t gs a))
    (hprov : r.prov = t.prov) (hhead : r.shape.headD 0 = t.shape.headD 0) :
    AlignedV a0 (batchTorchFunction op (.batch f t gs a) other) := by
  obtain ⟨h1, _, h3, h4⟩ := hal
  unfold batchTorchFunction
  simp only [SVal.raw, hsem, hargs, hzero, hsplit, List.any_cons, List.any_nil, SVal.isFlow, Bool.or_false,
    List.filterMap_cons, List.filterMap_nil, batchGrids?, hgrid, Bool.false_and, Bool.false_eq_true, if_false]
  cases f with
  | false =>
    simp only [Bool.false_eq_true, if_false]
    exact alignedV_ibResult a0 r gs (hprov.trans h3)
  | true =>
    simp only [if_true, torchFunctionAxes, axes?, List.filterMap_cons, List.filterMap_nil, List.any_nil,
      Bool.false_eq_true, if_false]
    exact alignedV_ffResult a0 r gs a (hprov.trans h3) (h4 rfl)

theorem batchTF_err (op : TOp) (cur : SVal) (other : Option SVal)
    (h : torchSem op cur.raw (other.map SVal.raw) = .err) : batchTorchFunction op cur other = .err .torch := by
  unfold batchTorchFunction
  simp only [h]

theorem imageTF_err (op : TOp) (cur : SVal) (other : Option SVal)
    (h : torchSem op cur.raw (other.map SVal.raw) = .err) : imageTorchFunction op cur other = .err .torch := by
  unfold imageTorchFunction
  simp only [h]

theorem provLe_single (a0 : Nat) {f : Bool} {t : Raw} {g : GridTag} {a : Nat} (hal : AlignedS a0 (.image f t g a))
    {r : Raw} (h : ProvLe r t) : ∀ p ∈ r.prov, p = itemOf g ∨ p = .none := by
  intro p hp
  rcases h p hp with h1 | h1
  · exact hal.2.1 p h1
  · exact Or.inr h1

/-- generic path of `Image.__torch_function__` / `FlowField.__torch_function__` for one tensor argument -/
theorem alignedV_imageTF_single_in (a0 : Nat) (op : TOp) (f : Bool) (t : Raw) (g : GridTag) (a : Nat)
    (other : Option SVal)
    (hargs : callArgs op (.image f t g a) other = some [.image f t g a])
    (hal : AlignedS a0 (.image f t g a))
    (hle : ProvInRes g.src (torchSem op t (other.map SVal.raw))) :
    AlignedV a0 (imageTorchFunction op (.image f t g a) other) := by
  have hone : ∀ d : Raw, ProvIn g.src d.prov →
      AlignedV a0 (if f = true then fiResult d (some g) (some a) else imResult d (some g)) := by
    intro d hd
    cases f with
    | false => simpa using alignedV_imResult a0 d g hd
    | true => simpa using alignedV_fiResult a0 d g a hd (hal.2.2 rfl)
  unfold imageTorchFunction
  cases hsem : torchSem op (SVal.image f t g a).raw (other.map SVal.raw) with
  | err => simp [AlignedV]
  | t d =>
    have hd : ProvIn g.src d.prov := by
      have hsem' : torchSem op t (other.map SVal.raw) = .t d := hsem
      rw [hsem'] at hle
      exact hle
    cases f with
    | false =>
      simp only [hargs, List.any_cons, List.any_nil, SVal.isFlow, Bool.or_false, List.filterMap_cons,
        List.filterMap_nil, List.head?_cons, Bool.false_eq_true, if_false, SVal.isBatch, imageGrid?]
      simpa using hone d hd
    | true =>
      simp only [hargs, List.any_cons, List.any_nil, SVal.isFlow, Bool.or_false, List.filterMap_cons,
        List.filterMap_nil, List.head?_cons, Bool.false_eq_true, if_false, if_true, torchFunctionAxes, axes?, SVal.isBatch, imageGrid?]
      simpa using hone d hd
  | ts ds =>
    have hd : ∀ d ∈ ds, ProvIn g.src d.prov := by
      have hsem' : torchSem op t (other.map SVal.raw) = .ts ds := hsem
      rw [hsem'] at hle
      exact hle
    cases f with
    | false =>
      simp only [hargs, List.any_cons, List.any_nil, SVal.isFlow, Bool.or_false, List.filterMap_cons,
        List.filterMap_nil, List.head?_cons, Bool.false_eq_true, if_false, SVal.isBatch, imageGrid?]
      split
      · apply alignedV_collect
        intro v hv
        rw [List.mem_map] at hv
        obtain ⟨d, hdm, rfl⟩ := hv
        simpa using hone d (hd d hdm)
      · exact alignedV_many_plain a0 ds
    | true =>
      simp only [hargs, List.any_cons, List.any_nil, SVal.isFlow, Bool.or_false, List.filterMap_cons,
        List.filterMap_nil, List.head?_cons, Bool.false_eq_true, if_false, if_true, torchFunctionAxes, axes?, SVal.isBatch, imageGrid?]
      split
      · apply alignedV_collect
        intro v hv
        rw [List.mem_map] at hv
        obtain ⟨d, hdm, rfl⟩ := hv
        simpa using hone d (hd d hdm)
      · exact alignedV_many_plain a0 ds

/-- same, from the weaker "entries come from entries of the argument" fact -/
theorem alignedV_imageTF_single (a0 : Nat) (op : TOp) (f : Bool) (t : Raw) (g : GridTag) (a : Nat)
    (other : Option SVal)
    (hargs : callArgs op (.image f t g a) other = some [.image f t g a])
    (hal : AlignedS a0 (.image f t g a))
    (hle : ProvLeRes (torchSem op t (other.map SVal.raw)) t) :
    AlignedV a0 (imageTorchFunction op (.image f t g a) other) :=
  alignedV_imageTF_single_in a0 op f t g a other hargs hal (provInRes_of_provLeRes hal.2.1 hle)

end Deepali.Dispatch
