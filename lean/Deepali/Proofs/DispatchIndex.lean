/-
  Proofs/DispatchIndex.lean — C19: `ImageBatch.__getitem__` (int / slice / index list, alone or as the first
  element of an index tuple without ellipsis and boolean mask) and `__iter__` keep batches aligned.
-/
import Deepali.Proofs.DispatchSem

set_option linter.unusedSectionVars false

namespace Deepali.Dispatch

theorem clampIdx_le (n : Nat) (i : Int) : clampIdx n i ≤ n := by
  unfold clampIdx
  split
  · split
    · omega
    · omega
  · split
    · omega
    · omega

theorem slice_arith (a' b' s k : Nat) (hs : 1 ≤ s) (hk : k < (b' - a' + s - 1) / s) : a' + k * s < b' := by
  have h1 : (k + 1) * s ≤ b' - a' + s - 1 := (Nat.le_div_iff_mul_le (by omega)).mp hk
  rw [Nat.succ_mul] at h1
  omega

theorem sliceIdx_lt (n : Nat) (a b : Option Int) (s : Nat) (hs : 1 ≤ s) : ∀ i ∈ sliceIdx n a b s, i < n := by
  intro i hi
  unfold sliceIdx at hi
  simp only [List.mem_map, List.mem_range] at hi
  obtain ⟨k, hk, rfl⟩ := hi
  cases b with
  | none =>
    simp only [] at hk ⊢
    have := slice_arith _ _ s k hs hk
    omega
  | some v =>
    simp only [] at hk ⊢
    have := slice_arith _ _ s k hs hk
    have := clampIdx_le n v
    omega

theorem getD_map_of_getElem? {α β : Type} (f : α → β) (l : List α) (k : Nat) (x : α) (d : β)
    (h : l[k]? = some x) : (l.map f).getD k d = f x := by
  simp [List.getD_eq_getElem?_getD, List.getElem?_map, h]

/-! ### plain indexing without ellipsis -/

theorem expandIndex_noEll (nd : Nat) (idx : List Ix) (hne : idx.filter (· == Ix.ell) = []) (e : List Ix)
    (h : expandIndex nd idx = some e) : ∃ fill, e = idx ++ fill := by
  unfold expandIndex at h
  simp only [hne, List.length_nil] at h
  split at h
  · cases h
  · simp at h
    exact ⟨_, h.symm⟩

/-- without an ellipsis the first index acts on dim 0 -/
theorem rawIndex_cons (t : Raw) (first : Ix) (rest : List Ix)
    (hne : (first :: rest).filter (· == Ix.ell) = []) (data : Raw)
    (h : rawIndex t (first :: rest) = some data) :
    ∃ n0 rs ro, t.shape = n0 :: rs ∧ indexFirst n0 t.prov ro first = some data := by
  unfold rawIndex at h
  split at h
  · rename_i f' r' n0 rs he hs
    obtain ⟨fill, hf⟩ := expandIndex_noEll _ _ hne _ he
    simp only [List.cons_append, List.cons.injEq] at hf
    obtain ⟨rfl, _⟩ := hf
    split at h
    · cases h
    · rename_i ro _
      exact ⟨n0, rs, ro, hs, h⟩
  · cases h

/-! ### grid selection mirrors data selection -/

theorem mapM_pyGet (gs : List GridTag) (l : List Int) (sel : List Nat) (gs' : List GridTag)
    (h1 : l.mapM (normDim gs.length) = some sel) (h2 : l.mapM (pyGet gs) = some gs') :
    gs' = pick gs sel := by
  induction l generalizing sel gs' with
  | nil =>
    simp at h1 h2
    subst h1; subst h2
    rfl
  | cons i is ih =>
    rw [List.mapM_cons] at h1 h2
    cases hk : normDim gs.length i with
    | none => simp [hk] at h1
    | some k =>
      cases hr : is.mapM (normDim gs.length) with
      | none => simp [hk, hr] at h1
      | some ks =>
        simp [hk, hr] at h1
        subst h1
        cases hg : pyGet gs i with
        | none => simp [hg] at h2
        | some g =>
          cases hr2 : is.mapM (pyGet gs) with
          | none => simp [hg, hr2] at h2
          | some gr =>
            simp [hg, hr2] at h2
            subst h2
            have hgk : gs[k]? = some g := by
              unfold pyGet at hg
              simpa [hk] using hg
            have := ih ks gr hr hr2
            subst this
            simp [pick, hgk]

theorem normDim_ofNat (n i : Nat) (h : i < n) : normDim n (Int.ofNat i) = some i := by
  unfold normDim
  simp [h]

theorem mapM_normDim_ofNat (n : Nat) (sel : List Nat) (h : ∀ i ∈ sel, i < n) :
    (sel.map Int.ofNat).mapM (normDim n) = some sel := by
  induction sel with
  | nil => rfl
  | cons i is ih =>
    rw [List.map_cons, List.mapM_cons, normDim_ofNat n i (h i (by simp)), ih (fun j hj => h j (by simp [hj]))]
    rfl

theorem alignedV_plain (a0 : Nat) (t : Raw) : AlignedV a0 (.one (.plain t)) := by
  simp [AlignedV, AlignedS]

theorem alignedV_err (a0 : Nat) (e : ErrKind) : AlignedV a0 (.err e) := by
  simp [AlignedV]

theorem alignedV_ite (a0 : Nat) (c : Prop) [Decidable c] (x y : Val) (hx : AlignedV a0 x) (hy : AlignedV a0 y) :
    AlignedV a0 (if c then x else y) := by
  split <;> assumption

/-- `__getitem__` for a normalised index without ellipsis whose first element is an int, a slice or an index list -/
theorem alignedV_getitemCore (a0 : Nat) (f : Bool) (a : Nat) (t : Raw) (gs : List GridTag)
    (first : Ix) (rest : List Ix) (multi : Bool)
    (hal : AlignedS a0 (.batch f t gs a))
    (hne : (first :: rest).filter (· == Ix.ell) = []) (hfirst : goodIx first = true) :
    AlignedV a0 (getitemCore f a t gs (first :: rest) multi) := by
  obtain ⟨hcount, _, hprov, hax⟩ := hal
  unfold getitemCore
  cases hraw : rawIndex t (first :: rest) with
  | none => exact alignedV_err a0 _
  | some data =>
    obtain ⟨n0, rs, ro, hshape, hfst⟩ := rawIndex_cons t first rest hne data hraw
    have hn0 : gs.length = n0 := by rw [hcount, hshape]; rfl
    simp only [List.head?_cons]
    apply alignedV_ite _ _ _ _ (alignedV_plain a0 data)
    cases first with
    | ell => simp [goodIx] at hfirst
    | mask m =>
      simp only [gridSel]
      simp only [indexFirst] at hfst
      split at hfst
      · cases hfst
      · rename_i hlen
        cases hfst
        have hml : m.length = n0 := by omega
        have hsel : ∀ i ∈ (List.range n0).filter (fun i => m.getD i false), i < gs.length := by
          intro i hi
          rw [List.mem_filter, List.mem_range] at hi
          omega
        rw [hml]
        cases hg : (((List.range n0).filter (fun i => m.getD i false)).map Int.ofNat).mapM (pyGet gs) with
        | none => exact alignedV_err a0 _
        | some gs' =>
          simp only [Option.map_some]
          apply alignedV_ite _ _ _ _ (alignedV_plain a0 _)
          apply alignedV_ite _ _ _ _ (alignedV_plain a0 _)
          have hgs := mapM_pyGet gs _ _ gs' (mapM_normDim_ofNat gs.length _ hsel) hg
          subst hgs
          apply alignedV_makeInstance a0 f a _ _ hax
          · simp only [List.headD_cons]
            exact pick_length gs _ hsel
          · simp only []
            rw [hprov, pick_map]
    | int i =>
      simp only [gridSel]
      cases hg : pyGet gs i with
      | none => exact alignedV_err a0 _
      | some g =>
        simp only [Option.map_some]
        apply alignedV_ite _ _ _ _ (alignedV_plain a0 data)
        apply alignedV_ite _ _ _ _ (alignedV_plain a0 data)
        apply alignedV_makeSubitem a0 f a data g hax
        simp only [indexFirst] at hfst
        cases hk : normDim n0 i with
        | none => simp [hk] at hfst
        | some k =>
          simp only [hk] at hfst
          cases hfst
          unfold pyGet at hg
          rw [hn0, hk] at hg
          simp only [] at hg
          intro p hp
          unfold repl0 at hp
          rw [List.mem_replicate] at hp
          left
          rw [hp.2, hprov]
          exact getD_map_of_getElem? itemOf gs k g .none hg
    | slice sa sb st =>
      simp only [gridSel]
      apply alignedV_ite _ _ _ _ (alignedV_plain a0 data)
      apply alignedV_ite _ _ _ _ (alignedV_plain a0 data)
      simp only [indexFirst] at hfst
      split at hfst
      · cases hfst
      · rename_i hs
        cases hfst
        have hs1 : 1 ≤ (st.getD 1).toNat := by omega
        have hlt := sliceIdx_lt gs.length sa sb (st.getD 1).toNat hs1
        apply alignedV_makeInstance a0 f a _ _ hax
        · simp only [List.headD_cons]
          rw [← hn0]
          exact pick_length gs _ hlt
        · simp only []
          rw [hprov, hn0, pick_map]
    | list l =>
      simp only [gridSel]
      cases hg : l.mapM (pyGet gs) with
      | none => exact alignedV_err a0 _
      | some gs' =>
        simp only [Option.map_some]
        apply alignedV_ite _ _ _ _ (alignedV_plain a0 data)
        apply alignedV_ite _ _ _ _ (alignedV_plain a0 data)
        simp only [indexFirst] at hfst
        cases hm : l.mapM (normDim n0) with
        | none => simp [hm] at hfst
        | some sel =>
          simp only [hm] at hfst
          cases hfst
          rw [← hn0] at hm
          have hgs := mapM_pyGet gs l sel gs' hm hg
          subst hgs
          apply alignedV_makeInstance a0 f a _ _ hax
          · simp only [List.headD_cons]
            exact pick_length gs sel (mapM_normDim_lt gs.length l sel hm)
          · simp only []
            rw [hprov, pick_map]

theorem keepFirstEll_noEll (l : List Ix) (b : Bool) (h : ∀ x ∈ l, noEllMask x = true) : keepFirstEll l b = l := by
  induction l generalizing b with
  | nil => rfl
  | cons x xs ih =>
    have hx : noEllMask x = true := h x (by simp)
    have hxs : ∀ y ∈ xs, noEllMask y = true := fun y hy => h y (by simp [hy])
    cases x with
    | ell => simp [noEllMask] at hx
    | int i => simp only [keepFirstEll]; rw [ih b hxs]
    | slice a' b' c' => simp only [keepFirstEll]; rw [ih b hxs]
    | list l' => simp only [keepFirstEll]; rw [ih b hxs]
    | mask m => simp only [keepFirstEll]; rw [ih b hxs]

theorem filter_ell_nil (l : List Ix) (h : ∀ x ∈ l, noEllMask x = true) : l.filter (· == Ix.ell) = [] := by
  rw [List.filter_eq_nil_iff]
  intro x hx
  have := h x hx
  cases x <;> simp [noEllMask] at this ⊢

theorem not_mem_ell (l : List Ix) (h : ∀ x ∈ l, noEllMask x = true) : ¬ Ix.ell ∈ l := by
  intro hm
  have := h _ hm
  simp [noEllMask] at this

theorem goodIx_of_noEllMask (x : Ix) (h : noEllMask x = true) : goodIx x = true := by
  cases x <;> simp [noEllMask, goodIx] at h ⊢

/-- `ImageBatch.__getitem__` with an int, slice, index list, or a tuple without ellipsis and mask -/
theorem alignedV_batchGetitem (a0 : Nat) (f : Bool) (a : Nat) (t : Raw) (gs : List GridTag) (idx : Index)
    (hgood : goodOp (.getitem idx) = true) (hal : AlignedS a0 (.batch f t gs a)) :
    AlignedV a0 (batchGetitem f a t gs idx) := by
  cases idx with
  | single ix =>
    cases ix with
    | ell =>
      simp only [batchGetitem]
      exact alignedV_makeInstance a0 f a t gs hal.2.2.2 hal.1 hal.2.2.1
    | mask m =>
      simp only [batchGetitem, normIndex]
      exact alignedV_getitemCore a0 f a t gs _ [] true hal (by simp) rfl
    | int i =>
      simp only [batchGetitem, normIndex]
      exact alignedV_getitemCore a0 f a t gs _ [] false hal (by simp) rfl
    | slice sa sb st =>
      simp only [batchGetitem, normIndex]
      exact alignedV_getitemCore a0 f a t gs _ [] true hal (by simp) rfl
    | list l =>
      simp only [batchGetitem, normIndex]
      exact alignedV_getitemCore a0 f a t gs _ [] true hal (by simp) rfl
  | tuple l =>
    simp only [goodOp, List.all_eq_true] at hgood
    simp only [batchGetitem, normIndex, keepFirstEll_noEll l false hgood]
    cases hl : l.getLast? with
    | none => exact alignedV_err a0 _
    | some last =>
      have hlast : last ∈ l := List.mem_of_getLast? hl
      have hlne : (last == Ix.ell) = false := by
        have := hgood last hlast
        cases last <;> simp [noEllMask] at this ⊢
      have hc : l.contains Ix.ell = false := by
        cases hcc : l.contains Ix.ell with
        | false => rfl
        | true => exact absurd (List.contains_iff_mem.mp hcc) (not_mem_ell l hgood)
      simp only [hlne, hc, Bool.false_eq_true, if_false]
      cases l with
      | nil => simp at hl
      | cons first rest =>
        exact alignedV_getitemCore a0 f a t gs first rest true hal (filter_ell_nil _ hgood)
          (goodIx_of_noEllMask first (hgood first (by simp)))

/-- `ImageBatch.__iter__` -/
theorem alignedV_batchIter (a0 : Nat) (f : Bool) (a : Nat) (t : Raw) (gs : List GridTag)
    (hal : AlignedS a0 (.batch f t gs a)) : AlignedV a0 (batchIter f a t gs) := by
  obtain ⟨_, _, hprov, hax⟩ := hal
  unfold batchIter
  apply alignedV_collect
  intro v hv
  rw [List.mem_map] at hv
  obtain ⟨k, _, rfl⟩ := hv
  cases hg : gs[k]? with
  | none => exact alignedV_err a0 _
  | some g =>
    simp only []
    apply alignedV_makeSubitem a0 f a _ g hax
    intro p hp
    unfold selectRaw at hp
    simp only [if_true] at hp
    unfold repl0 at hp
    rw [List.mem_replicate] at hp
    left
    rw [hp.2, hprov]
    exact getD_map_of_getElem? itemOf gs k g .none hg

end Deepali.Dispatch
