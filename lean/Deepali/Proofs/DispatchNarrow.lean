/-
  Proofs/DispatchNarrow.lean — C19: method `narrow` of ImageBatch / Image (as repaired in /repo: every item keeps
  its own, equally narrowed, grid; along dim 0 the grids are sliced like the data) keeps results aligned for a
  non-negative dim literal and non-negative start.
-/
import Deepali.Proofs.DispatchStable

set_option linter.unusedSectionVars false

namespace Deepali.Dispatch

theorem narrowTags_spec (gs gs' : List GridTag) (F : GridTag → Option GridTag)
    (hF : ∀ g g', F g = some g' → g'.src = g.src) (h : gs.mapM F = some gs') :
    gs'.map itemOf = gs.map itemOf ∧ gs'.length = gs.length ∧ ∀ g' ∈ gs', ∃ g ∈ gs, g'.src = g.src := by
  induction gs generalizing gs' with
  | nil => simp at h; subst h; simp
  | cons g rest ih =>
    rw [List.mapM_cons] at h
    cases h1 : F g with
    | none => simp [h1] at h
    | some g1 =>
      cases h2 : rest.mapM F with
      | none => simp [h1, h2] at h
      | some r1 =>
        simp [h1, h2] at h
        subst h
        obtain ⟨i1, i2, i3⟩ := ih r1 h2
        refine ⟨?_, ?_, ?_⟩
        · simp only [List.map_cons, i1, itemOf, hF g g1 h1]
        · simp [i2]
        · intro g' hg'
          rcases List.mem_cons.mp hg' with h3 | h3
          · subst h3; exact ⟨g, by simp, hF g _ h1⟩
          · obtain ⟨g0, hg0, hs⟩ := i3 g' h3
            exact ⟨g0, by simp [hg0], hs⟩

theorem narrowTag_src (gd : Int) (start len : Int) (g g' : GridTag)
    (h : (if gd < 0 ∨ gd > (g.shape.length : Int) then none else some (g.narrow gd.toNat start.toNat len.toNat)) = some g') :
    g'.src = g.src := by
  split at h
  · cases h
  · cases h; rfl

theorem ite_err_eq_t {c : Prop} [Decidable c] {x : RawRes} {data : Raw}
    (h : (if c then RawRes.err else x) = .t data) : x = .t data := by
  split at h
  · cases h
  · exact h

theorem narrowF_prov_subset (dim start len : Int) (t : Raw) (o : Option Raw) (data : Raw)
    (h : torchSem (.narrowF dim start len) t o = .t data) : ∀ p ∈ data.prov, p ∈ t.prov := by
  rw [torchSem_narrowF] at h
  cases hn : normDim t.ndim dim with
  | none => simp [hn] at h
  | some d =>
    simp only [hn] at h
    have := ite_err_eq_t h
    cases this
    intro p hp
    simp only [] at hp
    split at hp
    · exact List.mem_of_mem_drop (List.mem_of_mem_take hp)
    · exact hp

theorem ofExcept_ne_many (e : Except ErrKind SVal) (l : List SVal) : ofExcept e ≠ .many l := by
  cases e <;> simp [ofExcept]

theorem batchNarrow_ne_many (f : Bool) (a : Nat) (t : Raw) (gs : List GridTag) (dim start len : Int) (l : List SVal) :
    batchNarrow f a t gs dim start len ≠ .many l := by
  unfold batchNarrow
  cases torchSem (.narrowF dim start len) t none with
  | err => simp
  | ts x => simp
  | t data =>
    simp only []
    split
    · simp
    · exact ofExcept_ne_many _ l

theorem imageBatch_ok (f : Bool) (a : Nat) (t : Raw) (g : GridTag) (b : SVal) (h : imageBatch f a t g = .ok b) :
    ∃ f' a', b = .batch f' ⟨1 :: t.shape, [joinAll t.prov]⟩ [g] a' ∧ (f' = true → f = true ∧ a' = a) := by
  cases f with
  | false =>
    simp only [imageBatch, mkImageBatch1, Bool.false_eq_true, if_false] at h
    split at h
    · cases h
    · split at h
      · cases h
      · cases h
        exact ⟨false, 0, by simp, by simp⟩
  | true =>
    simp only [imageBatch, mkFlowFields1, mkFlowFields, if_true] at h
    have hrep : List.replicate ((1 :: t.shape).headD 0) g = [g] := rfl
    rw [hrep] at h
    cases hm : mkImageBatch ⟨1 :: t.shape, [joinAll t.prov]⟩ [g] with
    | error e => rw [hm] at h; cases h
    | ok s0 =>
      rw [hm] at h
      simp only [] at h
      split at h
      · cases h
      · cases h
        exact ⟨true, a, rfl, fun _ => ⟨rfl, rfl⟩⟩

/-- what `narrow` returns, without any assumption on the batch -/
theorem batchNarrow_result (f : Bool) (a : Nat) (t : Raw) (gs : List GridTag) (dim start len : Int) (s : SVal)
    (h : batchNarrow f a t gs dim start len = .one s) :
    ∃ f' data gs' a', s = .batch f' data gs' a' ∧ (∀ p ∈ data.prov, p ∈ t.prov) ∧
      (∀ g' ∈ gs', ∃ g ∈ gs, g'.src = g.src) ∧ (f' = true → f = true ∧ a' = a) := by
  unfold batchNarrow at h
  cases hsem : torchSem (.narrowF dim start len) t none with
  | err => simp [hsem] at h
  | ts l => simp [hsem] at h
  | t data =>
    simp only [hsem] at h
    have hdata : ∀ p ∈ data.prov, p ∈ t.prov := narrowF_prov_subset dim start len t none data hsem
    -- the grids
    generalize (if dim < 0 then dim + (t.ndim : Int) else dim) = D at h
    generalize hgs : (if D = 0 then
        (if 0 ≤ start ∧ 0 ≤ len then some (pySlice gs start.toNat len.toNat)
         else some (pick gs (sliceIdx gs.length (some start) (some (start + len)) 1)))
      else if D > 1 then
        gs.mapM (fun g => if (t.ndim : Int) - D - 1 < 0 ∨ (t.ndim : Int) - D - 1 > (g.shape.length : Int) then none
          else some (g.narrow ((t.ndim : Int) - D - 1).toNat start.toNat len.toNat))
      else some gs) = ogs at h
    cases ogs with
    | none => simp at h
    | some gs' =>
      simp only [] at h
      have hsrc : ∀ g' ∈ gs', ∃ g ∈ gs, g'.src = g.src := by
        split at hgs
        · split at hgs
          · cases hgs
            intro g' hg'
            exact ⟨g', List.mem_of_mem_drop (List.mem_of_mem_take hg'), rfl⟩
          · cases hgs
            intro g' hg'
            exact ⟨g', pick_mem _ _ _ hg', rfl⟩
        · split at hgs
          · exact (narrowTags_spec gs gs' _ (fun g g' hg => narrowTag_src _ start len g g' hg) hgs).2.2
          · cases hgs
            intro g' hg'
            exact ⟨g', hg', rfl⟩
      -- makeInstance
      unfold makeInstance at h
      split at h
      · rename_i hf
        split at h
        · unfold mkImageBatch at h
          split at h
          · simp [ofExcept] at h
          · split at h
            · simp [ofExcept] at h
            · simp only [ofExcept, Val.one.injEq] at h
              exact ⟨false, data, gs', 0, h.symm, hdata, hsrc, by simp⟩
        · unfold mkFlowFields at h
          cases hm : mkImageBatch data gs' with
          | error e => simp [hm, ofExcept] at h
          | ok s0 =>
            simp only [hm] at h
            split at h
            · simp [ofExcept] at h
            · simp only [ofExcept, Val.one.injEq] at h
              exact ⟨true, data, gs', a, h.symm, hdata, hsrc, fun _ => ⟨hf, rfl⟩⟩
      · unfold mkImageBatch at h
        split at h
        · simp [ofExcept] at h
        · split at h
          · simp [ofExcept] at h
          · simp only [ofExcept, Val.one.injEq] at h
            exact ⟨false, data, gs', 0, h.symm, hdata, hsrc, by simp⟩

/-- `batch[i]` when every entry holds data of `X` or nothing and every grid belongs to `X` -/
theorem alignedV_getitem_int_weak (a0 : Nat) (f : Bool) (a : Nat) (t : Raw) (gs : List GridTag) (i : Int) (X : Prov)
    (hf : f = true → a = a0) (hp : ∀ p ∈ t.prov, p = X ∨ p = .none) (hg : ∀ g ∈ gs, itemOf g = X) :
    AlignedV a0 (batchGetitem f a t gs (.single (.int i))) := by
  simp only [batchGetitem, normIndex]
  unfold getitemCore
  cases hraw : rawIndex t [.int i] with
  | none => exact alignedV_err a0 _
  | some data =>
    obtain ⟨n0, rs, ro, hshape, hfst⟩ := rawIndex_cons t (.int i) [] (by simp) data hraw
    simp only [List.head?_cons]
    apply alignedV_ite _ _ _ _ (alignedV_plain a0 data)
    simp only [gridSel]
    cases hpg : pyGet gs i with
    | none => exact alignedV_err a0 _
    | some g =>
      simp only [Option.map_some]
      apply alignedV_ite _ _ _ _ (alignedV_plain a0 data)
      apply alignedV_ite _ _ _ _ (alignedV_plain a0 data)
      apply alignedV_makeSubitem a0 f a data g hf
      have hgm : g ∈ gs := by
        unfold pyGet at hpg
        split at hpg
        · exact List.mem_of_getElem? hpg
        · cases hpg
      simp only [indexFirst] at hfst
      cases hk : normDim n0 i with
      | none => simp [hk] at hfst
      | some k =>
        simp only [hk] at hfst
        cases hfst
        intro p hpp
        unfold repl0 at hpp
        rw [List.mem_replicate] at hpp
        rw [hpp.2, hg g hgm]
        rcases getD_mem_or_none t.prov k with h1 | h1
        · exact hp _ h1
        · exact Or.inr h1

/-- `Image.narrow` / `FlowField.narrow` -/
theorem alignedV_image_narrow (a0 : Nat) (other : Option SVal) (f : Bool) (t : Raw) (g : GridTag) (a : Nat)
    (d s l : Int) (hal : AlignedS a0 (.image f t g a)) :
    AlignedV a0 (stepOne other (.narrowM d s l) (.image f t g a)) := by
  obtain ⟨_, hprov, hax⟩ := hal
  simp only [stepOne]
  cases hib : imageBatch f a t g with
  | error e => exact alignedV_err a0 _
  | ok b =>
    have hb := imageBatch_ok f a t g b hib
    obtain ⟨f', a', rfl, hfa⟩ := hb
    simp only []
    cases hbn : batchNarrow f' a' ⟨1 :: t.shape, [joinAll t.prov]⟩ [g] (d + 1) s l with
    | err e => exact alignedV_err a0 _
    | many ls => exact absurd hbn (batchNarrow_ne_many _ _ _ _ _ _ _ ls)
    | one s2 =>
      obtain ⟨f2, data, gs2, a2, rfl, hdp, hsrc, hfa2⟩ := batchNarrow_result _ _ _ _ _ _ _ _ hbn
      simp only []
      have hJ := joinAll_single_source t.prov g.src hprov
      apply alignedV_getitem_int_weak a0 f2 a2 data gs2 0 (.item g.src)
      · intro h2
        obtain ⟨h3, h4⟩ := hfa2 h2
        obtain ⟨h5, h6⟩ := hfa h3
        rw [h4, h6]
        exact hax h5
      · intro p hp
        have := hdp p hp
        simp only [List.mem_singleton] at this
        rw [this]
        exact hJ
      · intro g2 hg2
        obtain ⟨g0, hg0, hs0⟩ := hsrc g2 hg2
        simp only [List.mem_singleton] at hg0
        subst hg0
        simp [itemOf, hs0]

theorem normDim_eq_normalised {n : Nat} {d : Int} {k : Nat} (h : normDim n d = some k) :
    (if d < 0 then d + (n : Int) else d) = (k : Int) := by
  unfold normDim at h
  split at h
  · split at h
    · cases h
      rw [if_neg (by omega)]
      omega
    · cases h
  · split at h
    · cases h
      rw [if_pos (by omega)]
      omega
    · cases h

/-- `ImageBatch.narrow` / `FlowFields.narrow` with any dim (negative dims are normalised) and non-negative start -/
theorem alignedV_batchNarrow (a0 : Nat) (f : Bool) (a : Nat) (t : Raw) (gs : List GridTag) (dim start len : Int)
    (hs : 0 ≤ start) (hal : AlignedS a0 (.batch f t gs a)) :
    AlignedV a0 (batchNarrow f a t gs dim start len) := by
  obtain ⟨hcount, _, hprov, hax⟩ := hal
  unfold batchNarrow
  cases hsem : torchSem (.narrowF dim start len) t none with
  | err => exact alignedV_err a0 _
  | ts l => exact alignedV_err a0 _
  | t data =>
    simp only []
    rw [torchSem_narrowF] at hsem
    cases hn : normDim t.ndim dim with
    | none => simp [hn] at hsem
    | some d =>
      simp only [hn] at hsem
      rw [normDim_eq_normalised hn]
      have hlt : d < t.shape.length := normDim_lt hn
      have hnot : ¬ start < 0 := by omega
      simp only [hnot, if_false] at hsem
      by_cases hc : False ∨ len < 0 ∨ start + len > ((t.shape.getD d 0 : Nat) : Int)
      · rw [if_pos hc] at hsem; cases hsem
      · rw [if_neg hc] at hsem
        cases hsem
        by_cases h0 : d = 0
        · -- batch dimension: grids sliced like the data
          subst h0
          have hlen : 0 ≤ len := by omega
          simp only [Int.natCast_zero, if_true, hs, hlen, and_self]
          have hn0 : t.shape.getD 0 0 = gs.length := by
            rw [hcount]; cases t.shape <;> rfl
          apply alignedV_makeInstance a0 f a _ _ hax
          · simp only [setAt, List.take_zero, List.nil_append, List.headD_cons, pySlice, List.length_take,
              List.length_drop]
            rw [hn0] at hc
            omega
          · simp only [pySlice, hprov, List.map_take, List.map_drop]
        · have hdz : ¬ ((d : Int) = 0) := by omega
          simp only [hdz, if_false, h0]
          have hhead : (setAt t.shape d len.toNat).headD 0 = t.shape.headD 0 := headD_setAt _ _ _ (by omega) hlt
          by_cases h1 : (d : Int) > 1
          · simp only [h1, if_true]
            cases hm : gs.mapM (fun g => if (t.ndim : Int) - (d : Int) - 1 < 0 ∨ (t.ndim : Int) - (d : Int) - 1 > (g.shape.length : Int)
                then none else some (g.narrow ((t.ndim : Int) - (d : Int) - 1).toNat start.toNat len.toNat)) with
            | none => exact alignedV_err a0 _
            | some gs' =>
              simp only []
              obtain ⟨i1, i2, _⟩ := narrowTags_spec gs gs' _ (fun g g' hg => narrowTag_src _ start len g g' hg) hm
              apply alignedV_makeInstance a0 f a _ _ hax
              · rw [i2, hhead]; exact hcount
              · simp only []; rw [i1]; exact hprov
          · simp only [h1, if_false]
            apply alignedV_makeInstance a0 f a _ _ hax
            · rw [hhead]; exact hcount
            · exact hprov

end Deepali.Dispatch
