/-
  Proofs/DispatchReorder.lean — C19: operations that reorder or re-select batch entries (`flip`, `roll`,
  `index_select`, any dim literal incl. negative ones) carry the grids along, and operations that may move the batch
  dimension (`permute`, `transpose`) or mix entries (`roll` of the flattened tensor) are demoted to plain tensors —
  `ImageBatch._torch_function_grid` as repaired by 05e9301 / c94e057.
-/
import Deepali.Proofs.DispatchAppend

set_option linter.unusedSectionVars false

namespace Deepali.Dispatch

/-! ### results with a condition on ndim -/

theorem alignedV_ibResult_cond (a0 : Nat) (data : Raw) (gs : List GridTag)
    (h : ∀ g ∈ gs, data.ndim = g.shape.length + 2 → data.prov = gs.map itemOf)
    (hnil : gs = [] → data.shape.headD 0 = 0 → data.prov = []) : AlignedV a0 (ibResult data (some gs)) := by
  unfold ibResult
  cases gs with
  | nil =>
    simp only []
    split
    · rename_i hc
      exact alignedV_ofExcept_mkImageBatch a0 data [] (by rw [hc.2]; rfl) (by simpa using hnil rfl hc.2)
    · exact alignedV_plain a0 data
  | cons g0 gs =>
    simp only []
    split
    · rename_i hc
      exact alignedV_ofExcept_mkImageBatch a0 data (g0 :: gs) hc.2.1.symm (h g0 (by simp) hc.1)
    · exact alignedV_plain a0 data

theorem alignedV_ffResult_cond (a0 : Nat) (data : Raw) (gs : List GridTag) (a : Nat)
    (h : ∀ g ∈ gs, data.ndim = g.shape.length + 2 → data.prov = gs.map itemOf)
    (hnil : gs = [] → data.shape.headD 0 = 0 → data.prov = []) (ha : a = a0) :
    AlignedV a0 (ffResult data (some gs) (some a)) := by
  unfold ffResult
  cases gs with
  | nil =>
    simp only []
    split
    · rename_i hc
      exact alignedV_ofExcept_mkFlowFields a0 data [] a (by rw [hc.2]; rfl) (by simpa using hnil rfl hc.2) ha
    · exact alignedV_ibResult_cond a0 data [] h hnil
  | cons g0 gs =>
    simp only []
    split
    · rename_i hc
      exact alignedV_ofExcept_mkFlowFields a0 data (g0 :: gs) a hc.2.1.symm (h g0 (by simp) hc.1) ha
    · exact alignedV_ibResult_cond a0 data (g0 :: gs) h hnil

/-- generic path for an operation with one tensor argument, whatever `_torch_function_grid` returns -/
theorem alignedV_batchTF_single (a0 : Nat) (op : TOp) (f : Bool) (t : Raw) (gs : List GridTag) (a : Nat)
    (other : Option SVal) (data : Raw)
    (hsem : torchSem op t (other.map SVal.raw) = .t data)
    (hargs : callArgs op (.batch f t gs a) other = some [.batch f t gs a])
    (hsplit : isSplitFamily op = false) (hzero : rangeStepZero op = false) (hax : f = true → a = a0)
    (hnn : ∀ l, torchFunctionGrid op [gs] ≠ some (.nested l))
    (hg : ∀ gs', torchFunctionGrid op [gs] = some (.flat gs') →
      (∀ g ∈ gs', data.ndim = g.shape.length + 2 → data.prov = gs'.map itemOf) ∧
      (gs' = [] → data.shape.headD 0 = 0 → data.prov = [])) :
    AlignedV a0 (batchTorchFunction op (.batch f t gs a) other) := by
  unfold batchTorchFunction
  simp only [SVal.raw, hsem, hargs, hzero, hsplit, List.any_cons, List.any_nil, SVal.isFlow, Bool.or_false,
    List.filterMap_cons, List.filterMap_nil, batchGrids?, Bool.false_and, Bool.false_eq_true, if_false]
  cases hgr : torchFunctionGrid op [gs] with
  | none =>
    cases f with
    | false => simp only [Bool.false_eq_true, if_false]; exact alignedV_ibResult_none a0 data
    | true =>
      simp only [if_true, torchFunctionAxes, axes?, List.filterMap_cons, List.filterMap_nil, List.any_nil,
        Bool.false_eq_true, if_false, ffResult]
      exact alignedV_ibResult_none a0 data
  | some gr =>
    cases gr with
    | raises =>
      cases f with
      | false => simp only [Bool.false_eq_true, if_false]; exact alignedV_err a0 _
      | true =>
        simp only [if_true, torchFunctionAxes, axes?, List.filterMap_cons, List.filterMap_nil, List.any_nil,
          Bool.false_eq_true, if_false]
        exact alignedV_err a0 _
    | nested l => exact absurd hgr (hnn l)
    | flat gs' =>
      obtain ⟨h1, h2⟩ := hg gs' hgr
      cases f with
      | false => simp only [Bool.false_eq_true, if_false]; exact alignedV_ibResult_cond a0 data gs' h1 h2
      | true =>
        simp only [if_true, torchFunctionAxes, axes?, List.filterMap_cons, List.filterMap_nil, List.any_nil,
          Bool.false_eq_true, if_false]
        exact alignedV_ffResult_cond a0 data gs' a h1 h2 (hax rfl)

/-! ### which dim is the batch dim: torch's normalisation vs. `dim % ndim == 0` -/

theorem normDim_zero_iff {n : Nat} {d : Int} {k : Nat} (h : normDim n d = some k) : (k = 0 ↔ d % (n : Int) = 0) := by
  unfold normDim at h
  split at h
  · rename_i h0
    split at h
    · rename_i h1
      cases h
      have hlt : d < (n : Int) := by omega
      rw [Int.emod_eq_of_lt h0 hlt]
      omega
    · cases h
  · rename_i h0
    split at h
    · rename_i h1
      cases h
      have h2 : d % (n : Int) = d + (n : Int) := by
        rw [← Int.add_emod_right d (n : Int), Int.emod_eq_of_lt h1 (by omega)]
      rw [h2]
      omega
    · cases h

theorem mapM_normDim_contains0 (n : Nat) (dims : List Int) (ds : List Nat) (h : dims.mapM (normDim n) = some ds) :
    ds.contains 0 = dims.any (fun d => d % (n : Int) == 0) := by
  induction dims generalizing ds with
  | nil => simp at h; subst h; rfl
  | cons d rest ih =>
    rw [List.mapM_cons] at h
    cases h1 : normDim n d with
    | none => simp [h1] at h
    | some k =>
      cases h2 : rest.mapM (normDim n) with
      | none => simp [h1, h2] at h
      | some ks =>
        simp [h1, h2] at h
        subst h
        have hk := normDim_zero_iff h1
        have ih' := ih ks h2
        by_cases hz : k = 0
        · have := hk.mp hz
          have hb : (d % (n : Int) == 0) = true := by simp [this]
          subst hz
          simp [List.any_cons, hb]
        · have hd : ¬ d % (n : Int) = 0 := fun h => hz (hk.mpr h)
          have hz' : ¬ 0 = k := fun h => hz h.symm
          have hb : (d % (n : Int) == 0) = false := by simp [hd]
          have hc : (k :: ks).contains 0 = ks.contains 0 := by
            simp [List.contains_cons, hz']
          rw [hc, ih', List.any_cons, hb, Bool.false_or]

theorem normDims_contains0 (n : Nat) (dims : List Int) (ds : List Nat) (h : normDims n dims = some ds) :
    ds.contains 0 = dims.any (fun d => d % (n : Int) == 0) := by
  unfold normDims at h
  cases hm : dims.mapM (normDim n) with
  | none => simp [hm] at h
  | some l =>
    simp only [hm] at h
    split at h
    · cases h
    · cases h
      exact mapM_normDim_contains0 n dims _ hm

/-- for a typed batch whose tensor has ndim = grid ndim + 2 the dispatcher's `ndim` is the tensor's -/
theorem gridNdim_eq (t : Raw) (gs : List GridTag) (hsh : ∀ g ∈ gs, g.shape = t.shape.drop 2)
    (g : GridTag) (hg : g ∈ gs) (hnd : t.ndim = g.shape.length + 2) : gridNdim gs = (t.ndim : Int) := by
  cases gs with
  | nil => simp at hg
  | cons g0 rest =>
    simp only [gridNdim]
    rw [hnd, hsh g hg, ← hsh g0 (by simp)]

/-! ### rotation -/

theorem rotR_map {α β : Type} (f : α → β) (l : List α) (s : Int) : (rotR l s).map f = rotR (l.map f) s := by
  unfold rotR
  cases l with
  | nil => rfl
  | cons x xs => simp [List.map_drop, List.map_take]

theorem length_rotR {α : Type} (l : List α) (s : Int) : (rotR l s).length = l.length := by
  unfold rotR
  split
  · rfl
  · simp only [List.length_append, List.length_drop, List.length_take]
    omega

def pyRollStep (nd : Int) (g : List GridTag) (sd : Int × Int) : List GridTag :=
  if sd.2 % nd == 0 && !g.isEmpty then rotR g sd.1 else g

def torchRollStep (p : List Prov) (sd : Int × Nat) : List Prov := if sd.2 = 0 then rotR p sd.1 else p

theorem rollFold_map (n : Nat) (shifts dims : List Int) (nds : List Nat) (gs : List GridTag)
    (h : dims.mapM (normDim n) = some nds) :
    (shifts.zip nds).foldl torchRollStep (gs.map itemOf) =
      ((shifts.zip dims).foldl (pyRollStep (n : Int)) gs).map itemOf := by
  induction dims generalizing shifts nds gs with
  | nil => simp at h; subst h; simp
  | cons d rest ih =>
    rw [List.mapM_cons] at h
    cases h1 : normDim n d with
    | none => simp [h1] at h
    | some k =>
      cases h2 : rest.mapM (normDim n) with
      | none => simp [h1, h2] at h
      | some ks =>
        simp [h1, h2] at h
        subst h
        cases shifts with
        | nil => rfl
        | cons s ss =>
          simp only [List.zip_cons_cons, List.foldl_cons]
          have hk := normDim_zero_iff h1
          have hstep : torchRollStep (gs.map itemOf) (s, k) = (pyRollStep (n : Int) gs (s, d)).map itemOf := by
            unfold torchRollStep pyRollStep
            by_cases hz : k = 0
            · have hd := hk.mp hz
              cases gs with
              | nil => simp [hz, rotR]
              | cons x xs => simp [hz, hd, rotR_map]
            · have hd : ¬ d % (n : Int) = 0 := fun h => hz (hk.mpr h)
              simp [hz, hd]
          rw [hstep]
          exact ih ss ks _ h2

theorem mem_pyRollFold (nd : Int) (zs : List (Int × Int)) (gs : List GridTag) (g : GridTag)
    (h : g ∈ zs.foldl (pyRollStep nd) gs) : g ∈ gs := by
  induction zs generalizing gs with
  | nil => exact h
  | cons z zs ih =>
    simp only [List.foldl_cons] at h
    have := ih _ h
    unfold pyRollStep at this
    split at this
    · exact mem_rotR _ _ _ this
    · exact this

theorem length_pyRollFold (nd : Int) (zs : List (Int × Int)) (gs : List GridTag) :
    (zs.foldl (pyRollStep nd) gs).length = gs.length := by
  induction zs generalizing gs with
  | nil => rfl
  | cons z zs ih =>
    simp only [List.foldl_cons]
    rw [ih]
    unfold pyRollStep
    split
    · exact length_rotR _ _
    · rfl

theorem torchRollFold_nil (zs : List (Int × Nat)) : zs.foldl torchRollStep [] = [] := by
  induction zs with
  | nil => rfl
  | cons z zs ih =>
    simp only [List.foldl_cons]
    have : torchRollStep [] z = [] := by unfold torchRollStep; split <;> simp [rotR]
    rw [this, ih]

/-! ### equations of the repaired `_torch_function_grid` -/

theorem gridNdim_ne_zero (gs : List GridTag) (h : gs ≠ []) : ¬ gridNdim gs = 0 := by
  cases gs with
  | nil => exact absurd rfl h
  | cons g rest =>
    simp only [gridNdim]
    omega

/-- empty batch: the flip / roll / index_select branches are skipped -/
theorem grid_flip_nil (dims : List Int) : torchFunctionGrid (.flip dims) [[]] = some (.flat []) := rfl
theorem grid_roll_nil (shifts : List Int) (dims : Option (List Int)) :
    torchFunctionGrid (.roll shifts dims) [[]] = some (.flat []) := rfl
theorem grid_indexSelect_nil (dim : Int) (idx : List Int) :
    torchFunctionGrid (.indexSelect dim idx) [[]] = some (.flat []) := rfl

theorem grid_flip (dims : List Int) (gs : List GridTag) (h : gs ≠ []) :
    torchFunctionGrid (.flip dims) [gs] =
      if dims.any (fun d => d % gridNdim gs == 0) then some (.flat gs.reverse) else some (.flat gs) := by
  show (if gridNdim gs = 0 then _ else _) = _
  rw [if_neg (gridNdim_ne_zero gs h)]

theorem grid_roll_dims (shifts ds : List Int) (gs : List GridTag) (h : gs ≠ []) :
    torchFunctionGrid (.roll shifts (some ds)) [gs] =
      some (.flat ((shifts.zip ds).foldl (pyRollStep (gridNdim gs)) gs)) := by
  show (if gridNdim gs = 0 then _ else _) = _
  rw [if_neg (gridNdim_ne_zero gs h)]
  rfl

theorem grid_roll_flat (shifts : List Int) (gs : List GridTag) (h : gs ≠ []) :
    torchFunctionGrid (.roll shifts none) [gs] = none := by
  show (if gridNdim gs = 0 then _ else _) = _
  rw [if_neg (gridNdim_ne_zero gs h)]

theorem grid_indexSelect (dim : Int) (idx : List Int) (gs : List GridTag) (h : gs ≠ []) :
    torchFunctionGrid (.indexSelect dim idx) [gs] =
      if dim % gridNdim gs == 0 then
        (match idx.mapM (pyGet gs) with
         | some gs' => some (.flat gs')
         | none => some .raises)
      else some (.flat gs) := by
  show (if gridNdim gs = 0 then _ else _) = _
  rw [if_neg (gridNdim_ne_zero gs h)]
  rfl

/-- an operation on an EMPTY batch whose grid list is passed on unchanged -/
theorem alignedV_batchTF_empty (a0 : Nat) (op : TOp) (f : Bool) (t : Raw) (a : Nat) (other : Option SVal)
    (hargs : callArgs op (.batch f t [] a) other = some [.batch f t [] a])
    (hsplit : isSplitFamily op = false) (hzero : rangeStepZero op = false)
    (hgrid : torchFunctionGrid op [[]] = some (.flat []))
    (hnots : ∀ l, torchSem op t (other.map SVal.raw) ≠ .ts l)
    (hdata : ∀ data, torchSem op t (other.map SVal.raw) = .t data → data.shape.headD 0 = 0 → data.prov = [])
    (hax : f = true → a = a0) :
    AlignedV a0 (batchTorchFunction op (.batch f t [] a) other) := by
  cases hsem : torchSem op t (other.map SVal.raw) with
  | err => rw [batchTF_err _ _ _ hsem]; exact alignedV_err a0 _
  | ts l => exact absurd hsem (hnots l)
  | t data =>
    apply alignedV_batchTF_single a0 op f t [] a other data hsem hargs hsplit hzero hax
    · intro l; rw [hgrid]; simp
    · intro gs' hgs'
      rw [hgrid] at hgs'
      simp only [Option.some.injEq, GridRes.flat.injEq] at hgs'
      subst hgs'
      exact ⟨by simp, fun _ h0 => hdata data hsem h0⟩

theorem grid_permute (perm : List Int) (gs : List GridTag) : torchFunctionGrid (.permute perm) [gs] = none := rfl

theorem grid_transpose (d0 d1 : Int) (gs : List GridTag) : torchFunctionGrid (.transpose d0 d1) [gs] = none := rfl

/-! ### the repaired operation classes on batches -/

theorem length_setAt (l : List Nat) (d v : Nat) (h : d < l.length) : (setAt l d v).length = l.length := by
  unfold setAt
  simp only [List.length_append, List.length_take, List.length_cons, List.length_drop]
  omega

/-- `flip` along any dims (positive, negative, several) -/
theorem alignedV_batchTF_flip (a0 : Nat) (dims : List Int) (f : Bool) (t : Raw) (gs : List GridTag) (a : Nat)
    (other : Option SVal) (hal : AlignedS a0 (.batch f t gs a)) :
    AlignedV a0 (batchTorchFunction (.flip dims) (.batch f t gs a) other) := by
  obtain ⟨_, hsh, hprov, hax⟩ := hal
  by_cases hgs0 : gs = []
  · subst hgs0
    simp only [List.map_nil] at hprov
    apply alignedV_batchTF_empty a0 _ f t a other rfl rfl rfl (grid_flip_nil dims) _ _ hax
    · intro l; rw [torchSem_flip]; cases normDims t.ndim dims <;> simp
    · intro data hd _
      rw [torchSem_flip] at hd
      cases hn : normDims t.ndim dims with
      | none => simp [hn] at hd
      | some ds => simp only [hn, RawRes.t.injEq] at hd; subst hd; simp [hprov]
  cases hn : normDims t.ndim dims with
  | none =>
    rw [batchTF_err]; exact alignedV_err a0 _
    simp only [SVal.raw, torchSem_flip, hn]
  | some ds =>
    apply alignedV_batchTF_single a0 (.flip dims) f t gs a other
      ⟨t.shape, if ds.contains 0 then t.prov.reverse else t.prov⟩
      (by simp only [torchSem_flip, hn]) rfl rfl rfl hax
    · intro l; rw [grid_flip dims gs hgs0]; split <;> simp
    · intro gs' hgs'
      rw [grid_flip dims gs hgs0] at hgs'
      constructor
      · intro g hg hnd
        have hg' : g ∈ gs := by
          split at hgs' <;> (simp only [Option.some.injEq, GridRes.flat.injEq] at hgs'; subst hgs')
          · exact List.mem_reverse.mp hg
          · exact hg
        have hnd' : t.ndim = g.shape.length + 2 := hnd
        rw [gridNdim_eq t gs hsh g hg' hnd', ← normDims_contains0 t.ndim dims ds hn] at hgs'
        split at hgs' <;> (rename_i hc; simp only [Option.some.injEq, GridRes.flat.injEq] at hgs'; subst hgs')
        · simp only [hc, if_true, hprov, List.map_reverse]
        · simp only [hc, Bool.false_eq_true, if_false, hprov]
      · intro hnil _
        have hgs : gs = [] := by
          split at hgs' <;> (simp only [Option.some.injEq, GridRes.flat.injEq] at hgs'; subst hgs')
          · exact List.reverse_eq_nil_iff.mp hnil
          · exact hnil
        subst hgs
        simp only [List.map_nil] at hprov
        simp [hprov]

/-- `roll` with dims (any number of (shift, dim) pairs) and `roll` of the flattened tensor (demoted) -/
theorem alignedV_batchTF_roll (a0 : Nat) (shifts : List Int) (dims : Option (List Int)) (f : Bool) (t : Raw)
    (gs : List GridTag) (a : Nat) (other : Option SVal) (hal : AlignedS a0 (.batch f t gs a)) :
    AlignedV a0 (batchTorchFunction (.roll shifts dims) (.batch f t gs a) other) := by
  obtain ⟨_, hsh, hprov, hax⟩ := hal
  by_cases hgs0 : gs = []
  · subst hgs0
    simp only [List.map_nil] at hprov
    apply alignedV_batchTF_empty a0 _ f t a other rfl rfl rfl (grid_roll_nil shifts dims) _ _ hax
    · intro l
      cases dims with
      | none =>
        rw [torchSem_roll_flat]
        split
        · simp only []; split <;> simp
        · simp
      | some ds =>
        rw [torchSem_roll_dims]
        split
        · simp
        · cases ds.mapM (normDim t.ndim) <;> simp
    · intro data hd hhead
      cases dims with
      | none =>
        rw [torchSem_roll_flat] at hd
        split at hd
        · simp only [] at hd
          split at hd
          · cases hd; exact hprov
          · rename_i hc
            cases hd
            exfalso
            apply hc
            simp only [] at hhead
            cases hs : t.shape with
            | nil => left; simp [Raw.ndim, hs]
            | cons x xs =>
              right
              rw [hs] at hhead
              simp only [List.headD_cons] at hhead
              subst hhead
              simp [numel]
        · cases hd
      | some ds =>
        rw [torchSem_roll_dims] at hd
        split at hd
        · cases hd
        · cases hm : ds.mapM (normDim t.ndim) with
          | none => simp [hm] at hd
          | some nds =>
            simp only [hm, RawRes.t.injEq] at hd
            subst hd
            show (shifts.zip nds).foldl torchRollStep t.prov = []
            rw [hprov]
            exact torchRollFold_nil _
  cases hsem : torchSem (.roll shifts dims) t (other.map SVal.raw) with
  | err => rw [batchTF_err _ _ _ hsem]; exact alignedV_err a0 _
  | ts l =>
    cases dims with
    | none =>
      rw [torchSem_roll_flat] at hsem
      split at hsem
      · simp only [] at hsem; split at hsem <;> cases hsem
      · cases hsem
    | some ds =>
      rw [torchSem_roll_dims] at hsem
      split at hsem
      · cases hsem
      · split at hsem <;> cases hsem
  | t data =>
    cases dims with
    | none =>
      apply alignedV_batchTF_single a0 _ f t gs a other data hsem rfl rfl rfl hax
      · intro l; rw [grid_roll_flat shifts gs hgs0]; simp
      · intro gs' hgs'; rw [grid_roll_flat shifts gs hgs0] at hgs'; cases hgs'
    | some ds =>
      have hsem0 := hsem
      rw [torchSem_roll_dims] at hsem
      split at hsem
      · cases hsem
      · cases hm : ds.mapM (normDim t.ndim) with
        | none => simp [hm] at hsem
        | some nds =>
          simp only [hm, RawRes.t.injEq] at hsem
          subst hsem
          apply alignedV_batchTF_single a0 _ f t gs a other _ hsem0 rfl rfl rfl hax
          · intro l; rw [grid_roll_dims shifts ds gs hgs0]; simp
          · intro gs' hgs'
            rw [grid_roll_dims shifts ds gs hgs0] at hgs'
            simp only [Option.some.injEq, GridRes.flat.injEq] at hgs'
            subst hgs'
            constructor
            · intro g hg hnd
              have hg' : g ∈ gs := mem_pyRollFold _ _ _ _ hg
              have hnd' : t.ndim = g.shape.length + 2 := hnd
              rw [gridNdim_eq t gs hsh g hg' hnd']
              show (shifts.zip nds).foldl torchRollStep t.prov = _
              rw [hprov]
              exact rollFold_map t.ndim shifts ds nds gs hm
            · intro hnil _
              have hl := length_pyRollFold (gridNdim gs) (shifts.zip ds) gs
              rw [hnil] at hl
              have hgs : gs = [] := List.length_eq_zero_iff.mp hl.symm
              subst hgs
              simp only [List.map_nil] at hprov
              show (shifts.zip nds).foldl torchRollStep t.prov = []
              rw [hprov]
              exact torchRollFold_nil _

theorem mapM_normDim_of_range (n : Nat) (idx : List Int)
    (h : ¬ (idx.any (fun i => decide (i < 0 ∨ i ≥ (n : Int))) = true)) :
    idx.mapM (normDim n) = some (idx.map Int.toNat) := by
  induction idx with
  | nil => rfl
  | cons i is ih =>
    have hi : ¬ (i < 0 ∨ i ≥ (n : Int)) := by
      intro hc; apply h; simp [hc]
    have his : ¬ (is.any (fun i => decide (i < 0 ∨ i ≥ (n : Int))) = true) := by
      intro hc; apply h; simp only [List.any_cons, hc, Bool.or_true]
    have hn : normDim n i = some i.toNat := by
      unfold normDim
      rw [if_pos (by omega), if_pos (by omega)]
    rw [List.mapM_cons, hn, ih his]
    rfl

theorem pyGet_mem (gs : List GridTag) (i : Int) (g : GridTag) (h : pyGet gs i = some g) : g ∈ gs := by
  unfold pyGet at h
  split at h
  · exact List.mem_of_getElem? h
  · cases h

theorem mapM_pyGet_mem (gs : List GridTag) (idx : List Int) (gs' : List GridTag) (h : idx.mapM (pyGet gs) = some gs') :
    ∀ g ∈ gs', g ∈ gs := by
  induction idx generalizing gs' with
  | nil => simp at h; subst h; simp
  | cons i is ih =>
    rw [List.mapM_cons] at h
    cases h1 : pyGet gs i with
    | none => simp [h1] at h
    | some g1 =>
      cases h2 : is.mapM (pyGet gs) with
      | none => simp [h1, h2] at h
      | some r =>
        simp [h1, h2] at h
        subst h
        intro g hg
        rcases List.mem_cons.mp hg with h3 | h3
        · subst h3; exact pyGet_mem gs i _ h1
        · exact ih r h2 g h3

theorem pick_nil {α : Type} (idx : List Nat) : pick ([] : List α) idx = [] := by
  unfold pick
  induction idx with
  | nil => rfl
  | cons i is ih => simp [ih]

/-- `index_select` along any dim (the batch dimension: grids selected alike) -/
theorem alignedV_batchTF_indexSelect (a0 : Nat) (dim : Int) (idx : List Int) (f : Bool) (t : Raw)
    (gs : List GridTag) (a : Nat) (other : Option SVal) (hal : AlignedS a0 (.batch f t gs a)) :
    AlignedV a0 (batchTorchFunction (.indexSelect dim idx) (.batch f t gs a) other) := by
  obtain ⟨hcount, hsh, hprov, hax⟩ := hal
  by_cases hgs0 : gs = []
  · subst hgs0
    simp only [List.map_nil] at hprov
    apply alignedV_batchTF_empty a0 _ f t a other rfl rfl rfl (grid_indexSelect_nil dim idx) _ _ hax
    · intro l
      rw [torchSem_indexSelect]
      cases normDim t.ndim dim with
      | none => simp
      | some d => simp only []; split <;> simp
    · intro data hd _
      rw [torchSem_indexSelect] at hd
      cases hn : normDim t.ndim dim with
      | none => simp [hn] at hd
      | some d =>
        simp only [hn] at hd
        split at hd
        · cases hd
        · cases hd
          simp only [hprov, pick_nil, ite_self]
  cases hn : normDim t.ndim dim with
  | none =>
    rw [batchTF_err]; exact alignedV_err a0 _
    simp only [SVal.raw, torchSem_indexSelect, hn]
  | some d =>
    have hlt : d < t.shape.length := normDim_lt hn
    by_cases hany : (idx.any (fun i => decide (i < 0 ∨ i ≥ ((t.shape.getD d 0 : Nat) : Int)))) = true
    · rw [batchTF_err]; exact alignedV_err a0 _
      simp only [SVal.raw, torchSem_indexSelect, hn, hany, if_true]
    · apply alignedV_batchTF_single a0 _ f t gs a other
        ⟨setAt t.shape d (idx.map Int.toNat).length, if d = 0 then pick t.prov (idx.map Int.toNat) else t.prov⟩
        (by simp only [torchSem_indexSelect, hn, hany, if_false]; rfl) rfl rfl rfl hax
      · intro l; rw [grid_indexSelect dim idx gs hgs0]; split
        · cases idx.mapM (pyGet gs) <;> simp
        · simp
      · intro gs' hgs'
        rw [grid_indexSelect dim idx gs hgs0] at hgs'
        have hdk := normDim_zero_iff hn
        constructor
        · intro g hg hnd
          split at hgs'
          · rename_i hz
            cases hm : idx.mapM (pyGet gs) with
            | none => simp [hm] at hgs'
            | some gsel =>
              simp only [hm, Option.some.injEq, GridRes.flat.injEq] at hgs'
              subst hgs'
              have hg' : g ∈ gs := mapM_pyGet_mem gs idx _ hm g hg
              have hnd2 : t.ndim = g.shape.length + 2 := by
                rw [← hnd]; exact (length_setAt _ _ _ hlt).symm
              rw [gridNdim_eq t gs hsh g hg' hnd2] at hz
              have hd0 : d = 0 := hdk.mpr (by simpa using hz)
              subst hd0
              have hn0 : t.shape.getD 0 0 = gs.length := by rw [hcount]; cases t.shape <;> rfl
              rw [hn0] at hany
              have hsel := mapM_pyGet gs idx _ _ (mapM_normDim_of_range gs.length idx hany) hm
              subst hsel
              simp only [if_true, hprov, pick_map]
          · rename_i hz
            simp only [Option.some.injEq, GridRes.flat.injEq] at hgs'
            subst hgs'
            have hnd2 : t.ndim = g.shape.length + 2 := by
              rw [← hnd]; exact (length_setAt _ _ _ hlt).symm
            rw [gridNdim_eq t gs hsh g hg hnd2] at hz
            have hd0 : ¬ d = 0 := fun h0 => hz (by simpa using hdk.mp h0)
            simp only [hd0, if_false, hprov]
        · intro _ hhead
          by_cases hd0 : d = 0
          · subst hd0
            have hl : (idx.map Int.toNat).length = 0 := by
              cases hs : t.shape with
              | nil => rw [hs] at hlt; simp at hlt
              | cons x xs => rw [hs] at hhead; simpa [setAt] using hhead
            have : idx.map Int.toNat = [] := List.length_eq_zero_iff.mp hl
            simp only [if_true, this]
            rfl
          · have hh : (setAt t.shape d (idx.map Int.toNat).length).headD 0 = t.shape.headD 0 :=
              headD_setAt _ _ _ (by omega) hlt
            rw [hh, ← hcount] at hhead
            have hgs : gs = [] := List.length_eq_zero_iff.mp hhead
            subst hgs
            simp only [List.map_nil] at hprov
            simp only [hd0, if_false, hprov]

/-- `permute`, `transpose`: the batch dimension may have moved — always a plain tensor -/
theorem alignedV_batchTF_nogrid (a0 : Nat) (op : TOp) (f : Bool) (t : Raw) (gs : List GridTag) (a : Nat)
    (other : Option SVal)
    (hargs : callArgs op (.batch f t gs a) other = some [.batch f t gs a])
    (hsplit : isSplitFamily op = false) (hzero : rangeStepZero op = false)
    (hgrid : torchFunctionGrid op [gs] = none)
    (hnots : ∀ l, torchSem op t (other.map SVal.raw) ≠ .ts l)
    (hal : AlignedS a0 (.batch f t gs a)) :
    AlignedV a0 (batchTorchFunction op (.batch f t gs a) other) := by
  cases hsem : torchSem op t (other.map SVal.raw) with
  | err => rw [batchTF_err _ _ _ hsem]; exact alignedV_err a0 _
  | ts l => exact absurd hsem (hnots l)
  | t data =>
    apply alignedV_batchTF_single a0 op f t gs a other data hsem hargs hsplit hzero hal.2.2.2
    · intro l; rw [hgrid]; simp
    · intro gs' hgs'; rw [hgrid] at hgs'; cases hgs'

/-- without a grid the result of `__torch_function__` is a plain tensor (or the torch call raises) -/
theorem batchTF_nogrid_plain (op : TOp) (f : Bool) (t : Raw) (gs : List GridTag) (a : Nat) (other : Option SVal)
    (hargs : callArgs op (.batch f t gs a) other = some [.batch f t gs a])
    (hsplit : isSplitFamily op = false) (hzero : rangeStepZero op = false)
    (hgrid : torchFunctionGrid op [gs] = none)
    (hnots : ∀ l, torchSem op t (other.map SVal.raw) ≠ .ts l) :
    (∃ d, batchTorchFunction op (.batch f t gs a) other = .one (.plain d)) ∨
      batchTorchFunction op (.batch f t gs a) other = .err .torch := by
  cases hsem : torchSem op t (other.map SVal.raw) with
  | err => right; exact batchTF_err _ _ _ hsem
  | ts l => exact absurd hsem (hnots l)
  | t data =>
    left
    refine ⟨data, ?_⟩
    unfold batchTorchFunction
    simp only [SVal.raw, hsem, hargs, hzero, hsplit, List.any_cons, List.any_nil, SVal.isFlow, Bool.or_false,
      List.filterMap_cons, List.filterMap_nil, batchGrids?, Bool.false_and, Bool.false_eq_true, if_false, hgrid]
    cases f with
    | false => simp [ibResult]
    | true => simp [torchFunctionAxes, axes?, ffResult, ibResult]

theorem torchSem_permute_not_ts (perm : List Int) (t : Raw) (o : Option Raw) (l : List Raw) :
    torchSem (.permute perm) t o ≠ .ts l := by
  rw [torchSem_permute]
  cases normDims t.ndim perm with
  | none => simp
  | some p =>
    simp only []
    split
    · simp
    · split <;> simp

theorem torchSem_transpose_not_ts (d0 d1 : Int) (t : Raw) (o : Option Raw) (l : List Raw) :
    torchSem (.transpose d0 d1) t o ≠ .ts l := by
  rw [torchSem_transpose]
  split
  · simp only []
    split <;> simp
  · simp

end Deepali.Dispatch
